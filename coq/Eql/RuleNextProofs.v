(* C08 proofs, part D: one next_rule at the root of the tree, with a leaf branch.
   t = Next(l, Leaf r) with l Next-free: the first pass enumerates the domain through l (falling through to r where l is
   false), the second pass enumerates it again through r and keeps the true rows; the coverage memory of the Next node
   decides which second-pass rows still select r's conclusion.  Result: run W t = first-pass rows ++ second-pass rows. *)
From Coq Require Import List ZArith Bool Arith Lia Permutation.
From Krrood Require Import Eql.RuleSpec Eql.RuleEval Eql.RuleBuild Eql.RulePure Eql.RuleEvalProofs.
Import ListNotations.

(* ---- coverage memory: membership view ---- *)
Lemma seenb_true id tr c i S :
  seenb id tr c i S = true <-> exists e, In e (seen S) /\ entry_is id tr c i e = true.
Proof. unfold seenb. apply existsb_exists. Qed.
Lemma seenb_ext id tr c i S S' :
  (forall e, entry_is id tr c i e = true -> (In e (seen S) <-> In e (seen S'))) -> seenb id tr c i S = seenb id tr c i S'.
Proof.
  intros H. destruct (seenb id tr c i S) eqn:E1, (seenb id tr c i S') eqn:E2; try reflexivity.
  - apply seenb_true in E1. destruct E1 as [e [He Hm]]. assert (seenb id tr c i S' = true) by (apply seenb_true; exists e; split; [apply H; assumption|assumption]). congruence.
  - apply seenb_true in E2. destruct E2 as [e [He Hm]]. assert (seenb id tr c i S = true) by (apply seenb_true; exists e; split; [apply H; assumption|assumption]). congruence.
Qed.
Lemma entry_is_node id tr c i e : entry_is id tr c i e = true -> e_node e = id /\ e_idx e = i.
Proof.
  destruct e as [[[n t] c'] j]. simpl. intros H.
  apply andb_prop in H. destruct H as [H Hj]. apply andb_prop in H. destruct H as [H _].
  apply andb_prop in H. destruct H as [Hn _]. apply Nat.eqb_eq in Hn, Hj. auto.
Qed.
Lemma uc_seen_incl id i c S : incl (seen S) (seen (update_conclusion id i c S)).
Proof.
  unfold update_conclusion. destruct c; [apply incl_refl|]. destruct (Nat.eqb id (rootsel S)); [|apply incl_refl].
  destruct (seenb _ _ _ _ _); [apply incl_refl|].
  simpl. apply incl_tl, incl_refl.
Qed.

Definition kmono (k : K) : Prop := forall ie f S, incl (seen S) (seen (k ie f S)).

Lemma sel_post_seen_incl s id l r k ie S : kmono k -> incl (seen S) (seen (sel_post s id l r k ie S)).
Proof.
  intros Hk. unfold sel_post. cbn [seen set].
  eapply incl_tran; [|apply Hk].
  destruct s.
  - destruct (getb LEV id S).
    + destruct (getb REV id _); [eapply incl_tran; [apply uc_seen_incl|apply uc_seen_incl]|apply uc_seen_incl].
    + destruct (getb REV id S); [apply uc_seen_incl|apply incl_refl].
  - destruct (negb _); [apply uc_seen_incl|]. destruct (negb _); [apply uc_seen_incl|apply incl_refl].
  - destruct (getb LEV id S).
    + destruct (getb REV id _); [eapply incl_tran; [apply uc_seen_incl|apply uc_seen_incl]|apply uc_seen_incl].
    + destruct (getb REV id S); [apply uc_seen_incl|apply incl_refl].
Qed.
Lemma yield_upd_seen_incl id ie c k S : kmono k -> incl (seen S) (seen (yield_upd id ie c k S)).
Proof.
  intros Hk. unfold yield_upd. cbn [seen set]. eapply incl_tran; [apply uc_seen_incl|apply Hk].
Qed.

Section Mono.
  Variable W : list elem.
  (* the coverage memory never shrinks *)
  Lemma ev_seen_incl t : nextfree t = true -> forall b k S, kmono k -> incl (seen S) (seen (ev W t b k S)).
  Proof.
    induction t as [id cs c | id s l IHl r IHr]; intros Hnf b k S Hk.
    - simpl. destruct b as [ie|]; [exact (Hk ie _ (setb FLAG id _ S))|].
      generalize (enum W) S. intros L. induction L as [|ie L IHL]; intros S0; simpl; [apply incl_refl|].
      eapply incl_tran; [|apply IHL]. apply (Hk ie _ (setb FLAG id _ S0)).
    - destruct s; simpl in Hnf; try discriminate; apply andb_prop in Hnf; destruct Hnf as [Hnl Hnr].
      + cbn [ev]. apply IHl; [exact Hnl|]. intros ie fl S1. destruct fl; [apply (Hk ie true (setb FLAG id true S1))|].
        match goal with |- incl _ (seen (if getb RY id ?S3 then _ else _)) =>
          assert (H3 : incl (seen S1) (seen S3)) end.
        { apply (IHr Hnr (Some ie) _ (setb RY id false (setb FLAG id false S1))).
          intros ie' f' S'. destruct f'; [apply incl_refl|].
          apply (yield_upd_seen_incl id ie' _ k (setb RY id true S') Hk). }
        destruct (getb RY id _); [cbn [seen set]; exact H3|].
        eapply incl_tran; [exact H3|]. eapply incl_tran; [|apply (yield_upd_seen_incl id ie _ k _ Hk)]. cbn [seen set]. apply incl_refl.
      + cbn [ev]. apply IHl; [exact Hnl|]. intros ie fl S1. destruct fl.
        * cbn [seen setb set].
          apply (IHr Hnr (Some ie) _ (setb LEV id false (setb LEV id true S1))).
          intros ie' fr S'. change (seen S') with (seen (setb REV id true (setb FLAG id fr S'))).
          apply sel_post_seen_incl. exact Hk.
        * change (seen S1) with (seen (setb FLAG id false (setb LEV id true S1))). apply sel_post_seen_incl. exact Hk.
  Qed.
End Mono.

(* ---- the pure reading of Next(l, Leaf r) at the root ---- *)
Definition emitq (c : list nat) (i : nat) : list (list nat * nat) :=
  match c with [] => [] | _ => [(c, i)] end.
Definition nonempty (c : list nat) : bool := match c with [] => false | _ => true end.

Lemma union_acc_nonempty b : forall a, a <> [] -> union a b <> [].
Proof.
  induction b as [|x b IH]; intros a Ha; simpl; [exact Ha|].
  destruct (memb x a); apply IH; [exact Ha|]. destruct a; [congruence|discriminate].
Qed.
Lemma union_cons_nonempty x c : union [] (x :: c) <> [].
Proof. simpl. apply union_acc_nonempty. discriminate. Qed.

Lemma nonempty_union c : nonempty c = true -> union [] c <> [].
Proof. destruct c; [discriminate|]. intros _. apply union_cons_nonempty. Qed.
Lemma empty_union a c : nonempty c = false -> union a c = a.
Proof. destruct c; [reflexivity|discriminate]. Qed.
Lemma uc_cases id j c S : rootsel S = id ->
  update_conclusion id j c S =
  if nonempty c && negb (seenb id (negb (getb FLAG id S)) c j S)
  then add_seen (id, negb (getb FLAG id S), c, j) (set DYN id (union (get DYN id S) c) S) else S.
Proof.
  intros Hr. unfold update_conclusion. destruct c; [reflexivity|]. rewrite Hr, Nat.eqb_refl. cbn [nonempty andb].
  destruct (seenb _ _ _ _ _); reflexivity.
Qed.

Section RootNext.
  Variable W : list elem.
  Variables (id idr : nat) (l : tree) (csr : list atom) (cr : list nat).
  Let r := Leaf idr csr cr.
  Let t := Node id SNext l r.
  Hypothesis Hnf : nextfree l = true.
  Hypothesis Hnd : NoDup (ids t).

  (* first pass: l's conclusion where l fires, otherwise r's where r holds *)
  Definition f1 (ie : nat * elem) : list (list nat * nat) :=
    let (fl, cl) := pe l (snd ie) in
    if fl then (if holds (snd ie) csr then emitq (union [] cr) (fst ie) else [])
    else emitq (union [] cl) (fst ie).
  (* is (true branch, r's conclusions) covered for this element after the first pass? *)
  Definition covT (e : elem) : bool :=
    let (fl, cl) := pe l e in
    if fl then holds e csr && nonempty cr else nonempty cl && set_eqb cl cr.
  (* second pass: r's conclusion where r holds and it is not covered yet *)
  Definition f2 (ie : nat * elem) : list (list nat * nat) :=
    if holds (snd ie) csr && negb (covT (snd ie)) then emitq (union [] cr) (fst ie) else [].

  Definition KK1 (k : K) : K :=
    fun ie fl S' =>
      let S' := setb LEV id true S' in
      if fl then setb REV id false
                  (ev W r (Some ie) (fun ie fr S' => sel_post SNext id l r k ie (setb REV id true (setb FLAG id fr S')))
                      (setb LEV id false S'))
      else sel_post SNext id l r k ie (setb FLAG id false S').
  Definition K2 (k : K) : K :=
    fun ie fr S' => let S' := setb REV id true (setb FLAG id fr S') in
                    if fr then S' else sel_post SNext id l r k ie S'.
  Lemma ev_next_eq b k S :
    ev W t b k S = setb REV id false (ev W r b (K2 k) (setb LEV id false (ev W l b (KK1 k) S))).
  Proof. reflexivity. Qed.

  Lemma Hidl : ~ In id (ids l).
  Proof. unfold t in Hnd. simpl in Hnd. apply NoDup_cons_iff in Hnd. destruct Hnd as [H _]. intro. apply H, in_or_app; auto. Qed.
  Lemma Hidr : id <> idr.
  Proof. unfold t in Hnd. simpl in Hnd. apply NoDup_cons_iff in Hnd. destruct Hnd as [H _]. intro E. apply H, in_or_app. right. simpl. auto. Qed.
  Lemma Hidrl : ~ In idr (ids l).
  Proof.
    unfold t in Hnd. simpl in Hnd. apply NoDup_cons_iff in Hnd. destruct Hnd as [_ H].
    intro Hin. apply (nodup_app_disj _ _ H idr Hin). simpl. auto.
  Qed.
  Lemma Hndl : NoDup (ids l).
  Proof. unfold t in Hnd. simpl in Hnd. apply NoDup_cons_iff in Hnd. destruct Hnd as [_ H]. eapply nodup_app_l; eauto. Qed.

  Lemma topk_mono : kmono (topk t).
  Proof.
    intros ie f S. unfold topk. destruct f; [apply incl_refl|]. destruct (concl_now t S); [apply incl_refl|].
    simpl. apply incl_refl.
  Qed.

  Lemma KK1_keeps : keeps (inT l) (KK1 (topk t)).
  Proof.
    intros ie fl S f n Hn. red in Hn.
    assert (Hn1 : id <> n) by (intro E; rewrite <- E in Hn; exact (Hidl Hn)).
    assert (Hn2 : idr <> n) by (intro E; rewrite <- E in Hn; exact (Hidrl Hn)).
    unfold KK1. destruct fl.
    - rewrite get_setb_diff by auto. cbn [ev r].
      rewrite (sel_post_other (inT l) SNext id l (Leaf idr csr cr) (topk t) _ _ f n (topk_keeps t _) Hn Hn1).
      rewrite !get_setb_diff by auto. reflexivity.
    - rewrite (sel_post_other (inT l) SNext id l r (topk t) _ _ f n (topk_keeps t _) Hn Hn1).
      rewrite !get_setb_diff by auto. reflexivity.
  Qed.
  Lemma KK1_mono : kmono (KK1 (topk t)).
  Proof.
    intros ie fl S. unfold KK1. destruct fl.
    - cbn [ev r seen setb set].
      match goal with |- incl _ (seen (sel_post _ _ _ _ _ _ ?X)) => change (seen S) with (seen X) end.
      apply sel_post_seen_incl. apply topk_mono.
    - change (seen S) with (seen (setb FLAG id false (setb LEV id true S))). apply sel_post_seen_incl. apply topk_mono.
  Qed.

  (* ---- what the first-pass continuation does to a store prepared by l ---- *)
  Definition cov_entry (tr : bool) (c : list nat) (j : nat) : list seen_entry :=
    match c with [] => [] | _ => [(id, tr, c, j)] end.

  Lemma uc_explicit tr j c S :
    rootsel S = id -> getb FLAG id S = negb tr -> fresh_at id j S ->
    seen (update_conclusion id j c S) = cov_entry tr c j ++ seen S /\
    get DYN id (update_conclusion id j c S) = (match c with [] => get DYN id S | _ => union (get DYN id S) c end) /\
    out (update_conclusion id j c S) = out S /\
    (forall f n, f <> DYN \/ n <> id -> get f n (update_conclusion id j c S) = get f n S).
  Proof.
    intros Hrs Hf Hfr. unfold update_conclusion, cov_entry. destruct c as [|x c]; [repeat split; reflexivity|].
    rewrite Hrs, Nat.eqb_refl. rewrite Hf, negb_involutive. rewrite (seenb_fresh _ _ _ _ _ Hfr).
    split; [reflexivity|]. split; [rewrite get_add_seen; apply get_set_same|]. split; [reflexivity|].
    intros f n Hn. rewrite get_add_seen. apply get_set_diff. destruct Hn as [Hn|Hn]; [left; congruence|right; congruence].
  Qed.

  Lemma topk_explicit ie S :
    topk t ie false S = match get DYN id S with [] => S | c => emit (c, fst ie) S end.
  Proof. reflexivity. Qed.

  Lemma KK1_fire j e cl S1 :
    rootsel S1 = id -> get DYN id S1 = [] -> getb REV id S1 = false -> fresh_at id j S1 -> concl_now l S1 = cl ->
    let S' := KK1 (topk t) (j, e) false S1 in
    out S' = rev (emitq (union [] cl) j) ++ out S1 /\
    seen S' = cov_entry true cl j ++ seen S1 /\
    get DYN id S' = [] /\ getb REV id S' = false /\
    (forall f n, n <> id -> get f n S' = get f n S1) /\ rootsel S' = rootsel S1.
  Proof.
    intros Hrs Hd Hrev Hfr Hcl. unfold KK1. cbv zeta iota.
    set (Sa := setb FLAG id false (setb LEV id true S1)).
    assert (HaLEV : getb LEV id Sa = true).
    { unfold Sa, getb. rewrite get_setb_diff by (left; fne). unfold setb. rewrite get_set_same. reflexivity. }
    assert (HaFLAG : getb FLAG id Sa = false) by (apply (getb_setb_same FLAG id false)).
    assert (Hacl : concl_now l Sa = cl).
    { rewrite <- Hcl. apply concl_now_same. intros f n Hn. unfold Sa.
      rewrite !get_setb_diff by (right; intro E; apply Hidl; rewrite E; exact Hn). reflexivity. }
    assert (HaDYN : get DYN id Sa = []).
    { unfold Sa. rewrite !get_setb_diff by (left; fne). exact Hd. }
    assert (HaREV : getb REV id Sa = false).
    { unfold Sa, getb. rewrite !get_setb_diff by (left; fne). exact Hrev. }
    assert (Hafr : fresh_at id j Sa) by exact Hfr.
    unfold sel_post. cbn [fst]. rewrite HaLEV. rewrite Hacl.
    destruct (uc_explicit true j cl Sa Hrs HaFLAG Hafr) as [Us [Ud [Uo Uc]]].
    assert (HUrs : rootsel (update_conclusion id j cl Sa) = rootsel S1) by (rewrite uc_rootsel; reflexivity).
    set (U := update_conclusion id j cl Sa) in *.
    assert (HUREV : getb REV id U = false).
    { unfold getb. rewrite Uc by (left; fne). exact HaREV. }
    rewrite HUREV.
    assert (HUFLAG : getb FLAG id U = false).
    { unfold getb. rewrite Uc by (left; fne). exact HaFLAG. }
    rewrite HUFLAG. rewrite topk_explicit. cbn [fst].
    assert (HUD : get DYN id U = union [] cl).
    { rewrite Ud, HaDYN. destruct cl; reflexivity. }
    rewrite HUD.
    assert (Hrest : forall f n, n <> id -> get f n U = get f n S1).
    { intros f n Hn. rewrite Uc by (right; exact Hn). unfold Sa. rewrite !get_setb_diff by (right; congruence). reflexivity. }
    destruct (union [] cl) as [|x c] eqn:Eu; cbn [emitq rev app].
    - repeat split.
      + rewrite out_set, Uo. reflexivity.
      + cbn [seen set]. exact Us.
      + apply get_set_same.
      + unfold getb. rewrite get_set_diff by (left; fne). exact HUREV.
      + intros f n Hn. rewrite get_set_diff by (right; congruence). apply Hrest. exact Hn.
      + exact HUrs.
    - repeat split.
      + rewrite out_set. cbn [out emit]. rewrite Uo. reflexivity.
      + cbn [seen set emit]. exact Us.
      + apply get_set_same.
      + unfold getb. rewrite get_set_diff by (left; fne). rewrite get_emit. exact HUREV.
      + intros f n Hn. rewrite get_set_diff by (right; congruence). rewrite get_emit. apply Hrest. exact Hn.
      + exact HUrs.
  Qed.

  Lemma KK1_fall j e S1 :
    rootsel S1 = id -> get DYN id S1 = [] -> fresh_at id j S1 ->
    let S' := KK1 (topk t) (j, e) true S1 in
    out S' = rev (if holds e csr then emitq (union [] cr) j else []) ++ out S1 /\
    seen S' = cov_entry (holds e csr) cr j ++ seen S1 /\
    get DYN id S' = [] /\ getb REV id S' = false /\
    (forall f n, n <> id -> n <> idr -> get f n S' = get f n S1) /\ rootsel S' = rootsel S1.
  Proof.
    intros Hrs Hd Hfr. unfold KK1. cbv zeta iota. cbn [ev r snd].
    set (fr := negb (holds e csr)).
    set (Sc := setb REV id true (setb FLAG id fr (setb FLAG idr fr (setb LEV id false (setb LEV id true S1))))).
    assert (HcLEV : getb LEV id Sc = false).
    { unfold Sc, getb. rewrite !get_setb_diff by (first [left; fne|right; exact Hidr|right; intro E; apply Hidr; congruence]).
      unfold setb. rewrite get_set_same. reflexivity. }
    assert (HcREV : getb REV id Sc = true) by (apply (getb_setb_same REV id true)).
    assert (HcFLAG : getb FLAG id Sc = negb (holds e csr)).
    { unfold Sc, getb. rewrite get_setb_diff by (left; fne). apply (getb_setb_same FLAG id fr). }
    assert (HcDYN : get DYN id Sc = []).
    { unfold Sc. rewrite !get_setb_diff by (left; fne). exact Hd. }
    assert (Hcfr : fresh_at id j Sc) by exact Hfr.
    unfold sel_post. cbn [fst]. rewrite HcLEV. rewrite HcREV. cbn [concl_now r].
    destruct (uc_explicit (holds e csr) j cr Sc Hrs HcFLAG Hcfr) as [Us [Ud [Uo Uc]]].
    assert (HUrs : rootsel (update_conclusion id j cr Sc) = rootsel S1) by (rewrite uc_rootsel; reflexivity).
    set (U := update_conclusion id j cr Sc) in *.
    assert (HUFLAG : getb FLAG id U = negb (holds e csr)).
    { unfold getb. rewrite Uc by (left; fne). exact HcFLAG. }
    rewrite HUFLAG.
    assert (Hrest : forall f n, n <> id -> n <> idr -> get f n U = get f n S1).
    { intros f n Hn1 Hn2. rewrite Uc by (right; exact Hn1). unfold Sc. rewrite !get_setb_diff by (right; congruence). reflexivity. }
    assert (HUD : get DYN id U = union [] cr).
    { rewrite Ud, HcDYN. destruct cr; reflexivity. }
    destruct (holds e csr) eqn:Hh; cbn [negb].
    - rewrite topk_explicit. cbn [fst]. rewrite HUD.
      destruct (union [] cr) as [|x c] eqn:Eu; cbn [emitq rev app].
      + repeat split.
        * unfold setb. rewrite !out_set, Uo. reflexivity.
        * cbn [seen set setb]. exact Us.
        * rewrite get_setb_diff by (left; fne). apply get_set_same.
        * apply (getb_setb_same REV id false).
        * intros f n Hn1 Hn2. rewrite get_setb_diff by (right; congruence). rewrite get_set_diff by (right; congruence).
          apply Hrest; assumption.
        * exact HUrs.
      + repeat split.
        * unfold setb. rewrite !out_set. cbn [out emit]. rewrite Uo. reflexivity.
        * cbn [seen set setb emit]. exact Us.
        * rewrite get_setb_diff by (left; fne). apply get_set_same.
        * apply (getb_setb_same REV id false).
        * intros f n Hn1 Hn2. rewrite get_setb_diff by (right; congruence). rewrite get_set_diff by (right; congruence).
          rewrite get_emit. apply Hrest; assumption.
        * exact HUrs.
    - unfold topk. cbv iota. repeat split.
      + unfold setb. rewrite !out_set, Uo. reflexivity.
      + cbn [seen set setb]. exact Us.
      + rewrite get_setb_diff by (left; fne). apply get_set_same.
      + apply (getb_setb_same REV id false).
      + intros f n Hn1 Hn2. rewrite get_setb_diff by (right; congruence). rewrite get_set_diff by (right; congruence).
        apply Hrest; assumption.
      + exact HUrs.
  Qed.

  Lemma set_eqb_refl c : set_eqb c c = true.
  Proof.
    unfold set_eqb. assert (H : forallb (fun x => memb x c) c = true).
    { apply forallb_forall. intros x Hx. unfold memb. apply existsb_exists. exists x. split; [exact Hx|apply Nat.eqb_refl]. }
    rewrite H. reflexivity.
  Qed.

  Lemma seenb_split n tr c i X S Sf :
    (forall e0, entry_is n tr c i e0 = true -> (In e0 (seen Sf) <-> In e0 X \/ In e0 (seen S))) ->
    seenb n tr c i Sf = existsb (entry_is n tr c i) X || seenb n tr c i S.
  Proof.
    intros H. destruct (seenb n tr c i Sf) eqn:E.
    - apply seenb_true in E. destruct E as [e0 [Hin Hm]]. symmetry. apply orb_true_iff.
      destruct (proj1 (H e0 Hm) Hin) as [Hx|Hs].
      + left. apply existsb_exists. exists e0. auto.
      + right. apply seenb_true. exists e0. auto.
    - symmetry. apply orb_false_iff. split.
      + destruct (existsb _ X) eqn:E1; [|reflexivity]. apply existsb_exists in E1. destruct E1 as [e0 [Hx Hm]].
        assert (seenb n tr c i Sf = true) by (apply seenb_true; exists e0; split; [apply (H e0 Hm); left; exact Hx|exact Hm]). congruence.
      + destruct (seenb n tr c i S) eqn:E1; [|reflexivity]. apply seenb_true in E1. destruct E1 as [e0 [Hx Hm]].
        assert (seenb n tr c i Sf = true) by (apply seenb_true; exists e0; split; [apply (H e0 Hm); right; exact Hx|exact Hm]). congruence.
  Qed.

  Lemma cov_entry_is tr tr' c c' j i' :
    existsb (entry_is id tr' c' i') (cov_entry tr c j) = nonempty c && Bool.eqb tr tr' && set_eqb c c' && Nat.eqb j i'.
  Proof.
    unfold cov_entry. destruct c as [|x c]; [reflexivity|]. cbn [existsb entry_is nonempty]. rewrite Nat.eqb_refl.
    rewrite orb_false_r. reflexivity.
  Qed.

  Definition Inv1 (j : nat) (S : store) : Prop :=
    (forall e0, In e0 (seen S) -> In (e_node e0) (ids l) \/ e_node e0 = id -> e_idx e0 < j) /\
    dynclear l S /\ get DYN id S = [] /\ getb REV id S = false /\
    (forall i' e', nth_error W i' = Some e' -> i' < j -> seenb id true cr i' S = covT e') /\ rootsel S = id.

  Lemma step1 j e S : Inv1 j S -> nth_error W j = Some e ->
    out (ev W l (Some (j, e)) (KK1 (topk t)) S) = rev (f1 (j, e)) ++ out S /\
    Inv1 (Datatypes.S j) (ev W l (Some (j, e)) (KK1 (topk t)) S).
  Proof.
    intros [Ha [Hdcl [Hdid [Hrev [Hd Hroot]]]]] Hnth.
    assert (Hfr : fresh l j S).
    { intros e0 He0 Hn Hx. specialize (Ha e0 He0 (or_introl Hn)). unfold e_idx in *. lia. }
    destruct (ev_bound W l Hnf Hndl j e (KK1 (topk t)) S Hfr Hdcl KK1_keeps)
      as [S1l [[[[Ho [Hout [Hseen [Hfl Hcl]]]] Hrs1] _] [[Hf1 [Hf2 [Hf3 Hf4]]] Hf5]]].
    assert (Hroot1 : rootsel S1l = id) by (rewrite Hrs1; exact Hroot).
    assert (Hmono : incl (seen S) (seen (ev W l (Some (j, e)) (KK1 (topk t)) S))) by (apply ev_seen_incl; [exact Hnf|apply KK1_mono]).
    assert (Hid1 : forall f, get f id S1l = get f id S) by (intros f; apply Hout; exact Hidl).
    assert (Hfr1 : fresh_at id j S1l).
    { intros e0 He0 Hn Hx. destruct (Hseen e0 He0) as [Hin|[_ Hin]].
      - specialize (Ha e0 Hin (or_intror Hn)). unfold e_idx in *. lia.
      - red in Hin. rewrite Hn in Hin. exact (Hidl Hin). }
    assert (Hd1 : get DYN id S1l = []) by (rewrite Hid1; exact Hdid).
    assert (Hr1 : getb REV id S1l = false) by (unfold getb; rewrite Hid1; exact Hrev).
    (* what the continuation does, in both cases *)
    assert (HK : exists tr c rows,
       out (KK1 (topk t) (j, e) (fst (pe l e)) S1l) = rev rows ++ out S1l /\
       seen (KK1 (topk t) (j, e) (fst (pe l e)) S1l) = cov_entry tr c j ++ seen S1l /\
       get DYN id (KK1 (topk t) (j, e) (fst (pe l e)) S1l) = [] /\
       getb REV id (KK1 (topk t) (j, e) (fst (pe l e)) S1l) = false /\
       rows = f1 (j, e) /\
       (nonempty c && Bool.eqb tr true && set_eqb c cr) = covT e /\
       rootsel (KK1 (topk t) (j, e) (fst (pe l e)) S1l) = id).
    { unfold f1, covT. cbn [fst snd]. destruct (pe l e) as [fl cl] eqn:Epl. cbn [fst snd] in *. destruct fl.
      - destruct (KK1_fall j e S1l Hroot1 Hd1 Hfr1) as [K1 [K2' [K3 [K4 [_ K5]]]]].
        exists (holds e csr), cr, (if holds e csr then emitq (union [] cr) j else []).
        refine (conj K1 (conj K2' (conj K3 (conj K4 (conj eq_refl (conj _ _)))))).
        + rewrite set_eqb_refl. destruct (holds e csr), (nonempty cr); reflexivity.
        + rewrite K5. exact Hroot1.
      - destruct (KK1_fire j e cl S1l Hroot1 Hd1 Hr1 Hfr1 Hcl) as [K1 [K2' [K3 [K4 [_ K5]]]]].
        exists true, cl, (emitq (union [] cl) j).
        refine (conj K1 (conj K2' (conj K3 (conj K4 (conj eq_refl (conj _ _)))))).
        + destruct (nonempty cl), (set_eqb cl cr); reflexivity.
        + rewrite K5. exact Hroot1. }
    destruct HK as [tr [c [rows [K1 [K2' [K3 [K4 [Krows [Kcov Kroot]]]]]]]]].
    set (Sf := ev W l (Some (j, e)) (KK1 (topk t)) S) in *.
    split.
    - rewrite Hf1, K1, Ho, Krows. reflexivity.
    - unfold Inv1. repeat split.
      + intros e0 He0 Hn. rewrite Hf3, K2' in He0. apply in_app_or in He0. destruct He0 as [He0|He0].
        * unfold cov_entry in He0. destruct c; [destruct He0|]. destruct He0 as [<-|[]]. unfold e_idx. simpl. lia.
        * destruct (Hseen e0 He0) as [Hin|[Hi _]]; [specialize (Ha e0 Hin Hn); lia|unfold e_idx in *; lia].
      + exact Hf4.
      + rewrite Hf2 by exact Hidl. exact K3.
      + unfold getb. rewrite Hf2 by exact Hidl. exact K4.
      + intros i' e' Hn' Hlt.
        rewrite (seenb_split id true cr i' (cov_entry tr c j) S Sf).
        * rewrite cov_entry_is.
          destruct (Nat.eq_dec i' j) as [->|Hne].
          -- assert (e' = e) by congruence. subst e'. rewrite Nat.eqb_refl, andb_true_r.
             assert (Hs0 : seenb id true cr j S = false).
             { destruct (seenb id true cr j S) eqn:E; [|reflexivity]. apply seenb_true in E. destruct E as [e0 [Hin Hm]].
               apply entry_is_node in Hm. destruct Hm as [Hm1 Hm2]. specialize (Ha e0 Hin (or_intror Hm1)). lia. }
             rewrite Hs0, orb_false_r. exact Kcov.
          -- assert (Hj : Nat.eqb j i' = false) by (apply Nat.eqb_neq; congruence).
             rewrite Hj, andb_false_r. cbn [orb]. apply Hd; [exact Hn'|lia].
        * intros e0 Hm. apply entry_is_node in Hm. destruct Hm as [Hm1 Hm2]. split.
          -- intros Hin. rewrite Hf3, K2' in Hin. apply in_app_or in Hin. destruct Hin as [Hin|Hin]; [left; exact Hin|].
             destruct (Hseen e0 Hin) as [Hs|[_ Hs]]; [right; exact Hs|]. red in Hs. rewrite Hm1 in Hs. destruct (Hidl Hs).
          -- intros [Hin|Hin]; [rewrite Hf3, K2'; apply in_or_app; left; exact Hin|apply Hmono; exact Hin].
      + rewrite Hf5. exact Kroot.
  Qed.

  Lemma pass1 L : forall j S, Inv1 j S ->
    (forall k e, nth_error L k = Some e -> nth_error W (j + k) = Some e) ->
    out (fold_left (fun S ie => ev W l (Some ie) (KK1 (topk t)) S) (enum_from j L) S)
      = rev (flat_map f1 (enum_from j L)) ++ out S /\
    Inv1 (j + length L) (fold_left (fun S ie => ev W l (Some ie) (KK1 (topk t)) S) (enum_from j L) S).
  Proof.
    induction L as [|e L IH]; intros j S HI HL.
    - simpl. rewrite Nat.add_0_r. auto.
    - cbn [enum_from fold_left flat_map length].
      assert (Hnth : nth_error W j = Some e) by (rewrite <- (Nat.add_0_r j); apply HL; reflexivity).
      destruct (step1 j e S HI Hnth) as [Ho HI'].
      destruct (IH (Datatypes.S j) _ HI') as [Ho2 HI2].
      { intros k e' Hk. replace (Datatypes.S j + k) with (j + Datatypes.S k) by lia. apply HL. exact Hk. }
      unfold binding in *. split.
      + rewrite Ho2, Ho. rewrite rev_app_distr, app_assoc. reflexivity.
      + replace (j + Datatypes.S (length L)) with (Datatypes.S j + length L) by lia. exact HI2.
  Qed.

  (* ---- second pass ---- *)
  Definition Inv2 (j : nat) (S : store) : Prop :=
    get DYN id S = [] /\ getb LEV id S = false /\
    (forall i' e', nth_error W i' = Some e' -> j <= i' -> seenb id true cr i' S = covT e') /\ rootsel S = id.

  Lemma step2 j e S : Inv2 j S -> nth_error W j = Some e ->
    let Sf := K2 (topk t) (j, e) (negb (holds e csr)) (setb FLAG idr (negb (holds e csr)) S) in
    out Sf = rev (f2 (j, e)) ++ out S /\ Inv2 (Datatypes.S j) Sf.
  Proof.
    intros [Hd [Hlev [Hc Hroot]]] Hnth. unfold K2, f2. cbv zeta. cbn [fst snd].
    set (fr := negb (holds e csr)).
    set (Sc := setb REV id true (setb FLAG id fr (setb FLAG idr fr S))).
    assert (HcLEV : getb LEV id Sc = false).
    { unfold Sc, getb. rewrite !get_setb_diff by (first [left; fne|right; intro E; apply Hidr; congruence]). exact Hlev. }
    assert (HcDYN : get DYN id Sc = []).
    { unfold Sc. rewrite !get_setb_diff by (left; fne). exact Hd. }
    assert (Hcs : forall i', seenb id true cr i' Sc = seenb id true cr i' S) by reflexivity.
    subst fr. destruct (holds e csr) eqn:Hh; cbn [negb andb] in *.
    - (* r holds: a true row *)
      unfold sel_post. cbn [fst]. rewrite HcLEV.
      assert (HcREV : getb REV id Sc = true) by (apply (getb_setb_same REV id true)).
      rewrite HcREV. cbn [concl_now r].
      assert (HcFLAG : getb FLAG id Sc = false).
      { unfold Sc, getb. rewrite get_setb_diff by (left; fne). apply (getb_setb_same FLAG id false). }
      assert (Hcov : seenb id true cr j Sc = covT e) by (rewrite Hcs; apply Hc; [exact Hnth|lia]).
      rewrite uc_cases by exact Hroot. rewrite HcFLAG. cbn [negb]. rewrite Hcov.
      destruct (nonempty cr && negb (covT e)) eqn:Esel.
      + (* selected and emitted *)
        apply andb_prop in Esel. destruct Esel as [Ene Ecov]. rewrite Ecov.
        set (U := add_seen (id, true, cr, j) (set DYN id (union (get DYN id Sc) cr) Sc)).
        assert (HUF : getb FLAG id U = false).
        { unfold U, getb. rewrite get_add_seen. rewrite get_set_diff by (left; fne). exact HcFLAG. }
        rewrite HUF. rewrite topk_explicit. cbn [fst].
        assert (HUD : get DYN id U = union [] cr).
        { unfold U. rewrite get_add_seen, get_set_same, HcDYN. reflexivity. }
        rewrite HUD. pose proof (nonempty_union cr Ene) as Hne.
        destruct (union [] cr) as [|y ys] eqn:Eu; [congruence|].
        cbn [emitq rev app]. split; [reflexivity|]. refine (conj _ (conj _ (conj _ Hroot))).
        * apply get_set_same.
        * exact HcLEV.
        * intros i' e' Hn Hle.
          assert (Hs : seenb id true cr i' (set DYN id [] (emit (y :: ys, j) U)) =
                       entry_is id true cr i' (id, true, cr, j) || seenb id true cr i' S) by reflexivity.
          rewrite Hs. cbn [entry_is]. assert (Hj : Nat.eqb j i' = false) by (apply Nat.eqb_neq; lia).
          rewrite Hj, andb_false_r. cbn [orb]. apply Hc; [exact Hn|lia].
      + (* nothing selected: r has no conclusion, or it is covered *)
        rewrite HcFLAG. rewrite topk_explicit. rewrite HcDYN.
        assert (Hrows : (if negb (covT e) then emitq (union [] cr) j else []) = []).
        { destruct (covT e); [reflexivity|]. cbn [negb] in *. rewrite andb_true_r in Esel.
          rewrite (empty_union [] cr Esel). reflexivity. }
        rewrite Hrows. split; [reflexivity|]. refine (conj _ (conj _ (conj _ Hroot))).
        * apply get_set_same.
        * unfold getb. rewrite get_set_diff by (left; fne). exact HcLEV.
        * intros i' e' Hn Hle. apply Hc; [exact Hn|lia].
    - (* r does not hold: the false row is dropped *)
      split; [reflexivity|]. refine (conj _ (conj _ (conj _ Hroot))).
      + exact HcDYN.
      + exact HcLEV.
      + intros i' e' Hn Hle. rewrite Hcs. apply Hc; [exact Hn|lia].
  Qed.

  Definition one2 (S : store) (ie : binding) : store :=
    K2 (topk t) ie (negb (holds (snd ie) csr)) (setb FLAG idr (negb (holds (snd ie) csr)) S).

  Lemma pass2 L : forall j S, Inv2 j S ->
    (forall k e, nth_error L k = Some e -> nth_error W (j + k) = Some e) ->
    out (fold_left one2 (enum_from j L) S) = rev (flat_map f2 (enum_from j L)) ++ out S.
  Proof.
    induction L as [|e L IH]; intros j S HI HL; [reflexivity|].
    cbn [enum_from fold_left flat_map].
    assert (Hnth : nth_error W j = Some e) by (rewrite <- (Nat.add_0_r j); apply HL; reflexivity).
    destruct (step2 j e S HI Hnth) as [Ho HI'].
    unfold one2 at 2. cbn [snd]. rewrite (IH (Datatypes.S j) _ HI').
    - rewrite Ho. rewrite rev_app_distr, app_assoc. reflexivity.
    - intros k e' Hk. replace (Datatypes.S j + k) with (j + Datatypes.S k) by lia. apply HL. exact Hk.
  Qed.

  Theorem run_root_next : run W t = flat_map f1 (enum W) ++ flat_map f2 (enum W).
  Proof.
    unfold run.
    change (fun (ie : binding) (f : bool) (S : store) =>
              if f then S else match concl_now t S with [] => S | c => emit (c, fst ie) S end) with (topk t).
    rewrite ev_next_eq. unfold setb at 1. rewrite out_set.
    rewrite (ev_unbound W l Hnf).
    assert (HI0 : Inv1 0 (init_root id)).
    { unfold Inv1. refine (conj _ (conj _ (conj _ (conj _ (conj _ _))))).
      - intros e0 [].
      - intros n Hn. reflexivity.
      - reflexivity.
      - reflexivity.
      - intros i' e' Hn Hlt. lia.
      - reflexivity. }
    destruct (pass1 W 0 (init_root id) HI0) as [Ho1 HI1]; [intros k e Hk; exact Hk|].
    unfold enum. unfold binding in *.
    change (root_id t) with id.
    remember (fold_left (fun (S : store) (ie : nat * elem) => ev W l (Some ie) (KK1 (topk t)) S) (enum_from 0 W) (init_root id)) as S1 eqn:ES1 in *.
    destruct HI1 as [_ [_ [Hd1 [_ [Hc1 Hroot1]]]]].
    assert (HI2 : Inv2 0 (setb LEV id false S1)).
    { unfold Inv2. refine (conj _ (conj _ (conj _ Hroot1))).
      - rewrite get_setb_diff by (left; fne). exact Hd1.
      - apply (getb_setb_same LEV id false).
      - intros i' e' Hn _. change (seenb id true cr i' (setb LEV id false S1)) with (seenb id true cr i' S1).
        apply Hc1; [exact Hn|]. apply nth_error_Some. congruence. }
    change (rev (out (fold_left one2 (enum_from 0 W) (setb LEV id false S1))) = flat_map f1 (enum_from 0 W) ++ flat_map f2 (enum_from 0 W)).
    rewrite (pass2 W 0 _ HI2); [|intros k e Hk; exact Hk].
    unfold setb at 1. rewrite out_set. rewrite Ho1. cbn [out init_root]. rewrite app_nil_r.
    rewrite rev_app_distr, !rev_involutive. reflexivity.
  Qed.
End RootNext.
