(* C02 (predicate bridge) -- the evaluator with predicate atoms against the first-order Spec, as sets (C01 style):
   the results of [peval] are a cylinder cover of the assignment space that tells the truth.  Proof structure of
   Eql/EvalProofs.v / Eql/RunProofs.v; the comparison atom reuses their lemmas, the predicate atom is new; and the
   embedding [pinj] commutes with evaluation and satisfaction, so that those theorems are the predicate-free case. *)
From Coq Require Import List ZArith Bool Arith Lia.
From Krrood Require Import Eql.Syntax Eql.Sat Eql.Eval Eql.EvalProofs Eql.RunProofs Eql.PredCond.
Import ListNotations.

Section Proofs.
  Variable W : world.
  Variable D : domains.
  Variable P : nat -> list val -> bool.

  (* ---------- the arguments of a call ---------- *)
  Lemma ev_args_sound es : forall b b' vs,
    In (b', vs) (ev_args W D es b) ->
    forall rho, extends rho b' -> extends rho b /\ map (den W rho) es = vs.
  Proof.
    induction es as [|e es IH]; simpl; intros b b' vs Hin rho He.
    - destruct Hin as [[= <- <-]|[]]. auto.
    - apply in_flat_map in Hin as ([b1 v1] & H1 & H2). apply in_map_iff in H2 as ([b2 vs2] & [= <- <-] & H2). simpl in *.
      destruct (IH _ _ _ H2 rho He) as [He1 Hvs].
      destruct (ev_opnd_sound W D _ _ _ _ H1 rho He1) as [He0 Hv]. split; auto. now rewrite Hv, Hvs.
  Qed.

  Lemma ev_args_bok es : forall b b' vs, In (b', vs) (ev_args W D es b) -> b_ok D b -> b_ok D b'.
  Proof.
    induction es as [|e es IH]; simpl; intros b b' vs Hin Hb.
    - destruct Hin as [[= <- <-]|[]]. auto.
    - apply in_flat_map in Hin as ([b1 v1] & H1 & H2). apply in_map_iff in H2 as ([b2 vs2] & [= <- <-] & H2). simpl in *.
      eapply IH; eauto. eapply ev_opnd_bok; eauto.
  Qed.

  Lemma ev_args_complete es : forall b rho,
    extends rho b -> (forall x, In x (args_vars es) -> In (rho x) (D x)) ->
    exists b', In (b', map (den W rho) es) (ev_args W D es b) /\ extends rho b'.
  Proof.
    induction es as [|e es IH]; simpl; intros b rho He Hd.
    - exists b. auto.
    - destruct (ev_opnd_complete W D e b rho He) as (b1 & H1 & He1); [intros; apply Hd, in_or_app; auto|].
      destruct (IH b1 rho He1) as (b2 & H2 & He2); [intros; apply Hd, in_or_app; auto|].
      exists b2. split; auto. apply in_flat_map. exists (b1, den W rho e). split; auto.
      apply in_map_iff. exists (b2, map (den W rho) es). auto.
  Qed.

  Lemma ev_pred_inv p es b b' f :
    In (b', f) (ev_pred W D P p es b) -> exists vs, In (b', vs) (ev_args W D es b) /\ f = negb (P p vs).
  Proof. unfold ev_pred. intros H. apply in_map_iff in H as ([b1 vs] & [= <- <-] & H). eauto. Qed.

  (* ---------- conditions ---------- *)
  Lemma peval_mono c : forall b b' f, In (b', f) (peval W D P c b) -> forall rho, extends rho b' -> extends rho b.
  Proof.
    induction c as [op l r|p es|l IHl r IHr|l IHl r IHr|l IHl r IHr|c IH]; simpl; intros b b' f Hin rho He.
    - eapply ev_cmp_sound; eauto.
    - apply ev_pred_inv in Hin as (vs & H & _). eapply ev_args_sound; eauto.
    - apply in_flat_map in Hin as ([b1 f1] & H1 & H2). simpl in H2. destruct f1.
      + destruct H2 as [[= <- <-]|[]]. eauto.
      + eauto.
    - apply in_flat_map in Hin as ([b1 f1] & H1 & H2). simpl in H2. destruct f1.
      + eauto.
      + destruct H2 as [[= <- <-]|[]]. eauto.
    - apply in_app_or in Hin as [Hin|Hin]; [|apply filter_In in Hin as [Hin _]; eauto].
      apply in_flat_map in Hin as ([b1 f1] & H1 & H2). simpl in H2. destruct f1.
      + eauto.
      + destruct H2 as [[= <- <-]|[]]. eauto.
    - apply in_map_iff in Hin as ([b1 f1] & [= <- <-] & H1). eauto.
  Qed.

  Lemma peval_bok c : forall b b' f, In (b', f) (peval W D P c b) -> b_ok D b -> b_ok D b'.
  Proof.
    induction c as [op l r|p es|l IHl r IHr|l IHl r IHr|l IHl r IHr|c IH]; simpl; intros b b' f Hin Hb.
    - eapply ev_cmp_bok; eauto.
    - apply ev_pred_inv in Hin as (vs & H & _). eapply ev_args_bok; eauto.
    - apply in_flat_map in Hin as ([b1 f1] & H1 & H2). simpl in H2. destruct f1.
      + destruct H2 as [[= <- <-]|[]]. eauto.
      + eauto.
    - apply in_flat_map in Hin as ([b1 f1] & H1 & H2). simpl in H2. destruct f1.
      + eauto.
      + destruct H2 as [[= <- <-]|[]]. eauto.
    - apply in_app_or in Hin as [Hin|Hin]; [|apply filter_In in Hin as [Hin _]; eauto].
      apply in_flat_map in Hin as ([b1 f1] & H1 & H2). simpl in H2. destruct f1.
      + eauto.
      + destruct H2 as [[= <- <-]|[]]. eauto.
    - apply in_map_iff in Hin as ([b1 f1] & [= <- <-] & H1). eauto.
  Qed.

  (* a result whose truth is [pol] tells the truth about every assignment it covers -- for every condition *)
  Lemma peval_sound c : forall pol b b',
    In (b', negb pol) (peval W D P c b) -> forall rho, extends rho b' -> psat W P rho c = pol.
  Proof.
    induction c as [op l r|p es|l IHl r IHr|l IHl r IHr|l IHl r IHr|c IH]; simpl; intros pol b b' Hin rho He.
    - destruct (ev_cmp_sound W D _ _ _ _ _ _ Hin rho He) as [_ Hf].
      destruct (apply_op W op (den W rho l) (den W rho r)), pol; simpl in Hf; congruence.
    - apply ev_pred_inv in Hin as (vs & H & Hf). destruct (ev_args_sound _ _ _ _ H rho He) as [_ ->].
      destruct (P p vs), pol; simpl in Hf; congruence.
    - apply in_flat_map in Hin as ([b1 f1] & H1 & H2). simpl in H2. destruct f1.
      + destruct H2 as [[= <- Hp]|[]]. destruct pol; [discriminate|].
        rewrite (IHl false _ _ H1 rho He). reflexivity.
      + destruct pol.
        * rewrite (IHr true _ _ H2 rho He).
          rewrite (IHl true _ _ H1 rho (peval_mono r _ _ _ H2 rho He)). reflexivity.
        * rewrite (IHr false _ _ H2 rho He). apply andb_false_r.
    - apply in_flat_map in Hin as ([b1 f1] & H1 & H2). simpl in H2. destruct f1.
      + destruct pol.
        * rewrite (IHr true _ _ H2 rho He). apply orb_true_r.
        * rewrite (IHr false _ _ H2 rho He).
          rewrite (IHl false _ _ H1 rho (peval_mono r _ _ _ H2 rho He)). reflexivity.
      + destruct H2 as [[= <- Hp]|[]]. destruct pol; [|discriminate].
        rewrite (IHl true _ _ H1 rho He). reflexivity.
    - apply in_app_or in Hin as [Hin|Hin].
      + apply in_flat_map in Hin as ([b1 f1] & H1 & H2). simpl in H2. destruct f1.
        * destruct pol.
          -- rewrite (IHr true _ _ H2 rho He). apply orb_true_r.
          -- rewrite (IHr false _ _ H2 rho He).
             rewrite (IHl false _ _ H1 rho (peval_mono r _ _ _ H2 rho He)). reflexivity.
        * destruct H2 as [[= <- Hp]|[]]. destruct pol; [|discriminate].
          rewrite (IHl true _ _ H1 rho He). reflexivity.
      + apply filter_In in Hin as [Hin Hf]. simpl in Hf. destruct pol; [|discriminate].
        rewrite (IHr true _ _ Hin rho He). apply orb_true_r.
    - apply in_map_iff in Hin as ([b1 f1] & [= <- Hf] & H1).
      assert (f1 = negb (negb pol)) by (destruct f1, pol; simpl in *; congruence). subst f1.
      rewrite (IH (negb pol) _ _ H1 rho He). apply negb_involutive.
  Qed.

  (* every assignment is covered by a result that tells the truth about it *)
  Lemma peval_complete c : forall b rho,
    extends rho b -> (forall x, In x (pcond_vars c) -> In (rho x) (D x)) ->
    exists b', In (b', negb (psat W P rho c)) (peval W D P c b) /\ extends rho b'.
  Proof.
    induction c as [op l r|p es|l IHl r IHr|l IHl r IHr|l IHl r IHr|c IH]; simpl; intros b rho He Hd.
    - apply ev_cmp_complete; auto.
    - destruct (ev_args_complete es b rho He Hd) as (b' & H & He').
      exists b'. split; auto. unfold ev_pred. apply in_map_iff. exists (b', map (den W rho) es). auto.
    - destruct (IHl b rho He) as (b1 & H1 & He1); [intros; apply Hd, in_or_app; auto|].
      destruct (psat W P rho l) eqn:Sl; simpl in *.
      + destruct (IHr b1 rho He1) as (b2 & H2 & He2); [intros; apply Hd, in_or_app; auto|].
        exists b2. split; auto. apply in_flat_map. exists (b1, false). auto.
      + exists b1. split; auto. apply in_flat_map. exists (b1, true). split; simpl; auto.
    - destruct (IHl b rho He) as (b1 & H1 & He1); [intros; apply Hd, in_or_app; auto|].
      destruct (psat W P rho l) eqn:Sl; simpl in *.
      + exists b1. split; auto. apply in_flat_map. exists (b1, false). split; simpl; auto.
      + destruct (IHr b1 rho He1) as (b2 & H2 & He2); [intros; apply Hd, in_or_app; auto|].
        exists b2. split; auto. apply in_flat_map. exists (b1, true). auto.
    - destruct (IHl b rho He) as (b1 & H1 & He1); [intros; apply Hd, in_or_app; auto|].
      destruct (psat W P rho l) eqn:Sl; simpl in *.
      + exists b1. split; auto. apply in_or_app. left. apply in_flat_map. exists (b1, false). split; simpl; auto.
      + destruct (IHr b1 rho He1) as (b2 & H2 & He2); [intros; apply Hd, in_or_app; auto|].
        exists b2. split; auto. apply in_or_app. left. apply in_flat_map. exists (b1, true). auto.
    - destruct (IH b rho He Hd) as (b1 & H1 & He1).
      exists b1. split; auto. apply in_map_iff. exists (b1, negb (psat W P rho c)). auto.
  Qed.

  (* ---------- whole queries: the rows are exactly the answers of the Spec ---------- *)
  Theorem prun_complete q row : panswer W D P q row -> In row (prun W D P q).
  Proof.
    intros (rho & Hd & Hs & ->). unfold prun, ptrue_results. apply in_flat_map.
    destruct (peval_complete (pq_cond q) [] rho (extends_nil rho)) as (b' & H1 & He).
    - intros x Hx. apply Hd. unfold pquery_vars. apply in_or_app. auto.
    - rewrite Hs in H1. simpl in H1. exists b'. split.
      + apply in_map_iff. exists (b', false). split; auto. apply filter_In. auto.
      + apply select_complete; auto. intros x Hx. apply Hd. unfold pquery_vars. apply in_or_app. auto.
  Qed.

  Theorem prun_sound q row :
    (forall x, In x (pquery_vars q) -> D x <> []) ->
    In row (prun W D P q) -> panswer W D P q row.
  Proof.
    intros Hne Hin. unfold prun, ptrue_results in Hin. apply in_flat_map in Hin as (b1 & Hb1 & Hrow).
    apply in_map_iff in Hb1 as ([b f] & <- & Hf). apply filter_In in Hf as [Hf Ht]. simpl in *.
    destruct f; [discriminate|].
    assert (Hb : b_ok D b) by (eapply peval_bok; eauto; apply b_ok_nil).
    assert (He0 : extends (fill D b) b). { intros x v Hl. unfold fill. now rewrite Hl. }
    destruct (select_sound W D _ _ _ _ Hrow Hb He0) as (rho & He & Hag & Hdm & ->).
    exists rho. split; [|split; auto].
    - intros x Hx. destruct (in_dec Nat.eq_dec x (flat_map opnd_vars (pq_sels q))) as [Hi|Hi]; auto.
      rewrite Hag by exact Hi. unfold fill. destruct (lookup b x) eqn:El.
      + eapply Hb; eauto.
      + specialize (Hne x Hx). destruct (D x); [contradiction|]. simpl. auto.
    - eapply (peval_sound (pq_cond q) true); eauto.
  Qed.

  Theorem prun_exact q :
    (forall x, In x (pquery_vars q) -> D x <> []) ->
    forall row, In row (prun W D P q) <-> panswer W D P q row.
  Proof. intros Hne row. split; [apply prun_sound; auto | apply prun_complete]. Qed.

  (* ---------- the embedding commutes: Eql/Eval.v and Eql/Sat.v are the predicate-free case ---------- *)
  Lemma pinj_vars c : qfree c = true -> pcond_vars (pinj c) = cond_vars c.
  Proof.
    induction c as [op l r|l IHl r IHr|l IHl r IHr|l IHl r IHr|c IH|e c IH|y c IH]; simpl; intros Q; auto;
      try discriminate; try (apply andb_prop in Q as [Ql Qr]; now rewrite IHl, IHr).
  Qed.

  Lemma pinj_eval c : qfree c = true -> forall b, peval W D P (pinj c) b = eval W D c b.
  Proof.
    induction c as [op l r|l IHl r IHr|l IHl r IHr|l IHl r IHr|c IH|e c IH|y c IH]; simpl; intros Q b; auto;
      try discriminate; try (apply andb_prop in Q as [Ql Qr]).
    - rewrite IHl by auto. apply flat_map_ext. intros [b1 f1]. simpl. destruct f1; auto.
    - rewrite IHl by auto. apply flat_map_ext. intros [b1 f1]. simpl. destruct f1; auto.
    - rewrite IHl, IHr by auto. f_equal. apply flat_map_ext. intros [b1 f1]. simpl. destruct f1; auto.
    - now rewrite IH.
  Qed.

  Lemma pinj_sat c : qfree c = true -> forall rho, psat W P rho (pinj c) = sat W D rho c.
  Proof.
    induction c as [op l r|l IHl r IHr|l IHl r IHr|l IHl r IHr|c IH|e c IH|y c IH]; simpl; intros Q rho; auto;
      try discriminate; try (apply andb_prop in Q as [Ql Qr]; now rewrite IHl, IHr). now rewrite IH.
  Qed.

  Lemma pinj_mk_or l r : qfree l = true -> qfree r = true -> pinj (mk_or l r) = mk_por (pinj l) (pinj r).
  Proof. intros Ql Qr. unfold mk_or, mk_por. rewrite !pinj_vars by auto. destruct (same_vars _ _); reflexivity. Qed.

  Lemma pinj_run sels c : qfree c = true ->
    prun W D P {| pq_sels := sels; pq_cond := pinj c |} = run W D {| q_sels := sels; q_cond := Some c |}.
  Proof. intros Q. unfold prun, run, ptrue_results. simpl. now rewrite pinj_eval. Qed.
End Proofs.
