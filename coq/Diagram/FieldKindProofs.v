(* Diagram/FieldKindProofs.v -- the translated predicates (Gen/FieldKind.v) meet the classification Spec
   on every annotation of the supported grammar, and never raise there. *)
From Coq Require Import List Bool PArith.
From Krrood Require Import Diagram.Ty Diagram.FieldKindSpec Gen.FieldKind.
Import ListNotations.

(* the nine observations of the property, computed by the translated code *)
Definition kinds_of (f : wfield) : res kinds :=
  bind (is_builtin_type f) (fun b =>
  bind (is_optional f) (fun o =>
  bind (is_enum f) (fun e =>
  bind (is_container f) (fun c =>
  bind (is_one_to_one_relationship f) (fun r1 =>
  bind (is_one_to_many_relationship f) (fun rn =>
  bind (is_type_type f) (fun tt =>
  bind (is_iterable f) (fun it =>
  bind (type_endpoint f) (fun ep =>
  Ok (mk_kinds b o e c r1 rn tt it ep)))))))))).

Lemma classify_ok : forall f, wf_ty (resolved_type f) = true -> kinds_of f = Ok (spec_kind (resolved_type f)).
Proof.
  intros [t d df] H. cbn [resolved_type] in *.
  destruct t as [b|c|e|a|k a|a|n|a|a|k v|o|]; try discriminate H;
    try (destruct b; try discriminate H; reflexivity);
    try reflexivity;
    destruct a as [b|c|e|a|k' a|a|n|a|a|k' v|o|]; try discriminate H;
    try (destruct b; try discriminate H); try (destruct k); reflexivity.
Qed.

(* the remaining translated predicates, on the same fragment *)
Lemma role_taker_ok : forall f, wf_ty (resolved_type f) = true ->
  is_role_taker f = Ok (match resolved_type f with Cls _ | Enum _ => negb (has_default f) && negb (has_default_factory f) | _ => false end).
Proof.
  intros [t d df] H. cbn [resolved_type has_default has_default_factory] in *. destruct d, df;
  destruct t as [b|c|e|a|k a|a|n|a|a|k v|o|]; try discriminate H;
    try (destruct b; try discriminate H; reflexivity);
    try reflexivity;
    destruct a as [b|c|e|a|k' a|a|n|a|a|k' v|o|]; try discriminate H;
    try (destruct b; try discriminate H); try (destruct k); reflexivity.
Qed.

Lemma container_type_ok : forall f, wf_ty (resolved_type f) = true ->
  container_type f = Ok (match resolved_type f with Cont k _ => korigin k | TypeOf _ => OType | _ => ONone end).
Proof.
  intros [t d df] H. cbn [resolved_type] in *.
  destruct t as [b|c|e|a|k a|a|n|a|a|k v|o|]; try discriminate H; try reflexivity.
  destruct k; reflexivity.
Qed.

(* outside the grammar: what the code does on the two other spellings of Optional[X] (faithful model, used for
   the known finding and the recorded observation) *)
Lemma refuted_union_none_first : forall c d df,
  type_endpoint {| resolved_type := OptionalL (Cls c); has_default := d; has_default_factory := df |} = Ok (Builtin BNoneType)
  /\ is_builtin_type {| resolved_type := OptionalL (Cls c); has_default := d; has_default_factory := df |} = Ok true.
Proof. intros. split; reflexivity. Qed.

Lemma observed_pep604 : forall c d df,
  let f := {| resolved_type := Pep604 (Cls c); has_default := d; has_default_factory := df |} in
  is_optional f = Ok false /\ type_endpoint f = Ok (Pep604 (Cls c)) /\ is_enum f = Raise TypeError.
Proof. intros. repeat split; reflexivity. Qed.

Lemma union_none_first_refuted : exists f : wfield,
  s_optional (resolved_type f) = true /\ kinds_of f <> Ok (spec_kind (resolved_type f)).
Proof.
  exists {| resolved_type := OptionalL (Cls 1%positive); has_default := false; has_default_factory := false |}.
  split; [reflexivity | vm_compute; discriminate].
Qed.
