(* Diagram/FieldKindProofs.v -- the translated predicates (Gen/FieldKind.v) meet the classification Spec
   on every annotation of the supported grammar, and never raise there. *)
From Coq Require Import List Bool PArith.
From Krrood Require Import Diagram.Ty Diagram.FieldKindSpec Gen.FieldKind.
Import ListNotations.

(* the nine observations of the property, computed by the translated code *)
Definition kinds_of (f : wfield) : res kinds :=
  bind (is_builtin_type f) (fun b =>
  bind (is_optional f) (fun o =>
  bind (is_enum f) (fun e =>
  bind (is_container f) (fun c =>
  bind (is_one_to_one_relationship f) (fun r1 =>
  bind (is_one_to_many_relationship f) (fun rn =>
  bind (is_type_type f) (fun tt =>
  bind (is_iterable f) (fun it =>
  bind (type_endpoint f) (fun ep =>
  Ok (mk_kinds b o e c r1 rn tt it ep)))))))))).

Lemma classify_ok : forall f, wf_ty (resolved_type f) = true -> kinds_of f = Ok (spec_kind (resolved_type f)).
Proof.
  intros [t d df] H. cbn [resolved_type] in *.
  destruct t as [b|c|e|a|k a|a|n|a|a|k v|o| |n'|pp u1 u2]; try discriminate H;
    try (destruct b; try discriminate H; reflexivity);
    try reflexivity;
    destruct a as [b|c|e|a|k' a|a|n|a|a|k' v|o| |n'|pp u1 u2]; try discriminate H;
    try (destruct b; try discriminate H); try (destruct k); reflexivity.
Qed.

(* the remaining translated predicates, on the same fragment *)
Lemma role_taker_ok : forall f, wf_ty (resolved_type f) = true ->
  is_role_taker f = Ok (match resolved_type f with Cls _ | Enum _ => negb (has_default f) && negb (has_default_factory f) | _ => false end).
Proof.
  intros [t d df] H. cbn [resolved_type has_default has_default_factory] in *. destruct d, df;
  destruct t as [b|c|e|a|k a|a|n|a|a|k v|o| |n'|pp u1 u2]; try discriminate H;
    try (destruct b; try discriminate H; reflexivity);
    try reflexivity;
    destruct a as [b|c|e|a|k' a|a|n|a|a|k' v|o| |n'|pp u1 u2]; try discriminate H;
    try (destruct b; try discriminate H); try (destruct k); reflexivity.
Qed.

Lemma container_type_ok : forall f, wf_ty (resolved_type f) = true ->
  container_type f = Ok (match resolved_type f with Cont k _ => korigin k | TypeOf _ => OType | _ => ONone end).
Proof.
  intros [t d df] H. cbn [resolved_type] in *.
  destruct t as [b|c|e|a|k a|a|n|a|a|k v|o| |n'|pp u1 u2]; try discriminate H; try reflexivity.
  destruct k; reflexivity.
Qed.

(* regression (repaired in /repo by 90ccf0e): taking get_args(...)[0] as the contained type of an optional field, as
   the code did before, answers NoneType for Union[None, X]; the translated code now answers X *)
Lemma union_none_first_regression : forall c d df,
  index0 (get_args (OptionalL (Cls c))) = Ok (Builtin BNoneType)
  /\ type_endpoint {| resolved_type := OptionalL (Cls c); has_default := d; has_default_factory := df |} = Ok (Cls c)
  /\ is_builtin_type {| resolved_type := OptionalL (Cls c); has_default := d; has_default_factory := df |} = Ok false.
Proof. intros. repeat split; reflexivity. Qed.

(* regression (C17-g, repaired by 2a64235): is_optional as it was accepted typing.Union only, so `X | None`
   (origin types.UnionType) was not optional and its endpoint was the union itself; now it is inside wf_ty *)
Definition old_is_optional (t : ty) : bool :=
  let origin := get_origin t in
  if negb (origin_in origin [OUnion; OOptional]) then false
  else if origin_eqb origin OUnion then Nat.eqb (length (get_args t)) 2 && ty_in (Builtin BNoneType) (get_args t) else true.
Lemma pep604_regression : forall c d df,
  let f := {| resolved_type := Pep604 (Cls c); has_default := d; has_default_factory := df |} in
  old_is_optional (Pep604 (Cls c)) = false /\ wf_ty (Pep604 (Cls c)) = true /\
  is_optional f = Ok true /\ type_endpoint f = Ok (Cls c) /\ kinds_of f = Ok (spec_kind (Pep604 (Cls c))).
Proof. intros. repeat split; reflexivity. Qed.
