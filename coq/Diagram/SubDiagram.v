(* Diagram/SubDiagram.v -- the read-only operations of a ClassDiagram, with the rustworkx graph held in a heap
   cell so that `copy(self)` (a shallow copy) aliases it.

   state: heap of graphs + the diagram objects alive (each holds the location of its _dependency_graph).
   Operations (class_diagram.py):
     OpSub t ifn   to_subdiagram_without_inherited_associations(include_field_name=ifn) on object t:
                   result = copy(self); result._dependency_graph = self._dependency_graph.copy(); remove edges there
     OpCopy t      copy.copy(diagram): a second object on the same cell
     OpQuery t q   the queries and the rendering walk: they only read
   [run_op_shallow] is the code before commit 9f76ed7 (no graph copy), kept as the regression witness. *)
From Coq Require Import List Bool PArith ZArith Arith Lia.
From Krrood Require Import Base.Sx Diagram.Ty Diagram.DiagramSpec.
Import ListNotations.
Local Open Scope nat_scope.

Definition loc := nat.
Record state := mk_state { heap : list graph; objs : list loc }.

(* ---- rustworkx as used here: parallel edges are kept; get_edge_data(u,v) and remove_edge(u,v) act on the
        most recently added edge u->v that is still present; edge_list() is in insertion order ---- *)
Definition same_ends (u v : name) (e : edge) : bool := Pos.eqb (e_src e) u && Pos.eqb (e_dst e) v.
Definition get_edge_data (es : list edge) (u v : name) : option edge :=
  find (same_ends u v) (rev es).
Fixpoint remove_first (u v : name) (es : list edge) : list edge :=
  match es with
  | [] => []
  | e :: es' => if same_ends u v e then es' else e :: remove_first u v es'
  end.
Definition remove_edge (es : list edge) (u v : name) : list edge := rev (remove_first u v (rev es)).
Definition edge_list (es : list edge) : list (name * name) := map (fun e => (e_src e, e_dst e)) es.

Definition is_inh (e : edge) : bool := match e_kind e with EInh => true | EAssoc => false end.
Definition is_assoc (e : edge) : bool := negb (is_inh e).

(* parent_map: child -> parents, read through get_edge_data for every entry of edge_list *)
Definition parents (es : list edge) (c : name) : list name :=
  flat_map (fun uv => match get_edge_data es (fst uv) (snd uv) with
                      | Some r => if is_inh r && Pos.eqb (snd uv) c then [fst uv] else []
                      | None => [] end) (edge_list es).
(* all_ancestors: closure of parents; fuel = number of nodes *)
Fixpoint closure (fuel : nat) (es : list edge) (frontier seen : list name) : list name :=
  match fuel with
  | O => seen
  | S k =>
      let new := dedup (flat_map (parents es) frontier) seen in
      match new with [] => seen | _ => closure k es new (seen ++ new) end
  end.
Definition all_ancestors (g : graph) (c : name) : list name :=
  let ps := dedup (parents (g_edges g) c) [] in closure (length (g_nodes g)) (g_edges g) ps ps.

(* Association.get_key: (Association, target class[, field name]) *)
Definition key := (name * name)%type.
Definition get_key (ifn : bool) (e : edge) : key := (e_dst e, if ifn then e_field e else xH).
Definition key_eqb (a b : key) : bool := Pos.eqb (fst a) (fst b) && Pos.eqb (snd a) (snd b).
Definition keys_by_source (ifn : bool) (es : list edge) (u : name) : list key :=
  flat_map (fun uv => if Pos.eqb (fst uv) u then
                        match get_edge_data es (fst uv) (snd uv) with
                        | Some r => if is_assoc r then [get_key ifn r] else []
                        | None => [] end
                      else []) (edge_list es).

Definition edges_to_remove (ifn : bool) (g : graph) : list (name * name) :=
  let es := g_edges g in
  filter (fun uv =>
    match get_edge_data es (fst uv) (snd uv) with
    | Some r =>
        is_assoc r &&
        existsb (key_eqb (get_key ifn r)) (flat_map (keys_by_source ifn es) (all_ancestors g (fst uv)))
    | None => false
    end) (edge_list es).
Definition sub_graph (ifn : bool) (g : graph) : graph :=
  mk_graph (g_nodes g) (fold_left (fun es uv => remove_edge es (fst uv) (snd uv)) (edges_to_remove ifn g) (g_edges g)).

(* ---- queries: each is a function of the graph; none writes ---- *)
Inductive query :=
| QNodes | QAssociations | QInheritance | QOutEdges (c : name) | QAncestors (c : name)
| QAssocKeys (ifn : bool) | QNeighbours (c : name) (k : ekind) | QRender (with_assoc : bool).

Inductive op :=
| OpSub (t : nat) (ifn : bool)
| OpCopy (t : nat)
| OpQuery (t : nat) (q : query).

Fixpoint set_nth {A} (l : list A) (i : nat) (x : A) : list A :=
  match l, i with
  | [], _ => []
  | _ :: l', O => x :: l'
  | y :: l', S j => y :: set_nth l' j x
  end.

Definition graph_at (s : state) (t : nat) : option graph :=
  match nth_error (objs s) t with Some l => nth_error (heap s) l | None => None end.

(* the code as it is now *)
Definition run_op (s : state) (o : op) : state :=
  match o with
  | OpSub t ifn =>
      match graph_at s t with
      | Some g => mk_state (heap s ++ [sub_graph ifn g]) (objs s ++ [length (heap s)])
      | None => s
      end
  | OpCopy t =>
      match nth_error (objs s) t with
      | Some l => mk_state (heap s) (objs s ++ [l])
      | None => s
      end
  | OpQuery _ _ => s
  end.
Definition run_ops (ops : list op) (s : state) : state := fold_left run_op ops s.
Definition init (g : graph) : state := mk_state [g] [0].

(* the code before the repair: the sub-diagram is carved out of the shared cell *)
Definition run_op_shallow (s : state) (o : op) : state :=
  match o with
  | OpSub t ifn =>
      match nth_error (objs s) t with
      | Some l => match nth_error (heap s) l with
                  | Some g => mk_state (set_nth (heap s) l (sub_graph ifn g)) (objs s ++ [l])
                  | None => s end
      | None => s
      end
  | _ => run_op s o
  end.

(* ---- theorems ---- *)
Lemma run_op_preserves : forall s o i g, nth_error (heap s) i = Some g -> nth_error (heap (run_op s o)) i = Some g.
Proof.
  intros s o i g H. destruct o as [t ifn|t|t q]; simpl.
  - destruct (graph_at s t); simpl; auto. rewrite nth_error_app1; auto.
    apply nth_error_Some. congruence.
  - destruct (nth_error (objs s) t); simpl; auto.
  - auto.
Qed.

(* no sequence of read-only operations, applied to the diagram or to anything derived from it, changes any
   graph that existed before: in particular not the one the views were derived from *)
Lemma views_pure : forall ops s i g, nth_error (heap s) i = Some g -> nth_error (heap (run_ops ops s)) i = Some g.
Proof.
  induction ops as [|o ops IH]; intros s i g H; simpl; auto.
  apply IH. now apply run_op_preserves.
Qed.

Lemma run_op_objs_prefix : forall s o t l, nth_error (objs s) t = Some l -> nth_error (objs (run_op s o)) t = Some l.
Proof.
  intros s o t l H. destruct o as [t' ifn|t'|t' q]; simpl; auto.
  - destruct (graph_at s t'); simpl; auto. rewrite nth_error_app1; auto. apply nth_error_Some. congruence.
  - destruct (nth_error (objs s) t'); simpl; auto. rewrite nth_error_app1; auto. apply nth_error_Some. congruence.
Qed.

Lemma views_pure_obj : forall ops s t g, graph_at s t = Some g -> graph_at (run_ops ops s) t = Some g.
Proof.
  induction ops as [|o ops IH]; intros s t g H; simpl; auto.
  apply IH. unfold graph_at in *.
  destruct (nth_error (objs s) t) as [l|] eqn:E; try discriminate.
  rewrite (run_op_objs_prefix s o t l E). now apply run_op_preserves.
Qed.

Corollary source_intact : forall g ops, graph_at (run_ops ops (init g)) 0 = Some g.
Proof. intros. apply views_pure_obj. reflexivity. Qed.

(* what the derived view is: same nodes, every inheritance edge kept, only association edges dropped *)
Lemma remove_first_incl u v es e : In e (remove_first u v es) -> In e es.
Proof. induction es as [|x es IH]; simpl; auto. destruct (same_ends u v x); simpl; intuition. Qed.
Lemma remove_edge_incl es u v e : In e (remove_edge es u v) -> In e es.
Proof. unfold remove_edge. rewrite <- in_rev. intro H. apply remove_first_incl in H. now apply in_rev. Qed.
Lemma sub_graph_incl ifn g e : In e (g_edges (sub_graph ifn g)) -> In e (g_edges g).
Proof.
  unfold sub_graph; simpl. generalize (edges_to_remove ifn g). intro l. generalize (g_edges g).
  induction l as [|uv l IH]; intros es; simpl; auto.
  intro H. apply IH in H. now apply remove_edge_incl in H.
Qed.
Lemma sub_graph_nodes ifn g : g_nodes (sub_graph ifn g) = g_nodes g.
Proof. reflexivity. Qed.

(* ---- printing for the correspondence check ---- *)
Definition state_sx (s : state) : sx :=
  SL (map (fun l => match nth_error (heap s) l with Some g => graph_sx g | None => SL [] end) (objs s)).
(* snapshot of every live diagram object after every operation *)
Fixpoint trace (run : state -> op -> state) (ops : list op) (s : state) : list sx :=
  match ops with
  | [] => []
  | o :: ops' => let s' := run s o in state_sx s' :: trace run ops' s'
  end.
Definition trace_sx (g : graph) (ops : list op) : sx := SL (trace run_op ops (init g)).
Definition trace_shallow_sx (g : graph) (ops : list op) : sx := SL (trace run_op_shallow ops (init g)).
(* Spec of the views part: the source (object 0) reads the same after every operation *)
Definition source_trace_spec (g : graph) (ops : list op) : sx := SL (map (fun _ => graph_sx g) ops).
Definition source_trace (run : state -> op -> state) (g : graph) (ops : list op) : sx :=
  SL ((fix go ops s := match ops with
                       | [] => []
                       | o :: ops' => let s' := run s o in
                           match graph_at s' 0 with Some g' => graph_sx g' | None => SL [] end :: go ops' s'
                       end) ops (init g)).

(* regression witness: A has b: B; A2(A) inherits it.  Before the repair the call removed A2 -> B from the source. *)
Definition witness_graph : graph :=
  mk_graph [1; 2; 3]%positive
           [mk_edge EInh 1 3 1; mk_edge EAssoc 1 2 5; mk_edge EAssoc 3 2 5]%positive.
Lemma shallow_refuted :
  graph_at (fold_left run_op_shallow [OpSub 0 false] (init witness_graph)) 0 <> Some witness_graph.
Proof. vm_compute. discriminate. Qed.
Lemma witness_now_intact :
  graph_at (run_ops [OpSub 0 false] (init witness_graph)) 0 = Some witness_graph
  /\ graph_at (run_ops [OpSub 0 false] (init witness_graph)) 1
     = Some (mk_graph [1; 2; 3]%positive [mk_edge EInh 1 3 1; mk_edge EAssoc 1 2 5]%positive).
Proof. vm_compute. split; reflexivity. Qed.
