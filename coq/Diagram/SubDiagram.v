(* Diagram/SubDiagram.v -- the read-only operations of a ClassDiagram, with the rustworkx graph held in a heap
   cell so that `copy(self)` (a shallow copy) aliases it.

   state: heap of graphs + heap of memo tables + the diagram objects alive.  Each object holds the location of its
   _dependency_graph and of its memo table: the answers that the @lru_cache'd query methods keep per diagram
   object (the cache key contains `self`, hashed by identity).  What one can observe of a diagram is its graph AND
   the answers of its read-only queries; both are covered by the theorems.
   Operations (class_diagram.py):
     OpSub t ifn   to_subdiagram_without_inherited_associations(include_field_name=ifn) on object t:
                   result = copy(self); result._dependency_graph = self._dependency_graph.copy(); remove edges there
     OpCopy t      copy.copy(diagram): a second object on the same graph cell; a new identity, hence no cached answers
     OpQuery t q   a query: answered from the object's memo table when cached there, else read off the graph (and
                   remembered if the method is an lru_cache'd one)
   [run_op_shallow] is the code before commit 9f76ed7 (no graph copy), kept as the regression witness.
   [run_op_sharedmemo] is a variant in which the derived diagram inherits the memo table of its source (what a
   per-diagram cache *attribute* does under copy(self)); it is refuted, to show what the theorem excludes. *)
From Coq Require Import List Bool PArith ZArith Arith Lia.
From Krrood Require Import Base.Sx Diagram.Ty Diagram.DiagramSpec.
Import ListNotations.
Local Open Scope nat_scope.

Definition loc := nat.

(* ---- rustworkx as used here: parallel edges are kept; get_edge_data(u,v) and remove_edge(u,v) act on the
        most recently added edge u->v that is still present; edge_list() is in insertion order ---- *)
Definition same_ends (u v : name) (e : edge) : bool := Pos.eqb (e_src e) u && Pos.eqb (e_dst e) v.
Definition get_edge_data (es : list edge) (u v : name) : option edge :=
  find (same_ends u v) (rev es).
Fixpoint remove_first (u v : name) (es : list edge) : list edge :=
  match es with
  | [] => []
  | e :: es' => if same_ends u v e then es' else e :: remove_first u v es'
  end.
Definition remove_edge (es : list edge) (u v : name) : list edge := rev (remove_first u v (rev es)).
Definition edge_list (es : list edge) : list (name * name) := map (fun e => (e_src e, e_dst e)) es.

Definition is_inh (e : edge) : bool := match e_kind e with EInh => true | EAssoc => false end.
Definition is_assoc (e : edge) : bool := negb (is_inh e).

(* parent_map: child -> parents.  Since d1fa493 it reads weighted_edge_list(): every edge with its own data.
   [parents_old] is the code before: get_edge_data(u, v) for every entry of edge_list(), i.e. one of several parallel
   edges, kept for the regression theorem. *)
Definition parents (es : list edge) (c : name) : list name :=
  flat_map (fun e => if is_inh e && Pos.eqb (e_dst e) c then [e_src e] else []) es.
Definition parents_old (es : list edge) (c : name) : list name :=
  flat_map (fun uv => match get_edge_data es (fst uv) (snd uv) with
                      | Some r => if is_inh r && Pos.eqb (snd uv) c then [fst uv] else []
                      | None => [] end) (edge_list es).
(* all_ancestors: closure of parents; fuel = number of nodes *)
Fixpoint closure (par : list edge -> name -> list name) (fuel : nat) (es : list edge) (frontier seen : list name) : list name :=
  match fuel with
  | O => seen
  | S k =>
      let new := dedup (flat_map (par es) frontier) seen in
      match new with [] => seen | _ => closure par k es new (seen ++ new) end
  end.
Definition all_ancestors (g : graph) (c : name) : list name :=
  let ps := dedup (parents (g_edges g) c) [] in closure parents (length (g_nodes g)) (g_edges g) ps ps.
Definition all_ancestors_old (g : graph) (c : name) : list name :=
  let ps := dedup (parents_old (g_edges g) c) [] in closure parents_old (length (g_nodes g)) (g_edges g) ps ps.

(* Association.get_key: (Association, target class[, field name]) *)
Definition key := (name * name)%type.
Definition get_key (ifn : bool) (e : edge) : key := (e_dst e, if ifn then e_field e else xH).
Definition key_eqb (a b : key) : bool := Pos.eqb (fst a) (fst b) && Pos.eqb (snd a) (snd b).
Definition keys_by_source (ifn : bool) (es : list edge) (u : name) : list key :=
  flat_map (fun uv => if Pos.eqb (fst uv) u then
                        match get_edge_data es (fst uv) (snd uv) with
                        | Some r => if is_assoc r then [get_key ifn r] else []
                        | None => [] end
                      else []) (edge_list es).

Definition edges_to_remove (ifn : bool) (g : graph) : list (name * name) :=
  let es := g_edges g in
  filter (fun uv =>
    match get_edge_data es (fst uv) (snd uv) with
    | Some r =>
        is_assoc r &&
        existsb (key_eqb (get_key ifn r)) (flat_map (keys_by_source ifn es) (all_ancestors g (fst uv)))
    | None => false
    end) (edge_list es).
Definition sub_graph (ifn : bool) (g : graph) : graph :=
  mk_graph (g_nodes g) (fold_left (fun es uv => remove_edge es (fst uv) (snd uv)) (edges_to_remove ifn g) (g_edges g)).

(* ---- queries: each answer is a function of the graph ---- *)
Inductive query :=
| QNodes | QAssociations | QInheritance
| QOutEdges (c : name)                      (* get_out_edges / get_outgoing_relations / get_associations_with_condition *)
| QOutNeighbours (c : name) (k : ekind)     (* get_outgoing_neighbors_with_relation_type *)
| QInNeighbours (c : name) (k : ekind)      (* get_incoming_neighbors_with_relation_type *)
| QAncestors (c : name)                     (* all_ancestors (over parent_map) *)
| QOther.                                   (* parent_map, all_ancestors, assoc keys, role takers, rendering: called, answer not compared *)

Definition ekind_eqb (a b : ekind) : bool := match a, b with EInh, EInh | EAssoc, EAssoc => true | _, _ => false end.
Definition query_eqb (a b : query) : bool :=
  match a, b with
  | QNodes, QNodes | QAssociations, QAssociations | QInheritance, QInheritance | QOther, QOther => true
  | QOutEdges c, QOutEdges d | QAncestors c, QAncestors d => Pos.eqb c d
  | QOutNeighbours c k, QOutNeighbours d l | QInNeighbours c k, QInNeighbours d l => Pos.eqb c d && ekind_eqb k l
  | _, _ => false
  end.
Lemma query_eqb_eq a b : query_eqb a b = true -> a = b.
Proof.
  destruct a, b; simpl; try discriminate; auto.
  - intro H. apply Pos.eqb_eq in H. now subst.
  - intro H. apply andb_true_iff in H as [H1 H2]. apply Pos.eqb_eq in H1. subst. destruct k, k0; try discriminate; auto.
  - intro H. apply andb_true_iff in H as [H1 H2]. apply Pos.eqb_eq in H1. subst. destruct k, k0; try discriminate; auto.
  - intro H. apply Pos.eqb_eq in H. now subst.
Qed.

Definition edges_sx (es : list edge) : sx := SL (sx_sort (map edge_sx es)).
Definition kind_is (k : ekind) (e : edge) : bool := ekind_eqb (e_kind e) k.
(* the direct reading of a graph: what a query has to answer *)
Definition answer (g : graph) (q : query) : sx :=
  match q with
  | QNodes => SL (map ZP (g_nodes g))
  | QAssociations => edges_sx (filter is_assoc (g_edges g))
  | QInheritance => edges_sx (filter is_inh (g_edges g))
  | QOutEdges c =>
      let es := filter (fun e => Pos.eqb (e_src e) c) (g_edges g) in
      SL [edges_sx es; edges_sx es; edges_sx (filter is_assoc es)]
  | QOutNeighbours c k =>
      SL (sx_set (map (fun e => ZP (e_dst e)) (filter (fun e => Pos.eqb (e_src e) c && kind_is k e) (g_edges g))))
  | QInNeighbours c k =>
      SL (sx_set (map (fun e => ZP (e_src e)) (filter (fun e => Pos.eqb (e_dst e) c && kind_is k e) (g_edges g))))
  | QAncestors c => SL (sx_set (map ZP (all_ancestors g c)))   (* what the code computes from the graph, quirk included *)
  | QOther => SL []
  end.
(* what "the ancestors of c" means: everything reachable backwards over inheritance edges *)
Definition inh_parents (es : list edge) (c : name) : list name :=
  map e_src (filter (fun e => is_inh e && Pos.eqb (e_dst e) c) es).
Fixpoint inh_closure (fuel : nat) (es : list edge) (frontier seen : list name) : list name :=
  match fuel with
  | O => seen
  | S k => let new := dedup (flat_map (inh_parents es) frontier) seen in
           match new with [] => seen | _ => inh_closure k es new (seen ++ new) end
  end.
Definition true_ancestors (g : graph) (c : name) : list name :=
  let ps := dedup (inh_parents (g_edges g) c) [] in inh_closure (length (g_nodes g)) (g_edges g) ps ps.
Definition spec_ancestors_sx (g : graph) (c : name) : sx := SL (sx_set (map ZP (true_ancestors g c))).
(* the methods decorated with @lru_cache *)
Definition cached (q : query) : bool :=
  match q with QOutEdges _ | QOutNeighbours _ _ | QInNeighbours _ _ => true | _ => false end.

Definition memo := list (query * sx).
Definition mlookup (m : memo) (q : query) : option sx :=
  match find (fun e => query_eqb (fst e) q) m with Some e => Some (snd e) | None => None end.

Record obj := mk_obj { o_graph : loc; o_memo : loc }.
Record state := mk_state { heap : list graph; memos : list memo; objs : list obj }.

Inductive op :=
| OpSub (t : nat) (ifn : bool)
| OpCopy (t : nat)
| OpQuery (t : nat) (q : query).

Fixpoint set_nth {A} (l : list A) (i : nat) (x : A) : list A :=
  match l, i with
  | [], _ => []
  | _ :: l', O => x :: l'
  | y :: l', S j => y :: set_nth l' j x
  end.

Definition graph_at (s : state) (t : nat) : option graph :=
  match nth_error (objs s) t with Some o => nth_error (heap s) (o_graph o) | None => None end.

(* a query on object o *)
Definition do_query (s : state) (o : obj) (q : query) : state * sx :=
  match nth_error (heap s) (o_graph o), nth_error (memos s) (o_memo o) with
  | Some g, Some m =>
      if cached q then
        match mlookup m q with
        | Some a => (s, a)
        | None => let a := answer g q in
                  (mk_state (heap s) (set_nth (memos s) (o_memo o) ((q, a) :: m)) (objs s), a)
        end
      else (s, answer g q)
  | _, _ => (s, SL [])
  end.

(* the code as it is now; [share]: whether a derived diagram keeps the memo table of its source (it does not) *)
Definition step (share : bool) (s : state) (o : op) : state * sx :=
  match o with
  | OpSub t ifn =>
      match nth_error (objs s) t with
      | Some ob =>
          match nth_error (heap s) (o_graph ob) with
          | Some g =>
              if share
              then (mk_state (heap s ++ [sub_graph ifn g]) (memos s) (objs s ++ [mk_obj (length (heap s)) (o_memo ob)]), SL [])
              else (mk_state (heap s ++ [sub_graph ifn g]) (memos s ++ [[]])
                             (objs s ++ [mk_obj (length (heap s)) (length (memos s))]), SL [])
          | None => (s, SL [])
          end
      | None => (s, SL [])
      end
  | OpCopy t =>
      match nth_error (objs s) t with
      | Some ob => (mk_state (heap s) (memos s ++ [[]]) (objs s ++ [mk_obj (o_graph ob) (length (memos s))]), SL [])
      | None => (s, SL [])
      end
  | OpQuery t q =>
      match nth_error (objs s) t with
      | Some ob => do_query s ob q
      | None => (s, SL [])
      end
  end.
Definition run_op (s : state) (o : op) : state := fst (step false s o).
Definition run_ops (ops : list op) (s : state) : state := fold_left run_op ops s.
Definition init (g : graph) : state := mk_state [g] [[]] [mk_obj 0 0].
(* the answer a query gives after a history *)
Definition ask (s : state) (t : nat) (q : query) : sx := snd (step false s (OpQuery t q)).

(* variant: the derived diagram shares the memo table of its source *)
Definition run_op_sharedmemo (s : state) (o : op) : state := fst (step true s o).

(* the code before the repair 9f76ed7: the sub-diagram is carved out of the shared graph cell *)
Definition run_op_shallow (s : state) (o : op) : state :=
  match o with
  | OpSub t ifn =>
      match nth_error (objs s) t with
      | Some ob => match nth_error (heap s) (o_graph ob) with
                   | Some g => mk_state (set_nth (heap s) (o_graph ob) (sub_graph ifn g)) (memos s ++ [[]])
                                        (objs s ++ [mk_obj (o_graph ob) (length (memos s))])
                   | None => s end
      | None => s
      end
  | _ => run_op s o
  end.

(* ---- theorems: graphs ---- *)
Lemma do_query_heap s o q : heap (fst (do_query s o q)) = heap s /\ objs (fst (do_query s o q)) = objs s.
Proof.
  unfold do_query. destruct (nth_error (heap s) (o_graph o)); [|auto].
  destruct (nth_error (memos s) (o_memo o)); [|auto].
  destruct (cached q); [|auto]. destruct (mlookup m q); auto.
Qed.

Lemma run_op_preserves : forall s o i g, nth_error (heap s) i = Some g -> nth_error (heap (run_op s o)) i = Some g.
Proof.
  intros s o i g H. unfold run_op. destruct o as [t ifn|t|t q]; simpl.
  - destruct (nth_error (objs s) t) as [ob|]; simpl; auto.
    destruct (nth_error (heap s) (o_graph ob)); simpl; auto. rewrite nth_error_app1; auto.
    apply nth_error_Some. congruence.
  - destruct (nth_error (objs s) t); simpl; auto.
  - destruct (nth_error (objs s) t) as [ob|]; simpl; auto.
    destruct (do_query_heap s ob q) as [E _]. now rewrite E.
Qed.

(* no sequence of read-only operations, applied to the diagram or to anything derived from it, changes any
   graph that existed before: in particular not the one the views were derived from *)
Lemma views_pure : forall ops s i g, nth_error (heap s) i = Some g -> nth_error (heap (run_ops ops s)) i = Some g.
Proof.
  induction ops as [|o ops IH]; intros s i g H; simpl; auto.
  apply IH. now apply run_op_preserves.
Qed.

Lemma run_op_objs_prefix : forall s o t ob, nth_error (objs s) t = Some ob -> nth_error (objs (run_op s o)) t = Some ob.
Proof.
  intros s o t ob H. unfold run_op. destruct o as [t' ifn|t'|t' q]; simpl; auto.
  - destruct (nth_error (objs s) t') as [ob'|]; simpl; auto.
    destruct (nth_error (heap s) (o_graph ob')); simpl; auto. rewrite nth_error_app1; auto. apply nth_error_Some. congruence.
  - destruct (nth_error (objs s) t'); simpl; auto. rewrite nth_error_app1; auto. apply nth_error_Some. congruence.
  - destruct (nth_error (objs s) t') as [ob'|]; simpl; auto.
    destruct (do_query_heap s ob' q) as [_ E]. now rewrite E.
Qed.

Lemma views_pure_obj : forall ops s t g, graph_at s t = Some g -> graph_at (run_ops ops s) t = Some g.
Proof.
  induction ops as [|o ops IH]; intros s t g H; simpl; auto.
  apply IH. unfold graph_at in *.
  destruct (nth_error (objs s) t) as [ob|] eqn:E; try discriminate.
  rewrite (run_op_objs_prefix s o t ob E). now apply run_op_preserves.
Qed.

Corollary source_intact : forall g ops, graph_at (run_ops ops (init g)) 0 = Some g.
Proof. intros. apply views_pure_obj. reflexivity. Qed.

(* ---- theorems: answers ---- *)
Lemma nth_error_set_nth_eq {A} (l : list A) i x : i < length l -> nth_error (set_nth l i x) i = Some x.
Proof. revert i. induction l as [|y l IH]; intros [|i] H; simpl in *; try lia; auto. apply IH. lia. Qed.
Lemma nth_error_set_nth_neq {A} (l : list A) i j x : i <> j -> nth_error (set_nth l i x) j = nth_error l j.
Proof. revert i j. induction l as [|y l IH]; intros [|i] [|j] H; simpl; auto; try congruence. Qed.
Lemma set_nth_length {A} (l : list A) i x : length (set_nth l i x) = length l.
Proof. revert i. induction l as [|y l IH]; intros [|i]; simpl; auto. Qed.

(* every memo table belongs to one object, lies inside the heap, and holds only direct readings of that object's graph *)
Record inv (s : state) : Prop := {
  inv_bound : forall i ob, nth_error (objs s) i = Some ob -> o_memo ob < length (memos s) /\ o_graph ob < length (heap s);
  inv_own : forall i j ob ob', nth_error (objs s) i = Some ob -> nth_error (objs s) j = Some ob' ->
              o_memo ob = o_memo ob' -> i = j;
  inv_sound : forall i ob m g q a, nth_error (objs s) i = Some ob -> nth_error (memos s) (o_memo ob) = Some m ->
              nth_error (heap s) (o_graph ob) = Some g -> mlookup m q = Some a -> a = answer g q }.

Lemma inv_init g : inv (init g).
Proof.
  split; simpl.
  - intros [|i] ob H; simpl in H; [injection H as <-; simpl; lia | destruct i; discriminate].
  - intros [|i] [|j] ob ob' H1 H2 _; auto; simpl in *; try (destruct i; discriminate); destruct j; discriminate.
  - intros [|i] ob m g' q a H; simpl in H; [|destruct i; discriminate]. injection H as <-. simpl.
    intro Hm. injection Hm as <-. intros _ Hl. discriminate Hl.
Qed.

Lemma nth_error_snoc {A} (l : list A) x i y : nth_error (l ++ [x]) i = Some y ->
  (i < length l /\ nth_error l i = Some y) \/ (i = length l /\ y = x).
Proof.
  intro H. destruct (Nat.lt_ge_cases i (length l)) as [L|L].
  - left. rewrite nth_error_app1 in H; auto.
  - right. rewrite nth_error_app2 in H; auto. destruct (i - length l) eqn:E.
    + simpl in H. injection H as <-. split; auto. lia.
    + simpl in H. destruct n; discriminate.
Qed.

Lemma mlookup_cons q0 a0 m q : mlookup ((q0, a0) :: m) q = if query_eqb q0 q then Some a0 else mlookup m q.
Proof. unfold mlookup. simpl. destruct (query_eqb q0 q); reflexivity. Qed.

(* adding a new object with a fresh, empty memo table *)
Lemma inv_new_obj s hp' gl : inv s ->
  (forall i g, nth_error (heap s) i = Some g -> nth_error hp' i = Some g) -> length (heap s) <= length hp' ->
  gl < length hp' ->
  inv (mk_state hp' (memos s ++ [[]]) (objs s ++ [mk_obj gl (length (memos s))])).
Proof.
  intros [B O S] Hh Hl Hg. split; simpl.
  - intros i ob H. rewrite app_length. simpl. apply nth_error_snoc in H as [[L H]|[E ->]].
    + destruct (B i ob H). lia.
    + simpl. lia.
  - intros i j ob ob' H1 H2 E.
    apply nth_error_snoc in H1 as [[L1 H1]|[E1 ->]]; apply nth_error_snoc in H2 as [[L2 H2]|[E2 ->]]; simpl in *.
    + eauto.
    + destruct (B i ob H1). lia.
    + destruct (B j ob' H2). lia.
    + congruence.
  - intros i ob m g q a H Hm Hgr Hl'. apply nth_error_snoc in H as [[L H]|[E ->]].
    + destruct (B i ob H) as [B1 B2]. rewrite nth_error_app1 in Hm by lia.
      destruct (nth_error (heap s) (o_graph ob)) as [g'|] eqn:G.
      * rewrite (Hh _ _ G) in Hgr. injection Hgr as <-. eapply S; eauto.
      * apply nth_error_None in G. lia.
    + simpl in Hm. rewrite nth_error_app2 in Hm by lia. rewrite Nat.sub_diag in Hm. simpl in Hm.
      injection Hm as <-. discriminate Hl'.
Qed.

Lemma inv_step s o : inv s -> inv (run_op s o).
Proof.
  intros I. unfold run_op. destruct o as [t ifn|t|t q]; simpl.
  - destruct (nth_error (objs s) t) as [ob|] eqn:E; simpl; auto.
    destruct (nth_error (heap s) (o_graph ob)) as [g|] eqn:G; simpl; auto.
    apply inv_new_obj; auto.
    + intros i g' H. rewrite nth_error_app1; auto. apply nth_error_Some. congruence.
    + rewrite app_length. simpl. lia.
    + rewrite app_length. simpl. lia.
  - destruct (nth_error (objs s) t) as [ob|] eqn:E; simpl; auto.
    apply inv_new_obj; auto. destruct I as [B _ _]. destruct (B t ob E). lia.
  - destruct (nth_error (objs s) t) as [ob|] eqn:E; simpl; auto.
    unfold do_query.
    destruct (nth_error (heap s) (o_graph ob)) as [g|] eqn:G; simpl; auto.
    destruct (nth_error (memos s) (o_memo ob)) as [m|] eqn:M; simpl; auto.
    destruct (cached q); simpl; auto. destruct (mlookup m q) eqn:L; simpl; auto.
    destruct I as [B O S]. split; simpl.
    + intros i ob' H. rewrite set_nth_length. eauto.
    + eauto.
    + intros i ob' m' g' q' a H Hm Hg Hl.
      destruct (Nat.eq_dec (o_memo ob') (o_memo ob)) as [Eq|Ne].
      * assert (i = t) by (eapply O; eauto). subst i. rewrite E in H. injection H as <-.
        rewrite nth_error_set_nth_eq in Hm by (destruct (B t ob E); lia). injection Hm as <-.
        rewrite G in Hg. injection Hg as <-. rewrite mlookup_cons in Hl.
        destruct (query_eqb q q') eqn:Q.
        -- apply query_eqb_eq in Q. subst q'. now injection Hl as <-.
        -- eapply S; eauto.
      * rewrite nth_error_set_nth_neq in Hm by auto. eapply S; eauto.
Qed.

Lemma inv_run ops : forall s, inv s -> inv (run_ops ops s).
Proof. induction ops as [|o ops IH]; simpl; intros s I; auto. apply IH. now apply inv_step. Qed.

(* in a state reached by read-only operations every query answers with the direct reading of the object's graph *)
Lemma ask_sound s t q g : inv s -> graph_at s t = Some g -> ask s t q = answer g q.
Proof.
  intros [B O S] H. unfold ask, graph_at in *. simpl.
  destruct (nth_error (objs s) t) as [ob|] eqn:E; [|discriminate]. unfold do_query. rewrite H.
  destruct (nth_error (memos s) (o_memo ob)) as [m|] eqn:M.
  - destruct (cached q); auto. destruct (mlookup m q) eqn:L; simpl; auto. eapply S; eauto.
  - apply nth_error_None in M. destruct (B t ob E). lia.
Qed.

(* C17, views, over observations: after any sequence of read-only operations on the diagram and on anything derived
   from it -- queries on the views first, then on the source, or in any other order -- the source still has the
   graph it had, and every query on it answers what that graph says *)
Theorem source_observations_intact : forall g ops,
  graph_at (run_ops ops (init g)) 0 = Some g /\ forall q, ask (run_ops ops (init g)) 0 q = answer g q.
Proof.
  intros g ops. split; [apply source_intact|]. intro q. apply ask_sound.
  - apply inv_run, inv_init.
  - apply source_intact.
Qed.

(* the same for every object: what it answers is what its own graph says *)
Theorem observations_consistent : forall g ops t gt,
  graph_at (run_ops ops (init g)) t = Some gt -> forall q, ask (run_ops ops (init g)) t q = answer gt q.
Proof. intros g ops t gt H q. apply ask_sound; auto. apply inv_run, inv_init. Qed.

(* what the derived view is: same nodes, every inheritance edge kept, only association edges dropped *)
Lemma remove_first_incl u v es e : In e (remove_first u v es) -> In e es.
Proof. induction es as [|x es IH]; simpl; auto. destruct (same_ends u v x); simpl; intuition. Qed.
Lemma remove_edge_incl es u v e : In e (remove_edge es u v) -> In e es.
Proof. unfold remove_edge. rewrite <- in_rev. intro H. apply remove_first_incl in H. now apply in_rev. Qed.
Lemma sub_graph_incl ifn g e : In e (g_edges (sub_graph ifn g)) -> In e (g_edges g).
Proof.
  unfold sub_graph; simpl. generalize (edges_to_remove ifn g). intro l. generalize (g_edges g).
  induction l as [|uv l IH]; intros es; simpl; auto.
  intro H. apply IH in H. now apply remove_edge_incl in H.
Qed.
Lemma sub_graph_nodes ifn g : g_nodes (sub_graph ifn g) = g_nodes g.
Proof. reflexivity. Qed.

(* ---- printing for the correspondence check ---- *)
Definition state_sx (s : state) : sx :=
  SL (map (fun o => match nth_error (heap s) (o_graph o) with Some g => graph_sx g | None => SL [] end) (objs s)).
(* per operation: the answer, and for the operations that create an object the snapshot of every live object
   (a query leaves every graph as it was: run_op_preserves) *)
Fixpoint trace (share : bool) (ops : list op) (s : state) : list sx :=
  match ops with
  | [] => []
  | o :: ops' =>
      let r := step share s o in
      SL (snd r :: match o with OpQuery _ _ => [] | _ => [state_sx (fst r)] end) :: trace share ops' (fst r)
  end.
Definition trace_sx (g : graph) (ops : list op) : sx := SL (trace false ops (init g)).

(* regression witness: A has b: B; A2(A) inherits it.  Before the repair the call removed A2 -> B from the source. *)
Definition witness_graph : graph :=
  mk_graph [1; 2; 3]%positive
           [mk_edge EInh 1 3 1; mk_edge EAssoc 1 2 5; mk_edge EAssoc 3 2 5]%positive.
Lemma shallow_refuted :
  graph_at (fold_left run_op_shallow [OpSub 0 false] (init witness_graph)) 0 <> Some witness_graph.
Proof. vm_compute. discriminate. Qed.
Lemma witness_now_intact :
  graph_at (run_ops [OpSub 0 false] (init witness_graph)) 0 = Some witness_graph
  /\ graph_at (run_ops [OpSub 0 false] (init witness_graph)) 1
     = Some (mk_graph [1; 2; 3]%positive [mk_edge EInh 1 3 1; mk_edge EAssoc 1 2 5]%positive).
Proof. vm_compute. split; reflexivity. Qed.
(* a memo table shared between a diagram and its sub-diagram: asking the view first poisons the source's answer,
   although the source's graph is untouched *)
Lemma sharedmemo_refuted :
  let s := fold_left run_op_sharedmemo [OpSub 0 false; OpQuery 1 (QOutEdges 3%positive)] (init witness_graph) in
  graph_at s 0 = Some witness_graph /\ snd (step true s (OpQuery 0 (QOutEdges 3%positive))) <> answer witness_graph (QOutEdges 3%positive).
Proof. vm_compute. split; [reflexivity | discriminate]. Qed.

(* regression (C17-h, repaired by d1fa493): an inheritance edge and an association edge between the same ordered pair
   (Parent.favourite : Optional["Child"], Child(Parent)).  parent_map as it was read get_edge_data(u, v) for every entry of
   edge_list(), which is the most recently added of the parallel edges - the association - so the inheritance edge was never
   seen; now the ancestors query answers what the inheritance edges say *)
Definition parallel_graph : graph :=
  mk_graph [1; 2]%positive [mk_edge EInh 1 2 1; mk_edge EAssoc 1 2 5; mk_edge EAssoc 2 2 5]%positive.
Lemma parallel_ancestors_regression :
  all_ancestors_old parallel_graph 2%positive = [] /\ true_ancestors parallel_graph 2%positive = [1%positive]
  /\ answer parallel_graph (QAncestors 2%positive) = spec_ancestors_sx parallel_graph 2%positive.
Proof. repeat split; vm_compute; reflexivity. Qed.

(* since d1fa493 the ancestors query answers exactly what the inheritance edges say, for every graph *)
Lemma parents_inh es c : parents es c = inh_parents es c.
Proof.
  unfold parents, inh_parents. induction es as [|e es IH]; simpl; auto.
  destruct (is_inh e && Pos.eqb (e_dst e) c); simpl; now rewrite IH.
Qed.
Lemma closure_inh fuel es : forall frontier seen, closure parents fuel es frontier seen = inh_closure fuel es frontier seen.
Proof.
  induction fuel as [|k IH]; simpl; intros frontier seen; auto.
  rewrite (flat_map_ext (parents es) (inh_parents es) (parents_inh es)).
  destruct (dedup (flat_map (inh_parents es) frontier) seen); auto.
Qed.
Theorem ancestors_correct g c : answer g (QAncestors c) = spec_ancestors_sx g c.
Proof.
  unfold spec_ancestors_sx, true_ancestors. cbn [answer]. unfold all_ancestors.
  now rewrite parents_inh, closure_inh.
Qed.
