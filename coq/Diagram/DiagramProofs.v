(* Diagram/DiagramProofs.v -- the model of ClassDiagram.__post_init__ (Diagram/Diagram.v, over the translated
   type_endpoint of Gen/FieldKind.v) builds exactly the nodes and edges of the Spec (Diagram/DiagramSpec.v). *)
From Coq Require Import List Bool PArith Lia Permutation.
From Krrood Require Import Base.Sx Diagram.Ty Diagram.FieldKindSpec Diagram.DiagramSpec Gen.FieldKind
  Diagram.FieldKindProofs Diagram.Diagram.
Import ListNotations.

(* ------------------------------------------------------------------ small facts *)
Lemma mem_In c l : mem c l = true <-> In c l.
Proof.
  unfold mem. rewrite existsb_exists. split.
  - intros [x [H1 H2]]. apply Pos.eqb_eq in H2. now subst.
  - intro H. exists c. split; auto. apply Pos.eqb_refl.
Qed.
Lemma mem_false c l : mem c l = false <-> ~ In c l.
Proof. rewrite <- mem_In. destruct (mem c l); split; congruence. Qed.
Lemma nodupb_NoDup l : nodupb l = true -> NoDup l.
Proof.
  induction l as [|c l IH]; simpl; intro H; [constructor|].
  apply andb_true_iff in H as [H1 H2]. constructor; auto.
  apply negb_true_iff in H1. now apply mem_false.
Qed.

Lemma mconcat_ok {A B} (f : A -> res (list B)) (g : A -> list B) l :
  (forall x, In x l -> f x = Ok (g x)) -> mconcat f l = Ok (flat_map g l).
Proof.
  induction l as [|x l IH]; simpl; intro H; auto.
  rewrite (H x) by auto. simpl. rewrite IH by auto. reflexivity.
Qed.


Lemma NoDup_app_intro {A} (l1 l2 : list A) :
  NoDup l1 -> NoDup l2 -> (forall e, In e l1 -> In e l2 -> False) -> NoDup (l1 ++ l2).
Proof.
  induction l1 as [|a l1 IH]; simpl; intros H1 H2 H; auto.
  inversion H1; subst. constructor.
  - rewrite in_app_iff. intros [Ha|Ha]; eauto.
  - apply IH; eauto.
Qed.

Lemma NoDup_flat_map {A B} (g : A -> list B) l :
  NoDup l -> (forall x, In x l -> NoDup (g x)) ->
  (forall x y e, In x l -> In y l -> x <> y -> In e (g x) -> In e (g y) -> False) ->
  NoDup (flat_map g l).
Proof.
  induction l as [|x l IH]; simpl; intros Hl Hg Hd; [constructor|].
  inversion Hl; subst. apply NoDup_app_intro; auto.
  - apply IH; eauto.
  - intros e He1 He2. apply in_flat_map in He2 as [y [Hy He]].
    apply (Hd x y e); auto. intro; subst; contradiction.
Qed.

(* ------------------------------------------------------------------ dict update of dataclass fields *)
Definition compat (l : list fdecl) : Prop := forall x y, In x l -> In y l -> f_name x = f_name y -> x = y.

Lemma upd_In fs f x : (forall g, In g fs -> f_name g = f_name f -> g = f) ->
  (In x (upd fs f) <-> In x fs \/ x = f).
Proof.
  induction fs as [|g fs IH]; simpl; intro H.
  - intuition.
  - destruct (Pos.eqb (f_name g) (f_name f)) eqn:E.
    + apply Pos.eqb_eq in E. assert (g = f) by auto. subst. simpl. intuition.
    + simpl. rewrite IH by auto. intuition.
Qed.
Lemma upd_names fs f n : In n (map f_name (upd fs f)) <-> In n (map f_name fs) \/ n = f_name f.
Proof.
  induction fs as [|g fs IH]; simpl.
  - intuition.
  - destruct (Pos.eqb (f_name g) (f_name f)) eqn:E; simpl.
    + apply Pos.eqb_eq in E. rewrite E. intuition.
    + rewrite IH. intuition.
Qed.
Lemma upd_NoDup fs f : NoDup (map f_name fs) -> NoDup (map f_name (upd fs f)).
Proof.
  induction fs as [|g fs IH]; simpl; intro H.
  - repeat constructor; auto.
  - inversion H; subst. destruct (Pos.eqb (f_name g) (f_name f)) eqn:E; simpl.
    + apply Pos.eqb_eq in E. rewrite <- E. constructor; auto.
    + constructor; auto. rewrite upd_names. intros [H'|H']; auto.
      apply Pos.eqb_neq in E. congruence.
Qed.
Lemma fold_upd_NoDup l acc : NoDup (map f_name acc) -> NoDup (map f_name (fold_left upd l acc)).
Proof. revert acc. induction l as [|f l IH]; simpl; intros acc H; auto. apply IH. now apply upd_NoDup. Qed.
Lemma fold_upd_In l : forall acc x, compat (acc ++ l) ->
  (In x (fold_left upd l acc) <-> In x acc \/ In x l).
Proof.
  induction l as [|f l IH]; simpl; intros acc x H.
  - intuition.
  - rewrite IH.
    + rewrite upd_In.
      * intuition.
      * intros g Hg Hn. apply H; auto; rewrite in_app_iff; simpl; auto.
    + intros a b Ha Hb. apply H.
      * rewrite in_app_iff in *. simpl. rewrite upd_In in Ha. intuition.
        intros g Hg Hn. apply H; auto; rewrite in_app_iff; simpl; auto.
      * rewrite in_app_iff in *. simpl. rewrite upd_In in Hb. intuition.
        intros g Hg Hn. apply H; auto; rewrite in_app_iff; simpl; auto.
Qed.

(* ------------------------------------------------------------------ program-level facts *)
Lemma lookup_tab_cons n v T c :
  lookup_tab ((n, v) :: T) c = if Pos.eqb n c then v else lookup_tab T c.
Proof. unfold lookup_tab. simpl. destruct (Pos.eqb n c); reflexivity. Qed.

Lemma wf_order_names earlier p : wf_order earlier p = true ->
  NoDup (names_of p) /\ forall c, In c (names_of p) -> ~ In c earlier.
Proof.
  revert earlier. induction p as [|d p IH]; simpl; intros earlier H.
  - split; [constructor | tauto].
  - repeat (apply andb_true_iff in H as [H ?]).
    destruct (IH _ H0) as [N1 N2]. apply negb_true_iff, mem_false in H.
    split.
    + constructor; auto. intro Hin. apply (N2 _ Hin). simpl; auto.
    + intros c [<-|Hc]; auto. intro Hin. apply (N2 _ Hc). simpl; auto.
Qed.

Section Prog.
  Variable p : prog.
  Hypothesis Hnames : NoDup (names_of p).
  Hypothesis Hcompat : compat (all_fields p).

  Lemma find_decl_In c d : find_decl p c = Some d <-> In d p /\ d_name d = c.
  Proof.
    unfold find_decl. split.
    - intro H. apply find_some in H as [H1 H2]. apply Pos.eqb_eq in H2. auto.
    - intros [H1 H2]. revert Hnames. unfold names_of. clear Hcompat.
      induction p as [|e q IH]; simpl in *; [tauto|].
      intro N. inversion N; subst. destruct H1 as [->|H1].
      + rewrite Pos.eqb_refl. reflexivity.
      + destruct (Pos.eqb (d_name e) (d_name d)) eqn:E.
        * apply Pos.eqb_eq in E. exfalso. apply H3. rewrite E. now apply in_map.
        * auto.
  Qed.

  Lemma decl_fields_all d x : In d p -> In x (d_fields d) -> In x (all_fields p).
  Proof. intros. unfold all_fields. apply in_flat_map. eauto. Qed.

  Lemma compat_sub l : (forall x, In x l -> In x (all_fields p)) -> compat l.
  Proof. intros H x y Hx Hy. apply Hcompat; auto. Qed.

  Lemma fold_bases_In T bs : forall acc x,
    (forall y, In y acc -> In y (all_fields p)) ->
    (forall b y, In y (lookup_tab T b) -> In y (all_fields p)) ->
    (In x (fold_left (fun acc b => fold_left upd (lookup_tab T b) acc) bs acc)
     <-> In x acc \/ exists b, In b bs /\ In x (lookup_tab T b)).
  Proof.
    induction bs as [|b bs IH]; simpl; intros acc x Ha HT.
    - split; [auto | intros [H|[b [[] _]]]; auto].
    - rewrite IH; auto.
      + rewrite fold_upd_In.
        * split.
          -- intros [[H|H]|[b' [H1 H2]]]; eauto.
          -- intros [H|[b' [[->|H1] H2]]]; eauto.
        * apply compat_sub. intros y Hy. apply in_app_iff in Hy as [Hy|Hy]; eauto.
      + intros y Hy. apply fold_upd_In in Hy.
        * destruct Hy; eauto.
        * apply compat_sub. intros z Hz. apply in_app_iff in Hz as [Hz|Hz]; eauto.
  Qed.

  Lemma class_fields_In T d x : In d p ->
    (forall b y, In y (lookup_tab T b) -> In y (all_fields p)) ->
    (In x (class_fields T d) <-> (exists b, In b (d_bases d) /\ In x (lookup_tab T b)) \/ In x (d_fields d)).
  Proof.
    intros Hd HT. unfold class_fields.
    assert (Hsub : forall y, In y (fold_left (fun acc b => fold_left upd (lookup_tab T b) acc) (rev (d_bases d)) []) -> In y (all_fields p)).
    { intros y Hy. apply fold_bases_In in Hy; auto; [|intros ? []].
      destruct Hy as [[]|[b [_ Hy]]]. eauto. }
    rewrite fold_upd_In.
    - rewrite fold_bases_In; auto; [|intros ? []].
      split.
      + intros [[[]|[b [H1 H2]]]|H]; auto. left. exists b. split; auto. now apply in_rev.
      + intros [[b [H1 H2]]|H]; auto. left. right. exists b. split; auto. now apply in_rev in H1.
    - apply compat_sub. intros y Hy. apply in_app_iff in Hy as [Hy|Hy]; auto.
      eapply decl_fields_all; eauto.
  Qed.

  Lemma class_fields_NoDup T d : NoDup (map f_name (class_fields T d)).
  Proof.
    unfold class_fields. apply fold_upd_NoDup.
    generalize (rev (d_bases d)). intro bs.
    assert (G : forall acc, NoDup (map f_name acc) ->
              NoDup (map f_name (fold_left (fun acc b => fold_left upd (lookup_tab T b) acc) bs acc))).
    { induction bs as [|b bs IH]; simpl; intros acc H; auto. apply IH. now apply fold_upd_NoDup. }
    apply G. constructor.
  Qed.

  (* direct bases and ancestors, through the unique declaration of a class *)
  Lemma direct_base_decl d b : In d p -> (direct_base p b (d_name d) <-> In b (d_bases d)).
  Proof.
    intro Hd. split.
    - intros [d' [H1 [H2 H3]]].
      assert (find_decl p (d_name d) = Some d') by (apply find_decl_In; auto).
      assert (find_decl p (d_name d) = Some d) by (apply find_decl_In; auto).
      congruence.
    - intro H. exists d. auto.
  Qed.

  Lemma ancestor_decl d a : In d p ->
    (ancestor p a (d_name d) <-> a = d_name d \/ exists b, In b (d_bases d) /\ ancestor p a b).
  Proof.
    intro Hd. split.
    - intro H. inversion H; subst; auto. right. exists b. split; auto. now apply direct_base_decl.
    - intros [->|[b [H1 H2]]]; [constructor|]. econstructor; eauto. now apply direct_base_decl.
  Qed.

  Lemma declares_decl d x : In d p -> (declares p (d_name d) x <-> In x (d_fields d)).
  Proof.
    intro Hd. split.
    - intros [d' [H1 [H2 H3]]].
      assert (find_decl p (d_name d) = Some d') by (apply find_decl_In; auto).
      assert (find_decl p (d_name d) = Some d) by (apply find_decl_In; auto).
      congruence.
    - intro H. exists d. auto.
  Qed.

  Lemma declares_all a x : declares p a x -> In x (all_fields p).
  Proof. intros [d [H1 [H2 H3]]]. eapply decl_fields_all; eauto. Qed.

  Definition tab_ok (T : table) (c : name) : Prop :=
    forall x, In x (lookup_tab T c) <-> exists a, ancestor p a c /\ declares p a x.

  (* the table of every class holds exactly the fields its ancestors (itself included) declare *)
  Lemma tabs_inv : forall suf pre T earlier,
    p = pre ++ suf ->
    (forall c, In c earlier <-> In c (names_of pre)) ->
    wf_order earlier suf = true ->
    (forall c, In c (names_of pre) -> tab_ok T c) ->
    (forall c, ~ In c (names_of pre) -> lookup_tab T c = []) ->
    forall c, In c (names_of p) -> tab_ok (tabs T suf) c.
  Proof.
    induction suf as [|d suf IH]; intros pre T earlier Hp He Hw HT HN c Hc.
    - simpl. apply HT. rewrite Hp, app_nil_r in Hc. exact Hc.
    - simpl. simpl in Hw. repeat (apply andb_true_iff in Hw as [Hw ?]).
      assert (Hd : In d p) by (rewrite Hp; apply in_app_iff; simpl; auto).
      assert (Hfresh : ~ In (d_name d) (names_of pre)).
      { apply negb_true_iff, mem_false in Hw. now rewrite <- He. }
      assert (Hbases : forall b, In b (d_bases d) -> In b (names_of pre)).
      { intros b Hb. apply He. rewrite forallb_forall in H2. apply mem_In. auto. }
      assert (HTall : forall b y, In y (lookup_tab T b) -> In y (all_fields p)).
      { intros b y Hy. destruct (in_dec Pos.eq_dec b (names_of pre)) as [Hb|Hb].
        - apply (HT b Hb) in Hy as [a [_ Hy]]. eapply declares_all; eauto.
        - rewrite (HN b Hb) in Hy. destruct Hy. }
      apply (IH (pre ++ [d]) _ (d_name d :: earlier)); auto.
      + rewrite Hp, <- app_assoc. reflexivity.
      + intro c'. unfold names_of. rewrite map_app, in_app_iff. simpl. rewrite He. unfold names_of. tauto.
      + intros c' Hc'. unfold names_of in Hc'. rewrite map_app, in_app_iff in Hc'. simpl in Hc'.
        unfold tab_ok. intro x. rewrite lookup_tab_cons.
        destruct (Pos.eqb (d_name d) c') eqn:E.
        * apply Pos.eqb_eq in E. subst c'.
          rewrite class_fields_In; auto. split.
          -- intros [[b [Hb Hx]]|Hx].
             ++ apply (HT b (Hbases b Hb)) in Hx as [a [Ha Hx]]. exists a. split; auto.
                apply ancestor_decl; eauto.
             ++ exists (d_name d). split; [constructor|]. now apply declares_decl.
          -- intros [a [Ha Hx]]. apply ancestor_decl in Ha; auto. destruct Ha as [->|[b [Hb Ha]]].
             ++ right. now apply declares_decl in Hx.
             ++ left. exists b. split; auto. apply (HT b (Hbases b Hb)). eauto.
        * apply Pos.eqb_neq in E. destruct Hc' as [Hc'|[Hc'|[]]]; [|congruence]. now apply HT.
      + intros c' Hc'. unfold names_of in Hc'. rewrite map_app, in_app_iff in Hc'. simpl in Hc'.
        rewrite lookup_tab_cons. destruct (Pos.eqb (d_name d) c') eqn:E.
        * apply Pos.eqb_eq in E. tauto.
        * apply HN. tauto.
  Qed.
End Prog.

(* ------------------------------------------------------------------ one field *)
Definition target (t : ty) : option name :=
  match seen_through t with Cls c | Enum c | Fwd c => Some c | _ => None end.

Lemma about_target t d : about t d = true <-> target t = Some d.
Proof.
  unfold about, target. destruct (seen_through t); try (split; discriminate);
    rewrite Pos.eqb_eq; split; congruence.
Qed.

Definition field_edges (ns : list name) (c : name) (x : fdecl) : list edge :=
  match target (f_ann x) with
  | Some d => if mem d ns then [mk_edge EAssoc c d (f_name x)] else []
  | None => []
  end.

Lemma field_edge_ok p ns c x : wf_ann (f_ann x) = true -> leaf_ok p (f_ann x) = true ->
  field_edge p ns c x = Ok (field_edges ns c x).
Proof.
  destruct x as [n pr t d df]. unfold field_edge, field_edges, target. cbn [f_ann f_name f_default f_factory].
  intros W L.
  destruct t as [b|c'|e|a|k a|a|n'|a|a|k v|o|]; try discriminate W;
    try (destruct b; try discriminate W; reflexivity);
    try reflexivity;
    try (unfold leaf_ok in L; cbn in L; cbn; unfold resolve_name;
         destruct (find_decl p n') as [d'|]; try discriminate L; destruct (d_kind d'); reflexivity);
    destruct a as [b|c'|e|a|k' a|a|n'|a|a|k' v|o|]; try discriminate W;
    try (destruct b; try discriminate W); try (destruct k); try reflexivity;
    unfold leaf_ok in L; cbn in L; cbn; unfold resolve_name;
    destruct (find_decl p n') as [d'|]; try discriminate L; destruct (d_kind d'); reflexivity.
Qed.
