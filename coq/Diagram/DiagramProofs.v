(* Diagram/DiagramProofs.v -- the model of ClassDiagram.__post_init__ (Diagram/Diagram.v, over the translated
   type_endpoint of Gen/FieldKind.v) builds exactly the nodes and edges of the Spec (Diagram/DiagramSpec.v). *)
From Coq Require Import List Bool PArith Lia Permutation.
From Krrood Require Import Base.Sx Diagram.Ty Diagram.FieldKindSpec Diagram.DiagramSpec Gen.FieldKind
  Diagram.FieldKindProofs Diagram.Diagram.
Import ListNotations.

(* ------------------------------------------------------------------ small facts *)
Lemma mem_In c l : mem c l = true <-> In c l.
Proof.
  unfold mem. rewrite existsb_exists. split.
  - intros [x [H1 H2]]. apply Pos.eqb_eq in H2. now subst.
  - intro H. exists c. split; auto. apply Pos.eqb_refl.
Qed.
Lemma mem_false c l : mem c l = false <-> ~ In c l.
Proof. rewrite <- mem_In. destruct (mem c l); split; congruence. Qed.
Lemma nodupb_NoDup l : nodupb l = true -> NoDup l.
Proof.
  induction l as [|c l IH]; simpl; intro H; [constructor|].
  apply andb_true_iff in H as [H1 H2]. constructor; auto.
  apply negb_true_iff in H1. now apply mem_false.
Qed.

Lemma mconcat_ok {A B} (f : A -> res (list B)) (g : A -> list B) l :
  (forall x, In x l -> f x = Ok (g x)) -> mconcat f l = Ok (flat_map g l).
Proof.
  induction l as [|x l IH]; simpl; intro H; auto.
  rewrite (H x) by auto. simpl. rewrite IH by auto. reflexivity.
Qed.


Lemma NoDup_app_intro {A} (l1 l2 : list A) :
  NoDup l1 -> NoDup l2 -> (forall e, In e l1 -> In e l2 -> False) -> NoDup (l1 ++ l2).
Proof.
  induction l1 as [|a l1 IH]; simpl; intros H1 H2 H; auto.
  inversion H1; subst. constructor.
  - rewrite in_app_iff. intros [Ha|Ha]; eauto.
  - apply IH; eauto.
Qed.

Lemma NoDup_flat_map {A B} (g : A -> list B) l :
  NoDup l -> (forall x, In x l -> NoDup (g x)) ->
  (forall x y e, In x l -> In y l -> x <> y -> In e (g x) -> In e (g y) -> False) ->
  NoDup (flat_map g l).
Proof.
  induction l as [|x l IH]; simpl; intros Hl Hg Hd; [constructor|].
  inversion Hl; subst. apply NoDup_app_intro; auto.
  - apply IH; eauto.
  - intros e He1 He2. apply in_flat_map in He2 as [y [Hy He]].
    apply (Hd x y e); auto. intro; subst; contradiction.
Qed.

(* ------------------------------------------------------------------ dedup and reorder *)
Lemma dedup_In l : forall seen c, In c (dedup l seen) <-> In c l /\ ~ In c seen.
Proof.
  induction l as [|x l IH]; simpl; intros seen c; [tauto|].
  destruct (mem x seen) eqn:M.
  - apply mem_In in M. rewrite IH. split; [tauto|]. intros [[->|H] Hn]; tauto.
  - apply mem_false in M. simpl. rewrite IH. simpl. split.
    + intros [->|[H1 H2]]; [tauto|]. split; [tauto|]. intro; apply H2; auto.
    + intros [[->|H1] H2]; [tauto|]. destruct (Pos.eq_dec x c) as [->|Hne]; [tauto|].
      right. split; auto. intros [->|H3]; tauto.
Qed.
Lemma dedup_NoDup l : forall seen, NoDup (dedup l seen).
Proof.
  induction l as [|x l IH]; simpl; intro seen; [constructor|].
  destruct (mem x seen); auto. constructor; auto.
  rewrite dedup_In. intros [_ H]. apply H. simpl; auto.
Qed.
Lemma NoDup_filter {A} (f : A -> bool) l : NoDup l -> NoDup (filter f l).
Proof.
  induction l as [|x l IH]; simpl; intro N; [constructor|]. inversion N; subst.
  destruct (f x); auto. constructor; auto. intro H. apply filter_In in H as [H _]. contradiction.
Qed.
Lemma NoDup_map_inj {A B} (f : A -> B) l : NoDup l -> (forall x y, In x l -> In y l -> f x = f y -> x = y) -> NoDup (map f l).
Proof.
  induction l as [|a l IH]; simpl; intros N H; [constructor|]. inversion N; subst. constructor.
  - intro Hin. apply in_map_iff in Hin as [y [Hy1 Hy2]]. assert (y = a) by (apply H; auto). subst. contradiction.
  - apply IH; auto.
Qed.
Lemma reorder_In ord l x : In x (reorder ord l) <-> In x l.
Proof.
  unfold reorder. rewrite in_app_iff, in_flat_map. split.
  - intros [[n [_ H]]|H]; apply filter_In in H; tauto.
  - intro H. destruct (mem (f_name x) ord) eqn:M.
    + left. exists (f_name x). split.
      * apply dedup_In. split; [now apply mem_In | tauto].
      * apply filter_In. split; auto. apply Pos.eqb_refl.
    + right. apply filter_In. rewrite M. auto.
Qed.

(* ------------------------------------------------------------------ dict update of dataclass fields *)
Definition compat (l : list fdecl) : Prop := forall x y, In x l -> In y l -> f_name x = f_name y -> x = y.

Lemma upd_In fs f x : (forall g, In g fs -> f_name g = f_name f -> g = f) ->
  (In x (upd fs f) <-> In x fs \/ x = f).
Proof.
  induction fs as [|g fs IH]; simpl; intro H.
  - intuition.
  - destruct (Pos.eqb (f_name g) (f_name f)) eqn:E.
    + apply Pos.eqb_eq in E. assert (g = f) by auto. subst. simpl. intuition.
    + simpl. rewrite IH by auto. intuition.
Qed.
Lemma upd_names fs f n : In n (map f_name (upd fs f)) <-> In n (map f_name fs) \/ n = f_name f.
Proof.
  induction fs as [|g fs IH]; simpl.
  - intuition.
  - destruct (Pos.eqb (f_name g) (f_name f)) eqn:E; simpl.
    + apply Pos.eqb_eq in E. rewrite E. intuition.
    + rewrite IH. intuition.
Qed.
Lemma upd_NoDup fs f : NoDup (map f_name fs) -> NoDup (map f_name (upd fs f)).
Proof.
  induction fs as [|g fs IH]; simpl; intro H.
  - repeat constructor; auto.
  - inversion H; subst. destruct (Pos.eqb (f_name g) (f_name f)) eqn:E; simpl.
    + apply Pos.eqb_eq in E. rewrite <- E. constructor; auto.
    + constructor; auto. rewrite upd_names. intros [H'|H']; auto.
      apply Pos.eqb_neq in E. congruence.
Qed.
Lemma fold_upd_NoDup l acc : NoDup (map f_name acc) -> NoDup (map f_name (fold_left upd l acc)).
Proof. revert acc. induction l as [|f l IH]; simpl; intros acc H; auto. apply IH. now apply upd_NoDup. Qed.
Lemma fold_upd_In l : forall acc x, compat (acc ++ l) ->
  (In x (fold_left upd l acc) <-> In x acc \/ In x l).
Proof.
  induction l as [|f l IH]; simpl; intros acc x H.
  - intuition.
  - rewrite IH.
    + rewrite upd_In.
      * intuition.
      * intros g Hg Hn. apply H; auto; rewrite in_app_iff; simpl; auto.
    + intros a b Ha Hb. apply H.
      * rewrite in_app_iff in *. simpl. rewrite upd_In in Ha. intuition.
        intros g Hg Hn. apply H; auto; rewrite in_app_iff; simpl; auto.
      * rewrite in_app_iff in *. simpl. rewrite upd_In in Hb. intuition.
        intros g Hg Hn. apply H; auto; rewrite in_app_iff; simpl; auto.
Qed.

(* ------------------------------------------------------------------ program-level facts *)
Lemma lookup_tab_cons n v T c :
  lookup_tab ((n, v) :: T) c = if Pos.eqb n c then v else lookup_tab T c.
Proof. unfold lookup_tab. simpl. destruct (Pos.eqb n c); reflexivity. Qed.

Lemma wf_order_names earlier p : wf_order earlier p = true ->
  NoDup (names_of p) /\ forall c, In c (names_of p) -> ~ In c earlier.
Proof.
  revert earlier. induction p as [|d p IH]; simpl; intros earlier H.
  - split; [constructor | tauto].
  - repeat (apply andb_true_iff in H as [H ?]).
    destruct (IH _ H0) as [N1 N2]. apply negb_true_iff, mem_false in H.
    split.
    + constructor; auto. intro Hin. apply (N2 _ Hin). simpl; auto.
    + intros c [<-|Hc]; auto. intro Hin. apply (N2 _ Hc). simpl; auto.
Qed.

Section Prog.
  Variable p : prog.
  Hypothesis Hnames : NoDup (names_of p).
  Hypothesis Hcompat : compat (all_fields p).

  Lemma find_decl_In c d : find_decl p c = Some d <-> In d p /\ d_name d = c.
  Proof.
    unfold find_decl. split.
    - intro H. apply find_some in H as [H1 H2]. apply Pos.eqb_eq in H2. auto.
    - intros [H1 H2]. revert Hnames. unfold names_of. clear Hcompat.
      induction p as [|e q IH]; simpl in *; [tauto|].
      intro N. inversion N; subst. destruct H1 as [->|H1].
      + rewrite Pos.eqb_refl. reflexivity.
      + destruct (Pos.eqb (d_name e) (d_name d)) eqn:E.
        * apply Pos.eqb_eq in E. exfalso. apply H3. rewrite E. now apply in_map.
        * auto.
  Qed.

  Lemma decl_fields_all d x : In d p -> In x (d_fields d) -> In x (all_fields p).
  Proof. intros. unfold all_fields. apply in_flat_map. eauto. Qed.

  Lemma compat_sub l : (forall x, In x l -> In x (all_fields p)) -> compat l.
  Proof. intros H x y Hx Hy. apply Hcompat; auto. Qed.

  Lemma fold_bases_In T bs : forall acc x,
    (forall y, In y acc -> In y (all_fields p)) ->
    (forall b y, In y (lookup_tab T b) -> In y (all_fields p)) ->
    (In x (fold_left (fun acc b => fold_left upd (lookup_tab T b) acc) bs acc)
     <-> In x acc \/ exists b, In b bs /\ In x (lookup_tab T b)).
  Proof.
    induction bs as [|b bs IH]; simpl; intros acc x Ha HT.
    - split; [auto | intros [H|[b [[] _]]]; auto].
    - rewrite IH; auto.
      + rewrite fold_upd_In.
        * split.
          -- intros [[H|H]|[b' [H1 H2]]]; eauto.
          -- intros [H|[b' [[->|H1] H2]]]; eauto.
        * apply compat_sub. intros y Hy. apply in_app_iff in Hy as [Hy|Hy]; eauto.
      + intros y Hy. apply fold_upd_In in Hy.
        * destruct Hy; eauto.
        * apply compat_sub. intros z Hz. apply in_app_iff in Hz as [Hz|Hz]; eauto.
  Qed.

  Lemma class_fields_In T d x : In d p ->
    (forall b y, In y (lookup_tab T b) -> In y (all_fields p)) ->
    (In x (class_fields T d) <-> (exists b, In b (d_bases d) /\ In x (lookup_tab T b)) \/ In x (d_fields d)).
  Proof.
    intros Hd HT. unfold class_fields.
    assert (Hsub : forall y, In y (fold_left (fun acc b => fold_left upd (lookup_tab T b) acc) (rev (d_bases d)) []) -> In y (all_fields p)).
    { intros y Hy. apply fold_bases_In in Hy; auto; [|intros ? []].
      destruct Hy as [[]|[b [_ Hy]]]. eauto. }
    rewrite fold_upd_In.
    - rewrite fold_bases_In; auto; [|intros ? []].
      split.
      + intros [[[]|[b [H1 H2]]]|H]; auto. left. exists b. split; auto. now apply in_rev.
      + intros [[b [H1 H2]]|H]; auto. left. right. exists b. split; auto. now apply in_rev in H1.
    - apply compat_sub. intros y Hy. apply in_app_iff in Hy as [Hy|Hy]; auto.
      eapply decl_fields_all; eauto.
  Qed.

  Lemma class_fields_NoDup T d : NoDup (map f_name (class_fields T d)).
  Proof.
    unfold class_fields. apply fold_upd_NoDup.
    generalize (rev (d_bases d)). intro bs.
    assert (G : forall acc, NoDup (map f_name acc) ->
              NoDup (map f_name (fold_left (fun acc b => fold_left upd (lookup_tab T b) acc) bs acc))).
    { induction bs as [|b bs IH]; simpl; intros acc H; auto. apply IH. now apply fold_upd_NoDup. }
    apply G. constructor.
  Qed.

  (* direct bases and ancestors, through the unique declaration of a class *)
  Lemma direct_base_decl d b : In d p -> (direct_base p b (d_name d) <-> In b (d_bases d)).
  Proof.
    intro Hd. split.
    - intros [d' [H1 [H2 H3]]].
      assert (find_decl p (d_name d) = Some d') by (apply find_decl_In; auto).
      assert (find_decl p (d_name d) = Some d) by (apply find_decl_In; auto).
      congruence.
    - intro H. exists d. auto.
  Qed.

  Lemma ancestor_decl d a : In d p ->
    (ancestor p a (d_name d) <-> a = d_name d \/ exists b, In b (d_bases d) /\ ancestor p a b).
  Proof.
    intro Hd. split.
    - intro H. inversion H; subst; auto. right. exists b. split; auto. now apply direct_base_decl.
    - intros [->|[b [H1 H2]]]; [constructor|]. econstructor; eauto. now apply direct_base_decl.
  Qed.

  Lemma declares_decl d x : In d p -> (declares p (d_name d) x <-> In x (d_fields d)).
  Proof.
    intro Hd. split.
    - intros [d' [H1 [H2 H3]]].
      assert (find_decl p (d_name d) = Some d') by (apply find_decl_In; auto).
      assert (find_decl p (d_name d) = Some d) by (apply find_decl_In; auto).
      congruence.
    - intro H. exists d. auto.
  Qed.

  Lemma declares_all a x : declares p a x -> In x (all_fields p).
  Proof. intros [d [H1 [H2 H3]]]. eapply decl_fields_all; eauto. Qed.

  Definition tab_ok (T : table) (c : name) : Prop :=
    forall x, In x (lookup_tab T c) <-> exists a, ancestor p a c /\ declares p a x.

  (* the table of every class holds exactly the fields its ancestors (itself included) declare *)
  Lemma tabs_inv : forall suf pre T earlier,
    p = pre ++ suf ->
    (forall c, In c earlier <-> In c (names_of pre)) ->
    wf_order earlier suf = true ->
    (forall c, In c (names_of pre) -> tab_ok T c) ->
    (forall c, ~ In c (names_of pre) -> lookup_tab T c = []) ->
    forall c, In c (names_of p) -> tab_ok (tabs_in p T suf) c.
  Proof.
    induction suf as [|d suf IH]; intros pre T earlier Hp He Hw HT HN c Hc.
    - simpl. apply HT. rewrite Hp, app_nil_r in Hc. exact Hc.
    - simpl. simpl in Hw. repeat (apply andb_true_iff in Hw as [Hw ?]).
      assert (Hd : In d p) by (rewrite Hp; apply in_app_iff; simpl; auto).
      assert (Hfresh : ~ In (d_name d) (names_of pre)).
      { apply negb_true_iff, mem_false in Hw. now rewrite <- He. }
      assert (Hbases : forall b, In b (d_bases d) -> In b (names_of pre)).
      { intros b Hb. apply He. rewrite forallb_forall in H2. apply mem_In. auto. }
      assert (HTall : forall b y, In y (lookup_tab T b) -> In y (all_fields p)).
      { intros b y Hy. destruct (in_dec Pos.eq_dec b (names_of pre)) as [Hb|Hb].
        - apply (HT b Hb) in Hy as [a [_ Hy]]. eapply declares_all; eauto.
        - rewrite (HN b Hb) in Hy. destruct Hy. }
      apply (IH (pre ++ [d]) _ (d_name d :: earlier)); auto.
      + rewrite Hp, <- app_assoc. reflexivity.
      + intro c'. unfold names_of. rewrite map_app, in_app_iff. simpl. rewrite He. unfold names_of. tauto.
      + intros c' Hc'. unfold names_of in Hc'. rewrite map_app, in_app_iff in Hc'. simpl in Hc'.
        unfold tab_ok. intro x. rewrite lookup_tab_cons.
        destruct (Pos.eqb (d_name d) c') eqn:E.
        * apply Pos.eqb_eq in E. subst c'.
          rewrite reorder_In, class_fields_In; auto. split.
          -- intros [[b [Hb Hx]]|Hx].
             ++ apply (HT b (Hbases b Hb)) in Hx as [a [Ha Hx]]. exists a. split; auto.
                apply ancestor_decl; eauto.
             ++ exists (d_name d). split; [constructor|]. now apply declares_decl.
          -- intros [a [Ha Hx]]. apply ancestor_decl in Ha; auto. destruct Ha as [->|[b [Hb Ha]]].
             ++ right. now apply declares_decl in Hx.
             ++ left. exists b. split; auto. apply (HT b (Hbases b Hb)). eauto.
        * apply Pos.eqb_neq in E. destruct Hc' as [Hc'|[Hc'|[]]]; [|congruence]. now apply HT.
      + intros c' Hc'. unfold names_of in Hc'. rewrite map_app, in_app_iff in Hc'. simpl in Hc'.
        rewrite lookup_tab_cons. destruct (Pos.eqb (d_name d) c') eqn:E.
        * apply Pos.eqb_eq in E. tauto.
        * apply HN. tauto.
  Qed.
End Prog.

(* ------------------------------------------------------------------ one field *)
Definition target (t : ty) : option name :=
  match seen_through t with Cls c | Enum c | Fwd c | FwdLocal c => Some c | _ => None end.

Lemma about_target t d : about t d = true <-> target t = Some d.
Proof.
  unfold about, target. destruct (seen_through t); try (split; discriminate);
    rewrite Pos.eqb_eq; split; congruence.
Qed.

Definition field_edges (ns : list name) (c : name) (x : fdecl) : list edge :=
  match target (f_ann x) with
  | Some d => if mem d ns then [mk_edge EAssoc c d (f_name x)] else []
  | None => []
  end.

Lemma resolve_ext p ns sh t : (forall n, sh n = n) -> resolve p ns sh t = resolve p ns (fun n => n) t.
Proof.
  intro H. induction t; simpl; try reflexivity; try (rewrite IHt; reflexivity).
  - now rewrite H.
  - rewrite IHt1, IHt2. reflexivity.
  - rewrite IHt1, IHt2. reflexivity.
Qed.

(* a forward reference to a local class is found in the diagram, under its own name *)
Definition locals_res (p : prog) (ns : list name) (t : ty) : Prop :=
  match seen_through t with FwdLocal n => diagram_lookup p ns n = Some n | _ => True end.

Lemma field_edge_ok p ns c x : wf_ann (f_ann x) = true -> leaf_ok p (f_ann x) = true -> locals_res p ns (f_ann x) ->
  field_edge_with p ns (fun n => n) c x = Ok (field_edges ns c x).
Proof.
  destruct x as [n pr t d df]. unfold field_edge_with, field_edges, target, locals_res. cbn [f_ann f_name f_default f_factory].
  intros W L Hl.
  destruct t as [b|c'|e|a|k a|a|n'|a|a|k v|o| |n'|pp u1 u2]; try discriminate W;
    try (destruct b; try discriminate W; reflexivity);
    try reflexivity;
    try (unfold leaf_ok in L; cbn in L; cbn in Hl; cbn; try rewrite Hl; unfold resolve_name;
         destruct (find_decl p n') as [d'|]; try discriminate L; destruct (d_kind d'); cbn; try rewrite Hl; reflexivity);
    destruct a as [b|c'|e|a|k' a|a|n'|a|a|k' v|o| |n'|pp u1 u2]; try discriminate W;
    try (destruct b; try discriminate W); try (destruct k); try reflexivity;
    unfold leaf_ok in L; cbn in L; cbn in Hl; cbn; try rewrite Hl; unfold resolve_name;
    destruct (find_decl p n') as [d'|]; try discriminate L; destruct (d_kind d'); cbn; try rewrite Hl; reflexivity.
Qed.

Lemma resolve_ok p ns t : wf_ann t = true -> leaf_ok p t = true -> locals_res p ns t ->
  exists rt, resolve p ns (fun n => n) t = Ok rt.
Proof.
  unfold locals_res. intros W L Hl.
  destruct t as [b|c'|e|a|k a|a|n'|a|a|k v|o| |n'|pp u1 u2]; try discriminate W;
    try (eexists; reflexivity);
    try (unfold leaf_ok in L; cbn in L; cbn in Hl; cbn; try rewrite Hl; unfold resolve_name;
         destruct (find_decl p n') as [d'|]; try discriminate L; eexists; reflexivity);
    destruct a as [b|c'|e|a|k' a|a|n'|a|a|k' v|o| |n'|pp u1 u2]; try discriminate W;
    try (eexists; reflexivity);
    unfold leaf_ok in L; cbn in L; cbn in Hl; cbn; try rewrite Hl; unfold resolve_name;
    destruct (find_decl p n') as [d'|]; try discriminate L; eexists; reflexivity.
Qed.

Lemma mcheck_ok {A B} (f : A -> res B) l : (forall x, In x l -> exists y, f x = Ok y) -> mcheck f l = Ok tt.
Proof.
  induction l as [|x l IH]; simpl; intro H; auto.
  destruct (H x) as [y Hy]; auto. rewrite Hy. simpl. apply IH. auto.
Qed.

(* ------------------------------------------------------------------ assembling the diagram *)
Lemma NoDup_map_compat {A B} (f : A -> B) l :
  NoDup (map f l) -> forall x y, In x l -> In y l -> f x = f y -> x = y.
Proof.
  induction l as [|a l IH]; simpl; intros N x y Hx Hy E; [tauto|].
  inversion N; subst. destruct Hx as [->|Hx], Hy as [->|Hy]; auto.
  - exfalso. apply H1. rewrite E. now apply in_map.
  - exfalso. apply H1. rewrite <- E. now apply in_map.
Qed.
Lemma NoDup_map_NoDup {A B} (f : A -> B) l : NoDup (map f l) -> NoDup l.
Proof.
  induction l as [|a l IH]; simpl; intro N; [constructor|].
  inversion N; subst. constructor; auto. intro H. apply H1. now apply in_map.
Qed.

Lemma reorder_NoDup ord l : NoDup (map f_name l) -> NoDup (map f_name (reorder ord l)).
Proof.
  intro N. assert (Nl : NoDup l) by (eapply NoDup_map_NoDup; eauto).
  apply NoDup_map_inj.
  - unfold reorder. apply NoDup_app_intro.
    + apply NoDup_flat_map.
      * apply dedup_NoDup.
      * intros n _. now apply NoDup_filter.
      * intros n m e _ _ Hne H1 H2. apply filter_In in H1 as [_ H1]. apply filter_In in H2 as [_ H2].
        apply Pos.eqb_eq in H1. apply Pos.eqb_eq in H2. congruence.
    + now apply NoDup_filter.
    + intros e H1 H2. apply in_flat_map in H1 as [n [Hn H1]]. apply filter_In in H1 as [_ H1]. apply Pos.eqb_eq in H1.
      apply filter_In in H2 as [_ H2]. apply negb_true_iff, mem_false in H2. apply H2. rewrite H1.
      apply dedup_In in Hn. tauto.
  - intros x y Hx Hy E. apply reorder_In in Hx. apply reorder_In in Hy. exact (NoDup_map_compat f_name l N x y Hx Hy E).
Qed.

Lemma tabs_NoDup p0 suf : forall T, (forall c, NoDup (map f_name (lookup_tab T c))) ->
  forall c, NoDup (map f_name (lookup_tab (tabs_in p0 T suf) c)).
Proof.
  induction suf as [|d suf IH]; simpl; intros T H c; auto.
  apply IH. intro c'. rewrite lookup_tab_cons. destruct (Pos.eqb (d_name d) c'); auto.
  apply reorder_NoDup, class_fields_NoDup.
Qed.

Lemma wf_order_bases earlier p : wf_order earlier p = true -> forall d, In d p -> NoDup (d_bases d).
Proof.
  revert earlier. induction p as [|e p IH]; simpl; intros earlier H d Hd; [tauto|].
  repeat (apply andb_true_iff in H as [H ?]).
  destruct Hd as [->|Hd]; eauto. now apply nodupb_NoDup.
Qed.

Section Build.
  Variable p : prog.
  Hypothesis Hwf : wf_prog p = true.

  Let Hparts : wf_order [] p = true /\ nodupb (map f_name (all_fields p)) = true
               /\ forallb (fun f => wf_field f && leaf_ok p (f_ann f)) (all_fields p) = true.
  Proof.
    pose proof Hwf as H. unfold wf_prog in H. repeat (apply andb_true_iff in H as [H ?]). auto.
  Qed.
  Let Hnames : NoDup (names_of p).
  Proof. destruct Hparts as [H _]. now apply wf_order_names in H. Qed.
  Let Hcompat : compat (all_fields p).
  Proof.
    destruct Hparts as [_ [H _]]. apply nodupb_NoDup in H. intros x y. now apply NoDup_map_compat.
  Qed.

  Lemma tab_correct c : In c (names_of p) -> tab_ok p (tab p) c.
  Proof.
    intro Hc. unfold tab. apply (tabs_inv p Hnames Hcompat p [] [] []); auto.
    - simpl. tauto.
    - apply Hparts.
    - simpl. tauto.
  Qed.

  Lemma direct_base_bases b c : direct_base p b c <-> In b (bases_of p c).
  Proof.
    unfold bases_of. destruct (find_decl p c) as [d|] eqn:E.
    - apply find_decl_In in E as [E1 E2]; auto. subst c. now apply direct_base_decl.
    - split; [|intros []]. intros [d [H1 [H2 H3]]].
      assert (find_decl p c = Some d) by (apply find_decl_In; auto). congruence.
  Qed.

  Lemma bases_NoDup c : NoDup (bases_of p c).
  Proof.
    unfold bases_of. destruct (find_decl p c) as [d|] eqn:E; [|constructor].
    apply find_decl_In in E as [E1 E2]; auto. destruct Hparts as [H _]. eapply wf_order_bases; eauto.
  Qed.

  Variable cs : list name.
  Hypothesis Hcs : wf_classes p cs = true.

  Let Hcs_nodup : NoDup cs.
  Proof. pose proof Hcs as H0. unfold wf_classes in H0. repeat (apply andb_true_iff in H0 as [H0 ?]). now apply nodupb_NoDup. Qed.
  Let Hcs_decl : forall c, In c cs -> In c (names_of p).
  Proof.
    pose proof Hcs as H0. unfold wf_classes in H0. repeat (apply andb_true_iff in H0 as [H0 ?]). rename H into Hf. pose proof Hf as H. rewrite forallb_forall in H.
    intros c Hc. specialize (H c Hc). destruct (find_decl p c) as [d|] eqn:E; [|discriminate].
    apply find_decl_In in E as [E1 E2]; auto. subst c. now apply in_map.
  Qed.

  Definition assoc_list : list edge :=
    flat_map (fun c => flat_map (field_edges cs c) (public_fields (tab p) c)) cs.

  Lemma public_fields_In c x : In c cs ->
    (In x (public_fields (tab p) c) <-> f_private x = false /\ exists a, ancestor p a c /\ declares p a x).
  Proof.
    intro Hc. unfold public_fields. rewrite filter_In, negb_true_iff.
    rewrite (tab_correct c (Hcs_decl c Hc) x). tauto.
  Qed.

  Lemma unique_py_spec h : unique_py p h = true ->
    forall d, In d p -> d_pyname d = pyname_of p h -> d_name d = h.
  Proof.
    unfold unique_py. rewrite forallb_forall. intros H d Hd E. specialize (H d Hd).
    apply orb_true_iff in H as [H|H].
    - apply negb_true_iff, Pos.eqb_neq in H. contradiction.
    - now apply Pos.eqb_eq.
  Qed.

  (* a name with a unique __name__ that is looked up among the diagram's classes: only itself can be found *)
  Lemma lookup_unique h m : unique_py p h = true -> diagram_lookup p cs h = Some m -> m = h.
  Proof.
    intros U. unfold diagram_lookup.
    destruct (rev (filter (fun m0 => Pos.eqb (pyname_of p m0) (pyname_of p h)) cs)) as [|m' r] eqn:E; [discriminate|].
    intro H. injection H as <-.
    assert (Hin : In m' (filter (fun m0 => Pos.eqb (pyname_of p m0) (pyname_of p h)) cs)) by (apply in_rev; rewrite E; simpl; auto).
    apply filter_In in Hin as [Hc Hp]. apply Pos.eqb_eq in Hp.
    apply Hcs_decl in Hc. unfold names_of in Hc. apply in_map_iff in Hc as [d [Hd1 Hd2]].
    assert (F : find_decl p m' = Some d) by (apply find_decl_In; auto).
    unfold pyname_of in Hp at 1. rewrite F in Hp. rewrite <- Hd1. now apply (unique_py_spec h U d).
  Qed.
  Lemma lookup_self h : unique_py p h = true -> In h cs -> diagram_lookup p cs h = Some h.
  Proof.
    intros U Hc. destruct (diagram_lookup p cs h) as [m|] eqn:E.
    - f_equal. now apply lookup_unique.
    - unfold diagram_lookup in E.
      destruct (rev (filter (fun m0 => Pos.eqb (pyname_of p m0) (pyname_of p h)) cs)) as [|m' r] eqn:E'; [|discriminate].
      assert (Hin : In h (filter (fun m0 => Pos.eqb (pyname_of p m0) (pyname_of p h)) cs)).
      { apply filter_In. split; auto. apply Pos.eqb_refl. }
      apply in_rev in Hin. rewrite E' in Hin. destruct Hin.
  Qed.

  Let Huniq : (forall d h, In d p -> In h (d_hidden d) -> unique_py p h = true)
              /\ (forall x, In x (all_fields p) -> match seen_through (f_ann x) with FwdLocal n => unique_py p n = true | _ => True end).
  Proof.
    pose proof Hwf as H. unfold wf_prog in H. repeat (apply andb_true_iff in H as [H ?]).
    split.
    - intros d h Hd Hh. rewrite forallb_forall in H1. specialize (H1 d Hd). rewrite forallb_forall in H1. auto.
    - intros x Hx. rewrite forallb_forall in H0. specialize (H0 x Hx). destruct (seen_through (f_ann x)); auto.
  Qed.

  Lemma field_facts x : In x (all_fields p) ->
    wf_ann (f_ann x) = true /\ leaf_ok p (f_ann x) = true /\ locals_res p cs (f_ann x).
  Proof.
    intro Hx. destruct Hparts as [_ [_ H]]. rewrite forallb_forall in H.
    specialize (H x Hx). apply andb_true_iff in H as [H1 H2]. repeat split; auto.
    pose proof Hcs as H0. unfold wf_classes in H0. repeat (apply andb_true_iff in H0 as [H0 ?]).
    rewrite forallb_forall in H0. specialize (H0 x Hx). unfold locals_in in H0. unfold locals_res.
    destruct Huniq as [_ U]. specialize (U x Hx).
    destruct (seen_through (f_ann x)); auto. apply lookup_self; auto. now apply mem_In.
  Qed.

  Lemma unresolved_hidden c m : In m (unresolved p c) -> exists d, In d p /\ In m (d_hidden d).
  Proof.
    unfold unresolved. intro H. apply in_flat_map in H as [k [_ H]]. apply in_flat_map in H as [f [_ H]].
    apply filter_In in H as [_ H]. apply mem_In in H. unfold hidden_of in H.
    destruct (find_decl p k) as [d|] eqn:E; [|destruct H]. apply find_decl_In in E as [E _]; eauto.
  Qed.

  (* the names the retry has to supply have a unique __name__: re-binding them shadows nothing *)
  Lemma sh_id c n : sh_of p cs c n = n.
  Proof.
    unfold sh_of. destruct (existsb _ (unresolved p c)) eqn:X; auto.
    apply existsb_exists in X as [m [Hm E]]. apply Pos.eqb_eq in E.
    apply unresolved_hidden in Hm as [d [Hd Hh]]. destruct Huniq as [U _]. specialize (U d m Hd Hh).
    unfold shadow. destruct (find_decl p n) as [dn|] eqn:F; auto.
    destruct (diagram_lookup p cs n) as [m'|] eqn:L; auto.
    assert (P : pyname_of p n = d_pyname dn) by (unfold pyname_of; rewrite F; reflexivity).
    apply find_decl_In in F as [F1 F2]; auto.
    assert (Hn : n = m).
    { rewrite <- F2. apply (unique_py_spec m U dn F1). congruence. }
    rewrite Hn in L |- *. exact (lookup_unique m m' U L).
  Qed.

  Lemma assoc_edges_ok : assoc_edges p cs = Ok assoc_list.
  Proof.
    unfold assoc_edges, assoc_list. apply mconcat_ok. intros c Hc. unfold class_edges, field_edge.
    assert (G : mconcat (fun f => field_edge_with p cs (sh_of p cs c) c f) (public_fields (tab p) c)
                = Ok (flat_map (field_edges cs c) (public_fields (tab p) c))).
    { apply mconcat_ok. intros x Hx.
      apply public_fields_In in Hx as [_ [a [_ Hx]]]; auto.
      apply declares_all in Hx. destruct (field_facts x Hx) as [H1 [H2 H3]].
      unfold field_edge_with. rewrite (resolve_ext p cs (sh_of p cs c)) by apply sh_id. now apply field_edge_ok. }
    destruct (public_fields (tab p) c) eqn:E; [reflexivity|].
    rewrite mcheck_ok; [exact G|].
    intros x Hx. apply (tab_correct c (Hcs_decl c Hc) x) in Hx as [a [_ Hx]].
    apply declares_all in Hx. destruct (field_facts x Hx) as [H1 [H2 H3]].
    rewrite (resolve_ext p cs (sh_of p cs c)) by apply sh_id. now apply resolve_ok.
  Qed.

  Lemma build_eq : build p cs = Ok (mk_graph cs (inh_edges p cs ++ assoc_list)).
  Proof. unfold build, nodes_of. rewrite assoc_edges_ok. reflexivity. Qed.

  Lemma inh_edges_In e : In e (inh_edges p cs) <->
    e_kind e = EInh /\ In (e_src e) cs /\ In (e_dst e) cs /\ e_field e = xH /\ direct_base p (e_src e) (e_dst e).
  Proof.
    unfold inh_edges. rewrite in_flat_map. split.
    - intros [c [Hc H]]. apply in_flat_map in H as [b [Hb H]].
      destruct (mem b cs) eqn:M; [|destruct H]. destruct H as [<-|[]]. simpl.
      apply mem_In in M. apply direct_base_bases in Hb. auto.
    - intros [K [Hs [Hd [Hf Hb]]]]. exists (e_dst e). split; auto.
      apply in_flat_map. exists (e_src e). split; [now apply direct_base_bases|].
      apply mem_In in Hs. rewrite Hs. left. destruct e; simpl in *; subst; reflexivity.
  Qed.

  Lemma assoc_list_In e : In e assoc_list <->
    e_kind e = EAssoc /\ In (e_src e) cs /\ In (e_dst e) cs /\
    exists a f, ancestor p a (e_src e) /\ declares p a f /\ f_private f = false
                /\ f_name f = e_field e /\ about (f_ann f) (e_dst e) = true.
  Proof.
    unfold assoc_list. rewrite in_flat_map. split.
    - intros [c [Hc H]]. apply in_flat_map in H as [x [Hx H]].
      apply public_fields_In in Hx as [Hp [a [Ha Hx]]]; auto.
      unfold field_edges in H. destruct (target (f_ann x)) as [d|] eqn:T; [|destruct H].
      destruct (mem d cs) eqn:M; [|destruct H]. destruct H as [<-|[]]. simpl.
      apply mem_In in M. repeat split; auto. exists a, x. repeat split; auto. now apply about_target.
    - intros [K [Hs [Hd [a [x [Ha [Hx [Hp [Hn Hab]]]]]]]]]. exists (e_src e). split; auto.
      apply in_flat_map. exists x. split; [apply public_fields_In; eauto|].
      unfold field_edges. apply about_target in Hab. rewrite Hab. apply mem_In in Hd. rewrite Hd.
      left. destruct e; simpl in *; subst; reflexivity.
  Qed.

  Lemma edges_spec e : In e (inh_edges p cs ++ assoc_list) <-> spec_edge p cs e.
  Proof.
    rewrite in_app_iff, inh_edges_In, assoc_list_In. unfold spec_edge.
    destruct (e_kind e); split.
    - intros [H|H]; [tauto | destruct H; discriminate].
    - intros [H1 [H2 [H3 H4]]]. left. auto.
    - intros [H|H]; [destruct H; discriminate | tauto].
    - intros [H1 [H2 H3]]. right. auto.
  Qed.

  Lemma inh_edges_NoDup : NoDup (inh_edges p cs).
  Proof.
    unfold inh_edges. apply NoDup_flat_map; auto.
    - intros c Hc. apply NoDup_flat_map.
      + apply bases_NoDup.
      + intros b Hb. destruct (mem b cs); repeat constructor; auto.
      + intros b b' e _ _ Hne H1 H2.
        destruct (mem b cs); [|destruct H1]. destruct (mem b' cs); [|destruct H2].
        destruct H1 as [<-|[]]. destruct H2 as [H2|[]]. inversion H2. congruence.
    - intros c c' e _ _ Hne H1 H2.
      apply in_flat_map in H1 as [b [_ H1]]. apply in_flat_map in H2 as [b' [_ H2]].
      destruct (mem b cs); [|destruct H1]. destruct (mem b' cs); [|destruct H2].
      destruct H1 as [<-|[]]. destruct H2 as [H2|[]]. inversion H2. congruence.
  Qed.

  Lemma public_fields_NoDup c : NoDup (map f_name (public_fields (tab p) c)).
  Proof.
    unfold public_fields.
    assert (H : NoDup (map f_name (lookup_tab (tab p) c))).
    { unfold tab. apply tabs_NoDup. intro c'. unfold lookup_tab. simpl. constructor. }
    revert H. generalize (lookup_tab (tab p) c). intro l.
    induction l as [|x l IH]; simpl; intro N; [constructor|].
    inversion N; subst. destruct (negb (f_private x)); simpl; auto.
    constructor; auto. intro Hin. apply H1. apply in_map_iff in Hin as [y [Hy1 Hy2]].
    apply filter_In in Hy2 as [Hy2 _]. rewrite <- Hy1. now apply in_map.
  Qed.

  Lemma assoc_list_NoDup : NoDup assoc_list.
  Proof.
    unfold assoc_list. apply NoDup_flat_map; auto.
    - intros c Hc. apply NoDup_flat_map.
      + eapply NoDup_map_NoDup. apply public_fields_NoDup.
      + intros x Hx. unfold field_edges. destruct (target (f_ann x)); [|constructor].
        destruct (mem n cs); repeat constructor; auto.
      + intros x y e Hx Hy Hne H1 H2. apply Hne.
        apply (NoDup_map_compat f_name _ (public_fields_NoDup c)); auto.
        unfold field_edges in *.
        destruct (target (f_ann x)) as [d|]; [|destruct H1]. destruct (mem d cs); [|destruct H1].
        destruct (target (f_ann y)) as [d'|]; [|destruct H2]. destruct (mem d' cs); [|destruct H2].
        destruct H1 as [<-|[]]. destruct H2 as [H2|[]]. inversion H2. congruence.
    - intros c c' e _ _ Hne H1 H2.
      apply in_flat_map in H1 as [x [_ H1]]. apply in_flat_map in H2 as [y [_ H2]].
      unfold field_edges in *.
      destruct (target (f_ann x)) as [d|]; [|destruct H1]. destruct (mem d cs); [|destruct H1].
      destruct (target (f_ann y)) as [d'|]; [|destruct H2]. destruct (mem d' cs); [|destruct H2].
      destruct H1 as [<-|[]]. destruct H2 as [H2|[]]. inversion H2. congruence.
  Qed.

  Lemma edges_NoDup : NoDup (inh_edges p cs ++ assoc_list).
  Proof.
    apply NoDup_app_intro.
    - apply inh_edges_NoDup.
    - apply assoc_list_NoDup.
    - intros e H1 H2. apply inh_edges_In in H1 as [K1 _]. apply assoc_list_In in H2 as [K2 _]. congruence.
  Qed.
End Build.

(* C17, structure: for every well-formed program and every list of distinct dataclasses of it, construction
   succeeds, the nodes are the given classes in the given order, no edge occurs twice, and an edge is present
   exactly when the Spec demands it *)
Theorem build_meets_spec : forall p cs, wf_prog p = true -> wf_classes p cs = true ->
  exists g, build p cs = Ok g /\ g_nodes g = cs /\ NoDup (g_edges g) /\
            forall e, In e (g_edges g) <-> spec_edge p cs e.
Proof.
  intros p cs Hp Hc. eexists. split; [apply build_eq; auto|]. simpl. split; auto. split.
  - now apply edges_NoDup.
  - intro e. now apply edges_spec.
Qed.

(* regression (C17-c, repaired by 91db0c8): two names visible under TYPE_CHECKING only, one of them not in the diagram.
   C1 (module 1; cannot see C2, C3): a1 : Optional["C2"], a2 : List["C3"];  C2(C1);  C3.   Diagram [C1; C2]:
   the retry as it was gave up with NameError; the program is in the fragment now and construction succeeds. *)
Definition two_unresolved_prog : prog :=
  [ Build_decl 2 DDataclass [] [Build_fdecl 5 false (Optional (Fwd 3)) true false; Build_fdecl 6 false (Cont KList (Fwd 4)) true false] [3; 4] 2;
    Build_decl 3 DDataclass [2] [Build_fdecl 7 false (Builtin BInt) true false] [] 3;
    Build_decl 4 DDataclass [] [Build_fdecl 8 false (Builtin BInt) true false] [] 4 ]%positive.
Lemma two_unresolved_regression :
  old_retry two_unresolved_prog [2; 3]%positive 2%positive = Raise NameError
  /\ wf_prog two_unresolved_prog = true /\ wf_classes two_unresolved_prog [2; 3]%positive = true
  /\ build two_unresolved_prog [2; 3]%positive
     = Ok (mk_graph [2; 3] [mk_edge EInh 2 3 1; mk_edge EAssoc 2 3 5; mk_edge EAssoc 3 3 5])%positive.
Proof. repeat split; vm_compute; reflexivity. Qed.

(* a program of the fragment, for non-vacuity: C1 { a1 : Optional["C2"] }, C2 { a2 : int }, C3(C1) {}, E1 enum *)
Definition example_prog : prog :=
  [ Build_decl 2 DDataclass [] [Build_fdecl 6 false (Optional (Fwd 3)) true false] [] 2;
    Build_decl 3 DDataclass [] [Build_fdecl 7 false (Builtin BInt) true false; Build_fdecl 8 false (Cont KList (Fwd 5)) false true] [] 3;
    Build_decl 4 DDataclass [2] [] [] 4;
    Build_decl 5 DEnum [] [] [] 5 ]%positive.
Lemma example_in_fragment :
  wf_prog example_prog = true /\ wf_classes example_prog [4; 3; 2]%positive = true /\
  build example_prog [4; 3; 2]%positive
  = Ok (mk_graph [4; 3; 2] [mk_edge EInh 2 4 1; mk_edge EAssoc 4 3 6; mk_edge EAssoc 2 3 6])%positive.
Proof. repeat split; vm_compute; reflexivity. Qed.

(* regression (C17-d, repaired by cfad88b): namesakes and the retry.  Module 1: A { p : Optional["X"]; q : Optional["Z"] }
   and X, where Z is imported under TYPE_CHECKING only; module 2: another class X (4, __name__ of 3) and Z.  The retry as it
   was put {__name__: class} of the whole diagram into the local namespace, which shadowed module 1's own X by the namesake
   listed last; now only the missing name Z goes there, the program is in the fragment and both list orders give A.p -> X. *)
Definition namesake_prog : prog :=
  [ Build_decl 3 DDataclass [] [Build_fdecl 8 false (Builtin BInt) true false] [] 3;
    Build_decl 2 DDataclass [] [Build_fdecl 6 false (Optional (Fwd 3)) true false; Build_fdecl 7 false (Optional (Fwd 5)) true false] [5] 2;
    Build_decl 4 DDataclass [] [Build_fdecl 9 false (Builtin BInt) true false] [] 3;
    Build_decl 5 DDataclass [] [Build_fdecl 10 false (Builtin BInt) true false] [] 5 ]%positive.
Lemma namesake_regression :
  resolve namesake_prog [2; 3; 4; 5]%positive (sh_of_old namesake_prog [2; 3; 4; 5] 2)%positive (Optional (Fwd 3%positive))
    = Ok (Optional (Cls 4%positive))
  /\ wf_prog namesake_prog = true /\ wf_classes namesake_prog [2; 3; 4; 5]%positive = true
  /\ build namesake_prog [2; 3; 4; 5]%positive
    = Ok (mk_graph [2; 3; 4; 5] [mk_edge EAssoc 2 3 6; mk_edge EAssoc 2 5 7])%positive
  /\ build namesake_prog [2; 4; 3; 5]%positive
    = Ok (mk_graph [2; 4; 3; 5] [mk_edge EAssoc 2 3 6; mk_edge EAssoc 2 5 7])%positive.
Proof. repeat split; vm_compute; reflexivity. Qed.

(* outside the fragment (open findings C17-e, C17-f): the name the retry has to supply has a namesake in the diagram.
   m1: Item (2).  m3: another class Item (3, __name__ of 2) and Parent (4) { pit : Optional["Item"] } (its own).
   m2 (no class Item; imports m1's under TYPE_CHECKING only): User (5) { item : Optional["Item"] } and
   Child (6) (Parent) { citem : Optional["Item"] }.
   (e) the missing name is looked up among the diagram's classes by __name__, the last one wins: User.item depends on the order;
   (f) the local namespace is applied to every class of the MRO: Child's inherited field pit leaves Parent's own Item. *)
Definition missing_prog : prog :=
  [ Build_decl 2 DDataclass [] [Build_fdecl 10 false (Builtin BInt) true false] [] 2;
    Build_decl 3 DDataclass [] [Build_fdecl 11 false (Builtin BInt) true false] [] 2;
    Build_decl 4 DDataclass [] [Build_fdecl 7 false (Optional (Fwd 3)) true false] [] 4;
    Build_decl 5 DDataclass [] [Build_fdecl 8 false (Optional (Fwd 2)) true false] [2] 5;
    Build_decl 6 DDataclass [4] [Build_fdecl 9 false (Optional (Fwd 2)) true false] [2] 6 ]%positive.
Lemma missing_namesake_refuted :
  (build missing_prog [5; 2; 3]%positive = Ok (mk_graph [5; 2; 3] [mk_edge EAssoc 5 3 8])%positive
   /\ g_edges (spec_graph missing_prog [5; 2; 3]%positive) = [mk_edge EAssoc 5 2 8]%positive
   /\ build missing_prog [5; 3; 2]%positive = Ok (mk_graph [5; 3; 2] [mk_edge EAssoc 5 2 8])%positive)
  /\ (build missing_prog [4; 6; 3; 2]%positive
        = Ok (mk_graph [4; 6; 3; 2] [mk_edge EInh 4 6 1; mk_edge EAssoc 4 3 7; mk_edge EAssoc 6 2 7; mk_edge EAssoc 6 2 9])%positive
      /\ g_edges (spec_graph missing_prog [4; 6; 3; 2]%positive)
        = [mk_edge EInh 4 6 1; mk_edge EAssoc 4 3 7; mk_edge EAssoc 6 2 9; mk_edge EAssoc 6 3 7]%positive).
Proof. repeat split; vm_compute; reflexivity. Qed.
