(* Diagram/Ty.v -- the annotation grammar of C17 and the library idioms the translated predicates use.

   [ty] is a *resolved or declared* field annotation.  The seven constructors of the supported grammar
   (DESIGN section 6, C17) come first; the remaining ones exist only so that the model can say what the
   code does on the documented-unsupported forms (they are all outside [wf_ty]).

   The second half is the translator's idiom table for this module: what `typing.get_origin`,
   `typing.get_args`, `issubclass(_, enum.Enum)`, `hasattr(_, "__iter__")`, `x.__module__ == "builtins"`
   mean on this grammar.  It is trusted (DESIGN section 7) and validated on every run by executing the
   generated predicates and the Python predicates on every annotation of the grammar up to depth 2. *)
From Coq Require Import List Bool PArith.
Import ListNotations.

Definition name := positive.

Inductive builtin := BInt | BFloat | BStr | BBool | BDatetime | BNoneType.
Inductive ckind := KList | KSet | KTuple | KSeq.
(* what typing.get_origin can return, plus the special form typing.Optional which the code mentions *)
Inductive origin := ONone | OUnion | OOptional | OUnionType | OList | OSet | OTuple | OSeq | OType | ODict.

Inductive ty :=
| Builtin (b : builtin)            (* int float str bool datetime None *)
| Cls (c : name)                   (* a user class (dataclass or plain) *)
| Enum (e : name)                  (* a subclass of enum.Enum *)
| Optional (t : ty)                (* Optional[t] = Union[t, None] *)
| Cont (k : ckind) (t : ty)        (* List[t] Set[t] Tuple[t, ...] Sequence[t] *)
| TypeOf (t : ty)                  (* Type[t] *)
| Fwd (n : name)                   (* a name still to be resolved: "N", or any name under postponed evaluation *)
| OptionalL (t : ty)               (* Union[None, t]: same type as Optional[t], arguments in the other order (supported since 90ccf0e) *)
(* ---- outside the supported grammar ---- *)
| Pep604 (t : ty)                  (* t | None  (types.UnionType) *)
| DictOf (k v : ty)                (* Dict[k, v] *)
| Bare (o : origin)                (* typing.List, typing.Type, ... without parameters *)
| Ellip                            (* the `...` inside Tuple[t, ...]; only ever an element of get_args *)
(* ---- supported: a forward reference to a class that is not a module-level name (defined inside a function or
        nested in a class): neither the module globals nor a scan of the loaded modules find it, only the diagram can *)
| FwdLocal (n : name)
(* ---- outside the supported grammar: a union of two types neither of which is None, written a | b (pep = true,
        types.UnionType) or Union[a, b] (typing.Union) ---- *)
| UnionPair (pep : bool) (a b : ty).

Definition builtin_eqb (a b : builtin) : bool :=
  match a, b with
  | BInt, BInt | BFloat, BFloat | BStr, BStr | BBool, BBool | BDatetime, BDatetime | BNoneType, BNoneType => true
  | _, _ => false
  end.
Definition ckind_eqb (a b : ckind) : bool :=
  match a, b with KList, KList | KSet, KSet | KTuple, KTuple | KSeq, KSeq => true | _, _ => false end.
Definition origin_eqb (a b : origin) : bool :=
  match a, b with
  | ONone, ONone | OUnion, OUnion | OOptional, OOptional | OUnionType, OUnionType | OList, OList | OSet, OSet
  | OTuple, OTuple | OSeq, OSeq | OType, OType | ODict, ODict => true
  | _, _ => false
  end.

Fixpoint ty_eqb (a b : ty) : bool :=
  match a, b with
  | Builtin x, Builtin y => builtin_eqb x y
  | Cls x, Cls y => Pos.eqb x y
  | Enum x, Enum y => Pos.eqb x y
  | Optional x, Optional y => ty_eqb x y
  | Cont k x, Cont l y => ckind_eqb k l && ty_eqb x y
  | TypeOf x, TypeOf y => ty_eqb x y
  | Fwd x, Fwd y => Pos.eqb x y
  | OptionalL x, OptionalL y => ty_eqb x y
  | Pep604 x, Pep604 y => ty_eqb x y
  | DictOf k v, DictOf k' v' => ty_eqb k k' && ty_eqb v v'
  | Bare o, Bare o' => origin_eqb o o'
  | Ellip, Ellip => true
  | FwdLocal x, FwdLocal y => Pos.eqb x y
  | UnionPair p x y, UnionPair q x' y' => Bool.eqb p q && ty_eqb x x' && ty_eqb y y'
  | _, _ => false
  end.

Lemma builtin_eqb_eq a b : builtin_eqb a b = true <-> a = b.
Proof. destruct a, b; simpl; split; congruence. Qed.
Lemma ckind_eqb_eq a b : ckind_eqb a b = true <-> a = b.
Proof. destruct a, b; simpl; split; congruence. Qed.
Lemma origin_eqb_eq a b : origin_eqb a b = true <-> a = b.
Proof. destruct a, b; simpl; split; congruence. Qed.
Lemma ty_eqb_eq a : forall b, ty_eqb a b = true <-> a = b.
Proof.
  induction a; intros b'; destruct b'; cbn [ty_eqb]; try (split; congruence).
  - rewrite builtin_eqb_eq. split; congruence.
  - rewrite Pos.eqb_eq. split; congruence.
  - rewrite Pos.eqb_eq. split; congruence.
  - rewrite IHa. split; congruence.
  - rewrite andb_true_iff, ckind_eqb_eq, IHa. split; [intros [-> ->]; auto | intros H; injection H; auto].
  - rewrite IHa. split; congruence.
  - rewrite Pos.eqb_eq. split; congruence.
  - rewrite IHa. split; congruence.
  - rewrite IHa. split; congruence.
  - rewrite andb_true_iff, IHa1, IHa2. split; [intros [-> ->]; auto | intros H; injection H; auto].
  - rewrite origin_eqb_eq. split; congruence.
  - rewrite Pos.eqb_eq. split; congruence.
  - rewrite !andb_true_iff, Bool.eqb_true_iff, IHa1, IHa2. split; [intros [[-> ->] ->]; auto | intros H; injection H; auto].
Qed.
Lemma ty_eqb_refl a : ty_eqb a a = true.
Proof. now apply ty_eqb_eq. Qed.

(* ------------------------------------------------------------------ exceptions and the result monad *)
Inductive exn := TypeError | ValueError | IndexError | AttributeError | MissingContainedTypeOfContainer | NameError | StopIteration | TypeResolutionError.
Inductive res (A : Type) := Ok (a : A) | Raise (e : exn).
Arguments Ok {A} a.
Arguments Raise {A} e.
Definition ret {A} (a : A) : res A := Ok a.
Definition bind {A B} (m : res A) (f : A -> res B) : res B :=
  match m with Ok a => f a | Raise e => Raise e end.
(* Python's short-circuit operators on possibly-raising operands *)
Definition mand (a b : res bool) : res bool := bind a (fun x => if x then b else Ok false).
Definition mor (a b : res bool) : res bool := bind a (fun x => if x then Ok true else b).
Definition mnot (a : res bool) : res bool := bind a (fun x => Ok (negb x)).
(* try: a  except E: b *)
Definition exn_eqb (a b : exn) : bool :=
  match a, b with
  | TypeError, TypeError | ValueError, ValueError | IndexError, IndexError | AttributeError, AttributeError
  | MissingContainedTypeOfContainer, MissingContainedTypeOfContainer | NameError, NameError
  | StopIteration, StopIteration | TypeResolutionError, TypeResolutionError => true
  | _, _ => false
  end.
Definition try_except {A} (a : res A) (e : exn) (b : res A) : res A :=
  match a with Ok v => Ok v | Raise e' => if exn_eqb e' e then b else Raise e' end.
Fixpoint mall {A} (f : A -> res bool) (l : list A) : res bool :=
  match l with [] => Ok true | x :: l' => bind (f x) (fun b => if b then mall f l' else Ok false) end.

(* ------------------------------------------------------------------ idiom table *)
Definition korigin (k : ckind) : origin :=
  match k with KList => OList | KSet => OSet | KTuple => OTuple | KSeq => OSeq end.

(* typing.get_origin *)
Definition get_origin (t : ty) : origin :=
  match t with
  | Optional _ | OptionalL _ => OUnion
  | Pep604 _ => OUnionType
  | UnionPair pep _ _ => if pep then OUnionType else OUnion
  | Cont k _ => korigin k
  | TypeOf _ => OType
  | DictOf _ _ => ODict
  | Bare o => o
  | Builtin _ | Cls _ | Enum _ | Fwd _ | Ellip | FwdLocal _ => ONone
  end.

(* typing.get_args *)
Definition get_args (t : ty) : list ty :=
  match t with
  | Optional a => [a; Builtin BNoneType]
  | OptionalL a => [Builtin BNoneType; a]
  | Pep604 a => [a; Builtin BNoneType]
  | Cont KTuple a => [a; Ellip]
  | Cont _ a => [a]
  | TypeOf a => [a]
  | DictOf k v => [k; v]
  | UnionPair _ a b => [a; b]
  | _ => []
  end.

Definition origin_in (o : origin) (l : list origin) : bool := existsb (origin_eqb o) l.
Definition ty_in (t : ty) (l : list ty) : bool := existsb (ty_eqb t) l.
(* xs[0] *)
Definition index0 {A} (l : list A) : res A := match l with x :: _ => Ok x | [] => Raise IndexError end.
(* next(x for x in xs if f x): the first element that passes, StopIteration when none does *)
Fixpoint next_where {A} (f : A -> bool) (l : list A) : res A :=
  match l with [] => Raise StopIteration | x :: l' => if f x then Ok x else next_where f l' end.
(* issubclass(t, enum.Enum): TypeError unless t is a class *)
Definition issubclass_enum (t : ty) : res bool :=
  match t with
  | Enum _ => Ok true
  | Builtin _ | Cls _ => Ok false
  | _ => Raise TypeError
  end.
(* hasattr(o, "__iter__") for o a container origin or None *)
Definition has_iter (o : origin) : bool :=
  match o with OList | OSet | OTuple | OSeq | ODict => true | _ => false end.
(* t is typing.Type (the bare alias) *)
Definition is_bare_Type (t : ty) : bool := match t with Bare OType => true | _ => false end.
(* t.__module__ == "builtins"; parameterised generics answer for typing (False), `...` has no __module__ *)
Definition module_is_builtins (t : ty) : res bool :=
  match t with
  | Builtin BDatetime => Ok false
  | Builtin _ => Ok true
  | Ellip => Raise AttributeError
  | _ => Ok false
  end.
(* t == uuid.UUID : no member of the grammar *)
Definition is_uuid (t : ty) : bool := false.

(* the field object as far as the predicates read it *)
Record wfield := { resolved_type : ty; has_default : bool; has_default_factory : bool }.

(* ------------------------------------------------------------------ the supported grammar *)
Definition is_base (t : ty) : bool :=
  match t with Builtin BNoneType => false | Builtin _ | Cls _ | Enum _ => true | _ => false end.
(* resolved annotations of the supported grammar: a base type, Optional of one (None written last or first, or T | None),
   a container of one, Type of one *)
Definition wf_ty (t : ty) : bool :=
  match t with
  | Optional a | OptionalL a | Pep604 a | Cont _ a | TypeOf a => is_base a
  | _ => is_base t
  end.
(* declared annotations: the same with names not yet resolved at the leaves *)
Definition is_base_decl (t : ty) : bool := match t with Fwd _ | FwdLocal _ => true | _ => is_base t end.
Definition wf_ann (t : ty) : bool :=
  match t with
  | Optional a | OptionalL a | Pep604 a | Cont _ a | TypeOf a => is_base_decl a
  | _ => is_base_decl t
  end.
