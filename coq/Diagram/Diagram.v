(* Diagram/Diagram.v -- code-faithful executable model of ClassDiagram.__post_init__:
   add_node per class, _create_inheritance_relations, _create_association_relations
   (class_diagram.py), field discovery (attribute_introspector.py: public dataclass fields, inherited
   ones included, as dataclasses.fields computes them at class creation), WrappedField.resolved_type
   (forward references through the module namespace) and the translated WrappedField.type_endpoint
   (Gen/FieldKind.v). *)
From Coq Require Import List Bool PArith ZArith.
From Krrood Require Import Base.Sx Diagram.Ty Diagram.FieldKindSpec Diagram.DiagramSpec Gen.FieldKind.
Import ListNotations.

(* ---- WrappedField.resolved_type when the module cannot see a name (TYPE_CHECKING-only import) ----
   get_type_hints(cls) evaluates every annotation of every class of the MRO (base first) in that class's module and
   raises NameError for the first name it cannot find.  Since 91db0c8 the retry starts from the diagram's classes as
   local namespace and adds every further missing name it finds in the loaded modules, one after the other, until
   the hints evaluate: every declared name resolves ([resolve] above), whatever the module can see.
   [old_retry] is the retry before 91db0c8 (diagram classes plus the FIRST missing name only; a second unknown name
   was not caught), kept for the regression theorem. *)
Definition hidden_of (p : prog) (k : name) : list name :=
  match find_decl p k with Some d => d_hidden d | None => [] end.
Fixpoint leaf_names (t : ty) : list name :=
  match t with
  | Fwd n => [n]
  | Optional a | OptionalL a | Pep604 a | Cont _ a | TypeOf a => leaf_names a
  | DictOf k v => leaf_names k ++ leaf_names v
  | _ => []
  end.
(* reversed MRO along the first base (exact for single inheritance) *)
Fixpoint chain (fuel : nat) (p : prog) (c : name) : list name :=
  match fuel with
  | O => [c]
  | S k => match bases_of p c with b :: _ => chain k p b ++ [c] | [] => [c] end
  end.
Definition unresolved (p : prog) (c : name) : list name :=
  flat_map (fun k => flat_map (fun f => filter (fun n => mem n (hidden_of p k)) (leaf_names (f_ann f)))
                              (own_fields p k)) (chain (length p) p c).
Definition old_retry (p : prog) (ns : list name) (c : name) : res unit :=
  match unresolved p c with
  | [] => Ok tt
  | e :: _ => if forallb (fun n => mem n ns || Pos.eqb n e) (unresolved p c) then Ok tt else Raise NameError
  end.


(* ---- typing.get_type_hints on the class: names are looked up in the module namespace ---- *)
Definition resolve_name (p : prog) (n : name) : res ty :=
  match find_decl p n with
  | Some d => Ok (match d_kind d with DEnum => Enum n | _ => Cls n end)
  | None => Raise TypeResolutionError   (* a name no loaded module declares: manually_search_for_class_name gives up *)
  end.
(* ns: the diagram's classes.  resolved_type's retry (since cfad88b) puts ONLY the names the module could not resolve
   into the local namespace, each looked up among the diagram's classes by __name__ (a dict: the last class of that
   __name__ wins) and otherwise by a scan of the loaded modules.  The local namespace takes precedence over the module
   globals for every class of the MRO, so a leaf whose __name__ equals that of a missing name is re-bound as well.
   sh: what a name denotes in that evaluation.  [sh_of_old] is the retry before cfad88b (the whole diagram went into the
   local namespace whenever a retry was needed), kept for the regression theorem. *)
Definition diagram_lookup (p : prog) (ns : list name) (n : name) : option name :=
  match rev (filter (fun m => Pos.eqb (pyname_of p m) (pyname_of p n)) ns) with m :: _ => Some m | [] => None end.
Definition shadow (p : prog) (ns : list name) (n : name) : name :=
  match find_decl p n, diagram_lookup p ns n with Some _, Some m => m | _, _ => n end.
Definition needs_retry (p : prog) (c : name) : bool := match unresolved p c with [] => false | _ => true end.
Definition sh_of (p : prog) (ns : list name) (c : name) : name -> name :=
  fun n => if existsb (fun m => Pos.eqb (pyname_of p m) (pyname_of p n)) (unresolved p c) then shadow p ns n else n.
Definition sh_of_old (p : prog) (ns : list name) (c : name) : name -> name :=
  if needs_retry p c then shadow p ns else (fun n => n).

Fixpoint resolve (p : prog) (ns : list name) (sh : name -> name) (t : ty) : res ty :=
  match t with
  | Fwd n => resolve_name p (sh n)
  | FwdLocal n => match diagram_lookup p ns n with Some m => resolve_name p m | None => Raise TypeResolutionError end
  | Optional a => bind (resolve p ns sh a) (fun a' => Ok (Optional a'))
  | OptionalL a => bind (resolve p ns sh a) (fun a' => Ok (OptionalL a'))
  | Pep604 a => bind (resolve p ns sh a) (fun a' => Ok (Pep604 a'))
  | Cont k a => bind (resolve p ns sh a) (fun a' => Ok (Cont k a'))
  | TypeOf a => bind (resolve p ns sh a) (fun a' => Ok (TypeOf a'))
  | DictOf k v => bind (resolve p ns sh k) (fun k' => bind (resolve p ns sh v) (fun v' => Ok (DictOf k' v')))
  | UnionPair pep a b => bind (resolve p ns sh a) (fun a' => bind (resolve p ns sh b) (fun b' => Ok (UnionPair pep a' b')))
  | _ => Ok t
  end.

(* ---- dataclasses: __dataclass_fields__ of every class, computed in declaration order ----
   fields[f.name] = f : a later definition replaces an earlier one in place, a new name is appended *)
Fixpoint upd (fs : list fdecl) (f : fdecl) : list fdecl :=
  match fs with
  | [] => [f]
  | g :: fs' => if Pos.eqb (f_name g) (f_name f) then f :: fs' else g :: upd fs' f
  end.
Definition table := list (name * list fdecl).
Definition lookup_tab (T : table) (c : name) : list fdecl :=
  match find (fun e => Pos.eqb (fst e) c) T with Some e => snd e | None => [] end.
(* bases in reverse order (reverse MRO: the first base wins), then the class's own fields *)
Definition class_fields (T : table) (d : decl) : list fdecl :=
  fold_left upd (d_fields d)
    (fold_left (fun acc b => fold_left upd (lookup_tab T b) acc) (rev (d_bases d)) []).
(* ---- the ORDER of the fields: dataclasses walks the whole reversed MRO (C3 linearisation), not only the direct bases:
   for b in cls.__mro__[-1:0:-1]: fields.update(b.__dataclass_fields__).  Which fields a class has is [class_fields];
   the order below matters only where the code depends on the insertion order of parallel edges (derived views). ---- *)
Definition heads_ok (h : name) (ls : list (list name)) : bool :=
  forallb (fun l => match l with [] => true | _ :: tl => negb (mem h tl) end) ls.
Fixpoint find_head (cands ls : list (list name)) : option name :=
  match cands with
  | [] => None
  | [] :: r => find_head r ls
  | (h :: _) :: r => if heads_ok h ls then Some h else find_head r ls
  end.
Fixpoint c3_merge (fuel : nat) (ls : list (list name)) : list name :=
  match fuel with
  | O => []
  | S k => match find_head ls ls with
           | None => []
           | Some h => h :: c3_merge k (map (filter (fun x => negb (Pos.eqb x h))) ls)
           end
  end.
Fixpoint mro_of (fuel : nat) (p : prog) (c : name) : list name :=
  match fuel with
  | O => [c]
  | S k => c :: c3_merge (length p * S (length p)) (map (mro_of k p) (bases_of p c) ++ [bases_of p c])
  end.
Definition py_order (p : prog) (T : table) (d : decl) : list name :=
  flat_map (fun b => map f_name (lookup_tab T b)) (rev (tl (mro_of (length p) p (d_name d)))) ++ map f_name (d_fields d).
(* the same fields, listed by first occurrence of their names in [ord] *)
Definition reorder (ord : list name) (l : list fdecl) : list fdecl :=
  flat_map (fun n => filter (fun f => Pos.eqb (f_name f) n) l) (dedup ord [])
  ++ filter (fun f => negb (mem (f_name f) ord)) l.

(* declarations are processed in program order; the table of a class is fixed when the class is created *)
Fixpoint tabs_in (p0 : prog) (T : table) (p : list decl) : table :=
  match p with
  | [] => T
  | d :: p' => tabs_in p0 ((d_name d, reorder (py_order p0 T d) (class_fields T d)) :: T) p'
  end.
Definition tabs (T : table) (p : list decl) : table := tabs_in p T p.
Definition tab (p : prog) : table := tabs_in p [] p.

(* ---- ClassDiagram.__post_init__ ---- *)
(* __post_init__ wraps every list element in a new WrappedClass, so add_node's "already present" exit is never
   taken there: every element of the list becomes a node (the property speaks of a *set* of classes) *)
Definition nodes_of (cs : list name) : list name := cs.

Definition inh_edges (p : prog) (ns : list name) : list edge :=
  flat_map (fun c => flat_map (fun b => if mem b ns then [mk_edge EInh b c xH] else []) (bases_of p c)) ns.

Definition field_edge_with (p : prog) (ns : list name) (sh : name -> name) (c : name) (f : fdecl) : res (list edge) :=
  bind (resolve p ns sh (f_ann f)) (fun rt =>
  bind (type_endpoint {| resolved_type := rt; has_default := f_default f; has_default_factory := f_factory f |}) (fun ep =>
  Ok (match ep with
      | Cls d | Enum d => if mem d ns then [mk_edge EAssoc c d (f_name f)] else []
      | _ => []
      end))).
Definition field_edge (p : prog) (ns : list name) (c : name) (f : fdecl) : res (list edge) :=
  field_edge_with p ns (sh_of p ns c) c f.
Fixpoint mconcat {A B} (f : A -> res (list B)) (l : list A) : res (list B) :=
  match l with
  | [] => Ok []
  | x :: l' => bind (f x) (fun ys => bind (mconcat f l') (fun zs => Ok (ys ++ zs)))
  end.
Definition public_fields (T : table) (c : name) : list fdecl :=
  filter (fun f => negb (f_private f)) (lookup_tab T c).

(* resolved_type is first read for the first public field; get_type_hints then evaluates EVERY annotation of the
   class (private and inherited fields included), so one unresolvable name fails the class *)
Fixpoint mcheck {A B} (f : A -> res B) (l : list A) : res unit :=
  match l with [] => Ok tt | x :: l' => bind (f x) (fun _ => mcheck f l') end.
Definition class_edges (p : prog) (T : table) (ns : list name) (c : name) : res (list edge) :=
  match public_fields T c with
  | [] => Ok []
  | fs => bind (mcheck (fun f => resolve p ns (sh_of p ns c) (f_ann f)) (lookup_tab T c)) (fun _ => mconcat (field_edge p ns c) fs)
  end.
Definition assoc_edges (p : prog) (ns : list name) : res (list edge) :=
  let T := tab p in mconcat (class_edges p T ns) ns.

Definition build (p : prog) (cs : list name) : res graph :=
  let ns := nodes_of cs in
  bind (assoc_edges p ns) (fun es => Ok (mk_graph ns (inh_edges p ns ++ es))).

(* ---- printing ---- *)
Definition exn_sx (e : exn) : sx :=
  SZ (match e with TypeError => 1 | ValueError => 2 | IndexError => 3 | AttributeError => 4
               | MissingContainedTypeOfContainer => 5 | NameError => 6 | StopIteration => 7 | TypeResolutionError => 8 end)%Z.
Definition build_sx (p : prog) (cs : list name) : sx :=
  match build p cs with Ok g => SL [SZ 0%Z; graph_sx g] | Raise e => SL [SZ 1%Z; exn_sx e] end.
(* every translated predicate on one (declared) annotation *)
Definition rsx {A} (f : A -> sx) (r : res A) : sx := match r with Ok a => f a | Raise e => SL [SZ (-1)%Z; exn_sx e] end.
Definition preds_sx (f : wfield) : sx :=
  SL [rsx SB (is_builtin_type f); rsx SB (is_optional f); rsx SB (is_enum f); rsx SB (is_container f);
      rsx SB (is_one_to_one_relationship f); rsx SB (is_one_to_many_relationship f); rsx SB (is_type_type f);
      rsx SB (is_iterable f); rsx ty_sx (type_endpoint f);
      rsx SB (is_collection_of_builtins f); rsx SB (is_role_taker f);
      rsx (fun o => SZ (origin_code o)) (container_type f); rsx ty_sx (contained_type f)].
Definition classify_sx (p : prog) (t : ty) (d df : bool) : sx :=
  match resolve p [] (fun n => n) t with
  | Ok rt => preds_sx {| resolved_type := rt; has_default := d; has_default_factory := df |}
  | Raise e => SL [SZ (-1)%Z; exn_sx e]
  end.
