(* Diagram/FieldKindSpec.v -- Spec of C17's classification: what each kind means, stated on the annotation.
   Depends on the grammar (Diagram/Ty.v) only, never on the translated predicates.
   Each kind is defined on its own by the shape of the annotation; none is defined from another
   (so the theorem is not a restatement of the order in which the code's predicates call each other). *)
From Coq Require Import List Bool PArith ZArith.
From Krrood Require Import Base.Sx Diagram.Ty.
Import ListNotations.

(* the type a field is about: the annotation seen through one Optional / container / Type[...] wrapper *)
Definition seen_through (t : ty) : ty :=
  match t with Optional a | OptionalL a | Pep604 a | Cont _ a | TypeOf a => a | _ => t end.

Definition is_builtin_ty (t : ty) : bool := match t with Builtin _ => true | _ => false end.
Definition is_relation_ty (t : ty) : bool := match t with Cls _ | Enum _ => true | _ => false end.

(* builtin: it is about int/float/str/bool/datetime *)
Definition s_builtin (t : ty) : bool := is_builtin_ty (seen_through t).
(* optional: written Optional[...] (Union[T, None]; Union[None, T] and the PEP 604 spelling T | None are the same type) *)
Definition s_optional (t : ty) : bool := match t with Optional _ | OptionalL _ | Pep604 _ => true | _ => false end.
(* enum: a single (possibly absent) member of an enumeration *)
Definition s_enum (t : ty) : bool :=
  match t with Enum _ | Optional (Enum _) | OptionalL (Enum _) | Pep604 (Enum _) => true | _ => false end.
(* container: written with one of the documented container types list/set/tuple/Sequence/type *)
Definition s_container (t : ty) : bool := match t with Cont _ _ | TypeOf _ => true | _ => false end.
(* one-to-one: a single (possibly absent) instance of a non-builtin type *)
Definition s_one_to_one (t : ty) : bool :=
  match t with Cls _ | Enum _ => true | Optional a | OptionalL a | Pep604 a => is_relation_ty a | _ => false end.
(* one-to-many: a container of a non-builtin type *)
Definition s_one_to_many (t : ty) : bool :=
  match t with Cont _ a | TypeOf a => is_relation_ty a | _ => false end.
(* type-valued: the value is a class, Type[...] *)
Definition s_type_valued (t : ty) : bool := match t with TypeOf _ => true | _ => false end.
(* iterable: a one-to-many whose value can be iterated (Type[X] holds one class object, it cannot) *)
Definition s_iterable (t : ty) : bool := match t with Cont _ a => is_relation_ty a | _ => false end.

Record kinds := mk_kinds {
  k_builtin : bool; k_optional : bool; k_enum : bool; k_container : bool;
  k_one_to_one : bool; k_one_to_many : bool; k_type_valued : bool; k_iterable : bool;
  k_endpoint : ty }.

Definition spec_kind (t : ty) : kinds :=
  mk_kinds (s_builtin t) (s_optional t) (s_enum t) (s_container t)
           (s_one_to_one t) (s_one_to_many t) (s_type_valued t) (s_iterable t) (seen_through t).

(* a field gives rise to an association edge to class c iff it is about c *)
Definition spec_endpoint (t : ty) : ty := seen_through t.

(* ------------------------------------------------------------------ canonical printing *)
Local Open Scope Z_scope.
Definition builtin_code (b : builtin) : Z :=
  match b with BInt => 0 | BFloat => 1 | BStr => 2 | BBool => 3 | BDatetime => 4 | BNoneType => 5 end.
Definition ckind_code (k : ckind) : Z := match k with KList => 0 | KSet => 1 | KTuple => 2 | KSeq => 3 end.
Definition origin_code (o : origin) : Z :=
  match o with ONone => 0 | OUnion => 1 | OOptional => 2 | OUnionType => 3 | OList => 4 | OSet => 5 | OTuple => 6
             | OSeq => 7 | OType => 8 | ODict => 9 end.
Fixpoint ty_sx (t : ty) : sx :=
  match t with
  | Builtin b => SL [SZ 0; SZ (builtin_code b)]
  | Cls c => SL [SZ 1; SZ (Zpos c)]
  | Enum e => SL [SZ 2; SZ (Zpos e)]
  | Optional a => SL [SZ 3; ty_sx a]
  | Cont k a => SL [SZ 4; SZ (ckind_code k); ty_sx a]
  | TypeOf a => SL [SZ 5; ty_sx a]
  | Fwd n => SL [SZ 6; SZ (Zpos n)]
  | OptionalL a => SL [SZ 7; ty_sx a]
  | Pep604 a => SL [SZ 8; ty_sx a]
  | DictOf k v => SL [SZ 9; ty_sx k; ty_sx v]
  | Bare o => SL [SZ 10; SZ (origin_code o)]
  | Ellip => SL [SZ 11]
  | FwdLocal n => SL [SZ 12; SZ (Zpos n)]
  | UnionPair pep a b => SL [SZ 13; SB pep; ty_sx a; ty_sx b]
  end.
Definition kinds_sx (k : kinds) : sx :=
  SL [SB (k_builtin k); SB (k_optional k); SB (k_enum k); SB (k_container k); SB (k_one_to_one k);
      SB (k_one_to_many k); SB (k_type_valued k); SB (k_iterable k); ty_sx (k_endpoint k)].
Definition spec_kind_sx (t : ty) : sx := kinds_sx (spec_kind t).
