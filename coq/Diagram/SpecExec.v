(* Diagram/SpecExec.v -- the executable companion [spec_graph] of the relational Spec [spec_edge] (both in
   Diagram/DiagramSpec.v) lists exactly the edges the relation demands, on the fragment.  This is what lets the
   correspondence check run "the Spec" against the implementation. *)
From Coq Require Import List Bool PArith Lia.
From Krrood Require Import Base.Sx Diagram.Ty Diagram.FieldKindSpec Diagram.DiagramSpec Gen.FieldKind
  Diagram.FieldKindProofs Diagram.Diagram Diagram.DiagramProofs.
Import ListNotations.

Lemma wf_order_split pre : forall earlier d suf, wf_order earlier (pre ++ d :: suf) = true ->
  forall b, In b (d_bases d) -> In b earlier \/ In b (names_of pre).
Proof.
  induction pre as [|e pre IH]; simpl; intros earlier d suf H b Hb.
  - repeat (apply andb_true_iff in H as [H ?]). rewrite forallb_forall in H3. left. apply mem_In. auto.
  - repeat (apply andb_true_iff in H as [H ?]). destruct (IH _ _ _ H0 b Hb) as [[<-|H']|H']; auto.
Qed.

Section Exec.
  Variable p : prog.
  Hypothesis Hwf : wf_prog p = true.

  Let Horder : wf_order [] p = true.
  Proof. pose proof Hwf as H. unfold wf_prog in H. repeat (apply andb_true_iff in H as [H ?]). auto. Qed.
  Let Hnames : NoDup (names_of p).
  Proof. now apply wf_order_names in Horder. Qed.

  Lemma ancestors_of_sound fuel : forall c a, In a (ancestors_of fuel p c) -> ancestor p a c.
  Proof.
    induction fuel as [|k IH]; simpl; intros c a H.
    - destruct H as [<-|[]]. constructor.
    - destruct H as [<-|H]; [constructor|]. apply in_flat_map in H as [b [Hb H]].
      econstructor; [apply IH; eauto|]. now apply (direct_base_bases p Hwf).
  Qed.

  Lemma ancestors_of_mono fuel : forall c a, In a (ancestors_of fuel p c) -> In a (ancestors_of (S fuel) p c).
  Proof.
    induction fuel as [|k IH]; intros c a H.
    - simpl in H. destruct H as [<-|[]]. simpl. auto.
    - simpl in H. destruct H as [<-|H]; [simpl; auto|]. apply in_flat_map in H as [b [Hb H]].
      change (In a (c :: flat_map (ancestors_of (S k) p) (bases_of p c))). right.
      apply in_flat_map. exists b. split; auto.
  Qed.

  Lemma ancestors_of_complete : forall pre suf, p = pre ++ suf ->
    forall c, In c (names_of pre) -> forall a, ancestor p a c -> In a (ancestors_of (length pre) p c).
  Proof.
    induction pre as [|d pre IH] using rev_ind; intros suf Hp c Hc a Ha; [destruct Hc|].
    rewrite app_length. simpl. rewrite PeanoNat.Nat.add_1_r.
    assert (Hp' : p = pre ++ d :: suf) by (rewrite Hp, <- app_assoc; reflexivity).
    unfold names_of in Hc. rewrite map_app, in_app_iff in Hc. simpl in Hc.
    destruct (Pos.eq_dec c (d_name d)) as [->|Hne].
    - assert (Hd : In d p) by (rewrite Hp'; apply in_app_iff; simpl; auto).
      apply (ancestor_decl p Hnames) in Ha; auto. destruct Ha as [->|[b [Hb Ha]]]; [simpl; auto|].
      change (In a (d_name d :: flat_map (ancestors_of (length pre) p) (bases_of p (d_name d)))). right.
      apply in_flat_map. exists b. split.
      + apply (direct_base_bases p Hwf). now apply (direct_base_decl p Hnames).
      + apply (IH (d :: suf)); auto.
        rewrite Hp' in Horder. destruct (wf_order_split pre [] d suf Horder b Hb) as [[]|H]; auto.
    - apply ancestors_of_mono. apply (IH (d :: suf)); auto. destruct Hc as [Hc|[Hc|[]]]; [exact Hc | congruence].
  Qed.

  Lemma ancestors_of_ok c a : In c (names_of p) -> (In a (ancestors_of (length p) p c) <-> ancestor p a c).
  Proof.
    intro Hc. split; [apply ancestors_of_sound|]. intro Ha.
    apply (ancestors_of_complete p []); auto. now rewrite app_nil_r.
  Qed.

  Lemma own_fields_declares a f : In f (own_fields p a) <-> declares p a f.
  Proof.
    unfold own_fields. destruct (find_decl p a) as [d|] eqn:E.
    - apply (find_decl_In p Hnames) in E as [E1 E2]. subst a. symmetry. now apply declares_decl.
    - split; [intros []|]. intros [d [H1 [H2 H3]]].
      assert (find_decl p a = Some d) by (apply (find_decl_In p Hnames); auto). congruence.
  Qed.

  Variable cs : list name.
  Hypothesis Hcs : wf_classes p cs = true.

  Let Hcs_decl : forall c, In c cs -> In c (names_of p).
  Proof.
    pose proof Hcs as H0. unfold wf_classes in H0. repeat (apply andb_true_iff in H0 as [H0 ?]). rename H into Hf. pose proof Hf as H. rewrite forallb_forall in H.
    intros c Hc. specialize (H c Hc). destruct (find_decl p c) as [d|] eqn:E; [|discriminate].
    apply (find_decl_In p Hnames) in E as [E1 E2]. subst c. now apply in_map.
  Qed.

  Lemma spec_graph_edges e : In e (g_edges (spec_graph p cs)) <-> spec_edge p cs e.
  Proof.
    unfold spec_graph. cbn [g_edges]. rewrite in_app_iff. unfold spec_edge, spec_inh, spec_assoc. split.
    - intros [H|H].
      + apply in_flat_map in H as [c [Hc H]]. apply in_flat_map in H as [b [Hb H]].
        destruct (mem b (bases_of p c)) eqn:M; [|destruct H]. destruct H as [<-|[]]. simpl.
        apply mem_In in M. repeat split; auto. now apply (direct_base_bases p Hwf).
      + apply in_flat_map in H as [c [Hc H]]. apply in_flat_map in H as [a [Ha H]].
        apply in_flat_map in H as [f [Hf H]]. destruct (f_private f) eqn:P; [destruct H|].
        apply in_flat_map in H as [d [Hd H]]. destruct (about (f_ann f) d) eqn:A; [|destruct H].
        destruct H as [<-|[]]. simpl. repeat split; auto. exists a, f. repeat split; auto.
        * apply dedup_In in Ha as [Ha _]. apply ancestors_of_ok in Ha; auto.
        * now apply own_fields_declares.
    - intros [Hs [Hd H]]. destruct e as [k s t fn]. simpl in *. destruct k.
      + destruct H as [-> Hb]. left. apply in_flat_map. exists t. split; auto.
        apply in_flat_map. exists s. split; auto.
        apply (direct_base_bases p Hwf) in Hb. apply mem_In in Hb. rewrite Hb. simpl; auto.
      + destruct H as [a [f [Ha [Hf [P [Hn A]]]]]]. right. apply in_flat_map. exists s. split; auto.
        apply in_flat_map. exists a. split.
        * apply dedup_In. split; auto. apply ancestors_of_ok; auto.
        * apply in_flat_map. exists f. split; [now apply own_fields_declares|]. rewrite P.
          apply in_flat_map. exists t. split; auto. rewrite A. subst fn. simpl; auto.
  Qed.
End Exec.

(* model and executable Spec have the same edges; the model lists each once *)
Theorem build_matches_spec_graph : forall p cs, wf_prog p = true -> wf_classes p cs = true ->
  exists g, build p cs = Ok g /\ g_nodes g = g_nodes (spec_graph p cs) /\ NoDup (g_edges g) /\
            forall e, In e (g_edges g) <-> In e (g_edges (spec_graph p cs)).
Proof.
  intros p cs Hp Hc. destruct (build_meets_spec p cs Hp Hc) as [g [H1 [H2 [H3 H4]]]].
  exists g. repeat split; auto.
  - intro H. apply spec_graph_edges; auto. now apply H4.
  - intro H. apply H4. now apply spec_graph_edges in H.
Qed.

(* declared annotations (forward references at the leaves) resolve into the supported grammar, to the class they name *)
Lemma resolve_wf p ns t : wf_ann t = true -> leaf_ok p t = true -> locals_res p ns t ->
  exists rt, resolve p ns (fun n => n) t = Ok rt /\ wf_ty rt = true /\ forall d, about rt d = about t d.
Proof.
  unfold locals_res. intros W L Hl.
  destruct t as [b|c'|e|a|k a|a|n'|a|a|k v|o| |n'|pp u1 u2]; try discriminate W;
    try (eexists; split; [reflexivity|]; split; [exact W | reflexivity]);
    try (unfold leaf_ok in L; cbn in L; cbn in Hl; cbn; try rewrite Hl; unfold resolve_name;
         destruct (find_decl p n') as [d'|]; try discriminate L; destruct (d_kind d');
         eexists; split; try reflexivity; split; reflexivity);
    destruct a as [b|c'|e|a|k' a|a|n'|a|a|k' v|o| |n'|pp u1 u2]; try discriminate W;
    try (eexists; split; [reflexivity|]; split; [exact W | reflexivity]);
    unfold leaf_ok in L; cbn in L; cbn in Hl; cbn; try rewrite Hl; unfold resolve_name;
    destruct (find_decl p n') as [d'|]; try discriminate L; destruct (d_kind d');
    eexists; split; try reflexivity; split; reflexivity.
Qed.

Theorem classify_declared : forall p ns t d df, wf_ann t = true -> leaf_ok p t = true -> locals_res p ns t ->
  exists rt, resolve p ns (fun n => n) t = Ok rt /\
    kinds_of {| resolved_type := rt; has_default := d; has_default_factory := df |} = Ok (spec_kind rt) /\
    forall c, about rt c = about t c.
Proof.
  intros p ns t d df W L Hl. destruct (resolve_wf p ns t W L Hl) as [rt [H1 [H2 H3]]].
  exists rt. split; auto. split; auto. now apply classify_ok.
Qed.
