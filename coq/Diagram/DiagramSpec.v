(* Diagram/DiagramSpec.v -- Spec of C17's structural part: which nodes and edges a class diagram must have.
   Depends on the grammar and the classification Spec only (not on the model, not on the translated code).

   A program is the list of class declarations in declaration order.  The Spec is relational
   ([spec_edge]); [spec_graph] is its executable companion used by the correspondence check. *)
From Coq Require Import List Bool PArith ZArith.
From Krrood Require Import Base.Sx Diagram.Ty Diagram.FieldKindSpec.
Import ListNotations.

Record fdecl := { f_name : name; f_private : bool; f_ann : ty; f_default : bool; f_factory : bool }.
Inductive dkind := DDataclass | DEnum | DPlain.
(* d_hidden: names the module of this class cannot see at run time (imported under `if TYPE_CHECKING:` only);
   the Spec does not read it: a forward reference names its class whatever the import style *)
(* d_pyname: the class's Python __name__.  d_name identifies the class in the program; two classes of different modules may
   share a __name__ (namesakes).  Annotations name classes by d_name: what the name denotes in the declaring module. *)
Record decl := { d_name : name; d_kind : dkind; d_bases : list name; d_fields : list fdecl; d_hidden : list name;
                 d_pyname : name }.
Definition prog := list decl.

Inductive ekind := EInh | EAssoc.
(* inheritance: base -> class (field = 1);  association: owner -> target, labelled with the field *)
Record edge := mk_edge { e_kind : ekind; e_src : name; e_dst : name; e_field : name }.
Record graph := mk_graph { g_nodes : list name; g_edges : list edge }.

Definition direct_base (p : prog) (b c : name) : Prop :=
  exists d, In d p /\ d_name d = c /\ In b (d_bases d).
Definition declares (p : prog) (c : name) (f : fdecl) : Prop :=
  exists d, In d p /\ d_name d = c /\ In f (d_fields d).
(* a is c or a direct or indirect base of c *)
Inductive ancestor (p : prog) : name -> name -> Prop :=
| anc_refl c : ancestor p c c
| anc_step a b c : ancestor p a b -> direct_base p b c -> ancestor p a c.

(* the annotation, seen through Optional / container / Type wrappers and forward references, is class d *)
Definition about (t : ty) (d : name) : bool :=
  match seen_through t with Cls c | Enum c | Fwd c | FwdLocal c => Pos.eqb c d | _ => false end.

Definition spec_edge (p : prog) (cs : list name) (e : edge) : Prop :=
  In (e_src e) cs /\ In (e_dst e) cs /\
  match e_kind e with
  | EInh => e_field e = 1%positive /\ direct_base p (e_src e) (e_dst e)
  | EAssoc => exists a f, ancestor p a (e_src e) /\ declares p a f /\ f_private f = false
                          /\ f_name f = e_field e /\ about (f_ann f) (e_dst e) = true
  end.

(* ------------------------------------------------------------------ executable companion *)
Definition mem (c : name) (l : list name) : bool := existsb (Pos.eqb c) l.
Fixpoint dedup (l : list name) (seen : list name) : list name :=
  match l with [] => [] | c :: l' => if mem c seen then dedup l' seen else c :: dedup l' (c :: seen) end.
Definition find_decl (p : prog) (c : name) : option decl := find (fun d => Pos.eqb (d_name d) c) p.
Definition bases_of (p : prog) (c : name) : list name :=
  match find_decl p c with Some d => d_bases d | None => [] end.
(* all classes reachable from c through direct bases, c included; fuel = |p| suffices for an acyclic program *)
Fixpoint ancestors_of (fuel : nat) (p : prog) (c : name) : list name :=
  match fuel with
  | O => [c]
  | S k => c :: flat_map (ancestors_of k p) (bases_of p c)
  end.
Definition spec_inh (p : prog) (ns : list name) : list edge :=
  flat_map (fun c => flat_map (fun b => if mem b (bases_of p c) then [mk_edge EInh b c xH] else []) ns) ns.
Definition own_fields (p : prog) (a : name) : list fdecl :=
  match find_decl p a with Some d => d_fields d | None => [] end.
Definition spec_assoc (p : prog) (ns : list name) : list edge :=
  flat_map (fun c =>
    flat_map (fun a =>
      flat_map (fun f =>
        if f_private f then [] else
        flat_map (fun d => if about (f_ann f) d then [mk_edge EAssoc c d (f_name f)] else []) ns)
      (own_fields p a))
    (dedup (ancestors_of (length p) p c) []))
  ns.
Definition spec_graph (p : prog) (cs : list name) : graph :=
  mk_graph cs (spec_inh p cs ++ spec_assoc p cs).

(* ------------------------------------------------------------------ canonical printing (shared with the model) *)
Definition ZP (n : name) : sx := SZ (Zpos n).
Definition edge_sx (e : edge) : sx :=
  SL [SZ (match e_kind e with EInh => 0 | EAssoc => 1 end); ZP (e_src e); ZP (e_dst e); ZP (e_field e)]%Z.
(* nodes in order; edges as a sorted multiset *)
Definition graph_sx (g : graph) : sx := SL [SL (map ZP (g_nodes g)); SL (sx_sort (map edge_sx (g_edges g)))].

Definition spec_sx (p : prog) (cs : list name) : sx := SL [SZ 0%Z; graph_sx (spec_graph p cs)].

(* ------------------------------------------------------------------ the fragment *)
Definition wf_field (f : fdecl) : bool := wf_ann (f_ann f).
Definition names_of (p : prog) : list name := map d_name p.
Fixpoint nodupb (l : list name) : bool :=
  match l with [] => true | c :: l' => negb (mem c l') && nodupb l' end.
(* declared annotations only name declared classes, with the right kind for direct references *)
Definition leaf_ok (p : prog) (t : ty) : bool :=
  match seen_through t with
  | Cls c => match find_decl p c with Some d => match d_kind d with DEnum => false | _ => true end | None => false end
  | Enum c => match find_decl p c with Some d => match d_kind d with DEnum => true | _ => false end | None => false end
  | Fwd c | FwdLocal c => match find_decl p c with Some _ => true | None => false end
  | _ => true
  end.
(* declaration order: bases are declared earlier; enums and plain classes have no bases and no fields *)
Fixpoint wf_order (earlier : list name) (p : prog) : bool :=
  match p with
  | [] => true
  | d :: p' =>
      negb (mem (d_name d) earlier) && forallb (fun b => mem b earlier) (d_bases d) && nodupb (d_bases d)
      && match d_kind d with DDataclass => true | _ => match d_bases d, d_fields d with [], [] => true | _, _ => false end end
      && wf_order (d_name d :: earlier) p'
  end.
Definition all_fields (p : prog) : list fdecl := flat_map d_fields p.
Definition pyname_of (p : prog) (m : name) : name :=
  match find_decl p m with Some d => d_pyname d | None => m end.
(* no other class of the program has the __name__ of h *)
Definition unique_py (p : prog) (h : name) : bool :=
  forallb (fun d => negb (Pos.eqb (d_pyname d) (pyname_of p h)) || Pos.eqb (d_name d) h) p.
Definition wf_prog (p : prog) : bool :=
  wf_order [] p
  && nodupb (map f_name (all_fields p))                       (* no field name is declared twice (no overriding) *)
  && forallb (fun f => wf_field f && leaf_ok p (f_ann f)) (all_fields p)
  && forallb (fun d => forallb (fun b => match find_decl p b with
                                          | Some d' => match d_kind d' with DDataclass => true | _ => false end
                                          | None => false end) (d_bases d)) p
  (* classes may share a __name__ (namesakes in different modules); only a name that nothing but the diagram or a scan of
     the loaded modules can resolve -- imported under TYPE_CHECKING only, or local to a function / class -- must be unique *)
  && forallb (fun d => forallb (unique_py p) (d_hidden d)) p
  && forallb (fun f => match seen_through (f_ann f) with FwdLocal n => unique_py p n | _ => true end) (all_fields p).
(* a forward reference to a class that is not a module-level name can only be found in the diagram *)
Definition locals_in (cs : list name) (t : ty) : bool :=
  match seen_through t with FwdLocal n => mem n cs | _ => true end.
Definition wf_classes (p : prog) (cs : list name) : bool :=
  forallb (fun f => locals_in cs (f_ann f)) (all_fields p) &&
  nodupb cs &&
  forallb (fun c => match find_decl p c with Some d => match d_kind d with DDataclass => true | _ => false end | None => false end) cs.
