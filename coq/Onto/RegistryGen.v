(* The definitions regenerated from krrood's source on every run (Gen/Registry.v) are the hand-written model the
   theorems are about.  When a method loses, gains or reorders a statement so that its meaning changes, one of these
   equalities stops to hold and the build of Props/C13|C14|C20 breaks. *)
From Coq Require Import List Arith Bool PeanoNat.
From Krrood Require Import Onto.RegistrySpec Onto.Registry Onto.RegistryIdioms Gen.Registry.
Import ListNotations.

Lemma gen_add_node r w : g_add_node r w = add_node r w.
Proof. reflexivity. Qed.

Lemma gen_remove_node r w : g_remove_node r w = remove_node r w.
Proof. reflexivity. Qed.

Lemma gen_add_relation r e : g_add_relation r e = add_relation r e.
Proof. unfold g_add_relation, add_relation, g_relation_exists. destruct (existsb _ _); reflexivity. Qed.

Lemma gen_sweep L r : g_sweep L r = sweep L r.
Proof. reflexivity. Qed.

Lemma gen_rsub children n : forall c, g_rsub children n c = rsub children n c.
Proof. induction n as [|n IH]; intros c; simpl; auto. f_equal. f_equal. apply flat_map_ext. exact IH. Qed.

Lemma gen_instances children fuel L r T : g_instances children fuel L r T = instances children fuel L r T.
Proof. unfold g_instances, instances, g_instances_raw, instances_raw. now rewrite gen_rsub. Qed.

Lemma gen_ensure L r o i : g_ensure L r o i = ensure L r o i.
Proof.
  unfold g_ensure, ensure, g_get_wrapped, g_wrap. destruct (find (fun x => o_id x =? o) L) as [x|] eqn:F; auto.
  apply find_some in F. destruct F as [_ E]. apply Nat.eqb_eq in E. subst o.
  destruct (get (o_pyid x) (by_id r)); reflexivity.
Qed.

Lemma gen_relate L r a f b ia ib : g_relate L r a f b ia ib = relate L r a f b ia ib.
Proof.
  unfold g_relate, relate, g_relation_init. rewrite gen_ensure. destruct (ensure L r a ia) as [r1 [wa|]]; auto.
  rewrite gen_ensure. destruct (ensure L r1 b ib) as [r2 [wb|]]; auto.
Qed.

Lemma gen_new r x i : g_new r x i = add_node r (W (o_id x) (o_cls x) (o_pyid x) i).
Proof. reflexivity. Qed.

Lemma gen_clear r : g_clear r = empty_reg.
Proof. reflexivity. Qed.

(* a complete evaluation of let(T, None): what step does for QueryE / EvalV; and the lazy walk of live evaluations *)
Lemma gen_eval children fuel L r T :
  g_eval children fuel L r T = (sweep L r, dedupo (instances children fuel L (sweep L r) T)).
Proof. unfold g_eval. now rewrite gen_instances. Qed.

Lemma gen_pull_cur L seen cur : g_pull_cur L seen cur = pull_cur L seen cur.
Proof.
  induction cur as [|w t IH]; simpl; auto;
    try (unfold g_deref, deref; destruct (mem_obj (w_obj w) L); auto; now rewrite IH).
Qed.

Lemma gen_pull_classes L r seen cs : g_pull_classes L r seen cs = pull_classes L r seen cs.
Proof. induction cs as [|c cs IH]; simpl; auto; try (now rewrite gen_pull_cur, IH). Qed.

Definition GenIsModel : Prop :=
  (forall r w, g_add_node r w = add_node r w) /\
  (forall r w, g_remove_node r w = remove_node r w) /\
  (forall r e, g_add_relation r e = add_relation r e) /\
  (forall L r, g_sweep L r = sweep L r) /\
  (forall children n c, g_rsub children n c = rsub children n c) /\
  (forall children fuel L r T, g_instances children fuel L r T = instances children fuel L r T) /\
  (forall L r o i, g_ensure L r o i = ensure L r o i) /\
  (forall L r a f b ia ib, g_relate L r a f b ia ib = relate L r a f b ia ib) /\
  (forall r x i, g_new r x i = add_node r (W (o_id x) (o_cls x) (o_pyid x) i)) /\
  (forall r, g_clear r = empty_reg) /\
  (forall children fuel L r T, g_eval children fuel L r T = (sweep L r, dedupo (instances children fuel L (sweep L r) T))) /\
  (forall L seen cur, g_pull_cur L seen cur = pull_cur L seen cur) /\
  (forall L r seen cs, g_pull_classes L r seen cs = pull_classes L r seen cs) /\
  g_held_after_eval = [].

Theorem gen_is_model : GenIsModel.
Proof.
  exact (conj gen_add_node (conj gen_remove_node (conj gen_add_relation (conj gen_sweep (conj gen_rsub
        (conj gen_instances (conj gen_ensure (conj gen_relate (conj gen_new (conj gen_clear (conj gen_eval
        (conj gen_pull_cur (conj gen_pull_classes eq_refl))))))))))))).
Qed.
