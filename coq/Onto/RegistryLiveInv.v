(* Evaluations consumed row by row, over histories: every row is an existing instance of the variable's type or of one of its
   subclasses -- however the evaluation is interleaved with creation, dropping, sweeping, relation assertions and other
   evaluations.  Invariant: the wrappers of the class snapshot being walked that belong to existing instances are still in
   the current per-class lists, and everything the walk can still reach is of the right type. *)
From Coq Require Import List Arith Bool PeanoNat Lia Permutation.
From Krrood Require Import Onto.RegistrySpec Onto.Registry Onto.RegistryLemmas Onto.RegistryInv Onto.RegistryProofs
  Onto.RegistryQuery Onto.RegistryRel Onto.RegistryLive.
Import ListNotations.

Lemma nth_error_set_nth {A} (x : A) : forall l n m y,
  nth_error (set_nth n x l) m = Some y -> (m = n /\ y = x) \/ nth_error l m = Some y.
Proof.
  induction l as [|a l IH]; intros [|n] [|m] y H; simpl in *; auto; try discriminate.
  - inversion H. auto.
  - destruct (IH _ _ _ H) as [[-> ->]|E]; auto.
Qed.

Section LiveInv.
  Variable children : cls -> list cls.
  Variable fuel : nat.
  Notation step := (step children fuel).
  Notation run := (run children fuel).
  Notation adm_run := (adm_run children fuel).

  Definition EvGood (L : list orec) (r : reg) (nx : nat) (e : ev) : Prop :=
    e_started e = true -> e_stale e = false ->
    (forall w, In w (e_cur e) ->
       le_b children fuel (w_cls w) (e_T e) = true /\ w_obj w < nx /\ (mem_obj (w_obj w) L = true -> In w (wl r))) /\
    (forall c, In c (e_classes e) -> le_b children fuel c (e_T e) = true).

  Definition EvOK (s : st) : Prop :=
    forall n e, nth_error (evals s) n = Some (Some e) -> EvGood (live s) (g s) (next s) e.

  Lemma EvGood_mono L r nx L' r' nx' e :
    EvGood L r nx e -> nx <= nx' ->
    (forall w, w_obj w < nx -> mem_obj (w_obj w) L' = true ->
               mem_obj (w_obj w) L = true /\ (In w (wl r) -> In w (wl r'))) ->
    EvGood L' r' nx' e.
  Proof.
    intros H Hn Hm Hs Hst. destruct (H Hs Hst) as [A B]. split; auto.
    intros w Hw. destruct (A _ Hw) as [A1 [A2 A3]]. split; auto. split; [lia|].
    intros M. destruct (Hm _ A2 M) as [M1 M2]. auto.
  Qed.

  Lemma EvOK_mono s L' r' nx' u v :
    EvOK s -> next s <= nx' ->
    (forall w, w_obj w < next s -> mem_obj (w_obj w) L' = true ->
               mem_obj (w_obj w) (live s) = true /\ (In w (wl (g s)) -> In w (wl r'))) ->
    EvOK (ST L' u r' v (evals s) nx').
  Proof. intros H Hn Hm n e He. simpl in *. eapply EvGood_mono; eauto. Qed.

  (* what pull leaves to be walked was there before, or comes from the current per-class lists *)
  Lemma pull_rest L r e v cur cs : pull L r e = Some (v, cur, cs) ->
    (forall w, In w cur -> In w (e_cur e) \/ (In w (wl r) /\ In (w_cls w) (e_classes e))) /\
    (forall c, In c cs -> In c (e_classes e)) /\
    exists w o, v = Some o /\ deref L w = Some o /\ (In w (e_cur e) \/ (In w (wl r) /\ In (w_cls w) (e_classes e))).
  Proof.
    unfold pull. destruct (pull_cur L (e_seen e) (e_cur e)) as [[v' t]|] eqn:E; intros H.
    - inversion H; subst. destruct (pull_cur_spec _ _ _ _ _ E) as [w [o [A [B [C [_ [pre G]]]]]]]. repeat split; auto.
      + intros w' Hw'. left. rewrite G, in_app_iff. simpl. auto.
      + exists w, o. auto.
    - destruct (pull_classes_spec _ _ _ _ _ _ _ H) as [w [o [c [A [B [C [D [F [_ [G I]]]]]]]]]]. repeat split; auto.
      + intros w' Hw'. right. destruct (G _ Hw') as [G1 G2]. split; auto. now rewrite G2.
      + exists w, o. subst c. auto.
  Qed.

  Lemma fresh_classes T c : In c (T :: rsub children fuel T) -> le_b children fuel c T = true.
  Proof.
    intros H. apply (in_classes children fuel). apply existsb_exists. exists c. split; auto. apply Nat.eqb_refl.
  Qed.

  Lemma sweep_mono s : Inv s -> forall w, w_obj w < next s -> mem_obj (w_obj w) (live s) = true ->
    mem_obj (w_obj w) (live s) = true /\ (In w (wl (g s)) -> In w (wl (sweep (live s) (g s)))).
  Proof.
    intros HI w _ M. split; auto. intros Hw.
    apply (i_nodes_wl _ _ (sweep_inv _ _ (inv_reg _ HI))). apply sweep_keeps_live; auto; [|apply HI].
    now apply (i_nodes_wl _ _ (inv_reg _ HI)).
  Qed.

  Lemma filter_mono s p r' : (forall w, In w (wl (g s)) -> In w (wl r')) ->
    forall w, w_obj w < next s -> mem_obj (w_obj w) (filter p (live s)) = true ->
    mem_obj (w_obj w) (live s) = true /\ (In w (wl (g s)) -> In w (wl r')).
  Proof.
    intros Hr w _ M. split; auto. apply mem_obj_true in M. destruct M as [x [Hx E]]. apply filter_In in Hx.
    apply mem_obj_true. exists x. tauto.
  Qed.

  Lemma step_EvOK s o : Inv s -> adm s o = true -> is_clear o = false -> EvOK s -> EvOK (fst (step s o)).
  Proof.
    intros HI Ha Hc HE.
    destruct o as [c p i|x| |T|T|T|k|k|n y|n|a f b ia ib|]; simpl in *; try discriminate.
    - (* New *) apply EvOK_mono; auto. intros w Hw M. rewrite mem_obj_app in M. apply orb_true_iff in M.
      destruct M as [M|M]; [|simpl in M; apply Nat.eqb_eq in M; lia]. split; auto.
      intros H. unfold add_node; simpl. rewrite in_app_iff. auto.
    - (* Drop *) destruct (pinned (evals s) x); simpl.
      + apply EvOK_mono; auto.
      + apply EvOK_mono; auto. apply filter_mono; auto.
    - apply EvOK_mono; auto. now apply sweep_mono.
    - apply EvOK_mono; auto. now apply sweep_mono.
    - apply EvOK_mono; auto. now apply sweep_mono.
    - exact HE.
    - destruct (nth_error (vars s) k); simpl; auto. apply EvOK_mono; auto. now apply sweep_mono.
    - (* StartV *) destruct (nth_error (vars s) k); simpl; auto.
      intros n e He. simpl in He. destruct (lt_dec n (length (evals s))) as [Hl|Hl].
      + rewrite nth_error_app1 in He by auto. simpl. exact (HE _ _ He).
      + rewrite nth_error_app2 in He by lia. destruct (n - length (evals s)) as [|[|m]]; simpl in He; try discriminate.
        inversion He; subst. intros Hs. discriminate.
    - (* NextV *)
      destruct (nth_error (evals s) n) as [[e|]|] eqn:En; simpl; auto.
      destruct (e_stale e) eqn:Est; simpl; auto.
      set (r := if e_started e then g s else sweep (live s) (g s)).
      set (e1 := if e_started e then e else EV (e_T e) true false (e_T e :: rsub children fuel (e_T e)) [] (e_seen e)).
      assert (Hrm : forall w, w_obj w < next s -> mem_obj (w_obj w) (live s) = true ->
                     mem_obj (w_obj w) (live s) = true /\ (In w (wl (g s)) -> In w (wl r))).
      { unfold r. destruct (e_started e); auto. now apply sweep_mono. }
      assert (Hsub : forall w, In w (wl r) -> In w (wl (g s))).
      { unfold r. destruct (e_started e); auto. intros w. apply sweep_wl_sub. apply HI. }
      assert (HE1 : EvGood (live s) r (next s) e1).
      { unfold e1. destruct (e_started e) eqn:Es.
        - eapply EvGood_mono; [apply (HE _ _ En)| |]; auto.
        - intros _ _. simpl. split; [intros w []|]. apply fresh_classes. }
      assert (T1 : e_T e1 = e_T e) by (unfold e1; destruct (e_started e); reflexivity).
      assert (S1 : e_started e1 = true) by (unfold e1; destruct (e_started e) eqn:Es; auto).
      assert (St1 : e_stale e1 = false) by (unfold e1; destruct (e_started e); auto).
      destruct (HE1 S1 St1) as [G1 G2].
      destruct (pull (live s) r e1) as [[[v cur] cs]|] eqn:P; simpl.
      + destruct (pull_rest _ _ _ _ _ _ P) as [R1 [R2 _]].
        intros m e' He'. simpl in He'. apply nth_error_set_nth in He'. destruct He' as [[-> E]|He'].
        * inversion E; subst e'. intros _ _. simpl. split.
          -- intros w Hw. destruct (R1 _ Hw) as [Hc'|[Hw1 Hw2]].
             ++ rewrite <- T1. apply G1; auto.
             ++ split; [rewrite <- T1; now apply G2|]. split; auto. apply (inv_next_wl _ HI). auto.
          -- intros c Hc'. rewrite <- T1. apply G2. auto.
        * eapply EvGood_mono; [apply (HE _ _ He')| |]; auto.
      + intros m e' He'. simpl in He'. apply nth_error_set_nth in He'. destruct He' as [[_ E]|He']; [discriminate|].
        eapply EvGood_mono; [apply (HE _ _ He')| |]; auto. unfold release.
        intros w Hw M.
        assert (M' : mem_obj (w_obj w) (live s) = true).
        { apply mem_obj_true in M. destruct M as [x [Hx E]]. apply filter_In in Hx. apply mem_obj_true. exists x. tauto. }
        split; auto. intros H. now apply (Hrm w Hw M').
    - (* CloseV *)
      destruct (nth_error (evals s) n) eqn:En; simpl; auto.
      intros m e' He'. simpl in He'. apply nth_error_set_nth in He'. destruct He' as [[_ E]|He']; [discriminate|].
      eapply EvGood_mono; [apply (HE _ _ He')| |]; auto. unfold release. apply filter_mono. auto.
    - (* Relate *)
      destruct (relate_spec (live s) (g s) a f b ia ib (inv_reg _ HI) (inv_world _ HI) Ha) as [r' [nw [E [_ [_ Hm]]]]].
      rewrite E. simpl. apply EvOK_mono; auto.
  Qed.
  Lemma run_EvOK : forall h s, Inv s -> adm_run s h = true -> no_clear h = true -> EvOK s -> EvOK (fst (run s h)).
  Proof.
    induction h as [|o h IH]; simpl; intros s HI Ha Hc HE; auto.
    apply andb_true_iff in Ha. destruct Ha as [Ha Hr]. apply andb_true_iff in Hc. destruct Hc as [Hc Hc'].
    apply negb_true_iff in Hc.
    assert (H1 := step_Inv children fuel s o HI Ha). assert (H2 := step_EvOK s o HI Ha Hc HE).
    destruct (step s o) as [s1 x]. simpl in *. specialize (IH s1 H1 Hr Hc' H2). destruct (run s1 h) as [s2 xs]. auto.
  Qed.

  (* a row is an existing instance of the variable's type or of one of its subclasses *)
  Theorem row_of_type s n y v e :
    Inv s -> EvOK s -> nth_error (evals s) n = Some (Some e) ->
    snd (step s (NextV n y)) = OInst [v] ->
    exists o, v = Some o /\ In o (spec_query children fuel (live s) (e_T e)).
  Proof.
    intros HI HE En. simpl. rewrite En. destruct (e_stale e) eqn:Est; [discriminate|].
    set (r := if e_started e then g s else sweep (live s) (g s)).
    set (e1 := if e_started e then e else EV (e_T e) true false (e_T e :: rsub children fuel (e_T e)) [] (e_seen e)).
    assert (Hr : RegInv (live s) r) by (unfold r; destruct (e_started e); [apply HI|apply sweep_inv, HI]).
    assert (HE1 : EvGood (live s) r (next s) e1).
    { unfold e1, r. destruct (e_started e) eqn:Es.
      - apply (HE _ _ En).
      - intros _ _. simpl. split; [intros w []|]. apply fresh_classes. }
    assert (T1 : e_T e1 = e_T e) by (unfold e1; destruct (e_started e); reflexivity).
    assert (S1 : e_started e1 = true) by (unfold e1; destruct (e_started e) eqn:Es; auto).
    assert (St1 : e_stale e1 = false) by (unfold e1; destruct (e_started e); auto).
    destruct (HE1 S1 St1) as [G1 G2].
    destruct (pull (live s) r e1) as [[[v' cur] cs]|] eqn:P; simpl; intros H; inversion H; subst.
    destruct (pull_rest _ _ _ _ _ _ P) as [_ [_ [w [o [-> [D Hw]]]]]].
    exists o. split; auto. apply deref_some in D. destruct D as [M Eo].
    assert (Hwl : In w (wl r) /\ le_b children fuel (w_cls w) (e_T e) = true).
    { destruct Hw as [Hc|[Hw1 Hw2]].
      - destruct (G1 _ Hc) as [A [_ B]]. rewrite T1 in A. split; auto. apply B. now rewrite Eo.
      - split; auto. rewrite <- T1. now apply G2. }
    destruct Hwl as [Hwl Hle]. apply mem_obj_true in M. destruct M as [x [Hx Ex]].
    destruct (i_wl_live _ _ Hr _ _ Hwl Hx) as [Ec _]; [congruence|].
    unfold spec_query. apply in_map_iff. exists x. split; auto. apply filter_In. split; auto. now rewrite <- Ec.
  Qed.

  (* over histories: after any admissible history without graph re-creation, whatever row a live evaluation hands out next
     is an existing instance of its variable's type (or of a subclass) that it has not handed out before *)
  Theorem live_row_correct h n y v e :
    adm_run init h = true -> no_clear h = true ->
    nth_error (evals (fst (run init h))) n = Some (Some e) ->
    snd (step (fst (run init h)) (NextV n y)) = OInst [v] ->
    exists o, v = Some o /\ In o (spec_query children fuel (live (fst (run init h))) (e_T e)) /\
              (e_started e = true -> ~ In (Some o) (e_seen e)).
  Proof.
    intros Ha Hc En Hout.
    assert (HI := reach_Inv children fuel h Ha).
    assert (HE : EvOK (fst (run init h))).
    { apply run_EvOK; auto; [exact (Inv_init children fuel)|]. intros m e' He'. destruct m; discriminate. }
    destruct (row_of_type _ _ _ _ _ HI HE En Hout) as [o [-> Ho]].
    destruct (next_row_sound children fuel _ _ _ _ _ En Hout) as [o' [E [_ Hn]]]. inversion E; subst o'.
    exists o. auto.
  Qed.
End LiveInv.
