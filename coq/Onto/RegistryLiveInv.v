(* Evaluations consumed row by row, over histories: every row is an existing instance of the variable's type or of one of its
   subclasses -- however the evaluation is interleaved with creation, dropping, sweeping, relation assertions and other
   evaluations.  Invariant: the wrappers of the class snapshot being walked that belong to existing instances are still in
   the current per-class lists, and everything the walk can still reach is of the right type. *)
From Coq Require Import List Arith Bool PeanoNat Lia Permutation.
From Krrood Require Import Onto.RegistrySpec Onto.Registry Onto.RegistryLemmas Onto.RegistryInv Onto.RegistryProofs
  Onto.RegistryQuery Onto.RegistryRel Onto.RegistryLive.
Import ListNotations.

Lemma nth_error_set_nth {A} (x : A) : forall l n m y,
  nth_error (set_nth n x l) m = Some y -> (m = n /\ y = x) \/ nth_error l m = Some y.
Proof.
  induction l as [|a l IH]; intros [|n] [|m] y H; simpl in *; auto; try discriminate.
  - inversion H. auto.
  - destruct (IH _ _ _ H) as [[-> ->]|E]; auto.
Qed.

Section LiveInv.
  Variable children : cls -> list cls.
  Variable fuel : nat.
  Notation step := (step children fuel).
  Notation run := (run children fuel).
  Notation adm_run := (adm_run children fuel).

  Definition EvGood (L : list orec) (r : reg) (nx : nat) (e : ev) : Prop :=
    e_started e = true -> e_stale e = false ->
    (forall w, In w (e_cur e) ->
       le_b children fuel (w_cls w) (e_T e) = true /\ w_obj w < nx /\ (mem_obj (w_obj w) L = true -> In w (wl r))) /\
    (forall c, In c (e_classes e) -> le_b children fuel c (e_T e) = true).

  Definition EvOK (s : st) : Prop :=
    forall n e, nth_error (evals s) n = Some (Some e) -> EvGood (live s) (g s) (next s) e.

  Lemma EvGood_mono L r nx L' r' nx' e :
    EvGood L r nx e -> nx <= nx' ->
    (forall w, w_obj w < nx -> mem_obj (w_obj w) L' = true ->
               mem_obj (w_obj w) L = true /\ (In w (wl r) -> In w (wl r'))) ->
    EvGood L' r' nx' e.
  Proof.
    intros H Hn Hm Hs Hst. destruct (H Hs Hst) as [A B]. split; auto.
    intros w Hw. destruct (A _ Hw) as [A1 [A2 A3]]. split; auto. split; [lia|].
    intros M. destruct (Hm _ A2 M) as [M1 M2]. auto.
  Qed.

  Lemma EvOK_mono s L' r' nx' u v :
    EvOK s -> next s <= nx' ->
    (forall w, w_obj w < next s -> mem_obj (w_obj w) L' = true ->
               mem_obj (w_obj w) (live s) = true /\ (In w (wl (g s)) -> In w (wl r'))) ->
    EvOK (ST L' u r' v (evals s) nx').
  Proof. intros H Hn Hm n e He. simpl in *. eapply EvGood_mono; eauto. Qed.

  (* what pull leaves to be walked was there before, or comes from the current per-class lists *)
  Lemma pull_rest L r e v cur cs : pull L r e = Some (v, cur, cs) ->
    (forall w, In w cur -> In w (e_cur e) \/ (In w (wl r) /\ In (w_cls w) (e_classes e))) /\
    (forall c, In c cs -> In c (e_classes e)) /\
    exists w o, v = Some o /\ deref L w = Some o /\ (In w (e_cur e) \/ (In w (wl r) /\ In (w_cls w) (e_classes e))).
  Proof.
    unfold pull. destruct (pull_cur L (e_seen e) (e_cur e)) as [[v' t]|] eqn:E; intros H.
    - inversion H; subst. destruct (pull_cur_spec _ _ _ _ _ E) as [w [o [A [B [C [_ [pre G]]]]]]]. repeat split; auto.
      + intros w' Hw'. left. rewrite G, in_app_iff. simpl. auto.
      + exists w, o. auto.
    - destruct (pull_classes_spec _ _ _ _ _ _ _ H) as [w [o [c [A [B [C [D [F [_ [G I]]]]]]]]]]. repeat split; auto.
      + intros w' Hw'. right. destruct (G _ Hw') as [G1 G2]. split; auto. now rewrite G2.
      + exists w, o. subst c. auto.
  Qed.

  Lemma fresh_classes T c : In c (T :: rsub children fuel T) -> le_b children fuel c T = true.
  Proof.
    intros H. apply (in_classes children fuel). apply existsb_exists. exists c. split; auto. apply Nat.eqb_refl.
  Qed.

  Lemma sweep_mono s : Inv s -> forall w, w_obj w < next s -> mem_obj (w_obj w) (live s) = true ->
    mem_obj (w_obj w) (live s) = true /\ (In w (wl (g s)) -> In w (wl (sweep (live s) (g s)))).
  Proof.
    intros HI w _ M. split; auto. intros Hw.
    apply (i_nodes_wl _ _ (sweep_inv _ _ (inv_reg _ HI))). apply sweep_keeps_live; auto; [|apply HI].
    now apply (i_nodes_wl _ _ (inv_reg _ HI)).
  Qed.

  Lemma filter_mono s p r' : (forall w, In w (wl (g s)) -> In w (wl r')) ->
    forall w, w_obj w < next s -> mem_obj (w_obj w) (filter p (live s)) = true ->
    mem_obj (w_obj w) (live s) = true /\ (In w (wl (g s)) -> In w (wl r')).
  Proof.
    intros Hr w _ M. split; auto. apply mem_obj_true in M. destruct M as [x [Hx E]]. apply filter_In in Hx.
    apply mem_obj_true. exists x. tauto.
  Qed.

  Lemma step_EvOK s o : Inv s -> adm s o = true -> is_clear o = false -> EvOK s -> EvOK (fst (step s o)).
  Proof.
    intros HI Ha Hc HE.
    destruct o as [c p i|x| |T|T|T|k|k|n y|n|a f b ia ib|]; simpl in *; try discriminate.
    - (* New *) apply EvOK_mono; auto. intros w Hw M. rewrite mem_obj_app in M. apply orb_true_iff in M.
      destruct M as [M|M]; [|simpl in M; apply Nat.eqb_eq in M; lia]. split; auto.
      intros H. unfold add_node; simpl. rewrite in_app_iff. auto.
    - (* Drop *) destruct (pinned (evals s) x); simpl.
      + apply EvOK_mono; auto.
      + apply EvOK_mono; auto. apply filter_mono; auto.
    - apply EvOK_mono; auto. now apply sweep_mono.
    - apply EvOK_mono; auto. now apply sweep_mono.
    - apply EvOK_mono; auto. now apply sweep_mono.
    - exact HE.
    - destruct (nth_error (vars s) k); simpl; auto. apply EvOK_mono; auto. now apply sweep_mono.
    - (* StartV *) destruct (nth_error (vars s) k); simpl; auto.
      intros n e He. simpl in He. destruct (lt_dec n (length (evals s))) as [Hl|Hl].
      + rewrite nth_error_app1 in He by auto. simpl. exact (HE _ _ He).
      + rewrite nth_error_app2 in He by lia. destruct (n - length (evals s)) as [|[|m]]; simpl in He; try discriminate.
        inversion He; subst. intros Hs. discriminate.
    - (* NextV *)
      destruct (nth_error (evals s) n) as [[e|]|] eqn:En; simpl; auto.
      destruct (e_stale e) eqn:Est; simpl; auto.
      set (r := if e_started e then g s else sweep (live s) (g s)).
      set (e1 := if e_started e then e else EV (e_T e) true false (e_T e :: rsub children fuel (e_T e)) [] (e_seen e)).
      assert (Hrm : forall w, w_obj w < next s -> mem_obj (w_obj w) (live s) = true ->
                     mem_obj (w_obj w) (live s) = true /\ (In w (wl (g s)) -> In w (wl r))).
      { unfold r. destruct (e_started e); auto. now apply sweep_mono. }
      assert (Hsub : forall w, In w (wl r) -> In w (wl (g s))).
      { unfold r. destruct (e_started e); auto. intros w. apply sweep_wl_sub. apply HI. }
      assert (HE1 : EvGood (live s) r (next s) e1).
      { unfold e1. destruct (e_started e) eqn:Es.
        - eapply EvGood_mono; [apply (HE _ _ En)| |]; auto.
        - intros _ _. simpl. split; [intros w []|]. apply fresh_classes. }
      assert (T1 : e_T e1 = e_T e) by (unfold e1; destruct (e_started e); reflexivity).
      assert (S1 : e_started e1 = true) by (unfold e1; destruct (e_started e) eqn:Es; auto).
      assert (St1 : e_stale e1 = false) by (unfold e1; destruct (e_started e); auto).
      destruct (HE1 S1 St1) as [G1 G2].
      destruct (pull (live s) r e1) as [[[v cur] cs]|] eqn:P; simpl.
      + destruct (pull_rest _ _ _ _ _ _ P) as [R1 [R2 _]].
        intros m e' He'. simpl in He'. apply nth_error_set_nth in He'. destruct He' as [[-> E]|He'].
        * inversion E; subst e'. intros _ _. simpl. split.
          -- intros w Hw. destruct (R1 _ Hw) as [Hc'|[Hw1 Hw2]].
             ++ rewrite <- T1. apply G1; auto.
             ++ split; [rewrite <- T1; now apply G2|]. split; auto. apply (inv_next_wl _ HI). auto.
          -- intros c Hc'. rewrite <- T1. apply G2. auto.
        * eapply EvGood_mono; [apply (HE _ _ He')| |]; auto.
      + intros m e' He'. simpl in He'. apply nth_error_set_nth in He'. destruct He' as [[_ E]|He']; [discriminate|].
        eapply EvGood_mono; [apply (HE _ _ He')| |]; auto. unfold release.
        intros w Hw M.
        assert (M' : mem_obj (w_obj w) (live s) = true).
        { apply mem_obj_true in M. destruct M as [x [Hx E]]. apply filter_In in Hx. apply mem_obj_true. exists x. tauto. }
        split; auto. intros H. now apply (Hrm w Hw M').
    - (* CloseV *)
      destruct (nth_error (evals s) n) eqn:En; simpl; auto.
      intros m e' He'. simpl in He'. apply nth_error_set_nth in He'. destruct He' as [[_ E]|He']; [discriminate|].
      eapply EvGood_mono; [apply (HE _ _ He')| |]; auto. unfold release. apply filter_mono. auto.
    - (* Relate *)
      destruct (relate_spec (live s) (g s) a f b ia ib (inv_reg _ HI) (inv_world _ HI) Ha) as [r' [nw [E [_ [_ Hm]]]]].
      rewrite E. simpl. apply EvOK_mono; auto.
  Qed.
  Lemma run_EvOK : forall h s, Inv s -> adm_run s h = true -> no_clear h = true -> EvOK s -> EvOK (fst (run s h)).
  Proof.
    induction h as [|o h IH]; simpl; intros s HI Ha Hc HE; auto.
    apply andb_true_iff in Ha. destruct Ha as [Ha Hr]. apply andb_true_iff in Hc. destruct Hc as [Hc Hc'].
    apply negb_true_iff in Hc.
    assert (H1 := step_Inv children fuel s o HI Ha). assert (H2 := step_EvOK s o HI Ha Hc HE).
    destruct (step s o) as [s1 x]. simpl in *. specialize (IH s1 H1 Hr Hc' H2). destruct (run s1 h) as [s2 xs]. auto.
  Qed.

  (* a row is an existing instance of the variable's type or of one of its subclasses *)
  Theorem row_of_type s n y v e :
    Inv s -> EvOK s -> nth_error (evals s) n = Some (Some e) ->
    snd (step s (NextV n y)) = OInst [v] ->
    exists o, v = Some o /\ In o (spec_query children fuel (live s) (e_T e)).
  Proof.
    intros HI HE En. simpl. rewrite En. destruct (e_stale e) eqn:Est; [discriminate|].
    set (r := if e_started e then g s else sweep (live s) (g s)).
    set (e1 := if e_started e then e else EV (e_T e) true false (e_T e :: rsub children fuel (e_T e)) [] (e_seen e)).
    assert (Hr : RegInv (live s) r) by (unfold r; destruct (e_started e); [apply HI|apply sweep_inv, HI]).
    assert (HE1 : EvGood (live s) r (next s) e1).
    { unfold e1, r. destruct (e_started e) eqn:Es.
      - apply (HE _ _ En).
      - intros _ _. simpl. split; [intros w []|]. apply fresh_classes. }
    assert (T1 : e_T e1 = e_T e) by (unfold e1; destruct (e_started e); reflexivity).
    assert (S1 : e_started e1 = true) by (unfold e1; destruct (e_started e) eqn:Es; auto).
    assert (St1 : e_stale e1 = false) by (unfold e1; destruct (e_started e); auto).
    destruct (HE1 S1 St1) as [G1 G2].
    destruct (pull (live s) r e1) as [[[v' cur] cs]|] eqn:P; simpl; intros H; inversion H; subst.
    destruct (pull_rest _ _ _ _ _ _ P) as [_ [_ [w [o [-> [D Hw]]]]]].
    exists o. split; auto. apply deref_some in D. destruct D as [M Eo].
    assert (Hwl : In w (wl r) /\ le_b children fuel (w_cls w) (e_T e) = true).
    { destruct Hw as [Hc|[Hw1 Hw2]].
      - destruct (G1 _ Hc) as [A [_ B]]. rewrite T1 in A. split; auto. apply B. now rewrite Eo.
      - split; auto. rewrite <- T1. now apply G2. }
    destruct Hwl as [Hwl Hle]. apply mem_obj_true in M. destruct M as [x [Hx Ex]].
    destruct (i_wl_live _ _ Hr _ _ Hwl Hx) as [Ec _]; [congruence|].
    unfold spec_query. apply in_map_iff. exists x. split; auto. apply filter_In. split; auto. now rewrite <- Ec.
  Qed.

  (* over histories: after any admissible history without graph re-creation, whatever row a live evaluation hands out next
     is an existing instance of its variable's type (or of a subclass) that it has not handed out before *)
  Theorem live_row_correct h n y v e :
    adm_run init h = true -> no_clear h = true ->
    nth_error (evals (fst (run init h))) n = Some (Some e) ->
    snd (step (fst (run init h)) (NextV n y)) = OInst [v] ->
    exists o, v = Some o /\ In o (spec_query children fuel (live (fst (run init h))) (e_T e)) /\
              (e_started e = true -> ~ In (Some o) (e_seen e)).
  Proof.
    intros Ha Hc En Hout.
    assert (HI := reach_Inv children fuel h Ha).
    assert (HE : EvOK (fst (run init h))).
    { apply run_EvOK; auto; [exact (Inv_init children fuel)|]. intros m e' He'. destruct m; discriminate. }
    destruct (row_of_type _ _ _ _ _ HI HE En Hout) as [o [-> Ho]].
    destruct (next_row_sound children fuel _ _ _ _ _ En Hout) as [o' [E [_ Hn]]]. inversion E; subst o'.
    exists o. auto.
  Qed.
  (* ---------------------------------------------------------------- the end of an evaluation *)
  (* a wrapper the walk passes over without handing its instance out: the instance is gone, or was handed out before *)
  Definition handled (L : list orec) (seen : list (option obj)) (w : wrapper) : Prop :=
    deref L w = None \/ In (Some (w_obj w)) seen.

  Lemma seen_In o seen : existsb (oeqb (Some o)) seen = true -> In (Some o) seen.
  Proof. intros H. apply existsb_exists in H. destruct H as [y [Hy E]]. apply oeqb_eq in E. now subst. Qed.

  Lemma deref_obj L w o : deref L w = Some o -> o = w_obj w.
  Proof. intros H. apply deref_some in H. destruct H; auto. Qed.

  Lemma pull_cur_none L seen : forall cur, pull_cur L seen cur = None -> forall w, In w cur -> handled L seen w.
  Proof.
    induction cur as [|a cur IH]; simpl; intros H w Hw; [destruct Hw|].
    destruct (deref L a) as [o|] eqn:D.
    - destruct (existsb (oeqb (Some o)) seen) eqn:E; [|discriminate].
      destruct Hw as [<-|Hw]; [|now apply IH]. right. rewrite <- (deref_obj _ _ _ D). now apply seen_In.
    - destruct Hw as [<-|Hw]; [now left|now apply IH].
  Qed.

  Lemma pull_cur_some L seen : forall cur v t, pull_cur L seen cur = Some (v, t) ->
    exists pre w, cur = pre ++ w :: t /\ v = Some (w_obj w) /\ deref L w = Some (w_obj w) /\ forall w', In w' pre -> handled L seen w'.
  Proof.
    induction cur as [|a cur IH]; simpl; intros v t H; [discriminate|].
    destruct (deref L a) as [o|] eqn:D.
    - destruct (existsb (oeqb (Some o)) seen) eqn:E.
      + destruct (IH _ _ H) as [pre [w [A [B [C F]]]]]. exists (a :: pre), w. rewrite A. repeat split; auto.
        intros w' [<-|Hw']; auto. right. rewrite <- (deref_obj _ _ _ D). now apply seen_In.
      + inversion H; subst. exists [], a. rewrite <- (deref_obj _ _ _ D). repeat split; auto. intros w' [].
    - destruct (IH _ _ H) as [pre [w [A [B [C F]]]]]. exists (a :: pre), w. rewrite A. repeat split; auto.
      intros w' [<-|Hw']; auto. now left.
  Qed.

  Lemma pull_classes_none L r seen : forall cs, pull_classes L r seen cs = None ->
    forall c w, In c cs -> In w (wl r) -> w_cls w = c -> handled L seen w.
  Proof.
    induction cs as [|a cs IH]; simpl; intros H c w Hc Hw Ec; [destruct Hc|].
    destruct (pull_cur L seen (filter (fun w => w_cls w =? a) (wl r))) as [[v t]|] eqn:E; [discriminate|].
    destruct Hc as [<-|Hc]; [|eapply IH; eauto].
    eapply pull_cur_none; eauto. apply filter_In. split; auto. now apply Nat.eqb_eq.
  Qed.

  Lemma pull_classes_some L r seen : forall cs v t cs', pull_classes L r seen cs = Some (v, t, cs') ->
    exists pre c, cs = pre ++ c :: cs' /\
      (forall c0 w, In c0 pre -> In w (wl r) -> w_cls w = c0 -> handled L seen w) /\
      exists prew w, filter (fun w => w_cls w =? c) (wl r) = prew ++ w :: t /\ v = Some (w_obj w) /\
                     deref L w = Some (w_obj w) /\ forall w', In w' prew -> handled L seen w'.
  Proof.
    induction cs as [|a cs IH]; simpl; intros v t cs' H; [discriminate|].
    destruct (pull_cur L seen (filter (fun w => w_cls w =? a) (wl r))) as [[v' t']|] eqn:E.
    - inversion H; subst. exists [], a. split; auto. split; [intros c0 w []|]. now apply pull_cur_some.
    - destruct (IH _ _ _ H) as [pre [c [A [B C]]]]. exists (a :: pre), c. rewrite A. split; auto. split; auto.
      intros c0 w [<-|Hc] Hw Ec; [|eapply B; eauto].
      eapply pull_cur_none; eauto. apply filter_In. split; auto. now apply Nat.eqb_eq.
  Qed.

  (* every instance created before the evaluation began (id below k) that still exists and is of the right type has been
     handed out, or is still ahead: in the rest of the current class snapshot, or in a class not reached yet *)
  Definition Cover (k : nat) (L : list orec) (e : ev) : Prop :=
    forall x, In x L -> o_id x < k -> le_b children fuel (o_cls x) (e_T e) = true ->
      In (Some (o_id x)) (e_seen e) \/ (exists w, In w (e_cur e) /\ w_obj w = o_id x) \/ In (o_cls x) (e_classes e).

  Lemma live_not_handled L seen w x : In x L -> w_obj w = o_id x -> handled L seen w -> In (Some (o_id x)) seen.
  Proof.
    intros Hx E [D|H]; [|now rewrite <- E].
    unfold deref in D. rewrite E in D. rewrite (proj2 (mem_obj_true _ _)) in D by eauto. discriminate.
  Qed.

  (* one request: what was covered stays covered; at the end everything covered has been handed out *)
  Lemma pull_Cover k L r e :
    RegInv L r -> AllReg L r -> Cover k L e ->
    match pull L r e with
    | Some (v, cur, cs) => Cover k L (EV (e_T e) true false cs cur (e_seen e ++ [v]))
    | None => forall x, In x L -> o_id x < k -> le_b children fuel (o_cls x) (e_T e) = true -> In (Some (o_id x)) (e_seen e)
    end.
  Proof.
    intros Hr HA HC. unfold pull.
    assert (Reg : forall x, In x L -> exists w, In w (wl r) /\ w_obj w = o_id x /\ w_cls w = o_cls x).
    { intros x Hx. destruct (HA _ Hx) as [w [Hw E]]. exists w. repeat split; auto.
      now destruct (i_wl_live _ _ Hr _ _ Hw Hx E). }
    destruct (pull_cur L (e_seen e) (e_cur e)) as [[v t]|] eqn:PC.
    - destruct (pull_cur_some _ _ _ _ _ PC) as [pre [w0 [A [B [_ F]]]]].
      intros x Hx Hk Hle. simpl. destruct (HC x Hx Hk Hle) as [H|[[w [Hw E]]|H]].
      + left. rewrite in_app_iff. auto.
      + rewrite A in Hw. apply in_app_iff in Hw. destruct Hw as [Hw|[<-|Hw]].
        * left. rewrite in_app_iff. left. apply (live_not_handled L _ w x Hx E). auto.
        * left. rewrite in_app_iff. right. simpl. rewrite B, E. auto.
        * right. left. eauto.
      + right. right. auto.
    - assert (Hcur : forall x w, In x L -> In w (e_cur e) -> w_obj w = o_id x -> In (Some (o_id x)) (e_seen e)).
      { intros x w Hx Hw E. apply (live_not_handled L _ w x Hx E). eapply pull_cur_none; eauto. }
      destruct (pull_classes L r (e_seen e) (e_classes e)) as [[[v t] cs']|] eqn:PK.
      + destruct (pull_classes_some _ _ _ _ _ _ _ PK) as [pre [c [A [B [prew [w0 [C [D [_ F]]]]]]]]].
        intros x Hx Hk Hle. simpl. destruct (HC x Hx Hk Hle) as [H|[[w [Hw E]]|H]].
        * left. rewrite in_app_iff. auto.
        * left. rewrite in_app_iff. left. eauto.
        * destruct (Reg x Hx) as [w [Hw [E Ec]]]. rewrite A in H. apply in_app_iff in H. destruct H as [H|[H|H]].
          -- left. rewrite in_app_iff. left. apply (live_not_handled L _ w x Hx E). eapply B; eauto.
          -- assert (Hf : In w (filter (fun w => w_cls w =? c) (wl r))).
             { apply filter_In. split; auto. apply Nat.eqb_eq. congruence. }
             rewrite C in Hf. apply in_app_iff in Hf. destruct Hf as [Hf|[<-|Hf]].
             ++ left. rewrite in_app_iff. left. apply (live_not_handled L _ w x Hx E). auto.
             ++ left. rewrite in_app_iff. right. simpl. rewrite D, E. auto.
             ++ right. left. eauto.
          -- right. right. auto.
      + intros x Hx Hk Hle. destruct (HC x Hx Hk Hle) as [H|[[w [Hw E]]|H]]; auto.
        * eauto.
        * destruct (Reg x Hx) as [w [Hw [E Ec]]]. apply (live_not_handled L _ w x Hx E). eapply pull_classes_none; eauto.
  Qed.

  Lemma fresh_Cover k L T seen : Cover k L (EV T true false (T :: rsub children fuel T) [] seen).
  Proof.
    intros x Hx Hk Hle. right. right. simpl.
    apply (in_classes children fuel) in Hle. apply existsb_exists in Hle. destruct Hle as [c [Hc E]].
    apply Nat.eqb_eq in E. now subst.
  Qed.

  Lemma Cover_sub k L L' e : (forall x, In x L' -> In x L \/ k <= o_id x) -> Cover k L e -> Cover k L' e.
  Proof. intros Hs HC x Hx Hk Hle. destruct (Hs _ Hx) as [H|H]; [auto|lia]. Qed.
  Definition CovOK (k n : nat) (s : st) : Prop :=
    k <= next s /\
    forall e, nth_error (evals s) n = Some (Some e) -> e_started e = true -> e_stale e = false -> Cover k (live s) e.

  Lemma step_CovOK k n s o :
    Inv s -> AllReg (live s) (g s) -> adm s o = true -> is_clear o = false -> CovOK k n s -> CovOK k n (fst (step s o)).
  Proof.
    intros HI HA Ha Hc [Hk HC].
    assert (Keep : forall L' u r' v nx', next s <= nx' -> (forall x, In x L' -> In x (live s) \/ k <= o_id x) ->
                     CovOK k n (ST L' u r' v (evals s) nx')).
    { intros L' u r' v nx' Hn Hs. split; [simpl; lia|]. simpl. intros e He Hst Hsl. eapply Cover_sub; eauto. }
    assert (Sub : forall p x, In x (filter p (live s)) -> In x (live s) \/ k <= o_id x).
    { intros p x Hx. apply filter_In in Hx. tauto. }
    destruct o as [c p i|x| |T|T|T|m|m|m y|m|a f b ia ib|]; simpl in *; try discriminate.
    - apply Keep; auto. intros x Hx. apply in_app_iff in Hx. destruct Hx as [Hx|[<-|[]]]; [auto|right; simpl; lia].
    - destruct (pinned (evals s) x); simpl; apply Keep; auto; apply Sub.
    - apply Keep; auto.
    - apply Keep; auto.
    - apply Keep; auto.
    - apply Keep; auto.
    - destruct (nth_error (vars s) m); simpl; [apply Keep; auto|split; auto].
    - (* StartV *) destruct (nth_error (vars s) m); simpl; [|split; auto].
      split; [simpl; lia|]. simpl. intros e He Hst Hsl.
      destruct (lt_dec n (length (evals s))) as [Hl|Hl].
      + rewrite nth_error_app1 in He by auto. auto.
      + rewrite nth_error_app2 in He by lia. destruct (n - length (evals s)) as [|[|q]]; simpl in He; try discriminate.
        inversion He; subst. discriminate.
    - (* NextV *)
      destruct (nth_error (evals s) m) as [[e|]|] eqn:Em; simpl; [|split; auto|split; auto].
      destruct (e_stale e) eqn:Est; simpl; [split; auto|].
      set (r := if e_started e then g s else sweep (live s) (g s)).
      set (e1 := if e_started e then e else EV (e_T e) true false (e_T e :: rsub children fuel (e_T e)) [] (e_seen e)).
      assert (Hr : RegInv (live s) r) by (unfold r; destruct (e_started e); [apply HI|apply sweep_inv, HI]).
      assert (HAr : AllReg (live s) r).
      { unfold r. destruct (e_started e); auto. apply AllReg_sweep; auto. apply HI. }
      assert (T1 : e_T e1 = e_T e) by (unfold e1; destruct (e_started e); reflexivity).
      assert (Se1 : e_seen e1 = e_seen e) by (unfold e1; destruct (e_started e); reflexivity).
      destruct (pull (live s) r e1) as [[[v cur] cs]|] eqn:P; simpl.
      + split; [simpl; lia|]. simpl. intros e' He' Hst Hsl. apply nth_error_set_nth in He'. destruct He' as [[-> E]|He'].
        * inversion E; subst e'.
          assert (HC1 : Cover k (live s) e1).
          { unfold e1. destruct (e_started e) eqn:Es; [apply HC; auto|apply fresh_Cover]. }
          assert (Q := pull_Cover k (live s) r e1 Hr HAr HC1). rewrite P in Q. rewrite T1 in Q. exact Q.
        * apply HC; auto.
      + split; [simpl; lia|]. simpl. intros e' He' Hst Hsl. apply nth_error_set_nth in He'. destruct He' as [[_ E]|He']; [discriminate|].
        eapply Cover_sub; [|apply HC; eauto]. unfold release. apply Sub.
    - (* CloseV *)
      destruct (nth_error (evals s) m) eqn:Em; simpl; [|split; auto].
      split; [simpl; lia|]. simpl. intros e' He' Hst Hsl. apply nth_error_set_nth in He'. destruct He' as [[_ E]|He']; [discriminate|].
      eapply Cover_sub; [|apply HC; eauto]. unfold release. apply Sub.
    - destruct (relate (live s) (g s) a f b ia ib) as [r' [nw|]]; simpl; [apply Keep; auto|split; auto].
  Qed.

  Lemma run_CovOK k n : forall h s, Inv s -> AllReg (live s) (g s) -> adm_run s h = true -> no_clear h = true ->
    CovOK k n s -> CovOK k n (fst (run s h)).
  Proof.
    induction h as [|o h IH]; simpl; intros s HI HA Ha Hc HC; auto.
    apply andb_true_iff in Ha. destruct Ha as [Ha Hr]. apply andb_true_iff in Hc. destruct Hc as [Hc Hc'].
    apply negb_true_iff in Hc.
    assert (H1 := step_Inv children fuel s o HI Ha). assert (H2 := step_AllReg children fuel s o HI Ha Hc HA).
    assert (H3 := step_CovOK k n s o HI HA Ha Hc HC).
    destruct (step s o) as [s1 x]. simpl in *. specialize (IH s1 H1 H2 Hr Hc' H3). destruct (run s1 h) as [s2 xs]. auto.
  Qed.

  Lemma run_app : forall h1 h2 s, fst (run s (h1 ++ h2)) = fst (run (fst (run s h1)) h2).
  Proof.
    induction h1 as [|o h1 IH]; intros h2 s; [reflexivity|].
    cbn [app Registry.run]. destruct (step s o) as [s1 x]. specialize (IH h2 s1).
    destruct (run s1 (h1 ++ h2)) as [s2 xs]. destruct (run s1 h1) as [s3 ys]. cbn [fst] in *. exact IH.
  Qed.

  Lemma adm_run_app : forall h1 h2 s, adm_run s (h1 ++ h2) = adm_run s h1 && adm_run (fst (run s h1)) h2.
  Proof.
    induction h1 as [|o h1 IH]; intros h2 s; [reflexivity|].
    cbn [app Registry.adm_run Registry.run]. rewrite IH. destruct (step s o) as [s1 x]. cbn [fst].
    destruct (run s1 h1) as [s3 ys]. cbn [fst]. now rewrite andb_assoc.
  Qed.

  (* the end condition, over histories: h1 brings the process to the point where evaluation n has not begun; whatever
     happens afterwards (h2, no graph re-creation), when evaluation n reports the end, every instance that had been created
     before it began, still exists and is of the variable's type or a subclass has been handed out by it *)
  Theorem live_end_complete h1 h2 n y e0 e :
    adm_run init (h1 ++ h2) = true -> no_clear (h1 ++ h2) = true ->
    nth_error (evals (fst (run init h1))) n = Some (Some e0) -> e_started e0 = false ->
    nth_error (evals (fst (run init (h1 ++ h2)))) n = Some (Some e) ->
    snd (step (fst (run init (h1 ++ h2))) (NextV n y)) = OInst [] ->
    forall x, In x (live (fst (run init (h1 ++ h2)))) -> o_id x < next (fst (run init h1)) ->
              le_b children fuel (o_cls x) (e_T e) = true -> In (Some (o_id x)) (e_seen e).
  Proof.
    intros Ha Hc E0 S0 En Hout x Hx Hk Hle.
    rewrite adm_run_app in Ha. apply andb_true_iff in Ha. destruct Ha as [Ha1 Ha2].
    unfold no_clear in Hc. rewrite forallb_app in Hc. apply andb_true_iff in Hc. destruct Hc as [Hc1 Hc2].
    set (s1 := fst (run init h1)) in *.
    assert (HI1 : Inv s1) by (apply reach_Inv; auto).
    assert (HA1 : AllReg (live s1) (g s1)).
    { apply run_AllReg; auto; [exact (Inv_init children fuel)|intros z Hz; destruct Hz]. }
    assert (HC1 : CovOK (next s1) n s1).
    { split; auto. intros e' He' Hst. rewrite E0 in He'. inversion He'; subst. congruence. }
    rewrite run_app in *. fold s1 in En, Hout, Hx |- *.
    set (s := fst (run s1 h2)) in *.
    assert (HI : Inv s) by (apply run_Inv; auto).
    assert (HA : AllReg (live s) (g s)) by (apply run_AllReg; auto).
    assert (HC : CovOK (next s1) n s) by (apply run_CovOK; auto).
    revert Hout. simpl. rewrite En. destruct (e_stale e) eqn:Est; [discriminate|].
    destruct (e_started e) eqn:Es.
    - destruct (pull (live s) (g s) e) as [[[v cur] cs]|] eqn:P; simpl; [discriminate|]. intros _.
      assert (Q := pull_Cover (next s1) (live s) (g s) e (inv_reg _ HI) HA (proj2 HC e En Es Est)). rewrite P in Q. auto.
    - (* begun and ended by this very request *)
      set (e1 := EV (e_T e) true false (e_T e :: rsub children fuel (e_T e)) [] (e_seen e)).
      destruct (pull (live s) (sweep (live s) (g s)) e1) as [[[v cur] cs]|] eqn:P; simpl; [discriminate|]. intros _.
      assert (Q := pull_Cover (next s1) (live s) (sweep (live s) (g s)) e1 (sweep_inv _ _ (inv_reg _ HI))
                     (AllReg_sweep _ _ (inv_reg _ HI) HA) (fresh_Cover _ _ _ _)).
      rewrite P in Q. apply (Q x Hx Hk Hle).
  Qed.
End LiveInv.
