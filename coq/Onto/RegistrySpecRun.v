(* Spec-side evaluation for the correspondence check (no dependency on the model): the ideal
   machine's trace of a history in canonical sx form. *)
From Coq Require Import List Arith Bool PeanoNat ZArith.
From Krrood Require Import Base.Sx Onto.RegistrySpec.
Import ListNotations.
Local Open Scope nat_scope.

Definition children_of (tbl : list (cls * list cls)) (c : cls) : list cls :=
  match find (fun e => fst e =? c) tbl with Some e => snd e | None => [] end.

Definition sx_inst (x : option obj) : sx := match x with Some o => SN o | None => SZ (-1)%Z end.

Definition sx_out (o : out) : sx :=
  match o with
  | ONone => SL [SZ 0%Z]
  | OInst l => SL [SZ 1%Z; SL (map sx_inst l)]
  | OBool b => SL [SZ 2%Z; SB b]
  | OErr => SL [SZ 3%Z]
  end.
(* order of a query result is not part of the property *)
Definition sx_out_canon (o : out) : sx :=
  match o with
  | OInst l => SL [SZ 1%Z; SL (sx_sort (map sx_inst l))]
  | _ => sx_out o
  end.

Definition sx_rel (r : rel) : sx := let '(a, f, b) := r in SL [SN a; SN f; SN b].

Section Run.
  Variable tbl : list (cls * list cls).
  Variable fuel : nat.
  Let ch := children_of tbl.

  (* the property-level observation: outputs (queries as multisets), existing instances, relations *)
  Fixpoint spec_trace (a : ast) (h : list op) : list sx :=
    match h with
    | [] => []
    | o :: h' =>
        let '(a1, x) := spec_step ch fuel a o in
        SL [sx_out_canon x; SL (map SN (map o_id (a_live a1))); SL (sx_set (map sx_rel (a_rels a1)))] :: spec_trace a1 h'
    end.

  Definition ideal_trace (h : list op) : sx := SL (spec_trace a_init h).

  Definition case_code_spec (h : list op) (impl : sx) : Z :=
    match impl with
    | SL [_; abs] => if sx_eqb abs (ideal_trace h) then 0 else 3
    | _ => 3
    end%Z.
End Run.
