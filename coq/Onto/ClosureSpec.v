(* Onto/ClosureSpec.v -- Spec of property C15 (no dependency on the model).

   The facts an ontology "contains" after a set of assertions is the least set of relations that
   contains the asserted ones and is closed under the declared semantics of the property descriptors:
     super      a sub-property implies its super-properties, on the same source object and on the
                source's role taker when the super-property lives there;
     inverse    a property implies its inverse (held by the target, or by the target's role taker);
     transitive a transitive property is transitively closed (two relations of the same descriptor
                class chain).
   The schema (which fields are super-properties of which, where the inverse lives, which descriptor
   classes are transitive, who is whose role taker) is DATA: the harness extracts it from the Python
   classes and hands the same data to this Spec and to the model (Onto/Closure.v). *)
From Coq Require Import List Bool Arith Lia.
Import ListNotations.

Definition inst := nat.   (* an object of the population (index given by the harness) *)
Definition fld := nat.    (* a descriptor-managed field = (owning class, public name), interned *)
Definition dsc := nat.    (* a descriptor class, interned *)
Definition edge := (inst * fld * inst)%type.   (* source, field, target *)
Definition esrc (e : edge) : inst := fst (fst e).
Definition efld (e : edge) : fld := snd (fst e).
Definition etgt (e : edge) : inst := snd e.

Definition edge_eqb (a b : edge) : bool :=
  Nat.eqb (esrc a) (esrc b) && Nat.eqb (efld a) (efld b) && Nat.eqb (etgt a) (etgt b).

Lemma edge_eqb_eq a b : edge_eqb a b = true <-> a = b.
Proof.
  destruct a as [[a1 a2] a3], b as [[b1 b2] b3]. unfold edge_eqb, esrc, efld, etgt. simpl.
  rewrite !andb_true_iff, !Nat.eqb_eq. split.
  - intros [[-> ->] ->]. reflexivity.
  - intros H. injection H as -> -> ->. auto.
Qed.

Definition mem (e : edge) (E : list edge) : bool := existsb (edge_eqb e) E.

Lemma mem_In e E : mem e E = true <-> In e E.
Proof.
  unfold mem. rewrite existsb_exists. split.
  - intros [x [Hx He]]. apply edge_eqb_eq in He. subst. exact Hx.
  - intros H. exists e. split; [exact H | now apply edge_eqb_eq].
Qed.

Lemma mem_false_In e E : mem e E = false <-> ~ In e E.
Proof. rewrite <- mem_In. destruct (mem e E); split; congruence. Qed.

(* ---- the schema, as data ------------------------------------------------------------------- *)
Record schema := {
  cls_of : inst -> nat;                       (* class of an object *)
  rt_of : inst -> option inst;                (* role taker of an object (CEO -> its Person), fixed at construction *)
  sup_fields : nat -> fld -> list fld;        (* class of the source, field: fields of that class whose descriptor class is a strict superclass *)
  rt_sup_fields : nat -> fld -> list fld;     (* class of the source, field: such fields on the class of the source's role taker *)
  inv_field : nat -> fld -> option (bool * fld);  (* class of the target, field: where the inverse descriptor lives (true = on the target's role taker) *)
  dsc_of : fld -> dsc;                        (* descriptor class of a field *)
  transitive : dsc -> bool                    (* descriptor class derives from TransitiveProperty *)
}.

Section Spec.
  Variable Sc : schema.

  Definition sup_of (e : edge) : list edge :=
    map (fun g => (esrc e, g, etgt e)) (sup_fields Sc (cls_of Sc (esrc e)) (efld e))
    ++ match rt_of Sc (esrc e) with
       | Some r => map (fun g => (r, g, etgt e)) (rt_sup_fields Sc (cls_of Sc (esrc e)) (efld e))
       | None => []
       end.

  Definition inv_of (e : edge) : list edge :=
    match inv_field Sc (cls_of Sc (etgt e)) (efld e) with
    | None => []
    | Some (false, g) => [(etgt e, g, esrc e)]
    | Some (true, g) => match rt_of Sc (etgt e) with Some r => [(r, g, esrc e)] | None => [] end
    end.

  Definition chains (x y : edge) : Prop :=
    etgt x = esrc y /\ transitive Sc (dsc_of Sc (efld x)) = true /\ dsc_of Sc (efld x) = dsc_of Sc (efld y).

  (* the Spec: least fixpoint of the three rules over the asserted facts *)
  Inductive closure (A : list edge) : edge -> Prop :=
  | cl_asserted e : In e A -> closure A e
  | cl_super e e' : closure A e -> In e' (sup_of e) -> closure A e'
  | cl_inverse e e' : closure A e -> In e' (inv_of e) -> closure A e'
  | cl_trans x y : closure A x -> closure A y -> chains x y -> closure A (esrc x, efld x, etgt y).

  (* ---- executable companion ---------------------------------------------------------------- *)
  Definition unary (e : edge) : list edge := sup_of e ++ inv_of e.

  Definition chainsb (x y : edge) : bool :=
    Nat.eqb (etgt x) (esrc y) && transitive Sc (dsc_of Sc (efld x))
    && Nat.eqb (dsc_of Sc (efld x)) (dsc_of Sc (efld y)).

  Definition combo (x y : edge) : list edge :=
    if chainsb x y then [(esrc x, efld x, etgt y)] else [].

  Lemma chainsb_chains x y : chainsb x y = true <-> chains x y.
  Proof.
    unfold chainsb, chains. rewrite !andb_true_iff, !Nat.eqb_eq. tauto.
  Qed.

  Lemma combo_In c x y : In c (combo x y) <-> chains x y /\ c = (esrc x, efld x, etgt y).
  Proof.
    unfold combo. destruct (chainsb x y) eqn:H.
    - apply chainsb_chains in H. simpl. split.
      + intros [<- | []]. auto.
      + intros [_ ->]. auto.
    - split; [intros [] |]. intros [Hc _]. apply chainsb_chains in Hc. congruence.
  Qed.

  Fixpoint dedup (l : list edge) : list edge :=
    match l with
    | [] => []
    | e :: l' => if mem e l' then dedup l' else e :: dedup l'
    end.

  Lemma dedup_In e l : In e (dedup l) <-> In e l.
  Proof.
    induction l as [|a l IH]; simpl; [tauto|].
    destruct (mem a l) eqn:H; simpl; rewrite IH.
    - apply mem_In in H. split; [auto|]. intros [<- | H']; auto.
    - tauto.
  Qed.

  Definition step (E : list edge) : list edge :=
    dedup (E ++ flat_map unary E ++ flat_map (fun x => flat_map (combo x) E) E).

  (* E is closed under the rules *)
  Definition closedb (E : list edge) : bool :=
    forallb (fun x => forallb (fun u => mem u E) (unary x)
                      && forallb (fun y => forallb (fun c => mem c E) (combo x y)) E) E.

  Definition closed (E : list edge) : Prop :=
    forall x, In x E -> incl (unary x) E /\ forall y, In y E -> incl (combo x y) E.

  Lemma closedb_closed E : closedb E = true <-> closed E.
  Proof.
    unfold closedb, closed. rewrite forallb_forall. split.
    - intros H x Hx. specialize (H x Hx). apply andb_true_iff in H. destruct H as [H1 H2].
      rewrite forallb_forall in H1, H2. split.
      + intros u Hu. apply mem_In. auto.
      + intros y Hy c Hc. specialize (H2 y Hy). rewrite forallb_forall in H2. apply mem_In. auto.
    - intros H x Hx. destruct (H x Hx) as [H1 H2]. apply andb_true_iff. split.
      + apply forallb_forall. intros u Hu. apply mem_In. auto.
      + apply forallb_forall. intros y Hy. apply forallb_forall. intros c Hc. apply mem_In. exact (H2 y Hy c Hc).
  Qed.

  Fixpoint closure_fuel (n : nat) (E : list edge) : list edge :=
    match n with
    | O => E
    | S n' => if closedb E then E else closure_fuel n' (step E)
    end.

  Lemma step_incl E : incl E (step E).
  Proof. intros e H. unfold step. apply (proj2 (dedup_In _ _)). apply in_or_app. auto. Qed.

  Lemma step_sound A E : (forall e, In e E -> closure A e) -> forall e, In e (step E) -> closure A e.
  Proof.
    intros HE e H. unfold step in H. apply (proj1 (dedup_In _ _)) in H.
    apply in_app_or in H. destruct H as [H | H]; [auto|].
    apply in_app_or in H. destruct H as [H | H].
    - apply in_flat_map in H. destruct H as [x [Hx Hu]]. unfold unary in Hu.
      apply in_app_or in Hu. destruct Hu as [Hu | Hu].
      + eapply cl_super; eauto.
      + eapply cl_inverse; eauto.
    - apply in_flat_map in H. destruct H as [x [Hx H]].
      apply in_flat_map in H. destruct H as [y [Hy H]].
      apply combo_In in H. destruct H as [Hc ->]. apply cl_trans; auto.
  Qed.

  Lemma closure_fuel_incl n : forall E, incl E (closure_fuel n E).
  Proof.
    induction n; intros E; simpl; [apply incl_refl|].
    destruct (closedb E); [apply incl_refl|].
    eapply incl_tran; [apply step_incl | apply IHn].
  Qed.

  Lemma closure_fuel_sound A n : forall E, (forall e, In e E -> closure A e) ->
    forall e, In e (closure_fuel n E) -> closure A e.
  Proof.
    induction n; intros E HE e; simpl; [auto|].
    destruct (closedb E); [auto|]. apply IHn. apply step_sound. exact HE.
  Qed.

  (* a closed set that contains the asserted facts contains their closure *)
  Lemma closed_contains_closure A E : closed E -> incl A E -> forall e, closure A e -> In e E.
  Proof.
    intros HC HA e H. induction H as [e H | e e' _ IH H | e e' _ IH H | x y _ IHx _ IHy Hc].
    - auto.
    - destruct (HC e IH) as [Hu _]. apply Hu. unfold unary. apply in_or_app. auto.
    - destruct (HC e IH) as [Hu _]. apply Hu. unfold unary. apply in_or_app. auto.
    - destruct (HC x IHx) as [_ Hb]. apply (Hb y IHy). apply combo_In. auto.
  Qed.

  (* the proved link between the relational Spec and what the harness runs *)
  Theorem closure_fuel_correct A n :
    closedb (closure_fuel n A) = true ->
    forall e, In e (closure_fuel n A) <-> closure A e.
  Proof.
    intros HC e. split.
    - apply closure_fuel_sound. intros x Hx. now apply cl_asserted.
    - apply closed_contains_closure; [now apply closedb_closed | apply closure_fuel_incl].
  Qed.

  Lemma closure_mono A B : incl A B -> forall e, closure A e -> closure B e.
  Proof.
    intros HAB e H. induction H.
    - apply cl_asserted. auto.
    - eapply cl_super; eauto.
    - eapply cl_inverse; eauto.
    - apply cl_trans; auto.
  Qed.
End Spec.

(* ---- building a schema from association lists (what the harness writes) -------------------- *)
Fixpoint lookup {B} (k : nat) (tbl : list (nat * B)) : option B :=
  match tbl with
  | [] => None
  | (k', v) :: t => if Nat.eqb k k' then Some v else lookup k t
  end.
Fixpoint lookup2 {B} (k1 k2 : nat) (tbl : list (nat * nat * B)) : option B :=
  match tbl with
  | [] => None
  | (a, b, v) :: t => if Nat.eqb k1 a && Nat.eqb k2 b then Some v else lookup2 k1 k2 t
  end.
Definition odef {B} (d : B) (o : option B) : B := match o with Some v => v | None => d end.

Definition mk_schema
  (classes : list (nat * nat))                (* object -> class *)
  (role_takers : list (nat * nat))            (* object -> its role taker *)
  (sups : list (nat * nat * list nat))        (* (class, field) -> super fields on the same object *)
  (rtsups : list (nat * nat * list nat))      (* (class, field) -> super fields on the role taker *)
  (invs : list (nat * nat * (bool * nat)))    (* (class of target, field) -> inverse field *)
  (dscs : list (nat * nat))                   (* field -> descriptor class *)
  (trans : list nat)                          (* transitive descriptor classes *)
  : schema :=
  {| cls_of := fun o => odef 0 (lookup o classes);
     rt_of := fun o => lookup o role_takers;
     sup_fields := fun c f => odef [] (lookup2 c f sups);
     rt_sup_fields := fun c f => odef [] (lookup2 c f rtsups);
     inv_field := fun c f => lookup2 c f invs;
     dsc_of := fun f => odef 0 (lookup f dscs);
     transitive := fun d => existsb (Nat.eqb d) trans |}.

(* ---- printing for the correspondence harness ------------------------------------------------ *)
From Coq Require Import ZArith.
From Krrood Require Import Base.Sx.
Definition edge_sx (e : edge) : sx :=
  SL [SZ (Z.of_nat (esrc e)); SZ (Z.of_nat (efld e)); SZ (Z.of_nat (etgt e))].
(* the Spec's answer for a set of asserted facts: their closure, or -1 if [k] rounds did not reach the fixpoint *)
Definition spec_out (Sc : schema) (k : nat) (A : list edge) : sx :=
  let C := closure_fuel Sc k A in
  if closedb Sc C then SL (map edge_sx C) else SZ (-1).
