(* Model: code-faithful state machine of the SymbolGraph registry (symbol_graph.py at HEAD, i.e.
   with the repairs 1bd8ea9 and a83ee6a), of recursive_subclasses (utils.py), of Symbol.__new__
   (predicate.py), of let(T, None) + evaluate (entity.py / symbolic.py: sweep, then the registry
   generator, cached on the variable), and of the process-wide expression table that keeps every
   variable -- and with it the domain it cached -- alive.

   Representation choices (all unobservable through the API):
   * a WrappedInstance is the record of what it stores (weakref target, instance_type, instance_id,
     index); inside one graph an instance has at most one wrapper, so wrapper identity (`is`) is
     identity of the wrapped object;
   * `_instance_graph` = list of node payloads (the node index is the wrapper's own `index`, they are
     assigned together in add_node) + list of edges (src, tgt, field);
   * `_instance_index` = association list without duplicate keys;
   * `_class_to_wrapped_instances` = ONE list in global append order; the per-class list is its
     filter by class (append keeps per-class order, remove is by identity);
   * `_relation_index` = list of (src, tgt, field) without duplicates.
   The runtime's choices (address of a new object, node index handed out by rustworkx) are inputs of
   the operations; nothing is assumed about them beyond "currently unused". *)
From Coq Require Import List Arith Bool PeanoNat Lia.
From Krrood Require Import Onto.RegistrySpec.
Import ListNotations.

Record wrapper := W { w_obj : obj; w_cls : cls; w_pyid : pyid; w_idx : idx }.

Definition edge := (idx * idx * fld)%type.
Definition edge_eqb (x y : edge) : bool :=
  let '(a, b, f) := x in let '(a', b', f') := y in (a =? a') && (b =? b') && (f =? f').

Record reg := R {
  nodes : list wrapper;
  by_id : list (pyid * wrapper);
  wl : list wrapper;
  edges : list edge;
  rel_index : list edge }.

Definition empty_reg : reg := R [] [] [] [] [].

(* ------------------------------------------------------------------ dict / list primitives *)
Definition get (p : pyid) (m : list (pyid * wrapper)) : option wrapper :=
  match find (fun e => fst e =? p) m with Some e => Some (snd e) | None => None end.
Definition del (p : pyid) (m : list (pyid * wrapper)) : list (pyid * wrapper) :=
  filter (fun e => negb (fst e =? p)) m.
Definition set (p : pyid) (w : wrapper) (m : list (pyid * wrapper)) : list (pyid * wrapper) :=
  (p, w) :: del p m.

(* list.remove(x): first element equal to x (found by identity) *)
Fixpoint remove_first (o : obj) (l : list wrapper) : list wrapper :=
  match l with
  | [] => []
  | x :: t => if w_obj x =? o then t else x :: remove_first o t
  end.

Definition incident (i : idx) (e : edge) : bool := let '(s, t, _) := e in (s =? i) || (t =? i).

(* dict.fromkeys: first occurrences, in order *)
Fixpoint dedup (l : list nat) : list nat :=
  match l with
  | [] => []
  | x :: t => x :: filter (fun y => negb (y =? x)) (dedup t)
  end.

(* HashedIterable.__iter__ (domain cache): a value whose id is cached already is not yielded again; all dead
   references are the one object None *)
Definition oeqb (a b : option obj) : bool :=
  match a, b with Some x, Some y => x =? y | None, None => true | _, _ => false end.
Fixpoint dedupo (l : list (option obj)) : list (option obj) :=
  match l with
  | [] => []
  | x :: t => x :: filter (fun y => negb (oeqb y x)) (dedupo t)
  end.

(* ------------------------------------------------------------------ SymbolGraph methods *)
Definition add_node (r : reg) (w : wrapper) : reg :=
  R (nodes r ++ [w]) (set (w_pyid w) w (by_id r)) (wl r ++ [w]) (edges r) (rel_index r).

Definition remove_node (r : reg) (w : wrapper) : reg :=
  R (filter (fun x => negb (w_idx x =? w_idx w)) (nodes r))
    (match get (w_pyid w) (by_id r) with
     | Some w' => if w_obj w' =? w_obj w then del (w_pyid w) (by_id r) else by_id r
     | None => by_id r
     end)
    (remove_first (w_obj w) (wl r))
    (filter (fun e => negb (incident (w_idx w) e)) (edges r))
    (filter (fun e => negb (existsb (edge_eqb e) (filter (incident (w_idx w)) (edges r)))) (rel_index r)).

Definition sweep_list (L : list orec) (l : list wrapper) (r : reg) : reg :=
  fold_left (fun r w => if mem_obj (w_obj w) L then r else remove_node r w) l r.

(* remove_dead_instances: iterate over a snapshot of the nodes *)
Definition sweep (L : list orec) (r : reg) : reg := sweep_list L (nodes r) r.

Section Hier.
  Variable children : cls -> list cls.
  Variable fuel : nat.

  (* utils.recursive_subclasses *)
  Fixpoint rsub (n : nat) (c : cls) : list cls :=
    match n with
    | 0 => []
    | S n' => dedup (children c ++ flat_map (rsub n') (children c))
    end.

  (* get_instances_of_type: the weak reference of a wrapper gives None once the instance is dead *)
  Definition deref (L : list orec) (w : wrapper) : option obj :=
    if mem_obj (w_obj w) L then Some (w_obj w) else None.
  Definition is_some (x : option obj) : bool := match x with Some _ => true | None => false end.
  (* the lazy generator expression: one value per wrapper, None for a wrapper whose instance is gone ... *)
  Definition instances_raw (L : list orec) (r : reg) (T : cls) : list (option obj) :=
    flat_map (fun c => map (deref L) (filter (fun w => w_cls w =? c) (wl r))) (T :: rsub fuel T).
  (* ... passed through filter(lambda instance: instance is not None, ...): a dead reference is never handed out *)
  Definition instances (L : list orec) (r : reg) (T : cls) : list (option obj) :=
    filter is_some (instances_raw L r T).

  (* ensure_wrapped_instance for the live object o; i = index rustworkx hands out if a node is added *)
  Definition ensure (L : list orec) (r : reg) (o : obj) (i : idx) : reg * option wrapper :=
    match find (fun x => o_id x =? o) L with
    | None => (r, None)
    | Some x =>
        match get (o_pyid x) (by_id r) with
        | Some w => (r, Some w)
        | None => let w := W o (o_cls x) (o_pyid x) i in (add_node r w, Some w)
        end
    end.

  Definition add_relation (r : reg) (e : edge) : reg * bool :=
    if existsb (edge_eqb e) (rel_index r) then (r, false)
    else (R (nodes r) (by_id r) (wl r) (edges r ++ [e]) (e :: rel_index r), true).

  (* PredicateClassRelation(a, b, f).add_to_graph() *)
  Definition relate (L : list orec) (r : reg) (a : obj) (f : fld) (b : obj) (ia ib : idx) : reg * option bool :=
    match ensure L r a ia with
    | (r1, Some wa) =>
        match ensure L r1 b ib with
        | (r2, Some wb) => let '(r3, nw) := add_relation r2 (w_idx wa, w_idx wb, f) in (r3, Some nw)
        | (r2, None) => (r2, None)
        end
    | (r1, None) => (r1, None)
    end.

  (* ---------------------------------------------------------------- whole process *)
  (* a live evaluation of a query over let(T, None) (it = q.evaluate(), rows requested one at a time).
     Nothing runs before the first request.  Then: the query's variables forget what they held, the graph is swept, and
     the registry generator is walked lazily: class by class ([T] + recursive_subclasses(T)), a snapshot of the class's
     wrapper list when the class is reached, each wrapper dereferenced when its turn comes; the domain cache
     (HashedIterable) skips a value whose id it has seen and keeps -- strongly -- every value it has passed on.
     The cache belongs to this evaluation: it is dropped when the evaluation ends (exhausted, closed or finalised). *)
  Record ev := EV {
    e_T : cls;
    e_started : bool;
    e_stale : bool;                   (* the graph it enumerates was dropped by clear(): outside the model *)
    e_classes : list cls;             (* classes not reached yet *)
    e_cur : list wrapper;             (* rest of the snapshot of the class being walked *)
    e_seen : list (option obj) }.     (* values passed on so far = what the cache holds *)

  Record st := ST {
    live : list orec;                 (* instances that exist in memory (weak-reference census) *)
    user : list obj;                  (* instances the program still references directly *)
    g : reg;                          (* the current SymbolGraph singleton *)
    vars : list cls;                  (* _id_expression_map_: the query objects made so far (they hold no instance) *)
    evals : list (option ev);         (* evaluations begun with StartV; None once finished or closed *)
    next : nat }.

  Definition init : st := ST [] [] empty_reg [] [] 0.

  (* an instance is kept alive by krrood exactly while the cache of a live evaluation holds it *)
  Definition pinned (es : list (option ev)) (o : obj) : bool :=
    existsb (fun e => match e with Some e => existsb (oeqb (Some o)) (e_seen e) | None => false end) es.

  (* when an evaluation ends its cache is dropped: what nobody else references is reclaimed *)
  Definition release (L : list orec) (u : list obj) (es : list (option ev)) : list orec :=
    filter (fun x => mem_nat (o_id x) u || pinned es (o_id x)) L.

  Definition somes (l : list (option obj)) : list obj :=
    flat_map (fun x => match x with Some o => [o] | None => [] end) l.

  (* next value of the domain: rest of the current class snapshot, then the classes not reached yet *)
  Fixpoint pull_cur (L : list orec) (seen : list (option obj)) (cur : list wrapper) : option (option obj * list wrapper) :=
    match cur with
    | [] => None
    | w :: t =>
        match deref L w with
        | None => pull_cur L seen t           (* died before its turn: skipped by the registry generator *)
        | Some o => if existsb (oeqb (Some o)) seen then pull_cur L seen t else Some (Some o, t)
        end
    end.
  Fixpoint pull_classes (L : list orec) (r : reg) (seen : list (option obj)) (cs : list cls)
    : option (option obj * list wrapper * list cls) :=
    match cs with
    | [] => None
    | c :: cs' =>
        match pull_cur L seen (filter (fun w => w_cls w =? c) (wl r)) with
        | Some (v, t) => Some (v, t, cs')
        | None => pull_classes L r seen cs'
        end
    end.
  Definition pull (L : list orec) (r : reg) (e : ev) : option (option obj * list wrapper * list cls) :=
    match pull_cur L (e_seen e) (e_cur e) with
    | Some (v, t) => Some (v, t, e_classes e)
    | None => pull_classes L r (e_seen e) (e_classes e)
    end.

  Definition step (s : st) (o : op) : st * out :=
    match o with
    | New c p i =>
        let x := O (next s) c p in
        (ST (live s ++ [x]) (user s ++ [next s]) (add_node (g s) (W (next s) c p i)) (vars s) (evals s) (S (next s)), ONone)
    | Drop x =>
        (* the program lets go; the instance is reclaimed unless the cache of a live evaluation holds it *)
        let u := filter (fun y => negb (y =? x)) (user s) in
        if pinned (evals s) x then (ST (live s) u (g s) (vars s) (evals s) (next s), ONone)
        else (ST (filter (fun r => negb (o_id r =? x)) (live s)) u (g s) (vars s) (evals s) (next s), ONone)
    | Sweep => (ST (live s) (user s) (sweep (live s) (g s)) (vars s) (evals s) (next s), ONone)
    | QueryG T =>
        let r := sweep (live s) (g s) in
        (ST (live s) (user s) r (vars s) (evals s) (next s), OInst (instances (live s) r T))
    | QueryE T =>
        (* declared and completely evaluated at once: forget, sweep, enumerate the registry NOW, every id once;
           when the evaluation is over the variable holds nothing *)
        let r := sweep (live s) (g s) in
        (ST (live s) (user s) r (vars s ++ [T]) (evals s) (next s), OInst (dedupo (instances (live s) r T)))
    | DeclV T =>
        (* let(T, None) only creates the generator over the registry; nothing is read, nothing is held *)
        (ST (live s) (user s) (g s) (vars s ++ [T]) (evals s) (next s), ONone)
    | EvalV k =>
        (* a complete evaluation of query object k, the first or a later one alike *)
        match nth_error (vars s) k with
        | Some T =>
            let r := sweep (live s) (g s) in
            (ST (live s) (user s) r (vars s) (evals s) (next s), OInst (dedupo (instances (live s) r T)))
        | None => (s, OErr)
        end
    | StartV k =>
        match nth_error (vars s) k with
        | Some T => (ST (live s) (user s) (g s) (vars s) (evals s ++ [Some (EV T false false [] [] [])]) (next s), ONone)
        | None => (s, OErr)
        end
    | NextV n _ =>
        match nth_error (evals s) n with
        | Some (Some e) =>
            if e_stale e then (s, OErr) else
            (* the first request: variables forget, the graph is swept, the generator is bound to this graph *)
            let r := if e_started e then g s else sweep (live s) (g s) in
            let e1 := if e_started e then e else EV (e_T e) true false (e_T e :: rsub fuel (e_T e)) [] (e_seen e) in
            match pull (live s) r e1 with
            | Some (v, cur, cs) =>
                (ST (live s) (user s) r (vars s)
                    (set_nth n (Some (EV (e_T e) true false cs cur (e_seen e1 ++ [v]))) (evals s)) (next s), OInst [v])
            | None =>
                (* exhausted: the evaluation is over, its cache is dropped *)
                let es := set_nth n None (evals s) in
                (ST (release (live s) (user s) es) (user s) r (vars s) es (next s), OInst [])
            end
        | Some None => (s, OInst [])        (* a finished or closed iterator just stops again *)
        | None => (s, OErr)
        end
    | CloseV n =>
        match nth_error (evals s) n with
        | Some _ =>
            let es := set_nth n None (evals s) in
            (ST (release (live s) (user s) es) (user s) (g s) (vars s) es (next s), ONone)
        | None => (s, OErr)
        end
    | Relate a f b ia ib =>
        match relate (live s) (g s) a f b ia ib with
        | (r, Some nw) => (ST (live s) (user s) r (vars s) (evals s) (next s), OBool nw)
        | (r, None) => (s, OErr)
        end
    | Clear =>
        (* a running generator stays bound to the dropped graph: continuing it is outside the model *)
        (ST (live s) (user s) empty_reg (vars s)
            (map (fun e => match e with
                           | Some e => Some (if e_started e then EV (e_T e) true true (e_classes e) (e_cur e) (e_seen e) else e)
                           | None => None end) (evals s)) (next s), ONone)
    end.

  Fixpoint run (s : st) (h : list op) : st * list out :=
    match h with
    | [] => (s, [])
    | o :: h' => let '(s1, x) := step s o in let '(s2, xs) := run s1 h' in (s2, x :: xs)
    end.

  (* ---------------------------------------------------------------- admissible runtime choices *)
  Definition idx_free (r : reg) (i : idx) : bool := negb (existsb (fun w => w_idx w =? i) (nodes r)).
  Definition pyid_free (L : list orec) (p : pyid) : bool := negb (existsb (fun x => o_pyid x =? p) L).

  Definition adm_ensure (L : list orec) (r : reg) (o : obj) (i : idx) : bool :=
    match find (fun x => o_id x =? o) L with
    | None => false
    | Some x => match get (o_pyid x) (by_id r) with Some _ => true | None => idx_free r i end
    end.

  Definition adm (s : st) (o : op) : bool :=
    match o with
    | New c p i => pyid_free (live s) p && idx_free (g s) i
    | Drop x => existsb (Nat.eqb x) (user s)
    | Relate a f b ia ib =>
        adm_ensure (live s) (g s) a ia && adm_ensure (live s) (fst (ensure (live s) (g s) a ia)) b ib
    | NextV n _ => match nth_error (evals s) n with Some (Some e) => negb (e_stale e) | _ => true end
    | _ => true
    end.

  Fixpoint adm_run (s : st) (h : list op) : bool :=
    match h with
    | [] => true
    | o :: h' => adm s o && adm_run (fst (step s o)) h'
    end.

  (* ---------------------------------------------------------------- observations *)
  (* relations between existing instances, as the program sees them *)
  Definition obj_at (r : reg) (i : idx) : option obj :=
    match find (fun w => w_idx w =? i) (nodes r) with Some w => Some (w_obj w) | None => None end.
  Definition abs_edge (L : list orec) (r : reg) (e : edge) : list rel :=
    let '(s, t, f) := e in
    match obj_at r s, obj_at r t with
    | Some a, Some b => if mem_obj a L && mem_obj b L then [(a, f, b)] else []
    | _, _ => []
    end.
  Definition abs_rels (L : list orec) (r : reg) : list rel := flat_map (abs_edge L r) (edges r).

  Definition sizes (r : reg) : list nat :=
    [length (nodes r); length (by_id r); length (wl r); length (edges r); length (rel_index r)].
End Hier.
