(* Onto/ContainerProofs.v -- every listed way of writing a managed collection field leaves the contents plain Python
   dictates, and every element of the field has been recorded in the graph. *)
From Coq Require Import List Bool Arith ZArith Lia.
From Krrood Require Import Onto.ContainerSpec Onto.Container.
Import ListNotations.

Lemma memb_In x l : memb x l = true <-> In x l.
Proof.
  unfold memb. rewrite existsb_exists. split.
  - intros [y [Hy He]]. apply Nat.eqb_eq in He. subst. exact Hy.
  - intros H. exists x. split; [exact H | apply Nat.eqb_refl].
Qed.

Lemma set_add_In y x s : In y (set_add x s) <-> In y s \/ y = x.
Proof.
  unfold set_add. destruct (memb x s) eqn:H.
  - apply memb_In in H. split; [auto|]. intros [H' | ->]; auto.
  - rewrite in_app_iff. simpl. split; intros [H' | H']; auto.
    + destruct H' as [<- | []]. auto.
Qed.

Lemma set_add_NoDup x s : NoDup s -> NoDup (set_add x s).
Proof.
  intros H. unfold set_add. destruct (memb x s) eqn:Hm; [exact H|].
  assert (Hn : ~ In x s) by (intros Hc; apply memb_In in Hc; congruence).
  clear Hm. induction H as [|a l Ha Hl IH]; simpl.
  - constructor; [intros [] | constructor].
  - constructor.
    + rewrite in_app_iff. simpl. intros [Hc | [Hc | []]]; [contradiction|]. subst. apply Hn. now left.
    + apply IH. intros Hc. apply Hn. now right.
Qed.

Lemma set_union_In y vs : forall s, In y (set_union s vs) <-> In y s \/ In y vs.
Proof.
  unfold set_union. induction vs as [|a vs IH]; intros s; simpl; [tauto|].
  rewrite IH, set_add_In. intuition (subst; auto).
Qed.

Lemma set_union_NoDup vs : forall s, NoDup s -> NoDup (set_union s vs).
Proof.
  unfold set_union. induction vs as [|a vs IH]; intros s H; simpl; [exact H|].
  apply IH. now apply set_add_NoDup.
Qed.

Lemma set_union_fresh l : forall s, NoDup (s ++ l) -> set_union s l = s ++ l.
Proof.
  unfold set_union. induction l as [|a l IH]; intros s H; simpl.
  - now rewrite app_nil_r.
  - assert (Hn : memb a s = false).
    { destruct (memb a s) eqn:Hm; [|reflexivity]. apply memb_In in Hm.
      apply NoDup_remove_2 in H. exfalso. apply H. apply in_or_app. now left. }
    unfold set_add. rewrite Hn. rewrite IH.
    + now rewrite <- app_assoc.
    + now rewrite <- app_assoc.
Qed.

Lemma set_union_nil l : NoDup l -> set_union [] l = l.
Proof. intros H. now rewrite (set_union_fresh l [] H). Qed.

Lemma fold_left_set_union_NoDup vss : forall s, NoDup s -> NoDup (fold_left set_union vss s).
Proof.
  induction vss as [|vs vss IH]; intros s H; simpl; [exact H|]. apply IH. now apply set_union_NoDup.
Qed.

Lemma fold_left_set_union_In y vss : forall s, In y (fold_left set_union vss s) <-> In y s \/ In y (concat vss).
Proof.
  induction vss as [|vs vss IH]; intros s; simpl; [tauto|].
  rewrite IH, set_union_In, in_app_iff. tauto.
Qed.

Lemma insert_at_In y x : forall n l, In y (insert_at n x l) <-> y = x \/ In y l.
Proof.
  induction n as [|n IH]; intros l; simpl.
  - split; intros [H | H]; auto.
  - destruct l as [|a l]; simpl.
    + split; [intros [H | []]; auto | intros [H | []]; auto].
    + rewrite IH. intuition (subst; auto).
Qed.

Lemma replace_at_In y x : forall n l, In y (replace_at n x l) -> y = x \/ In y l.
Proof.
  induction n as [|n IH]; intros [|a l]; simpl; auto.
  - intros [H | H]; auto.
  - intros [H | H]; auto. destruct (IH l H); auto.
Qed.

Lemma firstn_In {B} (y : B) n : forall l, In y (firstn n l) -> In y l.
Proof. induction n as [|n IH]; intros [|a l]; simpl; auto. intros []. intros [H | H]; auto. Qed.
Lemma skipn_In {B} (y : B) n : forall l, In y (skipn n l) -> In y l.
Proof. induction n as [|n IH]; intros [|a l]; simpl; auto. Qed.

Lemma cst_eq a b : items a = items b -> rec a = rec b -> a = b.
Proof. destruct a, b. simpl. intros -> ->. reflexivity. Qed.

Lemma fold_add_list vs : forall s, fold_left (add_item KList) vs s = {| items := items s ++ vs; rec := rec s ++ vs |}.
Proof.
  induction vs as [|a vs IH]; intros s; simpl.
  - apply cst_eq; simpl; now rewrite app_nil_r.
  - rewrite IH. apply cst_eq; simpl; now rewrite <- app_assoc.
Qed.

Lemma fold_add_set vs : forall s, fold_left (add_item KSet) vs s = {| items := set_union (items s) vs; rec := rec s ++ vs |}.
Proof.
  induction vs as [|a vs IH]; intros s; simpl.
  - apply cst_eq; simpl; [reflexivity | now rewrite app_nil_r].
  - rewrite IH. apply cst_eq; simpl; [reflexivity | now rewrite <- app_assoc].
Qed.

Lemma fold_update vss : forall s,
  fold_left (fun s vs => fold_left (add_item KSet) vs s) vss s
  = {| items := fold_left set_union vss (items s); rec := rec s ++ concat vss |}.
Proof.
  induction vss as [|vs vss IH]; intros s; simpl.
  - apply cst_eq; simpl; [reflexivity | now rewrite app_nil_r].
  - rewrite IH, fold_add_set. apply cst_eq; simpl; [reflexivity | now rewrite <- app_assoc].
Qed.

(* a Python set holds no element twice *)
Definition wf (k : kind) (l : list elt) : Prop := match k with KList => True | KSet => NoDup l end.

Lemma extend_lazy_model_ok cands : forall s, incl (items s) (rec s) ->
  items (extend_lazy_model cands s) = extend_lazy_new cands (items s) /\
  incl (items (extend_lazy_model cands s)) (rec (extend_lazy_model cands s)) /\
  incl (rec s) (rec (extend_lazy_model cands s)).
Proof.
  unfold extend_lazy_model. induction cands as [|c r IH]; intros s Hin; simpl.
  - split; [reflexivity|]. split; [exact Hin | apply incl_refl].
  - destruct (memb c (items s)) eqn:Hm.
    + apply IH. exact Hin.
    + destruct (IH (add_item KList s c)) as [H1 [H2 H3]].
      * simpl. intros y Hy. apply in_app_or in Hy. apply in_or_app. destruct Hy as [Hy | Hy]; auto.
      * simpl in H1. split; [exact H1|]. split; [exact H2|].
        eapply incl_tran; [|exact H3]. simpl. apply incl_appl, incl_refl.
Qed.

Lemma step_ok k o s : wf k (items s) -> incl (items s) (rec s) ->
  items (fst (step k o s)) = fst (py_step k o (items s)) /\ snd (step k o s) = snd (py_step k o (items s)) /\
  wf k (items (fst (step k o s))) /\ incl (items (fst (step k o s))) (rec (fst (step k o s))) /\
  incl (rec s) (rec (fst (step k o s))).
Proof.
  intros Hwf Hin. destruct k, o; simpl; unfold desc_set, builtin_iaug; simpl;
    rewrite ?fold_add_list, ?fold_add_set, ?fold_update; simpl in *;
    try (repeat split; auto using incl_refl, incl_appl, incl_appr; fail).
  - (* list Append *) repeat split; auto using incl_appl, incl_refl.
    intros y Hy. apply in_app_or in Hy. apply in_or_app. destruct Hy as [Hy | Hy]; auto.
  - (* list Extend *) repeat split; auto using incl_appl, incl_refl.
    intros y Hy. apply in_app_or in Hy. apply in_or_app. destruct Hy as [Hy | Hy]; auto.
  - (* list Insert *) repeat split; auto using incl_appl, incl_refl.
    intros y Hy. unfold py_insert in Hy. apply insert_at_In in Hy. apply in_or_app.
    destruct Hy as [-> | Hy]; [right; now left | left; auto].
  - (* list SetItem *) destruct (py_setitem i x (items s)) as [l'|] eqn:Hs; simpl.
    + repeat split; auto using incl_appl, incl_refl.
      intros y Hy. unfold py_setitem in Hs.
      destruct ((0 <=? (if (i <? 0)%Z then (i + zlen (items s))%Z else i))%Z && ((if (i <? 0)%Z then (i + zlen (items s))%Z else i) <? zlen (items s))%Z); [|discriminate].
      injection Hs as <-. apply replace_at_In in Hy. apply in_or_app.
      destruct Hy as [-> | Hy]; [right; now left | left; auto].
    + repeat split; auto using incl_appl, incl_refl.
  - (* list SetSlice *) repeat split; auto using incl_appl, incl_refl.
    intros y Hy. unfold py_setslice in Hy. apply in_or_app.
    apply in_app_or in Hy. destruct Hy as [Hy | Hy]; [left; apply Hin; eapply firstn_In; eauto|].
    apply in_app_or in Hy. destruct Hy as [Hy | Hy]; [right; exact Hy | left; apply Hin; eapply skipn_In; eauto].
  - (* list SetSliceIter *) repeat split; auto using incl_appl, incl_refl.
    intros y Hy. unfold py_setslice in Hy. apply in_or_app.
    apply in_app_or in Hy. destruct Hy as [Hy | Hy]; [left; apply Hin; eapply firstn_In; eauto|].
    apply in_app_or in Hy. destruct Hy as [Hy | Hy]; [right; exact Hy | left; apply Hin; eapply skipn_In; eauto].
  - (* list ExtendSelf *) repeat split; auto using incl_appl, incl_refl.
    intros y Hy. apply in_or_app. apply in_app_or in Hy. destruct Hy as [Hy | Hy]; auto.
  - (* list SetSliceView *) repeat split; auto using incl_appl, incl_refl.
    intros y Hy. unfold py_setslice in Hy. apply in_or_app.
    apply in_app_or in Hy. destruct Hy as [Hy | Hy]; [left; apply Hin; eapply firstn_In; eauto|].
    apply in_app_or in Hy. destruct Hy as [Hy | Hy]; [right; exact Hy | left; apply Hin; eapply skipn_In; eauto].
  - (* list IAugAlias *) repeat split; auto using incl_appl, incl_refl.
    intros y Hy. apply in_app_or in Hy. apply in_or_app. destruct Hy as [Hy | Hy]; auto.
  - (* list ExtendLazyNew *) destruct (extend_lazy_model_ok cands s Hin) as [H1 [H2 H3]]. repeat split; auto.
  - (* set Assign *) repeat split; auto using incl_appl, incl_refl.
    + apply set_union_NoDup. constructor.
    + intros y Hy. apply set_union_In in Hy. destruct Hy as [[] | Hy]. apply in_or_app. auto.
  - (* set AssignSelf *) rewrite (set_union_nil _ Hwf). repeat split; auto using incl_appl, incl_appr, incl_refl.
  - (* set IAug *) rewrite (set_union_nil _ (set_union_NoDup vs _ Hwf)).
    repeat split; auto using incl_appl, incl_appr, incl_refl. now apply set_union_NoDup.
  - (* set Add *) repeat split; auto using incl_appl, incl_refl.
    + now apply set_add_NoDup.
    + intros y Hy. apply set_add_In in Hy. apply in_or_app. destruct Hy as [Hy | ->]; [left; auto | right; now left].
  - (* set Update *) repeat split; auto using incl_appl, incl_refl.
    + now apply fold_left_set_union_NoDup.
    + intros y Hy. apply fold_left_set_union_In in Hy. apply in_or_app. destruct Hy as [Hy | Hy]; auto.
  - (* set AssignView *) repeat split; auto using incl_appl, incl_refl.
    + apply set_union_NoDup. constructor.
    + intros y Hy. apply set_union_In in Hy. destruct Hy as [[] | Hy]. apply in_or_app. auto.
  - (* set IAugAlias *) repeat split; auto using incl_appl, incl_refl.
    + now apply set_union_NoDup.
    + intros y Hy. apply set_union_In in Hy. apply in_or_app. destruct Hy as [Hy | Hy]; auto.
Qed.

(* C16: for every history of write operations, from any contents whose elements are recorded, the trace of
   contents and IndexErrors is the one of a plain Python list / set, and every element (identity) of the field is recorded *)
Theorem writes_ok k : forall ops s, wf k (items s) -> incl (items s) (rec s) ->
  fst (run k ops s) = fst (py_run k ops (items s)) /\
  items (snd (run k ops s)) = snd (py_run k ops (items s)) /\
  incl (items (snd (run k ops s))) (rec (snd (run k ops s))) /\
  incl (rec s) (rec (snd (run k ops s))).
Proof.
  induction ops as [|o ops IH]; intros s Hwf Hin; simpl.
  - repeat split; auto using incl_refl.
  - destruct (step_ok k o s Hwf Hin) as [H1 [H2 [H3 [H4 H5]]]].
    specialize (IH (fst (step k o s)) H3 H4). rewrite H1 in IH.
    destruct (run k ops (fst (step k o s))) as [tr fin] eqn:Hr.
    destruct (py_run k ops (fst (py_step k o (items s)))) as [tr' fin'] eqn:Hp.
    simpl in *. destruct IH as [I1 [I2 [I3 I4]]]. repeat split; auto.
    + rewrite I1, H1, H2. destruct (py_step k o (items s)); reflexivity.
    + eapply incl_tran; eauto.
Qed.

Lemma init_ok k vs : wf k (items (init k vs)) /\ incl (items (init k vs)) (rec (init k vs)) /\
  items (init k vs) = fst (py_step k (Assign vs) []).
Proof.
  pose proof (step_ok k (Assign vs) {| items := []; rec := [] |}) as H.
  assert (Hw : wf k []) by (destruct k; simpl; [exact I | constructor]).
  specialize (H Hw (incl_refl _)). destruct H as [H1 [_ [H3 [H4 _]]]].
  destruct k; simpl in *; auto.
Qed.

(* ---- regression lemmas about the behaviour before 389dedc (the models *_old / extend_live of Container.v) ---- *)
Lemma extend_live_diverges : forall fuel i s, i < length (items s) -> extend_live fuel i s = None.
Proof.
  induction fuel as [|n IH]; intros i s Hi; simpl; [reflexivity|].
  destruct (nth_error (items s) i) as [x|] eqn:Hn.
  - apply IH. simpl. rewrite app_length. simpl. lia.
  - apply nth_error_None in Hn. lia.
Qed.

Lemma old_extend_self_diverged : forall fuel s, items s <> [] -> extend_live fuel 0 s = None.
Proof.
  intros fuel s H. apply extend_live_diverges. destruct (items s); [congruence | simpl; lia].
Qed.

Lemma old_slice_generator_lost : items (setslice_gen_old 0 1 [1; 2] (init KList [0])) = []
  /\ items (fst (step KList (SetSliceIter 0 1 [1; 2]) (init KList [0]))) = [1; 2].
Proof. split; vm_compute; reflexivity. Qed.

(* regression (before 6f674bd): q = C(f = p.f); q.f.append(x): x was in p's field and never recorded for p *)
Lemma old_ctor_alias_unrecorded : exists s x, wf KList (items s) /\ incl (items s) (rec s) /\ let t := append_q x (ctor_alias s) in In x (shared t) /\ ~ In x (recp t).
Proof.
  exists (init KList [0]), 1. split; [exact I|]. split.
  - intros y Hy. exact Hy.
  - simpl. split; [right; now left|]. intros [H | []]. discriminate.
Qed.

(* now the constructor copies: q starts from p's contents with everything recorded for q, p is untouched *)
Lemma ctor_copy_ok p : items (ctor_copy p) = items p /\ incl (items (ctor_copy p)) (rec (ctor_copy p)).
Proof.
  destruct (init_ok KList (items p)) as [_ [H2 H3]]. unfold ctor_copy. split; [exact H3 | exact H2].
Qed.

(* regression (before b78c5e4): x.f[0:0] = [t2, t3] with t2 == t3 distinct objects of one ==-class: the old recording kept only
   t2; the current step records both *)
Lemma old_slice_twins_lost :
  let cls := fun x => if Nat.eqb x 3 then 2 else x in
  rec (setslice_whole_old cls 0 0 [2; 3] (init KList [])) = [2]
  /\ rec (fst (step KList (SetSlice 0 0 [2; 3]) (init KList []))) = [2; 3].
Proof. split; vm_compute; reflexivity. Qed.

(* regression (before cd6cc17): owner.f = [3]; element 1 already relates to 2 through the transitive f; owner.f[-1] = 1: Python replaces
   3 and inference adds 2; the old order appended the inferred 2 first and then overwrote IT: 3 stayed, 2 was lost from the field *)
Lemma old_setitem_grown_wrong_position :
  setitem_grown (-1) 1 [2] [3] = Some [3; 1] /\ setitem_then_infer (-1) 1 [2] [3] = Some [1; 2].
Proof. split; vm_compute; reflexivity. Qed.

(* regression (before e598545): q = copy.copy(p); q.f = [1]: the element was recorded for p, to whom the shared container was still
   bound; now it is recorded for q *)
Lemma old_clone_assign_recorded_for_original :
  (let s := cstep_old (CAssign WQ [1]) (clone_init [0]) in In 1 (sitems s) /\ ~ In 1 (recs s WQ) /\ In 1 (recs s WP))
  /\ (let s := cstep (CAssign WQ [1]) (clone_init [0]) in In 1 (recs s WQ)).
Proof. simpl. split; [split; [now left | split; [intros [] | right; now left]] | now left]. Qed.

(* every write through an owner of the shared container is recorded for that owner *)
Lemma clone_write_recorded o s : match o with
  | CRead _ => True
  | CAppend w x => In x (recs (cstep o s) w)
  | CAssign w vs => incl vs (recs (cstep o s) w)
  end.
Proof.
  destruct o as [w | w x | w vs]; [exact I | |]; destruct w; simpl.
  - apply in_or_app. right. now left.
  - apply in_or_app. right. now left.
  - apply incl_appr, incl_refl.
  - apply incl_appr, incl_refl.
Qed.

(* regression (before 5f0198c): lst = x.f; lst += vs reached only the builtin, no __set__ followed: the new elements were in the field
   and nothing was recorded; now the operator records them *)
Lemma old_alias_inplace_unrecorded :
  (let s := builtin_iaug KList [1] (init KList []) in In 1 (items s) /\ ~ In 1 (rec s))
  /\ (let s := fst (step KList (IAugAlias [1]) (init KList [])) in In 1 (items s) /\ In 1 (rec s)).
Proof. simpl. split; split; auto. Qed.

(* regression (before 4de7ec8): x.f.extend(v for v in [1; 1] if v not in x.f) on an empty field: Python adds 1 once, the copy-first extend
   added it twice; the current step adds it once *)
Lemma old_extend_copy_first :
  items (extend_copy_first_new [1; 1] (init KList [])) = [1; 1]
  /\ items (fst (step KList (ExtendLazyNew [1; 1]) (init KList []))) = [1] /\ extend_lazy_new [1; 1] [] = [1].
Proof. repeat split; vm_compute; reflexivity. Qed.
