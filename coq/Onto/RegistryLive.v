(* Live (row-by-row) evaluations: what a row can be.  The order of rows and the interleaving with other operations are
   the runtime's and the program's choice; these facts hold in ANY state. *)
From Coq Require Import List Arith Bool PeanoNat Lia Permutation.
From Krrood Require Import Onto.RegistrySpec Onto.Registry Onto.RegistryLemmas.
Import ListNotations.

Lemma deref_some L w o : deref L w = Some o -> mem_obj o L = true /\ w_obj w = o.
Proof. unfold deref. destruct (mem_obj (w_obj w) L) eqn:E; intros H; inversion H; subst; auto. Qed.

(* what the domain hands out next: never a dead reference, never a value it handed out before *)
Lemma pull_cur_spec L seen : forall cur v t, pull_cur L seen cur = Some (v, t) ->
  exists w o, In w cur /\ v = Some o /\ deref L w = Some o /\ existsb (oeqb (Some o)) seen = false /\
              exists pre, cur = pre ++ w :: t.
Proof.
  induction cur as [|w cur IH]; simpl; intros v t H; [discriminate|].
  destruct (deref L w) as [o|] eqn:D.
  - destruct (existsb (oeqb (Some o)) seen) eqn:E.
    + destruct (IH _ _ H) as [w' [o' [A [B [C [F [pre G]]]]]]]. exists w', o'. repeat split; auto. exists (w :: pre). now rewrite G.
    + inversion H; subst. exists w, o. repeat split; auto. exists []. reflexivity.
  - destruct (IH _ _ H) as [w' [o' [A [B [C [F [pre G]]]]]]]. exists w', o'. repeat split; auto. exists (w :: pre). now rewrite G.
Qed.

Lemma pull_classes_spec L r seen : forall cs v t cs', pull_classes L r seen cs = Some (v, t, cs') ->
  exists w o c, In w (wl r) /\ w_cls w = c /\ In c cs /\ v = Some o /\ deref L w = Some o /\
                existsb (oeqb (Some o)) seen = false /\
                (forall w', In w' t -> In w' (wl r) /\ w_cls w' = c) /\ (forall c', In c' cs' -> In c' cs).
Proof.
  induction cs as [|c cs IH]; simpl; intros v t cs' H; [discriminate|].
  destruct (pull_cur L seen (filter (fun w => w_cls w =? c) (wl r))) as [[v' t']|] eqn:E.
  - inversion H; subst. destruct (pull_cur_spec _ _ _ _ _ E) as [w [o [B [C [D [F [pre G]]]]]]].
    apply filter_In in B. destruct B as [B1 B2]. apply Nat.eqb_eq in B2. exists w, o, c. repeat split; auto.
    + assert (In w' (filter (fun w => w_cls w =? c) (wl r))) by (rewrite G, in_app_iff; simpl; auto).
      apply filter_In in H1. tauto.
    + assert (In w' (filter (fun w => w_cls w =? c) (wl r))) by (rewrite G, in_app_iff; simpl; auto).
      apply filter_In in H1. destruct H1 as [_ H1]. now apply Nat.eqb_eq in H1.
  - destruct (IH _ _ _ H) as [w [o [c' [A [B [C [D [F [G [I J]]]]]]]]]]. exists w, o, c'. repeat split; auto. apply I; auto. apply I; auto.
Qed.

Section Live.
  Variable children : cls -> list cls.
  Variable fuel : nat.
  Notation step := (step children fuel).

  (* a row: always an instance, which exists now and which this evaluation has not produced before *)
  Theorem next_row_sound s n y v e :
    nth_error (evals s) n = Some (Some e) ->
    snd (step s (NextV n y)) = OInst [v] ->
    exists o, v = Some o /\ mem_obj o (live s) = true /\ (e_started e = true -> ~ In (Some o) (e_seen e)).
  Proof.
    intros Hn. simpl. rewrite Hn. destruct (e_stale e); [discriminate|].
    set (r := if e_started e then g s else sweep (live s) (g s)).
    set (e1 := if e_started e then e else _).
    destruct (pull (live s) r e1) as [[[v' cur] cs]|] eqn:P; simpl; intros H; inversion H; subst.
    unfold pull in P.
    assert (Hs : e_seen e1 = e_seen e) by (unfold e1; destruct (e_started e); reflexivity).
    assert (Q : exists w o, v = Some o /\ deref (live s) w = Some o /\ existsb (oeqb (Some o)) (e_seen e) = false).
    { rewrite <- Hs. destruct (pull_cur (live s) (e_seen e1) (e_cur e1)) as [[v' t']|] eqn:E.
      - inversion P; subst. destruct (pull_cur_spec _ _ _ _ _ E) as [w [o [_ [B [C [D _]]]]]]. eauto.
      - destruct (pull_classes_spec _ _ _ _ _ _ _ P) as [w [o [c [_ [_ [_ [B [C [D _]]]]]]]]]. eauto. }
    destruct Q as [w [o [-> [C A]]]]. apply deref_some in C. exists o. split; auto. split; [tauto|].
    intros _ Hin. assert (existsb (oeqb (Some o)) (e_seen e) = true); [|congruence].
    apply existsb_exists. exists (Some o). split; auto. now apply oeqb_eq.
  Qed.

  (* what a live evaluation holds grows by exactly the row it hands out *)
  Theorem next_holds_row s n y v e :
    nth_error (evals s) n = Some (Some e) -> e_started e = true ->
    snd (step s (NextV n y)) = OInst [v] ->
    exists e', nth_error (evals (fst (step s (NextV n y)))) n = Some (Some e') /\ e_seen e' = e_seen e ++ [v].
  Proof.
    intros Hn Hst. simpl. rewrite Hn, Hst. destruct (e_stale e); [discriminate|].
    destruct (pull (live s) (g s) e) as [[[v' cur] cs]|] eqn:P; simpl; intros H; inversion H; subst.
    exists (EV (e_T e) true false cs cur (e_seen e ++ [v])). split; [|reflexivity].
    clear - Hn. revert n Hn. induction (evals s) as [|a es IH]; intros [|n] Hn; simpl in *; try discriminate; auto.
  Qed.
End Live.
