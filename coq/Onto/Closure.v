(* Onto/Closure.v -- executable, code-faithful model of the incremental inference of
   krrood.ontomatic.property_descriptor (PropertyDescriptorRelation.add_to_graph and the write paths of
   PropertyDescriptor / MonitoredContainer that reach it).

   Python (property_descriptor_relation.py, HEAD of /repo)          model
   -------------------------------------------------------          -----
   add_to_graph: if SymbolGraph().add_relation(self):               mem e E  -> stop ; else e :: E
       if self.inferred: update_source_wrapped_field_value()        write-back into the field store V
       infer_super_relations()      (direct, then role taker)       fold over sup_of e
       infer_inverse_relation()                                     fold over inv_of e
       if transitive:
         for nxt in out_edges(target) with the same descriptor      snapshot  outs E e  taken AFTER super/inverse ran
            cls: (source, nxt.target, self.wrapped_field)           (rustworkx out_edges returns a list, not a live view)
         for nxt in in_edges(source) with the same descriptor       snapshot  ins E e   taken AFTER the outgoing loop ran
            cls: (nxt.source, target, nxt.wrapped_field)
   every inferred relation goes through add_to_graph again          recursion on explicit fuel; None = out of fuel
   (the incoming loop skips a source whose instance was collected but not swept yet, 52517d3: the model has no garbage
    collection - every object of the population lives through the history - so that branch is never taken here)

   The graph is the list of relations in insertion order, newest first. *)
From Coq Require Import List Bool Arith Lia.
From Krrood Require Import Onto.ClosureSpec.
Import ListNotations.

Section Model.
  Variable Sc : schema.

  Definition trans_e (e : edge) : bool := transitive Sc (dsc_of Sc (efld e)).
  Definition same_dsc (a b : edge) : bool := Nat.eqb (dsc_of Sc (efld a)) (dsc_of Sc (efld b)).

  (* relation.property_descriptor_cls is self.property_descriptor_cls, among the edges leaving the target *)
  Definition outs (E : list edge) (e : edge) : list edge :=
    filter (fun e' => Nat.eqb (esrc e') (etgt e) && same_dsc e' e) E.
  (* ... among the edges entering the source *)
  Definition ins (E : list edge) (e : edge) : list edge :=
    filter (fun e' => Nat.eqb (etgt e') (esrc e) && same_dsc e' e) E.

  Fixpoint fold_add (add : edge -> list edge -> option (list edge)) (es : list edge) (E : list edge)
    : option (list edge) :=
    match es with
    | [] => Some E
    | e :: es' => match add e E with None => None | Some E' => fold_add add es' E' end
    end.

  Fixpoint add_rel (n : nat) (e : edge) (E : list edge) : option (list edge) :=
    match n with
    | O => None
    | S n' =>
      if mem e E then Some E else
      let E0 := e :: E in
      match fold_add (add_rel n') (sup_of Sc e) E0 with None => None | Some E1 =>
      match fold_add (add_rel n') (inv_of Sc e) E1 with None => None | Some E2 =>
      if trans_e e then
        match fold_add (add_rel n') (map (fun e' => (esrc e, efld e, etgt e')) (outs E2 e)) E2 with
        | None => None
        | Some E3 => fold_add (add_rel n') (map (fun e' => (esrc e', efld e', etgt e)) (ins E3 e)) E3
        end
      else Some E2
      end end
    end.

  (* a history of assertions, in the order given, starting from the empty graph *)
  Definition run (n : nat) (A : list edge) : option (list edge) := fold_add (add_rel n) A [].

  (* ---- the same with the field store ---------------------------------------------------------
     V lists what the objects' fields physically hold, as (owner, field, element).
     update_value (inferred relations): container -> add unless _holds(value); scalar -> overwrite if `is not`.
     A direct assertion (append / add / scalar assignment) calls add_to_graph FIRST (MonitoredContainer._add_item:
     _on_add then super().append) for containers and AFTER the store for scalars (__set__: setattr then
     add_relation_to_the_graph); list fields keep repetitions, set fields do not. *)
  Variable is_scalar : fld -> bool.
  Variable is_list : fld -> bool.

  (* "already there" (MonitoredContainer._holds, update_value's `v is not range_value`): symbols are identified by IDENTITY, as in
     the symbol graph, wherever the container can hold two equal values: list fields (MonitoredList._holds scans with `is`) and
     single-valued fields.  A Python set cannot hold two equal values at all, so for set fields "already there" is `value in self`,
     i.e. up to Python ==: [cls o] is the ==-class of object o (distinct objects that compare and hash equal share a class). *)
  Variable cls : inst -> nat.
  Definition same_slot_eq (e v : edge) : bool :=
    Nat.eqb (esrc v) (esrc e) && Nat.eqb (efld v) (efld e) && Nat.eqb (cls (etgt v)) (cls (etgt e)).
  Definition in_field (e : edge) (V : list edge) : bool :=
    if is_scalar (efld e) || is_list (efld e) then mem e V else existsb (same_slot_eq e) V.
  (* before the repair of C15-b every kind of field compared with == *)
  Definition in_field_old (e : edge) (V : list edge) : bool := existsb (same_slot_eq e) V.
  Definition write_back_old (e : edge) (V : list edge) : list edge :=
    if in_field_old e V then V else if is_scalar (efld e) then e :: filter (fun v => negb (Nat.eqb (esrc v) (esrc e) && Nat.eqb (efld v) (efld e))) V else e :: V.
  Definition drop_field (s : inst) (f : fld) (V : list edge) : list edge :=
    filter (fun v => negb (Nat.eqb (esrc v) s && Nat.eqb (efld v) f)) V.
  Definition write_back (e : edge) (V : list edge) : list edge :=
    if is_scalar (efld e)
    then (if in_field e V then V else e :: drop_field (esrc e) (efld e) V)
    else (if in_field e V then V else e :: V).

  Definition st := (list edge * list edge)%type.   (* graph, field store *)

  Fixpoint fold_addV (add : edge -> st -> option st) (es : list edge) (s : st) : option st :=
    match es with
    | [] => Some s
    | e :: es' => match add e s with None => None | Some s' => fold_addV add es' s' end
    end.

  Fixpoint add_relV (n : nat) (inferred : bool) (e : edge) (s : st) : option st :=
    match n with
    | O => None
    | S n' =>
      let '(E, V) := s in
      if mem e E then Some s else
      let s0 := (e :: E, if inferred then write_back e V else V) in
      match fold_addV (add_relV n' true) (sup_of Sc e) s0 with None => None | Some s1 =>
      match fold_addV (add_relV n' true) (inv_of Sc e) s1 with None => None | Some s2 =>
      if trans_e e then
        match fold_addV (add_relV n' true) (map (fun e' => (esrc e, efld e, etgt e')) (outs (fst s2) e)) s2 with
        | None => None
        | Some s3 => fold_addV (add_relV n' true) (map (fun e' => (esrc e', efld e', etgt e)) (ins (fst s3) e)) s3
        end
      else Some s2
      end end
    end.

  (* one assertion through the public API: x.f.append(t) / x.f.add(t) / x.f = t *)
  Definition assert1 (n : nat) (e : edge) (s : st) : option st :=
    if is_scalar (efld e) then
      let '(E, V) := s in add_relV n false e (E, e :: drop_field (esrc e) (efld e) V)
    else
      match add_relV n false e s with
      | None => None
      | Some (E', V') => Some (E', if is_list (efld e) then e :: V' else if in_field e V' then V' else e :: V')
      end.

  Definition runV (n : nat) (A : list edge) : option st := fold_addV (assert1 n) A ([], []).
End Model.

(* ---- printing for the correspondence harness ------------------------------------------------ *)
From Coq Require Import ZArith.
From Krrood Require Import Base.Sx.
Definition model_out (r : option st) : sx :=
  match r with
  | Some (E, V) => SL [SL (map edge_sx E); SL (map edge_sx V)]
  | None => SZ (-1)
  end.
