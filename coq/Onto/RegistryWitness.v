(* Concrete witnesses (computed by vm_compute): where the faithful model does NOT meet the full property
   (known findings), regression examples of the repaired defects, and non-vacuity of the theorems' hypotheses.
   Hierarchy: 0 -> 1, 2 ; 1 -> 3 ; 2 -> 3 (diamond). *)
From Coq Require Import List Arith Bool PeanoNat Lia Permutation.
From Krrood Require Import Onto.RegistrySpec Onto.Registry Onto.RegistryLemmas Onto.RegistryInv Onto.RegistryProofs
  Onto.RegistryQuery Onto.RegistryRel Onto.Lifetime.
Import ListNotations.

Definition wch (c : cls) : list cls := match c with 0 => [1; 2] | 1 => [3] | 2 => [3] | _ => [] end.
Definition wfuel := 4.
Notation wrun h := (fst (run wch wfuel init h)).
Notation wout s o := (snd (step wch wfuel s o)).

(* C13-d: after SymbolGraph().clear() the instances created before are invisible to a domain-less variable *)
Lemma refuted_clear :
  exists h T, adm_run wch wfuel init h = true /\
              wout (wrun h) (QueryG T) = OInst [] /\ spec_query wch wfuel (live (wrun h)) T = [0].
Proof. exists [New 0 0 0; Clear], 0. vm_compute. auto. Qed.

(* C13-b: a query object evaluated again replays the domain it cached: the new instance is missing *)
Lemma refuted_stale_variable :
  exists h k, adm_run wch wfuel init h = true /\
              wout (wrun h) (EvalV k) = OInst [Some 0] /\
              snd (spec_step wch wfuel (fst (spec_run wch wfuel a_init h)) (EvalV k)) = OInst [Some 0; Some 1].
Proof. exists [New 0 0 0; QueryE 0; New 1 1 1], 0. vm_compute. auto. Qed.

(* C13-c = C20-a: an instance the program has dropped is still returned: the first query's cached domain holds it *)
Lemma refuted_pinned :
  exists h T, adm_run wch wfuel init h = true /\ user (wrun h) = [] /\
              wout (wrun h) (QueryG T) = OInst [Some 0] /\
              sreach (refs (wrun h)) HExprTable (HObj 0).
Proof.
  exists [New 0 0 0; QueryE 0; Drop 0], 0. split; [|split; [|split]]; try (vm_compute; reflexivity).
  apply cache_pins. vm_compute. reflexivity.
Qed.

(* every evaluated query leaves one more variable (and its cached domain) in the process-wide expression table *)
Lemma expr_table_grows s T : length (vars (fst (step wch wfuel s (QueryE T)))) = S (length (vars s)).
Proof. simpl. rewrite app_length. simpl. lia. Qed.

Lemma refuted_expr_growth :
  exists h, adm_run wch wfuel init h = true /\ live (wrun h) = [O 0 0 0] /\ user (wrun h) = [] /\ length (vars (wrun h)) = 3.
Proof. exists [New 0 0 0; QueryE 0; Drop 0; QueryE 0; QueryE 1]. vm_compute. auto. Qed.

(* non-vacuity of eval_correct: a variable declared, then the world changes, then the first evaluation *)
Example declared_then_evaluated :
  let h := [New 0 0 0; DeclV 0; New 1 1 1; Drop 0; Sweep; New 3 0 0] in
  adm_run wch wfuel init h = true /\ no_clear h = true /\
  nth_error (vars (wrun h)) 0 = Some (0, VPending) /\ live (wrun h) = [O 1 1 1; O 2 3 0] /\
  wout (wrun h) (EvalV 0) = OInst [Some 1; Some 2].
Proof. vm_compute. repeat split; reflexivity. Qed.

(* regression examples of the repaired defects *)
(* C13-a (a83ee6a): an instance of the diamond class 3 is returned once for a query on 0 *)
Example diamond_once : wout (wrun [New 3 0 0; New 1 1 1]) (QueryG 0) = OInst [Some 1; Some 0].
Proof. vm_compute. reflexivity. Qed.

(* C14-a / C20-b (1bd8ea9): indices 1,0 and the addresses are reused after a sweep; the new relation is new,
   the containers do not keep the dead entries *)
Example reuse_relation_new :
  let h := [New 0 0 0; New 0 1 1; Relate 0 0 1 0 1; Drop 0; Drop 1; Sweep; New 0 1 1; New 0 0 0] in
  adm_run wch wfuel init h = true /\
  wout (wrun h) (Relate 3 0 2 0 1) = OBool true /\ sizes (g (wrun h)) = [2; 2; 2; 0; 0].
Proof. vm_compute. auto. Qed.

(* non-vacuity: a history with reuse, a diamond instance, relations and a registry query satisfies every hypothesis *)
Definition sample_history : list op :=
  [New 0 0 0; New 3 1 1; Relate 0 0 1 0 1; Drop 0; Sweep; New 2 0 0; Relate 2 0 1 0 1; QueryG 0; Relate 2 0 1 0 1].

Example sample_ok :
  adm_run wch wfuel init sample_history = true /\ no_clear sample_history = true /\ no_eval sample_history = true /\
  no_eql sample_history = true /\ desc_b wch wfuel 0 0 = false /\
  snd (run wch wfuel init sample_history) =
    [ONone; ONone; OBool true; ONone; ONone; ONone; OBool true; OInst [Some 2; Some 1]; OBool false].
Proof. vm_compute. repeat split; reflexivity. Qed.
