(* Concrete witnesses (computed by vm_compute): where the faithful model does NOT meet the full property
   (known findings), regression examples of the repaired defects, and non-vacuity of the theorems' hypotheses.
   Hierarchy: 0 -> 1, 2 ; 1 -> 3 ; 2 -> 3 (diamond). *)
From Coq Require Import List Arith Bool PeanoNat Lia Permutation.
From Krrood Require Import Onto.RegistrySpec Onto.Registry Onto.RegistryLemmas Onto.RegistryInv Onto.RegistryProofs
  Onto.RegistryQuery Onto.RegistryRel Onto.RegistryRefine Onto.Lifetime.
Import ListNotations.

Definition wch (c : cls) : list cls := match c with 0 => [1; 2] | 1 => [3] | 2 => [3] | _ => [] end.
Definition wfuel := 4.
Notation wrun h := (fst (run wch wfuel init h)).
Notation wout s o := (snd (step wch wfuel s o)).
Notation wspec h := (fst (spec_run wch wfuel a_init h)).

(* ---------------------------------------------------------------- open findings *)
(* C13-d: after SymbolGraph().clear() the instances created before are invisible to a domain-less variable *)
Lemma refuted_clear :
  exists h T, adm_run wch wfuel init h = true /\
              wout (wrun h) (QueryG T) = OInst [] /\ spec_query wch wfuel (live (wrun h)) T = [0].
Proof. exists [New 0 0 0; Clear], 0. vm_compute. auto. Qed.

(* C20-a2: every query object leaves one entry in the process-wide expression tables, whatever is dropped *)
Lemma refuted_expr_growth :
  exists h, adm_run wch wfuel init h = true /\ live (wrun h) = [] /\ user (wrun h) = [] /\ length (vars (wrun h)) = 3.
Proof. exists [New 0 0 0; QueryE 0; Drop 0; QueryE 0; DeclV 1]. vm_compute. auto. Qed.

(* ---------------------------------------------------------------- regression examples of the repaired defects *)
(* C13-b (769edfe): a query object evaluated again ranges over the instances existing at THAT evaluation *)
Example reevaluation_is_fresh :
  let h := [New 0 0 0; QueryE 0; New 1 1 1] in
  adm_run wch wfuel init h = true /\
  wout (wrun h) (EvalV 0) = OInst [Some 0; Some 1] /\
  snd (spec_step wch wfuel (wspec h) (EvalV 0)) = OInst [Some 0; Some 1].
Proof. vm_compute. auto. Qed.

(* C13-c / C20-a (769edfe): an evaluated query does not keep the instances it ranged over *)
Example evaluated_query_holds_nothing :
  let h := [New 0 0 0; QueryE 0; Drop 0] in
  adm_run wch wfuel init h = true /\ live (wrun h) = [] /\ wout (wrun h) (QueryG 0) = OInst [] /\
  sizes (g (fst (step wch wfuel (wrun h) Sweep))) = [0; 0; 0; 0; 0].
Proof. vm_compute. auto. Qed.

(* C13-e (125842b): an instance that dies while an evaluation is being consumed row by row, before its turn, is skipped
   (it used to be handed out as None) *)
Example dead_before_its_turn_is_skipped :
  let h := [New 0 0 0; New 0 1 1; New 1 2 2; DeclV 0; StartV 0; NextV 0 (Some (Some 0)); Drop 1] in
  adm_run wch wfuel init h = true /\
  wout (wrun h) (NextV 0 (Some (Some 2))) = OInst [Some 2] /\
  snd (spec_step wch wfuel (wspec h) (NextV 0 (Some (Some 2)))) = OInst [Some 2] /\
  wout (wrun (h ++ [NextV 0 (Some (Some 2))])) (NextV 0 None) = OInst [] /\
  snd (spec_step wch wfuel (wspec (h ++ [NextV 0 (Some (Some 2))])) (NextV 0 None)) = OInst [].
Proof. vm_compute. repeat split; reflexivity. Qed.

(* C13-a (a83ee6a): an instance of the diamond class 3 is returned once for a query on 0 *)
Example diamond_once : wout (wrun [New 3 0 0; New 1 1 1]) (QueryE 0) = OInst [Some 1; Some 0].
Proof. vm_compute. reflexivity. Qed.

(* C14-a / C20-b (1bd8ea9): indices 1,0 and the addresses are reused after a sweep; the new relation is new,
   the containers do not keep the dead entries *)
Example reuse_relation_new :
  let h := [New 0 0 0; New 0 1 1; Relate 0 0 1 0 1; Drop 0; Drop 1; Sweep; New 0 1 1; New 0 0 0] in
  adm_run wch wfuel init h = true /\
  wout (wrun h) (Relate 3 0 2 0 1) = OBool true /\ sizes (g (wrun h)) = [2; 2; 2; 0; 0].
Proof. vm_compute. auto. Qed.

(* ---------------------------------------------------------------- non-vacuity *)
(* a variable declared, then the world changes, then evaluated -- twice, with a change in between *)
Example declared_then_evaluated :
  let h := [New 0 0 0; DeclV 0; New 1 1 1; Drop 0; Sweep; New 3 0 0] in
  adm_run wch wfuel init h = true /\ no_clear h = true /\
  nth_error (vars (wrun h)) 0 = Some 0 /\ live (wrun h) = [O 1 1 1; O 2 3 0] /\
  wout (wrun h) (EvalV 0) = OInst [Some 1; Some 2] /\
  wout (wrun (h ++ [EvalV 0; Drop 1])) (EvalV 0) = OInst [Some 2].
Proof. vm_compute. repeat split; reflexivity. Qed.

(* a live iterator legitimately holds the rows it has handed out, until it is closed *)
Example live_iterator_holds_rows :
  let h := [New 0 0 0; New 1 1 1; DeclV 0; StartV 0; NextV 0 (Some (Some 0)); Drop 0] in
  adm_run wch wfuel init h = true /\ live (wrun h) = [O 0 0 0; O 1 1 1] /\ user (wrun h) = [1] /\
  pinned (evals (wrun h)) 0 = true /\
  live (wrun (h ++ [CloseV 0])) = [O 1 1 1] /\
  a_live (wspec (h ++ [CloseV 0])) = [O 1 1 1].
Proof. vm_compute. repeat split; reflexivity. Qed.

(* non-vacuity of the end condition of a row-by-row evaluation: the evaluation has not begun after h1; the world changes while it
   is consumed; when it reports the end, the instances that existed before it began and still exist were all handed out *)
Example live_evaluation_ends_complete :
  let h1 := [New 0 0 0; New 3 1 1; New 1 2 2; DeclV 0; StartV 0] in
  let h2 := [NextV 0 (Some (Some 0)); New 2 3 3; Drop 2; Sweep; NextV 0 (Some (Some 3)); NextV 0 (Some (Some 1))] in
  adm_run wch wfuel init (h1 ++ h2) = true /\ no_clear (h1 ++ h2) = true /\
  next (wrun h1) = 3 /\ map o_id (live (wrun (h1 ++ h2))) = [0; 1; 3] /\
  wout (wrun (h1 ++ h2)) (NextV 0 None) = OInst [] /\
  snd (spec_step wch wfuel (wspec (h1 ++ h2)) (NextV 0 None)) = OInst [].
Proof. vm_compute. repeat split; reflexivity. Qed.

(* a history with reuse, a diamond instance, relations, declared / complete / repeated evaluations satisfies every hypothesis *)
Definition sample_history : list op :=
  [New 0 0 0; New 3 1 1; DeclV 0; Relate 0 0 1 0 1; Drop 0; Sweep; New 2 0 0; Relate 2 0 1 0 1; QueryG 0; EvalV 0;
   Relate 2 0 1 0 1; QueryE 2; Drop 1; EvalV 0].

Example sample_ok :
  adm_run wch wfuel init sample_history = true /\ no_clear sample_history = true /\ no_live sample_history = true /\
  in_F sample_history = true /\ (forall T, T < 4 -> desc_b wch wfuel T T = false) /\
  snd (run wch wfuel init sample_history) =
    [ONone; ONone; ONone; OBool true; ONone; ONone; ONone; OBool true; OInst [Some 2; Some 1]; OInst [Some 2; Some 1];
     OBool false; OInst [Some 2; Some 1]; ONone; OInst [Some 2]].
Proof.
  vm_compute. repeat split; try reflexivity.
  intros T HT. do 4 (destruct T as [|T]; [reflexivity|]). lia.
Qed.

Lemma wch_acyclic : acyclic wch wfuel.
Proof. intros T. do 4 (destruct T as [|T]; [reflexivity|]). reflexivity. Qed.
