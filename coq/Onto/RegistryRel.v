(* C14: the effect of asserting a relation depends only on the relations between existing instances,
   not on what was created, related, dropped and swept before (node indices and addresses are reused). *)
From Coq Require Import List Arith Bool PeanoNat Lia Permutation.
From Krrood Require Import Onto.RegistrySpec Onto.Registry Onto.RegistryLemmas Onto.RegistryInv Onto.RegistryProofs.
Import ListNotations.

Lemma find_app_some {A} (p : A -> bool) l l' x : find p l = Some x -> find p (l ++ l') = Some x.
Proof. induction l as [|a l IH]; simpl; [discriminate|]. destruct (p a); auto. Qed.

Lemma flat_map_ext_in {A B} (f g : A -> list B) l : (forall a, In a l -> f a = g a) -> flat_map f l = flat_map g l.
Proof. induction l as [|a l IH]; simpl; intros H; auto. rewrite H, IH; auto. Qed.

Lemma obj_at_some r i o : NoDup (map w_idx (nodes r)) ->
  (obj_at r i = Some o <-> exists w, In w (nodes r) /\ w_idx w = i /\ w_obj w = o).
Proof.
  intros Hnd. unfold obj_at. split.
  - destruct (find (fun w => w_idx w =? i) (nodes r)) as [w|] eqn:F; [|discriminate].
    intros E. inversion E; subst. apply find_some in F. destruct F as [A B]. apply Nat.eqb_eq in B. eauto.
  - intros [w [Hw [Ei Eo]]]. destruct (find (fun w => w_idx w =? i) (nodes r)) as [w'|] eqn:F.
    + apply find_some in F. destruct F as [A B]. apply Nat.eqb_eq in B.
      assert (w' = w) by (eapply NoDup_map_inj with (f := w_idx); eauto; congruence). congruence.
    + eapply find_none in F; eauto. apply Nat.eqb_neq in F. congruence.
Qed.

Lemma abs_rels_In L r a f b : NoDup (map w_idx (nodes r)) ->
  (In (a, f, b) (abs_rels L r) <->
   exists wa wb, In wa (nodes r) /\ In wb (nodes r) /\ w_obj wa = a /\ w_obj wb = b /\
                 In (w_idx wa, w_idx wb, f) (edges r) /\ mem_obj a L = true /\ mem_obj b L = true).
Proof.
  intros Hnd. unfold abs_rels. rewrite in_flat_map. split.
  - intros [[[s t] f'] [He Hin]]. unfold abs_edge in Hin.
    destruct (obj_at r s) as [a'|] eqn:Ea; [|destruct Hin].
    destruct (obj_at r t) as [b'|] eqn:Eb; [|destruct Hin].
    destruct (mem_obj a' L && mem_obj b' L) eqn:M; [|destruct Hin].
    destruct Hin as [E|[]]. inversion E; subst. apply andb_true_iff in M. destruct M as [Ma Mb].
    apply obj_at_some in Ea; auto. apply obj_at_some in Eb; auto.
    destruct Ea as [wa [A1 [A2 A3]]]. destruct Eb as [wb [B1 [B2 B3]]]. exists wa, wb. subst. tauto.
  - intros [wa [wb [A [B [Ea [Eb [He [Ma Mb]]]]]]]]. exists (w_idx wa, w_idx wb, f). split; auto.
    unfold abs_edge.
    rewrite (proj2 (obj_at_some r (w_idx wa) a Hnd)) by eauto.
    rewrite (proj2 (obj_at_some r (w_idx wb) b Hnd)) by eauto.
    rewrite Ma, Mb. simpl. auto.
Qed.

Lemma abs_rels_nodes_only L r r' : nodes r' = nodes r -> edges r' = edges r -> abs_rels L r' = abs_rels L r.
Proof. intros E1 E2. unfold abs_rels, abs_edge, obj_at. now rewrite E1, E2. Qed.

(* a new node with an unused index does not change the relations *)
Lemma abs_rels_add_node L0 L r w : RegInv L0 r -> idx_free r (w_idx w) = true -> abs_rels L (add_node r w) = abs_rels L r.
Proof.
  intros Hr Hi. unfold abs_rels. simpl. apply flat_map_ext_in. intros [[s t] f] He.
  destruct (i_edges_nodes _ _ Hr _ _ _ He) as [A B].
  assert (Hs : forall i, In i (map w_idx (nodes r)) -> obj_at (add_node r w) i = obj_at r i).
  { intros i Hin. apply in_map_iff in Hin. destruct Hin as [wi [Ei Hwi]].
    destruct (obj_at r i) as [o|] eqn:E.
    - unfold obj_at in *. simpl. destruct (find (fun w0 => w_idx w0 =? i) (nodes r)) as [w'|] eqn:F; [|discriminate].
      now rewrite (find_app_some _ _ _ _ F).
    - exfalso. unfold obj_at in E. destruct (find (fun w0 => w_idx w0 =? i) (nodes r)) eqn:F; [discriminate|].
      eapply find_none in F; eauto. apply Nat.eqb_neq in F. congruence. }
  unfold abs_edge. now rewrite (Hs _ A), (Hs _ B).
Qed.

(* a new instance does not change the relations between the others *)
Lemma mem_obj_app o L x : mem_obj o (L ++ [x]) = mem_obj o L || (o_id x =? o).
Proof. unfold mem_obj. rewrite existsb_app. simpl. now rewrite orb_false_r. Qed.

Lemma abs_rels_new_live L0 L r x : RegInv L0 r -> ~ In (o_id x) (map w_obj (wl r)) -> abs_rels (L ++ [x]) r = abs_rels L r.
Proof.
  intros Hr Hf. unfold abs_rels. apply flat_map_ext_in. intros [[s t] f] He. unfold abs_edge.
  assert (Hm : forall i o, obj_at r i = Some o -> mem_obj o (L ++ [x]) = mem_obj o L).
  { intros i o E. apply obj_at_some in E; [|apply Hr]. destruct E as [w [Hw [_ Eo]]].
    rewrite mem_obj_app. destruct (o_id x =? o) eqn:Q; [|apply orb_false_r].
    apply Nat.eqb_eq in Q. exfalso. apply Hf. rewrite Q, <- Eo. apply in_map. now apply Hr. }
  destruct (obj_at r s) eqn:Ea; auto. destruct (obj_at r t) eqn:Eb; auto.
  now rewrite (Hm _ _ Ea), (Hm _ _ Eb).
Qed.

(* removing the node of a dead instance does not change the relations between existing instances *)
Lemma abs_rels_remove_node L r w : RegInv L r -> In w (nodes r) -> mem_obj (w_obj w) L = false ->
  forall x, In x (abs_rels L (remove_node r w)) <-> In x (abs_rels L r).
Proof.
  intros Hr Hw Hd [[a f] b].
  assert (Hr' := remove_node_inv _ _ _ Hr Hw Hd).
  rewrite !abs_rels_In by (apply Hr || apply Hr'). simpl. split.
  - intros [wa [wb [A [B [Ea [Eb [He M]]]]]]]. exists wa, wb. apply filter_In in A, B, He. tauto.
  - intros [wa [wb [A [B [Ea [Eb [He [Ma Mb]]]]]]]]. exists wa, wb.
    assert (Na : w_idx wa <> w_idx w).
    { intro E. assert (wa = w) by (eapply NoDup_map_inj with (f := w_idx); eauto; apply Hr). subst. congruence. }
    assert (Nb : w_idx wb <> w_idx w).
    { intro E. assert (wb = w) by (eapply NoDup_map_inj with (f := w_idx); eauto; apply Hr). subst. congruence. }
    rewrite !filter_In, !negb_true_iff, !Nat.eqb_neq. repeat split; auto.
    apply orb_false_iff. rewrite !Nat.eqb_neq. auto.
Qed.

Lemma abs_rels_sweep_list L : forall l r,
  RegInv L r -> NoDup (map w_idx l) -> (forall w, In w l -> In w (nodes r)) ->
  forall x, In x (abs_rels L (sweep_list L l r)) <-> In x (abs_rels L r).
Proof.
  induction l as [|w l IH]; simpl; intros r Hr Hnd Hsub x; [tauto|].
  inversion Hnd; subst. destruct (mem_obj (w_obj w) L) eqn:E.
  - apply IH; auto.
  - rewrite IH; auto.
    + apply abs_rels_remove_node; auto.
    + apply remove_node_inv; auto.
    + intros w' Hw'. apply nodes_filter_idx; auto. { apply Hr. }
      split; auto. intros ->. apply H1. now apply in_map.
Qed.

Lemma abs_rels_sweep L r : RegInv L r -> forall x, In x (abs_rels L (sweep L r)) <-> In x (abs_rels L r).
Proof. intros Hr. apply abs_rels_sweep_list; auto. apply Hr. Qed.

(* dropping an instance removes exactly the relations it takes part in *)
Lemma mem_obj_filter a o L : mem_obj a (filter (fun r => negb (o_id r =? o)) L) = true <-> mem_obj a L = true /\ a <> o.
Proof.
  rewrite !mem_obj_true. split.
  - intros [x [Hx E]]. apply filter_In in Hx. destruct Hx as [Hx N]. apply negb_true_iff, Nat.eqb_neq in N.
    split; [eauto|congruence].
  - intros [[x [Hx E]] N]. exists x. split; auto. apply filter_In. split; auto.
    apply negb_true_iff, Nat.eqb_neq. congruence.
Qed.

Lemma abs_rels_drop L r o a f b : NoDup (map w_idx (nodes r)) ->
  (In (a, f, b) (abs_rels (filter (fun x => negb (o_id x =? o)) L) r) <-> In (a, f, b) (abs_rels L r) /\ a <> o /\ b <> o).
Proof.
  intros Hnd. rewrite !abs_rels_In by auto. split.
  - intros [wa [wb [A [B [Ea [Eb [He [Ma Mb]]]]]]]]. apply mem_obj_filter in Ma, Mb. split; [|tauto].
    exists wa, wb. tauto.
  - intros [[wa [wb [A [B [Ea [Eb [He [Ma Mb]]]]]]]] [Na Nb]]. exists wa, wb.
    rewrite !mem_obj_filter. tauto.
Qed.

(* ------------------------------------------------------------------ the assertion itself *)
Lemma ensure_abs L r o i : RegInv L r -> WorldOk L -> adm_ensure L r o i = true ->
  abs_rels L (fst (ensure L r o i)) = abs_rels L r.
Proof.
  intros Hr Hw Ha. destruct (ensure_spec _ _ _ _ Hr Hw Ha) as [w [x [_ [_ [_ [_ [_ [_ [_ [_ [_ [E|[E [Hi _]]]]]]]]]]]]]].
  - now rewrite E.
  - rewrite E. now apply abs_rels_add_node with (L0 := L).
Qed.

(* Relate a f b in ANY state satisfying the invariant: "new" is reported iff (a,f,b) is not among the relations
   between existing instances, and afterwards the relations are the old ones plus (a,f,b) *)
Theorem relate_assert L r a f b ia ib :
  RegInv L r -> WorldOk L ->
  adm_ensure L r a ia && adm_ensure L (fst (ensure L r a ia)) b ib = true ->
  exists r', relate L r a f b ia ib = (r', Some (negb (existsb (rel_eqb (a, f, b)) (abs_rels L r)))) /\
             forall x, In x (abs_rels L r') <-> x = (a, f, b) \/ In x (abs_rels L r).
Proof.
  intros Hr Hw Ha. apply andb_true_iff in Ha. destruct Ha as [Ha Hb].
  assert (A1 := ensure_abs _ _ _ _ Hr Hw Ha).
  destruct (ensure_spec _ _ _ _ Hr Hw Ha) as [wa [xa [E1 [Hxa [Hoa [Hwa [Hna [Hr1 [_ [Hk1 _]]]]]]]]]].
  assert (A2 := ensure_abs _ _ _ _ Hr1 Hw Hb).
  destruct (ensure_spec _ _ _ _ Hr1 Hw Hb) as [wb [xb [E2 [Hxb [Hob [Hwb [Hnb [Hr2 [_ [Hk2 _]]]]]]]]]].
  unfold relate. destruct (ensure L r a ia) as [r1 oa] eqn:X1. simpl in *. subst oa.
  destruct (ensure L r1 b ib) as [r2 ob] eqn:X2. simpl in *. subst ob.
  rewrite <- A1, <- A2.
  assert (Hna2 : In wa (nodes r2)) by auto.
  assert (Ma : mem_obj a L = true) by (apply mem_obj_true; eauto).
  assert (Mb : mem_obj b L = true) by (apply mem_obj_true; eauto).
  assert (Hiff : In (w_idx wa, w_idx wb, f) (edges r2) <-> In (a, f, b) (abs_rels L r2)).
  { rewrite abs_rels_In by apply Hr2. split.
    - intros He. exists wa, wb. tauto.
    - intros [wa' [wb' [A [B [Ea [Eb [He _]]]]]]].
      assert (wa' = wa) by (eapply NoDup_map_inj with (f := w_obj); [apply Hr2| | |congruence]; now apply Hr2).
      assert (wb' = wb) by (eapply NoDup_map_inj with (f := w_obj); [apply Hr2| | |congruence]; now apply Hr2).
      now subst. }
  unfold add_relation.
  assert (Hb' : existsb (edge_eqb (w_idx wa, w_idx wb, f)) (rel_index r2) = existsb (rel_eqb (a, f, b)) (abs_rels L r2)).
  { apply eq_iff_eq_true. rewrite existsb_edge, existsb_rel, (i_rel_edges _ _ Hr2). exact Hiff. }
  rewrite Hb'. destruct (existsb (rel_eqb (a, f, b)) (abs_rels L r2)) eqn:X.
  - exists r2. split; auto. intros x. apply existsb_rel in X. split; auto. intros [->|?]; auto.
  - eexists. split; [reflexivity|]. intros [[x g] y].
    set (r3 := R (nodes r2) (by_id r2) (wl r2) (edges r2 ++ [(w_idx wa, w_idx wb, f)])
                 ((w_idx wa, w_idx wb, f) :: rel_index r2)).
    assert (Hnd3 : NoDup (map w_idx (nodes r3))) by apply Hr2.
    rewrite abs_rels_In by exact Hnd3. rewrite abs_rels_In by apply Hr2. simpl. split.
    + intros [wa' [wb' [A [B [Ea [Eb [He M]]]]]]]. apply in_app_iff in He. destruct He as [He|[He|[]]].
      * right. exists wa', wb'. tauto.
      * left. inversion He.
        assert (wa' = wa) by (eapply NoDup_map_inj with (f := w_idx); [apply Hr2| | |congruence]; auto).
        assert (wb' = wb) by (eapply NoDup_map_inj with (f := w_idx); [apply Hr2| | |congruence]; auto).
        subst. now rewrite Hwa, Hwb.
    + intros [E|[wa' [wb' [A [B [Ea [Eb [He M]]]]]]]].
      * inversion E; subst. exists wa, wb. rewrite in_app_iff. simpl. tauto.
      * exists wa', wb'. rewrite in_app_iff. tauto.
Qed.

(* ------------------------------------------------------------------ over histories: refinement of the ideal machine *)
Section Refine.
  Variable children : cls -> list cls.
  Variable fuel : nat.
  Notation step := (step children fuel).
  Notation run := (run children fuel).
  Notation adm_run := (adm_run children fuel).
  Notation sstep := (spec_step children fuel).
  Notation srun := (spec_run children fuel).

  (* live (partially consumed) evaluations are outside this refinement: the order of their rows is the runtime's choice *)
  Definition is_live (o : op) : bool := match o with StartV _ | NextV _ _ | CloseV _ => true | _ => false end.
  Definition no_live (h : list op) : bool := forallb (fun o => negb (is_live o)) h.

  (* the model state and the ideal state describe the same world *)
  Record Sim (s : st) (a : ast) : Prop := {
    sim_live : live s = a_live a;
    sim_user : user s = a_user a;
    sim_next : next s = a_next a;
    sim_vars : vars s = a_vars a;
    sim_evals : evals s = [];
    sim_aevals : a_evals a = [];
    sim_rels : forall x, In x (abs_rels (live s) (g s)) <-> In x (a_rels a) }.

  (* outputs agree: relation assertions exactly; queries are compared by C13 *)
  Definition out_rel (x y : out) : Prop :=
    match x, y with
    | OBool b, OBool b' => b = b'
    | OInst _, OInst _ => True
    | ONone, ONone => True
    | OErr, OErr => True
    | _, _ => False
    end.

  Lemma reach_RegInv h : adm_run init h = true ->
    RegInv (live (fst (run init h))) (g (fst (run init h))) /\ WorldOk (live (fst (run init h))).
  Proof. intros H. split; apply (reach_Inv children fuel h H). Qed.

  Lemma Sim_init : Sim init a_init.
  Proof. constructor; simpl; auto. tauto. Qed.

  Lemma adm_ensure_live L r o i : adm_ensure L r o i = true -> mem_obj o L = true.
  Proof.
    unfold adm_ensure. destruct (find (fun x => o_id x =? o) L) as [x|] eqn:F; [|discriminate].
    intros _. apply find_obj in F. apply mem_obj_true. exists x. tauto.
  Qed.

  Lemma step_Sim s a o : Inv s -> adm s o = true -> is_live o = false -> Sim s a ->
    Sim (fst (step s o)) (fst (sstep a o)) /\ out_rel (snd (step s o)) (snd (sstep a o)).
  Proof.
    intros HI Ha He [S1 S0 S2 S3 S5 S6 S4]. destruct HI as [A B C D].
    destruct o as [c p i|x| |T|T|T|k|k|n y|n|x f y ia ib|]; simpl in *; try discriminate.
    - split; auto. constructor; simpl; try congruence.
      intros z. rewrite abs_rels_add_node with (L0 := live s); auto.
      + rewrite abs_rels_new_live with (L0 := live s); auto. simpl. intro Hin. apply in_map_iff in Hin.
        destruct Hin as [w [E Hw]]. apply D in Hw. lia.
      + apply andb_true_iff in Ha. tauto.
    - rewrite S5, S6. simpl. split; auto. constructor; simpl; try congruence.
      intros [[u f] v]. rewrite abs_rels_drop by apply A. rewrite filter_In, S4, andb_true_iff, !negb_true_iff, !Nat.eqb_neq. tauto.
    - split; auto. constructor; simpl; auto. intros z. rewrite abs_rels_sweep; auto.
    - split; auto. constructor; simpl; auto. intros z. rewrite abs_rels_sweep; auto.
    - split; auto. constructor; simpl; auto; try congruence. intros z. rewrite abs_rels_sweep; auto.
    - split; auto. constructor; simpl; auto; congruence.
    - rewrite <- S3. destruct (nth_error (vars s) k); simpl; split; auto; constructor; simpl; auto.
      intros z. rewrite abs_rels_sweep; auto.
    - (* Relate *)
      assert (Hx : mem_obj x (a_live a) = true).
      { rewrite <- S1. apply andb_true_iff in Ha. destruct Ha as [Ha _]. eapply adm_ensure_live; eauto. }
      assert (Hy : mem_obj y (a_live a) = true).
      { rewrite <- S1. apply andb_true_iff in Ha. destruct Ha as [_ Ha]. eapply adm_ensure_live; eauto. }
      rewrite Hx, Hy. simpl.
      destruct (relate_assert (live s) (g s) x f y ia ib A B Ha) as [r' [E Hr']]. rewrite E. simpl.
      assert (Q : existsb (rel_eqb (x, f, y)) (abs_rels (live s) (g s)) = existsb (rel_eqb (x, f, y)) (a_rels a)).
      { apply eq_iff_eq_true. rewrite !existsb_rel. apply S4. }
      rewrite Q. destruct (existsb (rel_eqb (x, f, y)) (a_rels a)) eqn:X; simpl; split; auto; constructor; simpl; auto.
      + intros z. rewrite Hr', S4. apply existsb_rel in X. split; [intros [->|?]; auto|auto].
      + intros z. rewrite Hr', S4, in_app_iff. simpl. intuition.
    - split; auto. constructor; simpl; auto; try (rewrite S5; reflexivity); tauto.
  Qed.

  Theorem run_Sim : forall h s a, Inv s -> adm_run s h = true -> no_live h = true -> Sim s a ->
    Sim (fst (run s h)) (fst (srun a h)) /\ Forall2 out_rel (snd (run s h)) (snd (srun a h)).
  Proof.
    induction h as [|o h IH]; simpl; intros s a HI Ha He HS; [split; auto|].
    apply andb_true_iff in Ha. destruct Ha as [Ha Hr]. apply andb_true_iff in He. destruct He as [He He'].
    apply negb_true_iff in He.
    assert (H1 := step_Inv children fuel s o HI Ha). destruct (step_Sim s a o HI Ha He HS) as [H2 H3].
    destruct (step s o) as [s1 x]. destruct (sstep a o) as [a1 x']. simpl in *.
    destruct (IH s1 a1 H1 Hr He' H2) as [H4 H5].
    destruct (run s1 h) as [s2 xs]. destruct (srun a1 h) as [a2 xs']. simpl in *. auto.
  Qed.
End Refine.
