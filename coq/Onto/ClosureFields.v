(* Onto/ClosureFields.v -- the field store of the model follows its graph:
   (1) the graph component of the model with fields (add_relV / runV) is the model without (add_rel / run), so every
       theorem of ClosureProofs.v applies to it;
   (2) after every assertion, the container fields hold exactly the relations of the graph. *)
From Coq Require Import List Bool Arith Lia.
From Krrood Require Import Onto.ClosureSpec Onto.Closure Onto.ClosureProofs.
Import ListNotations.

Section Fields.
  Variable Sc : schema.
  Variable sc li : fld -> bool.
  Variable cls : inst -> nat.
  Notation add_relV := (add_relV Sc sc li cls).
  Notation in_field := (in_field sc li cls).
  Notation add_rel := (add_rel Sc).

  (* ---------------- (1) projection ----------------------------------------------------------- *)
  Lemma fold_graph n inf es :
    (forall e s s', add_relV n inf e s = Some s' -> add_rel n e (fst s) = Some (fst s')) ->
    forall s s', fold_addV (add_relV n inf) es s = Some s' -> fold_add (add_rel n) es (fst s) = Some (fst s').
  Proof.
    intros IH. induction es as [|e es IHes]; intros s s' H; simpl in H |- *.
    - injection H as <-. reflexivity.
    - destruct (add_relV n inf e s) as [s1|] eqn:H1; [|discriminate].
      rewrite (IH _ _ _ H1). apply IHes. exact H.
  Qed.

  Lemma add_relV_graph n : forall inf e s s', add_relV n inf e s = Some s' -> add_rel n e (fst s) = Some (fst s').
  Proof.
    induction n as [|n IH]; intros inf e [E V] s' H; simpl in H |- *; [discriminate|].
    destruct (mem e E) eqn:Hm.
    { injection H as <-. reflexivity. }
    destruct (fold_addV (add_relV n true) (sup_of Sc e) (e :: E, if inf then write_back sc li cls e V else V)) as [s1|] eqn:H1; [|discriminate].
    apply (fold_graph n true _ (IH true)) in H1. simpl in H1. rewrite H1.
    destruct (fold_addV (add_relV n true) (inv_of Sc e) s1) as [s2|] eqn:H2; [|discriminate].
    apply (fold_graph n true _ (IH true)) in H2. rewrite H2.
    destruct (trans_e Sc e).
    - destruct (fold_addV (add_relV n true) (map (fun e' => (esrc e, efld e, etgt e')) (outs Sc (fst s2) e)) s2) as [s3|] eqn:H3; [|discriminate].
      apply (fold_graph n true _ (IH true)) in H3. rewrite H3.
      apply (fold_graph n true _ (IH true)) in H. exact H.
    - injection H as <-. reflexivity.
  Qed.

  Lemma assert1_graph n e s s' : assert1 Sc sc li cls n e s = Some s' -> add_rel n e (fst s) = Some (fst s').
  Proof.
    unfold assert1. destruct s as [E V]. destruct (sc (efld e)).
    - intros H. apply add_relV_graph in H. exact H.
    - destruct (add_relV n false e (E, V)) as [[E' V']|] eqn:H1; [|discriminate].
      intros H. injection H as <-. apply add_relV_graph in H1. exact H1.
  Qed.

  Lemma runV_graph_gen n A : forall s0 s, fold_addV (assert1 Sc sc li cls n) A s0 = Some s ->
    fold_add (add_rel n) A (fst s0) = Some (fst s).
  Proof.
    induction A as [|e A IHA]; intros s0 s H; simpl in H |- *.
    - injection H as <-. reflexivity.
    - destruct (assert1 Sc sc li cls n e s0) as [s1|] eqn:H1; [|discriminate].
      rewrite (assert1_graph _ _ _ _ H1). apply IHA. exact H.
  Qed.

  Theorem runV_graph n A s : runV Sc sc li cls n A = Some s -> run Sc n A = Some (fst s).
  Proof. unfold runV, run. intros H. apply runV_graph_gen in H. exact H. Qed.

  (* ---------------- (2) container fields = graph ---------------------------------------------
     [in_field x V] is what "x is in its field" means for the kind of field: the very object for list fields, an object equal
     to it (Python ==) for set fields, which cannot hold two equal objects. *)
  Definition cov (x : edge) (V : list edge) : Prop := in_field x V = true.

  (* while the direct assertion e0 is being processed it is in the graph but not yet (physically) in its field *)
  Definition inv (e0 : edge) (s : st) : Prop :=
    forall x, sc (efld x) = false -> (In x (snd s) -> In x (fst s)) /\ (In x (fst s) -> cov x (snd s) \/ x = e0).

  Lemma drop_field_In x s f V : In x (drop_field s f V) <-> In x V /\ ~ (esrc x = s /\ efld x = f).
  Proof.
    unfold drop_field. rewrite filter_In. split; intros [H1 H2]; split; auto.
    - intros [<- <-]. rewrite !Nat.eqb_refl in H2. discriminate.
    - apply negb_true_iff. apply andb_false_iff.
      destruct (Nat.eqb (esrc x) s) eqn:Ha; [|now left]. right.
      destruct (Nat.eqb (efld x) f) eqn:Hb; [|reflexivity].
      apply Nat.eqb_eq in Ha, Hb. tauto.
  Qed.

  Lemma same_slot_refl e : same_slot_eq cls e e = true.
  Proof. unfold same_slot_eq. now rewrite !Nat.eqb_refl. Qed.

  (* a witness of coverage lives in the same field as the covered relation *)
  Lemma cov_witness x V : sc (efld x) = false -> cov x V -> exists v, In v V /\ efld v = efld x /\ same_slot_eq cls x v = true.
  Proof.
    intros Hx. unfold cov, Closure.in_field. rewrite Hx. simpl. destruct (li (efld x)).
    - intros H. apply mem_In in H. exists x. split; [exact H|]. split; [reflexivity | apply same_slot_refl].
    - intros H. apply existsb_exists in H. destruct H as [v [Hv Hs]]. exists v. split; [exact Hv|]. split; [|exact Hs].
      unfold same_slot_eq in Hs. apply andb_true_iff in Hs. destruct Hs as [Hs _]. apply andb_true_iff in Hs.
      destruct Hs as [_ Hs]. now apply Nat.eqb_eq in Hs.
  Qed.

  Lemma cov_of_witness x V v : sc (efld x) = false -> In v V -> (li (efld x) = true -> v = x) ->
    same_slot_eq cls x v = true -> cov x V.
  Proof.
    intros Hx Hv Hl Hs. unfold cov, Closure.in_field. rewrite Hx. simpl. destruct (li (efld x)) eqn:Hli.
    - apply mem_In. rewrite <- (Hl eq_refl). exact Hv.
    - apply existsb_exists. exists v. auto.
  Qed.

  Lemma cov_incl x V V' : sc (efld x) = false -> (forall v, In v V -> efld v = efld x -> In v V') -> cov x V -> cov x V'.
  Proof.
    intros Hx HI H. unfold cov, Closure.in_field in *. rewrite Hx in *. simpl in *. destruct (li (efld x)).
    - apply mem_In. apply mem_In in H. apply HI; auto.
    - apply existsb_exists. apply existsb_exists in H. destruct H as [v [Hv Hs]]. exists v. split; [|exact Hs].
      apply HI; [exact Hv|]. unfold same_slot_eq in Hs. apply andb_true_iff in Hs. destruct Hs as [Hs _].
      apply andb_true_iff in Hs. destruct Hs as [_ Hs]. now apply Nat.eqb_eq in Hs.
  Qed.

  Lemma cov_self e V : sc (efld e) = false -> cov e (e :: V).
  Proof.
    intros He. unfold cov, Closure.in_field. rewrite He. destruct (li (efld e)); cbn [orb].
    - apply mem_In. now left.
    - cbn [existsb]. now rewrite same_slot_refl.
  Qed.

  Lemma write_back_In x e V : sc (efld x) = false -> In x (write_back sc li cls e V) -> In x V \/ x = e.
  Proof.
    intros Hx. unfold write_back. destruct (sc (efld e)) eqn:He.
    - destruct (in_field e V); [auto|]. simpl. rewrite drop_field_In. intros [H | [H _]]; auto.
    - destruct (in_field e V); [auto|]. simpl. intros [H | H]; auto.
  Qed.

  Lemma write_back_cov x e V : sc (efld x) = false -> cov x V \/ x = e -> cov x (write_back sc li cls e V).
  Proof.
    intros Hx H. unfold write_back. destruct (sc (efld e)) eqn:He.
    - destruct H as [H | ->]; [|congruence].
      destruct (in_field e V); [exact H|].
      apply (cov_incl x V _ Hx); [|exact H]. intros v Hv Hf. right. apply drop_field_In. split; [exact Hv|].
      intros [_ Hf']. congruence.
    - destruct (in_field e V) eqn:Hin.
      + destruct H as [H | ->]; [exact H | exact Hin].
      + destruct H as [H | ->]; [|now apply cov_self].
        apply (cov_incl x V _ Hx); [|exact H]. intros v Hv _. now right.
  Qed.

  Lemma fold_inv n e0 es :
    (forall e s s', add_relV n true e s = Some s' -> inv e0 s -> inv e0 s') ->
    forall s s', fold_addV (add_relV n true) es s = Some s' -> inv e0 s -> inv e0 s'.
  Proof.
    intros IH. induction es as [|e es IHes]; intros s s' H Hi; simpl in H.
    - injection H as <-. exact Hi.
    - destruct (add_relV n true e s) as [s1|] eqn:H1; [|discriminate].
      apply (IHes s1 s' H). apply (IH _ _ _ H1 Hi).
  Qed.

  Lemma add_relV_inv n e0 : forall inf e s s', add_relV n inf e s = Some s' ->
    (inf = false -> e = e0) -> inv e0 s -> inv e0 s'.
  Proof.
    induction n as [|n IH]; intros inf e [E V] s' H Hinf Hi; simpl in H; [discriminate|].
    destruct (mem e E) eqn:Hm.
    { injection H as <-. exact Hi. }
    assert (IH' : forall e s s', add_relV n true e s = Some s' -> inv e0 s -> inv e0 s').
    { intros e1 s1 s1' H1. apply (IH true e1 s1 s1' H1). discriminate. }
    assert (Hi0 : inv e0 (e :: E, if inf then write_back sc li cls e V else V)).
    { intros x Hx. destruct (Hi x Hx) as [Ha Hb]. simpl in Ha, Hb |- *. destruct inf.
      - split.
        + intros H'. destruct (write_back_In x e V Hx H') as [H'' | ->]; auto.
        + intros [<- | H'].
          * left. apply write_back_cov; auto.
          * destruct (Hb H') as [H'' | H'']; [left; apply write_back_cov; auto | now right].
      - split.
        + intros H'. right. auto.
        + intros [<- | H']; [right; apply Hinf; reflexivity | auto]. }
    destruct (fold_addV (add_relV n true) (sup_of Sc e) (e :: E, if inf then write_back sc li cls e V else V)) as [s1|] eqn:H1; [|discriminate].
    pose proof (fold_inv n e0 _ IH' _ _ H1 Hi0) as Hi1.
    destruct (fold_addV (add_relV n true) (inv_of Sc e) s1) as [s2|] eqn:H2; [|discriminate].
    pose proof (fold_inv n e0 _ IH' _ _ H2 Hi1) as Hi2.
    destruct (trans_e Sc e).
    - destruct (fold_addV (add_relV n true) (map (fun e' => (esrc e, efld e, etgt e')) (outs Sc (fst s2) e)) s2) as [s3|] eqn:H3; [|discriminate].
      pose proof (fold_inv n e0 _ IH' _ _ H3 Hi2) as Hi3.
      exact (fold_inv n e0 _ IH' _ _ H Hi3).
    - injection H as <-. exact Hi2.
  Qed.

  Definition agree (s : st) : Prop :=
    forall x, sc (efld x) = false -> (In x (snd s) -> In x (fst s)) /\ (In x (fst s) -> cov x (snd s)).

  Lemma assert1_agree n e s s' : assert1 Sc sc li cls n e s = Some s' -> agree s -> agree s'.
  Proof.
    unfold assert1. destruct s as [E V]. intros H Ha. destruct (sc (efld e)) eqn:He.
    - assert (Hi : inv e (E, e :: drop_field (esrc e) (efld e) V)).
      { intros x Hx. assert (Hne : x <> e) by (intros ->; congruence).
        destruct (Ha x Hx) as [Ha1 Ha2]. simpl in *. split.
        - intros [H' | H']; [symmetry in H'; contradiction|]. apply drop_field_In in H'. tauto.
        - intros H'. left. apply (cov_incl x V _ Hx); [|auto]. intros v Hv Hf. right. apply drop_field_In.
          split; [exact Hv|]. intros [_ Hf']. congruence. }
      pose proof (add_relV_inv n e false e _ _ H (fun _ => eq_refl) Hi) as Hi'.
      intros x Hx. assert (Hne : x <> e) by (intros ->; congruence).
      destruct (Hi' x Hx) as [H1 H2]. split; [exact H1|]. intros H'. destruct (H2 H'); [auto | contradiction].
    - destruct (add_relV n false e (E, V)) as [[E' V']|] eqn:H1; [|discriminate].
      assert (Hi : inv e (E, V)).
      { intros x Hx. destruct (Ha x Hx) as [Ha1 Ha2]. split; auto. }
      pose proof (add_relV_inv n e false e _ _ H1 (fun _ => eq_refl) Hi) as Hi'.
      pose proof (add_relV_graph _ _ _ _ _ H1) as Hg. simpl in Hg.
      destruct (add_rel_post Sc n e E E' Hg) as [_ HeE'].
      injection H as <-. intros x Hx. destruct (Hi' x Hx) as [H2 H3]. simpl in *.
      set (V'' := if li (efld e) then e :: V' else if in_field e V' then V' else e :: V').
      assert (HV1 : forall y, In y V'' -> In y V' \/ y = e).
      { intros y. unfold V''. destruct (li (efld e)); [|destruct (in_field e V')]; simpl; intuition. }
      assert (HV2 : forall y, In y V' -> In y V'').
      { intros y Hy. unfold V''. destruct (li (efld e)); [|destruct (in_field e V')]; simpl; auto. }
      assert (HVe : cov e V'').
      { unfold V''. destruct (li (efld e)) eqn:Hl.
        - now apply cov_self.
        - destruct (in_field e V') eqn:Hin; [exact Hin | now apply cov_self]. }
      split.
      + intros H'. destruct (HV1 x H') as [H'' | ->]; auto.
      + intros H'. destruct (H3 H') as [H'' | ->]; [|exact HVe].
        apply (cov_incl x V' _ Hx); [|exact H'']. intros v Hv _. now apply HV2.
  Qed.

  Lemma runV_agree n A E V : runV Sc sc li cls n A = Some (E, V) -> agree (E, V).
  Proof.
    unfold runV. intros H. revert H.
    assert (H0 : agree (@nil edge, @nil edge)) by (intros x _; simpl; split; [tauto | intros []]).
    revert H0. generalize (@nil edge, @nil edge). induction A as [|e A IHA]; intros s0 H0 H; simpl in H.
    - injection H as <-. exact H0.
    - destruct (assert1 Sc sc li cls n e s0) as [s1|] eqn:H1; [|discriminate].
      apply (IHA s1); [|exact H]. apply (assert1_agree _ _ _ _ H1 H0).
  Qed.

  (* list fields hold exactly the relations of the graph, by identity, whatever compares equal *)
  Theorem runV_list_fields n A E V : runV Sc sc li cls n A = Some (E, V) ->
    forall e, sc (efld e) = false -> li (efld e) = true -> (In e V <-> In e E).
  Proof.
    intros H e He Hl. destruct (runV_agree n A E V H e He) as [H1 H2]. split; [exact H1|].
    intros H'. specialize (H2 H'). unfold cov, Closure.in_field in H2. rewrite He, Hl in H2. simpl in H2. now apply mem_In.
  Qed.

  (* set fields: everything in the field is in the graph, and for every relation of the graph the field holds an element that is
     ==-equal to its target (a Python set cannot hold more) *)
  Theorem runV_set_fields n A E V : runV Sc sc li cls n A = Some (E, V) ->
    forall e, sc (efld e) = false -> li (efld e) = false ->
      (In e V -> In e E) /\
      (In e E -> exists v, In v V /\ esrc v = esrc e /\ efld v = efld e /\ cls (etgt v) = cls (etgt e)).
  Proof.
    intros H e He Hl. destruct (runV_agree n A E V H e He) as [H1 H2]. split; [exact H1|].
    intros H'. destruct (cov_witness e V He (H2 H')) as [v [Hv [_ Hs]]]. exists v. split; [exact Hv|].
    unfold same_slot_eq in Hs. apply andb_true_iff in Hs. destruct Hs as [Hs Hc]. apply andb_true_iff in Hs.
    destruct Hs as [Ha Hb]. apply Nat.eqb_eq in Ha, Hb, Hc. auto.
  Qed.

  (* when no two distinct objects compare equal, every container field holds exactly the relations of the graph *)
  Theorem runV_fields n A E V : (forall a b, cls a = cls b -> a = b) -> runV Sc sc li cls n A = Some (E, V) ->
    forall e, sc (efld e) = false -> (In e V <-> In e E).
  Proof.
    intros Hinj H e He. destruct (li (efld e)) eqn:Hl; [now apply (runV_list_fields n A E V H)|].
    destruct (runV_set_fields n A E V H e He Hl) as [H1 H2]. split; [exact H1|].
    intros H'. destruct (H2 H') as [v [Hv [Ha [Hb Hc]]]].
    assert (v = e); [|now subst].
    destruct v as [[a b] c], e as [[a' b'] c']. unfold esrc, efld, etgt in *. simpl in *. subst. f_equal. now apply Hinj.
  Qed.

  (* regression (before the repair of C15-b): the old write-back compared with == in list fields too, so an inferred relation to
     an object equal to one already in the list was not written into the field *)
  Lemma old_write_back_skipped_equal_twin e v V : same_slot_eq cls e v = true -> In v V ->
    write_back_old sc cls e V = V.
  Proof.
    intros Hs Hv. unfold write_back_old, in_field_old.
    assert (H : existsb (same_slot_eq cls e) V = true) by (apply existsb_exists; exists v; auto). now rewrite H.
  Qed.
End Fields.
