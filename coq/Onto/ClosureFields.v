(* Onto/ClosureFields.v -- the field store of the model follows its graph:
   (1) the graph component of the model with fields (add_relV / runV) is the model without (add_rel / run), so every
       theorem of ClosureProofs.v applies to it;
   (2) after every assertion, the container fields hold exactly the relations of the graph. *)
From Coq Require Import List Bool Arith Lia.
From Krrood Require Import Onto.ClosureSpec Onto.Closure Onto.ClosureProofs.
Import ListNotations.

Section Fields.
  Variable Sc : schema.
  Variable sc li : fld -> bool.
  Variable cls : inst -> nat.
  (* no two distinct objects of the population compare equal (identity-compared classes, or value classes with distinct values) *)
  Hypothesis Hinj : forall a b, cls a = cls b -> a = b.
  Notation add_relV := (add_relV Sc sc cls).
  Notation in_field := (in_field cls).

  Lemma in_field_mem e V : in_field e V = mem e V.
  Proof.
    unfold Closure.in_field, mem. induction V as [|v V IH]; simpl; [reflexivity|]. rewrite IH. f_equal.
    unfold edge_eqb. destruct e as [[s f] x], v as [[s' f'] x']; unfold esrc, efld, etgt; simpl.
    rewrite (Nat.eqb_sym s s'), (Nat.eqb_sym f f').
    destruct (Nat.eqb s' s); simpl; [|reflexivity]. destruct (Nat.eqb f' f); simpl; [|reflexivity].
    destruct (Nat.eqb x x') eqn:Hx.
    - apply Nat.eqb_eq in Hx. subst. apply Nat.eqb_refl.
    - apply Nat.eqb_neq in Hx. apply Nat.eqb_neq. intros Hc. apply Hx. symmetry. now apply Hinj.
  Qed.
  Notation add_rel := (add_rel Sc).

  (* ---------------- (1) projection ----------------------------------------------------------- *)
  Lemma fold_graph n inf es :
    (forall e s s', add_relV n inf e s = Some s' -> add_rel n e (fst s) = Some (fst s')) ->
    forall s s', fold_addV (add_relV n inf) es s = Some s' -> fold_add (add_rel n) es (fst s) = Some (fst s').
  Proof.
    intros IH. induction es as [|e es IHes]; intros s s' H; simpl in H |- *.
    - injection H as <-. reflexivity.
    - destruct (add_relV n inf e s) as [s1|] eqn:H1; [|discriminate].
      rewrite (IH _ _ _ H1). apply IHes. exact H.
  Qed.

  Lemma add_relV_graph n : forall inf e s s', add_relV n inf e s = Some s' -> add_rel n e (fst s) = Some (fst s').
  Proof.
    induction n as [|n IH]; intros inf e [E V] s' H; simpl in H |- *; [discriminate|].
    destruct (mem e E) eqn:Hm.
    { injection H as <-. reflexivity. }
    destruct (fold_addV (add_relV n true) (sup_of Sc e) (e :: E, if inf then write_back sc cls e V else V)) as [s1|] eqn:H1; [|discriminate].
    apply (fold_graph n true _ (IH true)) in H1. simpl in H1. rewrite H1.
    destruct (fold_addV (add_relV n true) (inv_of Sc e) s1) as [s2|] eqn:H2; [|discriminate].
    apply (fold_graph n true _ (IH true)) in H2. rewrite H2.
    destruct (trans_e Sc e).
    - destruct (fold_addV (add_relV n true) (map (fun e' => (esrc e, efld e, etgt e')) (outs Sc (fst s2) e)) s2) as [s3|] eqn:H3; [|discriminate].
      apply (fold_graph n true _ (IH true)) in H3. rewrite H3.
      apply (fold_graph n true _ (IH true)) in H. exact H.
    - injection H as <-. reflexivity.
  Qed.

  Lemma assert1_graph n e s s' : assert1 Sc sc li cls n e s = Some s' -> add_rel n e (fst s) = Some (fst s').
  Proof.
    unfold assert1. destruct s as [E V]. destruct (sc (efld e)).
    - intros H. apply add_relV_graph in H. exact H.
    - destruct (add_relV n false e (E, V)) as [[E' V']|] eqn:H1; [|discriminate].
      intros H. injection H as <-. apply add_relV_graph in H1. exact H1.
  Qed.

  Lemma runV_graph_gen n A : forall s0 s, fold_addV (assert1 Sc sc li cls n) A s0 = Some s ->
    fold_add (add_rel n) A (fst s0) = Some (fst s).
  Proof.
    induction A as [|e A IHA]; intros s0 s H; simpl in H |- *.
    - injection H as <-. reflexivity.
    - destruct (assert1 Sc sc li cls n e s0) as [s1|] eqn:H1; [|discriminate].
      rewrite (assert1_graph _ _ _ _ H1). apply IHA. exact H.
  Qed.

  Theorem runV_graph n A s : runV Sc sc li cls n A = Some s -> run Sc n A = Some (fst s).
  Proof. unfold runV, run. intros H. apply runV_graph_gen in H. exact H. Qed.

  (* ---------------- (2) container fields = graph --------------------------------------------- *)
  (* while the direct assertion e0 is being processed it is in the graph but not yet (physically) in its field *)
  Definition inv (e0 : edge) (s : st) : Prop :=
    forall x, sc (efld x) = false -> (In x (snd s) -> In x (fst s)) /\ (In x (fst s) -> In x (snd s) \/ x = e0).

  Lemma drop_field_In x s f V : In x (drop_field s f V) <-> In x V /\ ~ (esrc x = s /\ efld x = f).
  Proof.
    unfold drop_field. rewrite filter_In. split; intros [H1 H2]; split; auto.
    - intros [<- <-]. rewrite !Nat.eqb_refl in H2. discriminate.
    - apply negb_true_iff. apply andb_false_iff.
      destruct (Nat.eqb (esrc x) s) eqn:Ha; [|now left]. right.
      destruct (Nat.eqb (efld x) f) eqn:Hb; [|reflexivity].
      apply Nat.eqb_eq in Ha, Hb. tauto.
  Qed.

  Lemma write_back_In x e V : sc (efld x) = false ->
    (In x (write_back sc cls e V) <-> In x V \/ (x = e)).
  Proof.
    intros Hx. unfold write_back. rewrite in_field_mem. destruct (sc (efld e)) eqn:He.
    - assert (Hne : x <> e) by (intros ->; congruence).
      destruct (mem e V) eqn:Hm.
      + split; [auto|]. intros [H | H]; [auto | contradiction].
      + simpl. rewrite drop_field_In. split.
        * intros [H | [H _]]; [symmetry in H; contradiction | auto].
        * intros [H | H]; [|contradiction]. right. split; [exact H|]. intros [_ Hf]. congruence.
    - destruct (mem e V) eqn:Hm.
      + apply mem_In in Hm. split; [auto|]. intros [H | ->]; auto.
      + simpl. split; intros [H | H]; auto.
  Qed.

  Lemma fold_inv n e0 es :
    (forall e s s', add_relV n true e s = Some s' -> inv e0 s -> inv e0 s') ->
    forall s s', fold_addV (add_relV n true) es s = Some s' -> inv e0 s -> inv e0 s'.
  Proof.
    intros IH. induction es as [|e es IHes]; intros s s' H Hi; simpl in H.
    - injection H as <-. exact Hi.
    - destruct (add_relV n true e s) as [s1|] eqn:H1; [|discriminate].
      apply (IHes s1 s' H). apply (IH _ _ _ H1 Hi).
  Qed.

  Lemma add_relV_inv n e0 : forall inf e s s', add_relV n inf e s = Some s' ->
    (inf = false -> e = e0) -> inv e0 s -> inv e0 s'.
  Proof.
    induction n as [|n IH]; intros inf e [E V] s' H Hinf Hi; simpl in H; [discriminate|].
    destruct (mem e E) eqn:Hm.
    { injection H as <-. exact Hi. }
    assert (IH' : forall e s s', add_relV n true e s = Some s' -> inv e0 s -> inv e0 s').
    { intros e1 s1 s1' H1. apply (IH true e1 s1 s1' H1). discriminate. }
    assert (Hi0 : inv e0 (e :: E, if inf then write_back sc cls e V else V)).
    { intros x Hx. destruct (Hi x Hx) as [Ha Hb]. simpl in Ha, Hb |- *. destruct inf.
      - rewrite (write_back_In x e V Hx). split.
        + intros [H' | ->]; auto.
        + intros [<- | H']; [left; now right|]. destruct (Hb H') as [H'' | H'']; auto.
      - split.
        + intros H'. right. auto.
        + intros [<- | H']; [right; apply Hinf; reflexivity | auto]. }
    destruct (fold_addV (add_relV n true) (sup_of Sc e) (e :: E, if inf then write_back sc cls e V else V)) as [s1|] eqn:H1; [|discriminate].
    pose proof (fold_inv n e0 _ IH' _ _ H1 Hi0) as Hi1.
    destruct (fold_addV (add_relV n true) (inv_of Sc e) s1) as [s2|] eqn:H2; [|discriminate].
    pose proof (fold_inv n e0 _ IH' _ _ H2 Hi1) as Hi2.
    destruct (trans_e Sc e).
    - destruct (fold_addV (add_relV n true) (map (fun e' => (esrc e, efld e, etgt e')) (outs Sc (fst s2) e)) s2) as [s3|] eqn:H3; [|discriminate].
      pose proof (fold_inv n e0 _ IH' _ _ H3 Hi2) as Hi3.
      exact (fold_inv n e0 _ IH' _ _ H Hi3).
    - injection H as <-. exact Hi2.
  Qed.

  Definition agree (s : st) : Prop := forall x, sc (efld x) = false -> (In x (snd s) <-> In x (fst s)).

  Lemma assert1_agree n e s s' : assert1 Sc sc li cls n e s = Some s' -> agree s -> agree s'.
  Proof.
    unfold assert1. destruct s as [E V]. intros H Ha. destruct (sc (efld e)) eqn:He.
    - assert (Hi : inv e (E, e :: drop_field (esrc e) (efld e) V)).
      { intros x Hx. assert (Hne : x <> e) by (intros ->; congruence).
        destruct (Ha x Hx) as [Ha1 Ha2]. simpl in *. split.
        - intros [H' | H']; [symmetry in H'; contradiction|]. apply drop_field_In in H'. tauto.
        - intros H'. left. right. apply drop_field_In. split; [auto|]. intros [_ Hf]. congruence. }
      pose proof (add_relV_inv n e false e _ _ H (fun _ => eq_refl) Hi) as Hi'.
      intros x Hx. assert (Hne : x <> e) by (intros ->; congruence).
      destruct (Hi' x Hx) as [H1 H2]. split; [exact H1|]. intros H'. destruct (H2 H'); [auto | contradiction].
    - destruct (add_relV n false e (E, V)) as [[E' V']|] eqn:H1; [|discriminate].
      assert (Hi : inv e (E, V)).
      { intros x Hx. destruct (Ha x Hx) as [Ha1 Ha2]. split; auto. }
      pose proof (add_relV_inv n e false e _ _ H1 (fun _ => eq_refl) Hi) as Hi'.
      pose proof (add_relV_graph _ _ _ _ _ H1) as Hg. simpl in Hg.
      destruct (add_rel_post Sc n e E E' Hg) as [_ HeE'].
      injection H as <-. intros x Hx. destruct (Hi' x Hx) as [H2 H3]. simpl in *.
      assert (HV : forall y, In y (if li (efld e) then e :: V' else if in_field e V' then V' else e :: V') <-> In y V' \/ y = e).
      { intros y. destruct (li (efld e)).
        - simpl. split; intros [H' | H']; auto.
        - rewrite in_field_mem. destruct (mem e V') eqn:Hm.
          + apply mem_In in Hm. split; [auto|]. intros [H' | ->]; auto.
          + simpl. split; intros [H' | H']; auto. }
      rewrite HV. split.
      + intros [H' | ->]; auto.
      + intros H'. destruct (H3 H'); auto.
  Qed.

  Theorem runV_fields n A E V : runV Sc sc li cls n A = Some (E, V) ->
    forall e, sc (efld e) = false -> (In e V <-> In e E).
  Proof.
    unfold runV. intros H.
    assert (Hag : agree (E, V)).
    { revert H. assert (H0 : agree (@nil edge, @nil edge)) by (intros x _; simpl; tauto).
      revert H0. generalize (@nil edge, @nil edge). induction A as [|e A IHA]; intros s0 H0 H; simpl in H.
      - injection H as <-. exact H0.
      - destruct (assert1 Sc sc li cls n e s0) as [s1|] eqn:H1; [|discriminate].
        apply (IHA s1); [|exact H]. apply (assert1_agree _ _ _ _ H1 H0). }
    intros e He. exact (Hag e He).
  Qed.
End Fields.
