(* List / dictionary facts used by the registry proofs. *)
From Coq Require Import List Arith Bool PeanoNat Lia Permutation.
From Krrood Require Import Onto.RegistrySpec Onto.Registry.
Import ListNotations.

Lemma mem_obj_true o L : mem_obj o L = true <-> exists x, In x L /\ o_id x = o.
Proof.
  unfold mem_obj. rewrite existsb_exists. split; intros [x [H1 H2]]; exists x; split; auto.
  - now apply Nat.eqb_eq. - now apply Nat.eqb_eq.
Qed.

Lemma mem_obj_false o L : mem_obj o L = false <-> forall x, In x L -> o_id x <> o.
Proof.
  split.
  - intros H x Hx E. assert (mem_obj o L = true) by (apply mem_obj_true; eauto). congruence.
  - intros H. destruct (mem_obj o L) eqn:E; auto. apply mem_obj_true in E. destruct E as [x [? ?]]. exfalso; eapply H; eauto.
Qed.

Lemma NoDup_map_filter {A B} (f : A -> B) (p : A -> bool) l : NoDup (map f l) -> NoDup (map f (filter p l)).
Proof.
  induction l as [|a l IH]; simpl; intros H; [constructor|].
  inversion H; subst. destruct (p a); simpl; auto. constructor; auto.
  intro Hin. apply H2. apply in_map_iff in Hin. destruct Hin as [x [E Hx]]. apply filter_In in Hx.
  apply in_map_iff. exists x; tauto.
Qed.

Lemma NoDup_map_inj {A B} (f : A -> B) l x y : NoDup (map f l) -> In x l -> In y l -> f x = f y -> x = y.
Proof.
  induction l as [|a l IH]; simpl; intros H Hx Hy E; [tauto|].
  inversion H; subst. destruct Hx as [->|Hx], Hy as [->|Hy]; auto.
  - exfalso. apply H2. rewrite E. now apply in_map.
  - exfalso. apply H2. rewrite <- E. now apply in_map.
Qed.


Lemma NoDup_snoc {A} (l : list A) a : NoDup l -> ~ In a l -> NoDup (l ++ [a]).
Proof.
  induction l as [|b l IH]; simpl; intros H Hn.
  - constructor; auto.
  - inversion H; subst. constructor.
    + rewrite in_app_iff. simpl. intros [?|[?|[]]]; auto.
    + apply IH; auto.
Qed.

(* ------------------------------------------------------------------ dict *)
Lemma get_In p m w : get p m = Some w -> In (p, w) m.
Proof.
  unfold get. destruct (find (fun e => fst e =? p) m) as [e|] eqn:E; intros H; inversion H; subst.
  apply find_some in E. destruct E as [Hin Hk]. apply Nat.eqb_eq in Hk. destruct e; simpl in *; subst; auto.
Qed.

Lemma get_None p m : get p m = None -> forall w, ~ In (p, w) m.
Proof.
  unfold get. destruct (find (fun e => fst e =? p) m) as [e|] eqn:E; intros H; [discriminate|].
  intros w Hin. eapply find_none in E; eauto. simpl in E. rewrite Nat.eqb_refl in E. discriminate.
Qed.

Lemma In_get p m w : NoDup (map fst m) -> In (p, w) m -> get p m = Some w.
Proof.
  intros Hnd Hin. destruct (get p m) as [w'|] eqn:E.
  - apply get_In in E. f_equal.
    assert ((p, w') = (p, w)) by (eapply NoDup_map_inj with (f := fst); eauto). congruence.
  - exfalso. eapply get_None; eauto.
Qed.

Lemma In_del q w p m : In (q, w) (del p m) <-> In (q, w) m /\ q <> p.
Proof.
  unfold del. rewrite filter_In. simpl. rewrite negb_true_iff, Nat.eqb_neq. tauto.
Qed.

Lemma NoDup_del p m : NoDup (map fst m) -> NoDup (map fst (del p m)).
Proof. apply NoDup_map_filter. Qed.

Lemma NoDup_set p w m : NoDup (map fst m) -> NoDup (map fst (set p w m)).
Proof.
  intros H. unfold set. simpl. constructor; [|now apply NoDup_del].
  intro Hin. apply in_map_iff in Hin. destruct Hin as [[q w'] [E Hin]]. simpl in E; subst.
  apply In_del in Hin. tauto.
Qed.

Lemma In_set q w' p w m : In (q, w') (set p w m) <-> (q = p /\ w' = w) \/ (In (q, w') m /\ q <> p).
Proof.
  unfold set. simpl. rewrite In_del. split.
  - intros [E|H]; [inversion E; auto|auto].
  - intros [[-> ->]|H]; auto.
Qed.

(* ------------------------------------------------------------------ remove_first *)
Lemma remove_first_In o l : NoDup (map w_obj l) -> forall w, In w (remove_first o l) <-> In w l /\ w_obj w <> o.
Proof.
  induction l as [|a l IH]; simpl; intros H w; [tauto|].
  inversion H; subst. destruct (w_obj a =? o) eqn:E.
  - apply Nat.eqb_eq in E. split.
    + intros Hin. split; auto. intro E2. apply H2. rewrite E, <- E2. now apply in_map.
    + intros [[->|Hin] Hne]; [congruence|auto].
  - apply Nat.eqb_neq in E. simpl. rewrite IH by auto. split.
    + intros [->|[? ?]]; auto.
    + intros [[->|Hin] Hne]; auto.
Qed.

Lemma remove_first_NoDup o l : NoDup (map w_obj l) -> NoDup (map w_obj (remove_first o l)).
Proof.
  induction l as [|a l IH]; simpl; intros H; auto.
  inversion H; subst. destruct (w_obj a =? o); auto. simpl. constructor; auto.
  intro Hin. apply H2. apply in_map_iff in Hin. destruct Hin as [x [E Hx]].
  apply remove_first_In in Hx; auto. apply in_map_iff. exists x; tauto.
Qed.

Lemma remove_first_length o l : In o (map w_obj l) -> S (length (remove_first o l)) = length l.
Proof.
  induction l as [|a l IH]; simpl; [tauto|].
  destruct (w_obj a =? o) eqn:E; auto. apply Nat.eqb_neq in E. intros [?|H]; [congruence|]. simpl. now rewrite IH.
Qed.

(* ------------------------------------------------------------------ edges *)
Lemma edge_eqb_eq x y : edge_eqb x y = true <-> x = y.
Proof.
  destruct x as [[a b] f], y as [[a' b'] f']. simpl. rewrite !andb_true_iff, !Nat.eqb_eq.
  split; [intros [[-> ->] ->]; auto|intros E; inversion E; auto].
Qed.

Lemma existsb_edge e l : existsb (edge_eqb e) l = true <-> In e l.
Proof.
  rewrite existsb_exists. split.
  - intros [x [Hin E]]. apply edge_eqb_eq in E. now subst.
  - intros H. exists e. split; auto. now apply edge_eqb_eq.
Qed.

Lemma rel_eqb_eq x y : rel_eqb x y = true <-> x = y.
Proof.
  destruct x as [[a f] b], y as [[a' f'] b']. simpl. rewrite !andb_true_iff, !Nat.eqb_eq.
  split; [intros [[-> ->] ->]; auto|intros E; inversion E; auto].
Qed.

Lemma existsb_rel e l : existsb (rel_eqb e) l = true <-> In e l.
Proof.
  rewrite existsb_exists. split.
  - intros [x [Hin E]]. apply rel_eqb_eq in E. now subst.
  - intros H. exists e. split; auto. now apply rel_eqb_eq.
Qed.

Lemma incident_true i s t f : incident i (s, t, f) = true <-> s = i \/ t = i.
Proof. simpl. now rewrite orb_true_iff, !Nat.eqb_eq. Qed.

(* ------------------------------------------------------------------ dedup, filters, permutations *)
Lemma dedup_In l x : In x (dedup l) <-> In x l.
Proof.
  induction l as [|a l IH]; simpl; [tauto|]. rewrite filter_In, IH, negb_true_iff, Nat.eqb_neq.
  destruct (Nat.eq_dec a x); [subst; tauto|]. split; [intros [?|[? ?]]; auto|intros [?|?]; auto].
Qed.

Lemma NoDup_filter {A} (p : A -> bool) l : NoDup l -> NoDup (filter p l).
Proof.
  induction l as [|a l IH]; simpl; intros H; auto. inversion H; subst.
  destruct (p a); auto. constructor; auto. rewrite filter_In. tauto.
Qed.

Lemma dedup_NoDup l : NoDup (dedup l).
Proof.
  induction l as [|a l IH]; simpl; constructor.
  - rewrite filter_In, negb_true_iff, Nat.eqb_neq. tauto.
  - now apply NoDup_filter.
Qed.

Lemma filter_or_perm {A} (p q : A -> bool) l :
  (forall x, In x l -> p x = true -> q x = false) ->
  Permutation (filter (fun x => p x || q x) l) (filter p l ++ filter q l).
Proof.
  induction l as [|a l IH]; simpl; intros H; auto.
  assert (IH' := IH (fun x Hx => H x (or_intror Hx))).
  destruct (p a) eqn:Ep; simpl.
  - rewrite (H a (or_introl eq_refl) Ep). now constructor.
  - destruct (q a); auto. apply Permutation_cons_app. auto.
Qed.

Lemma flat_map_map {A B C} (f : B -> C) (gf : A -> list B) l :
  flat_map (fun c => map f (gf c)) l = map f (flat_map gf l).
Proof. induction l as [|a l IH]; simpl; auto. now rewrite map_app, IH. Qed.

Lemma flat_map_filter_perm (wl : list wrapper) (cl : list nat) :
  NoDup cl ->
  Permutation (flat_map (fun c => filter (fun w => w_cls w =? c) wl) cl)
              (filter (fun w => existsb (Nat.eqb (w_cls w)) cl) wl).
Proof.
  induction cl as [|c cl IH]; intros H; simpl.
  - induction wl; simpl; auto.
  - inversion H; subst. rewrite (IH H3).
    symmetry. erewrite filter_ext; [apply filter_or_perm|].
    + intros x _ E. apply Nat.eqb_eq in E. destruct (existsb _ cl) eqn:E2; auto.
      apply existsb_exists in E2. destruct E2 as [y [Hy Ey]]. apply Nat.eqb_eq in Ey. subst. congruence.
    + intros x. simpl. reflexivity.
Qed.

(* ------------------------------------------------------------------ dedupo *)
Lemma oeqb_eq a b : oeqb a b = true <-> a = b.
Proof.
  destruct a as [x|], b as [y|]; simpl; try (split; [discriminate|congruence]); try (split; auto; fail).
  rewrite Nat.eqb_eq. split; congruence.
Qed.

Lemma filter_all {A} (p : A -> bool) l : (forall x, In x l -> p x = true) -> filter p l = l.
Proof.
  induction l as [|a l IH]; simpl; intros H; auto. rewrite (H a (or_introl eq_refl)). f_equal. apply IH. auto.
Qed.

Lemma dedupo_NoDup_id l : NoDup l -> dedupo l = l.
Proof.
  induction l as [|a l IH]; simpl; intros H; auto. inversion H; subst. rewrite (IH H3). f_equal.
  apply filter_all. intros x Hx. apply negb_true_iff. destruct (oeqb x a) eqn:E; auto.
  apply oeqb_eq in E. subst. contradiction.
Qed.
