(* Model = Spec on the fragment F (no graph re-creation, no EQL evaluation): over every admissible history the
   model produces the outputs of the ideal machine -- query results up to order, assertion flags exactly. *)
From Coq Require Import List Arith Bool PeanoNat Lia Permutation.
From Krrood Require Import Onto.RegistrySpec Onto.Registry Onto.RegistryLemmas Onto.RegistryInv Onto.RegistryProofs
  Onto.RegistryQuery Onto.RegistryRel.
Import ListNotations.

Section Refine.
  Variable children : cls -> list cls.
  Variable fuel : nat.
  Notation step := (step children fuel).
  Notation run := (run children fuel).
  Notation adm_run := (adm_run children fuel).
  Notation sstep := (spec_step children fuel).
  Notation srun := (spec_run children fuel).

  Definition out_eq (x y : out) : Prop :=
    match x, y with
    | OBool b, OBool b' => b = b'
    | OInst l, OInst l' => Permutation l l'
    | ONone, ONone => True
    | OErr, OErr => True
    | _, _ => False
    end.

  (* no class is its own descendant (always true of Python classes) *)
  Definition acyclic : Prop := forall T, desc_b children fuel T T = false.

  Lemma eval_perm s T : Inv s -> AllReg (live s) (g s) -> acyclic ->
    Permutation (dedupo (instances children fuel (live s) (sweep (live s) (g s)) T))
                (map Some (spec_query children fuel (live s) T)).
  Proof.
    intros HI HA Hac.
    assert (P : Permutation (instances children fuel (live s) (sweep (live s) (g s)) T) (map Some (spec_query children fuel (live s) T))).
    { apply instances_perm; auto.
      + apply sweep_inv, HI. + apply HI. + apply sweep_swept. + apply AllReg_sweep; auto. apply HI. }
    rewrite dedupo_NoDup_id; auto. eapply once_each; eauto. apply HI.
  Qed.

  Lemma out_rel_eq x y : out_rel x y -> match x with OInst _ => False | _ => True end -> out_eq x y.
  Proof. destruct x, y; simpl; auto; tauto. Qed.

  Lemma step_refine s a o :
    Inv s -> AllReg (live s) (g s) -> adm s o = true -> is_live o = false -> acyclic -> Sim s a ->
    out_eq (snd (step s o)) (snd (sstep a o)).
  Proof.
    intros HI HA Ha He Hac HS.
    destruct (step_Sim children fuel s a o HI Ha He HS) as [_ Hout].
    destruct o as [c p i|x| |T|T|T|k|k|n y|n|x f y ia ib|]; try discriminate.
    - apply out_rel_eq; [exact Hout|exact I].
    - apply out_rel_eq; [exact Hout|simpl; destruct (pinned (evals s) x); exact I].
    - apply out_rel_eq; [exact Hout|exact I].
    - (* QueryG *) simpl. rewrite <- (sim_live _ _ HS).
      apply instances_perm; auto.
      + apply sweep_inv, HI. + apply HI. + apply sweep_swept. + apply AllReg_sweep; auto. apply HI.
    - (* QueryE *) simpl. rewrite <- (sim_live _ _ HS). now apply eval_perm.
    - apply out_rel_eq; [exact Hout|exact I].
    - (* EvalV *) simpl. rewrite <- (sim_vars _ _ HS), <- (sim_live _ _ HS).
      destruct (nth_error (vars s) k); simpl; auto. now apply eval_perm.
    - (* Relate *) apply out_rel_eq; [exact Hout|simpl; destruct (relate _ _ _ _ _ _ _) as [r [nw|]]; exact I].
    - apply out_rel_eq; [exact Hout|exact I].
  Qed.

  (* F: the graph is not re-created and every evaluation is complete *)
  Definition in_F (h : list op) : bool := no_live h && no_clear h.

  Theorem run_refine : forall h s a,
    Inv s -> AllReg (live s) (g s) -> Sim s a ->
    adm_run s h = true -> in_F h = true -> acyclic ->
    Forall2 out_eq (snd (run s h)) (snd (srun a h)).
  Proof.
    induction h as [|o h IH]; simpl; intros s a HI HA HS Ha HF Hac; [constructor|].
    apply andb_true_iff in Ha. destruct Ha as [Ha Hr]. unfold in_F in HF. simpl in HF.
    apply andb_true_iff in HF. destruct HF as [He Hc].
    apply andb_true_iff in He. destruct He as [He He']. apply andb_true_iff in Hc. destruct Hc as [Hc Hc'].
    apply negb_true_iff in He, Hc.
    assert (H1 := step_Inv children fuel s o HI Ha).
    assert (H2 := step_AllReg children fuel s o HI Ha Hc HA).
    destruct (step_Sim children fuel s a o HI Ha He HS) as [H3 _].
    assert (H4 := step_refine s a o HI HA Ha He Hac HS).
    destruct (step s o) as [s1 x]. destruct (sstep a o) as [a1 x']. simpl in *.
    assert (HF' : in_F h = true) by (unfold in_F; now rewrite He', Hc').
    specialize (IH s1 a1 H1 H2 H3 Hr HF' Hac).
    destruct (run s1 h) as [s2 xs]. destruct (srun a1 h) as [a2 xs']. simpl in *. constructor; auto.
  Qed.

  (* from the fresh process *)
  Theorem model_refines_spec h :
    adm_run init h = true -> in_F h = true -> acyclic ->
    Forall2 out_eq (snd (run init h)) (snd (srun a_init h)).
  Proof.
    intros. apply run_refine; auto.
    - exact (Inv_init children fuel). - intros x Hx. destruct Hx. - exact (Sim_init children fuel).
  Qed.
End Refine.
