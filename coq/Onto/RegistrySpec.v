(* Spec for C13 / C14 / C20: what a user may assume about Symbol instances, domain-less variables,
   asserted relations and object lifetime.  Small, total, executable; NO dependency on the model.

   Input language (shared with the model): histories of operations over a class hierarchy.  The
   numbers a history carries besides the class / object / field are the *observed* choices of the
   runtime (CPython address, rustworkx node index); the Spec ignores them. *)
From Coq Require Import List Arith Bool PeanoNat Lia.
Import ListNotations.

Definition cls := nat.
Definition obj := nat.
Definition pyid := nat.
Definition idx := nat.
Definition fld := nat.

(* a Symbol instance that exists in memory: identity (never reused), class, current address *)
Record orec := O { o_id : obj; o_cls : cls; o_pyid : pyid }.

Inductive op :=
| New (c : cls) (p : pyid) (i : idx)        (* o = c(...)            ; observed id(o), observed node index *)
| Drop (o : obj)                             (* del o; gc.collect()   *)
| Sweep                                      (* SymbolGraph().remove_dead_instances() *)
| QueryG (T : cls)                           (* sweep; list(SymbolGraph().get_instances_of_type(T)) *)
| QueryE (T : cls)                           (* q = an(entity(let(T, None))); list(q.evaluate())   -- declared and evaluated at once *)
| DeclV (T : cls)                            (* q = an(entity(let(T, None)))       -- declared only; becomes query object k *)
| EvalV (k : nat)                            (* list(q_k.evaluate()): a complete evaluation of the k-th query object *)
| StartV (k : nat)                           (* it = q_k.evaluate(): a live evaluation (nothing runs yet); becomes evaluation e *)
| NextV (e : nat) (y : option (option obj))  (* next(it_e); y = what the runtime produced (which row, or None = StopIteration):
                                                the order of rows is the runtime's choice, like addresses and node indices *)
| CloseV (e : nat)                           (* it_e.close() / del it_e *)
| Relate (a : obj) (f : fld) (b : obj) (ia ib : idx)
                                             (* PredicateClassRelation(a, b, f).add_to_graph(); ia/ib: node index
                                                observed if a / b had to be wrapped anew *)
| Clear.                                     (* SymbolGraph().clear(); SymbolGraph() *)

Inductive out :=
| ONone
| OInst (l : list (option obj))              (* query result; None = a dead reference leaked into the result *)
| OBool (b : bool)                           (* Relate: True = newly added (inferences run) *)
| OErr.

(* ---------------------------------------------------------------- class hierarchy *)
Section Hier.
  Variable children : cls -> list cls.       (* cls.__subclasses__() in definition order *)

  (* strict descendant *)
  Inductive desc : cls -> cls -> Prop :=
  | desc_child c T : In c (children T) -> desc c T
  | desc_step c d T : In d (children T) -> desc c d -> desc c T.

  Definition le_cls (c T : cls) : Prop := c = T \/ desc c T.

  Fixpoint desc_b (fuel : nat) (c T : cls) : bool :=
    match fuel with
    | 0 => false
    | S n => existsb (fun d => (d =? c) || desc_b n c d) (children T)
    end.
  Definition le_b (fuel : nat) (c T : cls) : bool := (c =? T) || desc_b fuel c T.
End Hier.

(* ---------------------------------------------------------------- the ideal machine *)
Definition rel := (obj * fld * obj)%type.
Definition rel_eqb (x y : rel) : bool :=
  let '(a, f, b) := x in let '(a', f', b') := y in (a =? a') && (f =? f') && (b =? b').

(* a live evaluation as the program sees it: the type, whether it has begun (first next), the rows it produced, and the
   instances that existed when it began *)
Record aev := AE { ae_T : cls; ae_started : bool; ae_yielded : list obj; ae_stable : list obj }.

Record ast := AS {
  a_live : list orec;          (* instances that exist *)
  a_user : list obj;           (* instances the program still references directly *)
  a_rels : list rel;           (* recorded relations between existing instances *)
  a_vars : list cls;           (* types of the query objects created so far *)
  a_evals : list (option aev); (* evaluations begun with StartV; None once finished or closed *)
  a_next : nat }.

Definition a_init : ast := AS [] [] [] [] [] 0.

Definition mem_obj (o : obj) (L : list orec) : bool := existsb (fun x => o_id x =? o) L.
Definition mem_nat (o : nat) (l : list nat) : bool := existsb (Nat.eqb o) l.

Fixpoint set_nth {A} (k : nat) (x : A) (l : list A) : list A :=
  match l, k with
  | [], _ => []
  | _ :: t, 0 => x :: t
  | a :: t, S k' => a :: set_nth k' x t
  end.

(* the program still holds the iterator of a live evaluation, and with it the rows that iterator produced *)
Definition a_pinned (es : list (option aev)) (o : obj) : bool :=
  existsb (fun e => match e with Some e => mem_nat o (ae_yielded e) | None => false end) es.

(* C20: whatever neither the program nor a live iterator references is reclaimed, with everything recorded about it *)
Definition a_release (live : list orec) (user : list obj) (es : list (option aev)) : list orec :=
  filter (fun x => mem_nat (o_id x) user || a_pinned es (o_id x)) live.
Definition rels_of (live : list orec) (rels : list rel) : list rel :=
  filter (fun r => let '(s, _, t) := r in mem_obj s live && mem_obj t live) rels.

Section SpecStep.
  Variable children : cls -> list cls.
  Variable fuel : nat.

  (* C13: the live instances of T and of its subclasses *)
  Definition spec_query (L : list orec) (T : cls) : list obj :=
    map o_id (filter (fun x => le_b children fuel (o_cls x) T) L).

  Definition spec_step (a : ast) (o : op) : ast * out :=
    match o with
    | New c p _ =>
        (AS (a_live a ++ [O (a_next a) c p]) (a_user a ++ [a_next a]) (a_rels a) (a_vars a) (a_evals a) (S (a_next a)), ONone)
    | Drop x =>
        (* C20: dropping the last reference reclaims the instance and everything recorded about it; a row of a live
           iterator is still referenced by that iterator *)
        let u := filter (fun y => negb (y =? x)) (a_user a) in
        if a_pinned (a_evals a) x then (AS (a_live a) u (a_rels a) (a_vars a) (a_evals a) (a_next a), ONone)
        else
        (AS (filter (fun r => negb (o_id r =? x)) (a_live a)) u
            (filter (fun r => let '(s, _, t) := r in negb (s =? x) && negb (t =? x)) (a_rels a))
            (a_vars a) (a_evals a) (a_next a), ONone)
    | Sweep => (a, ONone)
    | QueryG T => (a, OInst (map Some (spec_query (a_live a) T)))
    | QueryE T =>
        (AS (a_live a) (a_user a) (a_rels a) (a_vars a ++ [T]) (a_evals a) (a_next a), OInst (map Some (spec_query (a_live a) T)))
    | DeclV T => (AS (a_live a) (a_user a) (a_rels a) (a_vars a ++ [T]) (a_evals a) (a_next a), ONone)
    | EvalV k =>
        (* the range is decided when the query is evaluated, every time; afterwards the query holds nothing *)
        match nth_error (a_vars a) k with
        | Some T => (a, OInst (map Some (spec_query (a_live a) T)))
        | None => (a, OErr)
        end
    | StartV k =>
        match nth_error (a_vars a) k with
        | Some T => (AS (a_live a) (a_user a) (a_rels a) (a_vars a) (a_evals a ++ [Some (AE T false [] [])]) (a_next a), ONone)
        | None => (a, OErr)
        end
    | NextV e y =>
        match nth_error (a_evals a) e with
        | Some (Some ev) =>
            (* the evaluation begins with its first row request *)
            let ev := if ae_started ev then ev else AE (ae_T ev) true [] (spec_query (a_live a) (ae_T ev)) in
            match y with
            | Some (Some o) =>
                (* a row: an existing instance of the type that this evaluation has not produced before *)
                if mem_obj o (a_live a) && existsb (Nat.eqb o) (spec_query (a_live a) (ae_T ev)) && negb (mem_nat o (ae_yielded ev))
                then (AS (a_live a) (a_user a) (a_rels a) (a_vars a)
                         (set_nth e (Some (AE (ae_T ev) true (ae_yielded ev ++ [o]) (ae_stable ev))) (a_evals a)) (a_next a),
                      OInst [Some o])
                else (AS (a_live a) (a_user a) (a_rels a) (a_vars a) (set_nth e (Some ev) (a_evals a)) (a_next a), OErr)
            | Some None =>
                (* a dead reference is never a row *)
                (AS (a_live a) (a_user a) (a_rels a) (a_vars a) (set_nth e (Some ev) (a_evals a)) (a_next a), OErr)
            | None =>
                (* the end: every instance that existed from the beginning until now has been produced *)
                let es := set_nth e None (a_evals a) in
                let l := a_release (a_live a) (a_user a) es in
                (AS l (a_user a) (rels_of l (a_rels a)) (a_vars a) es (a_next a),
                 if forallb (fun o => negb (mem_obj o (a_live a)) || mem_nat o (ae_yielded ev)) (ae_stable ev)
                 then OInst [] else OErr)
            end
        | Some None => (a, match y with None => OInst [] | _ => OErr end)   (* a finished or closed iterator just stops again *)
        | None => (a, OErr)
        end
    | CloseV e =>
        match nth_error (a_evals a) e with
        | Some _ =>
            let es := set_nth e None (a_evals a) in
            let l := a_release (a_live a) (a_user a) es in
            (AS l (a_user a) (rels_of l (a_rels a)) (a_vars a) es (a_next a), ONone)
        | None => (a, OErr)
        end
    | Relate x f y _ _ =>
        if mem_obj x (a_live a) && mem_obj y (a_live a) then
          (* C14: new iff not among the recorded relations of existing instances *)
          if existsb (rel_eqb (x, f, y)) (a_rels a) then (a, OBool false)
          else (AS (a_live a) (a_user a) (a_rels a ++ [(x, f, y)]) (a_vars a) (a_evals a) (a_next a), OBool true)
        else (a, OErr)
    | Clear => (AS (a_live a) (a_user a) [] (a_vars a) (a_evals a) (a_next a), ONone)   (* instances stay; recorded relations are reset *)
    end.

  Fixpoint spec_run (a : ast) (h : list op) : ast * list out :=
    match h with
    | [] => (a, [])
    | o :: h' => let '(a1, x) := spec_step a o in let '(a2, xs) := spec_run a1 h' in (a2, x :: xs)
    end.
End SpecStep.
