(* RegInv: the three indexes of the SymbolGraph and its graph describe the same set of wrappers, whatever
   addresses and node indices the runtime hands out.  Preserved by every registry method. *)
From Coq Require Import List Arith Bool PeanoNat Lia Permutation.
From Krrood Require Import Onto.RegistrySpec Onto.Registry Onto.RegistryLemmas.
Import ListNotations.

Record RegInv (L : list orec) (r : reg) : Prop := {
  i_nodes_idx : NoDup (map w_idx (nodes r));
  i_wl_obj : NoDup (map w_obj (wl r));
  i_nodes_wl : forall w, In w (nodes r) <-> In w (wl r);
  i_byid_keys : NoDup (map fst (by_id r));
  i_byid_wl : forall p w, In (p, w) (by_id r) -> In w (wl r) /\ w_pyid w = p;
  (* an entry under the address of an existing instance is that instance's wrapper *)
  i_byid_live : forall p w x, In (p, w) (by_id r) -> In x L -> o_pyid x = p -> w_obj w = o_id x;
  (* the wrapper of an existing instance records its class and address and is indexed under that address *)
  i_wl_live : forall w x, In w (wl r) -> In x L -> w_obj w = o_id x ->
                          w_cls w = o_cls x /\ w_pyid w = o_pyid x /\ In (o_pyid x, w) (by_id r);
  i_edges_nodes : forall s t f, In (s, t, f) (edges r) -> In s (map w_idx (nodes r)) /\ In t (map w_idx (nodes r));
  (* the relation index is exactly the set of current edges *)
  i_rel_edges : forall e, In e (rel_index r) <-> In e (edges r);
  i_rel_nodup : NoDup (rel_index r);
  i_edges_nodup : NoDup (edges r) }.

(* existing instances: identities and addresses are unique *)
Record WorldOk (L : list orec) : Prop := {
  wo_ids : NoDup (map o_id L);
  wo_pyids : NoDup (map o_pyid L) }.

Lemma RegInv_empty L : RegInv L empty_reg.
Proof. constructor; simpl; try constructor; try tauto; intros; tauto. Qed.

Lemma RegInv_sub L L' r : (forall x, In x L' -> In x L) -> RegInv L r -> RegInv L' r.
Proof.
  intros Hs [H1 H2 H3 H4 H5 H6 H7 H8 H9 H10 H11]. constructor; eauto.
Qed.

(* ------------------------------------------------------------------ add_node *)
Lemma add_node_inv L L' r x i :
  RegInv L r ->
  (forall y, In y L' <-> In y L \/ y = x) ->
  WorldOk L' ->
  idx_free r i = true ->
  ~ In (o_id x) (map w_obj (wl r)) ->
  RegInv L' (add_node r (W (o_id x) (o_cls x) (o_pyid x) i)).
Proof.
  intros [H1 H2 H3 H4 H5 H6 H7 H8 H9 H10 H11] HL [Wi Wp] Hi Ho.
  set (w := W (o_id x) (o_cls x) (o_pyid x) i).
  assert (HxL : In x L') by (apply HL; auto).
  assert (Hifree : ~ In i (map w_idx (nodes r))).
  { unfold idx_free in Hi. apply negb_true_iff in Hi. intro Hin. apply in_map_iff in Hin. destruct Hin as [w' [E Hw']].
    assert (existsb (fun w => w_idx w =? i) (nodes r) = true); [|congruence].
    apply existsb_exists. exists w'. split; auto. now apply Nat.eqb_eq. }
  subst w. constructor; unfold add_node; cbn [nodes by_id wl edges rel_index w_obj w_cls w_pyid w_idx].
  - rewrite map_app. simpl. apply NoDup_snoc; auto.
  - rewrite map_app. simpl. apply NoDup_snoc; auto.
  - intros w'. rewrite !in_app_iff, H3. tauto.
  - now apply NoDup_set.
  - intros p w' Hin. apply In_set in Hin. rewrite in_app_iff. simpl. destruct Hin as [[-> ->]|[Hin Hne]]; auto.
    destruct (H5 _ _ Hin); auto.
  - intros p w' y Hin Hy Hp. apply In_set in Hin. destruct Hin as [[-> ->]|[Hin Hne]].
    + simpl. f_equal. symmetry.
      assert (y = x); [|now subst]. eapply NoDup_map_inj with (f := o_pyid); eauto.
    + apply HL in Hy. destruct Hy as [Hy| ->]; [eapply H6; eauto|congruence].
  - intros w' y Hw' Hy E. apply in_app_iff in Hw'. simpl in Hw'. destruct Hw' as [Hw'|[<-|[]]].
    + assert (y <> x). { intros ->. apply Ho. rewrite <- E. now apply in_map. }
      apply HL in Hy. destruct Hy as [Hy|Hy]; [|congruence].
      destruct (H7 _ _ Hw' Hy E) as [A [B C]]. repeat split; auto.
      apply In_set. right. split; auto.
      intro Ep. apply H. eapply NoDup_map_inj with (f := o_pyid); eauto. apply HL; auto.
    + simpl in E. assert (y = x) by (eapply NoDup_map_inj with (f := o_id); eauto). subst.
      repeat split; auto. apply In_set. auto.
  - intros s t f Hin. rewrite map_app, !in_app_iff. destruct (H8 _ _ _ Hin). auto.
  - auto.
  - auto.
  - auto.
Qed.

(* ------------------------------------------------------------------ remove_node *)
Lemma nodes_filter_idx r w : NoDup (map w_idx (nodes r)) -> In w (nodes r) ->
  forall w', In w' (filter (fun x => negb (w_idx x =? w_idx w)) (nodes r)) <-> In w' (nodes r) /\ w' <> w.
Proof.
  intros Hnd Hw w'. rewrite filter_In, negb_true_iff, Nat.eqb_neq. split; intros [A B]; split; auto.
  - intros ->. auto.
  - intro E. apply B. eapply NoDup_map_inj with (f := w_idx); eauto.
Qed.

Lemma remove_node_inv L r w :
  RegInv L r -> In w (nodes r) -> mem_obj (w_obj w) L = false -> RegInv L (remove_node r w).
Proof.
  intros [H1 H2 H3 H4 H5 H6 H7 H8 H9 H10 H11] Hw Hdead.
  assert (Hwl : In w (wl r)) by now apply H3.
  assert (Hne : forall w', In w' (wl r) -> (w' <> w <-> w_obj w' <> w_obj w)).
  { intros w' Hw'. split; intros A B; apply A; [eapply NoDup_map_inj with (f := w_obj); eauto|now subst]. }
  assert (Hby : forall p w', In (p, w') (match get (w_pyid w) (by_id r) with
                 | Some w' => if w_obj w' =? w_obj w then del (w_pyid w) (by_id r) else by_id r
                 | None => by_id r end) <-> In (p, w') (by_id r) /\ w' <> w).
  { intros p w'. destruct (get (w_pyid w) (by_id r)) as [w0|] eqn:G.
    - apply get_In in G. destruct (w_obj w0 =? w_obj w) eqn:E.
      + apply Nat.eqb_eq in E. destruct (H5 _ _ G) as [Hw0 _].
        assert (w0 = w) by (eapply NoDup_map_inj with (f := w_obj); eauto). subst w0.
        rewrite In_del. split.
        * intros [A B]. split; auto. intros ->. destruct (H5 _ _ A). congruence.
        * intros [A B]. split; auto. intros ->. apply B.
          assert ((w_pyid w, w') = (w_pyid w, w)) by (eapply NoDup_map_inj with (f := fst); eauto). congruence.
      + apply Nat.eqb_neq in E. split; [|tauto]. intros A. split; auto. intros ->.
        destruct (H5 _ _ A) as [_ <-].
        assert ((w_pyid w, w0) = (w_pyid w, w)) by (eapply NoDup_map_inj with (f := fst); eauto). congruence.
    - split; [|tauto]. intros A. split; auto. intros ->. destruct (H5 _ _ A) as [_ <-]. eapply get_None; eauto. }
  constructor; unfold remove_node; cbn [nodes by_id wl edges rel_index].
  - now apply NoDup_map_filter.
  - now apply remove_first_NoDup.
  - intros w'. rewrite nodes_filter_idx, remove_first_In by auto. rewrite H3. split.
    + intros [A B]. split; auto. apply Hne; auto.
    + intros [A B]. split; auto. apply Hne; auto.
  - destruct (get (w_pyid w) (by_id r)) as [w0|]; auto. destruct (w_obj w0 =? w_obj w); auto. now apply NoDup_del.
  - intros p w' Hin. apply Hby in Hin. destruct Hin as [A B]. destruct (H5 _ _ A) as [C D]. split; auto.
    apply remove_first_In; auto. split; auto. apply Hne; auto.
  - intros p w' x Hin. apply Hby in Hin. destruct Hin as [A B]. eapply H6; eauto.
  - intros w' x Hw' Hx E. apply remove_first_In in Hw'; auto. destruct Hw' as [A B].
    destruct (H7 _ _ A Hx E) as [C [D F]]. repeat split; auto. apply Hby. split; auto. apply Hne; auto.
  - intros s t f Hin. apply filter_In in Hin. destruct Hin as [Hin Hinc].
    apply negb_true_iff in Hinc. destruct (H8 _ _ _ Hin) as [A B].
    assert (s <> w_idx w /\ t <> w_idx w) as [Ns Nt].
    { split; intro; subst; rewrite (proj2 (incident_true _ _ _ _)) in Hinc; auto; discriminate. }
    split.
    + apply in_map_iff in A. destruct A as [ws [<- Hws]]. apply in_map. apply filter_In. split; auto.
      apply negb_true_iff, Nat.eqb_neq; auto.
    + apply in_map_iff in B. destruct B as [wt [<- Hwt]]. apply in_map. apply filter_In. split; auto.
      apply negb_true_iff, Nat.eqb_neq; auto.
  - intros e. rewrite !filter_In, H9. split.
    + intros [A B]. split; auto. apply negb_true_iff in B. apply negb_true_iff.
      destruct (incident (w_idx w) e) eqn:I; auto.
      assert (existsb (edge_eqb e) (filter (incident (w_idx w)) (edges r)) = true); [|congruence].
      apply existsb_edge. apply filter_In. auto.
    + intros [A B]. split; auto. apply negb_true_iff in B. apply negb_true_iff.
      destruct (existsb _ _) eqn:X; auto. apply existsb_edge in X. apply filter_In in X. destruct X; congruence.
  - now apply NoDup_filter.
  - now apply NoDup_filter.
Qed.

Lemma remove_node_nodes r w w' : In w' (nodes (remove_node r w)) -> In w' (nodes r).
Proof. simpl. rewrite filter_In. tauto. Qed.

(* ------------------------------------------------------------------ sweep *)
Lemma sweep_list_inv L : forall l r,
  RegInv L r -> NoDup (map w_idx l) -> (forall w, In w l -> In w (nodes r)) ->
  RegInv L (sweep_list L l r).
Proof.
  induction l as [|w l IH]; simpl; intros r Hr Hnd Hsub; auto.
  inversion Hnd; subst. destruct (mem_obj (w_obj w) L) eqn:E.
  - apply IH; auto.
  - apply IH; auto.
    + apply remove_node_inv; auto.
    + intros w' Hw'. apply nodes_filter_idx; auto. { apply Hr. }
      split; auto. intros ->. apply H1. now apply in_map.
Qed.

Lemma sweep_inv L r : RegInv L r -> RegInv L (sweep L r).
Proof. intros H. apply sweep_list_inv; auto. apply H. Qed.

(* the nodes after a sweep: exactly the nodes whose instance exists *)
Lemma sweep_list_nodes L : forall l r w,
  In w (nodes (sweep_list L l r)) <->
  In w (nodes r) /\ ~ (exists w', In w' l /\ mem_obj (w_obj w') L = false /\ w_idx w' = w_idx w).
Proof.
  induction l as [|a l IH]; simpl; intros r w.
  - split; [intros H; split; auto; intros [w' [[] _]]|tauto].
  - destruct (mem_obj (w_obj a) L) eqn:E.
    + rewrite IH. split; intros [A B]; split; auto.
      * intros [w' [[<-|Hw'] [C D]]]; [congruence|]. apply B. eauto.
      * intros [w' [Hw' [C D]]]. apply B. eauto.
    + rewrite IH. simpl. rewrite filter_In, negb_true_iff, Nat.eqb_neq. split.
      * intros [[A N] B]. split; auto. intros [w' [[<-|Hw'] [C D]]]; [congruence|]. apply B. eauto.
      * intros [A B]. split; [split; auto|].
        -- intro Eq. apply B. exists a. auto.
        -- intros [w' [Hw' [C D]]]. apply B. eauto.
Qed.

Definition swept (L : list orec) (r : reg) : Prop := forall w, In w (nodes r) -> mem_obj (w_obj w) L = true.

Lemma sweep_swept L r : swept L (sweep L r).
Proof.
  intros w Hw. apply sweep_list_nodes in Hw. destruct Hw as [A B].
  destruct (mem_obj (w_obj w) L) eqn:E; auto. exfalso. apply B. exists w. auto.
Qed.

Lemma sweep_keeps_live L r w : In w (nodes r) -> mem_obj (w_obj w) L = true -> RegInv L r -> In w (nodes (sweep L r)).
Proof.
  intros Hw Hl Hr. apply sweep_list_nodes. split; auto. intros [w' [Hw' [C D]]].
  assert (w' = w) by (eapply NoDup_map_inj with (f := w_idx); eauto; apply Hr). subst. congruence.
Qed.

Lemma sweep_nodes_sub L r w : In w (nodes (sweep L r)) -> In w (nodes r).
Proof. intros H. apply sweep_list_nodes in H. tauto. Qed.

(* ------------------------------------------------------------------ add_relation *)
Lemma add_relation_inv L r e : RegInv L r ->
  (let '(s, t, _) := e in In s (map w_idx (nodes r)) /\ In t (map w_idx (nodes r))) ->
  RegInv L (fst (add_relation r e)).
Proof.
  intros Hr He. unfold add_relation. destruct (existsb (edge_eqb e) (rel_index r)) eqn:X; simpl; auto.
  destruct Hr as [H1 H2 H3 H4 H5 H6 H7 H8 H9 H10 H11]. constructor; simpl; auto.
  - intros s t f Hin. apply in_app_iff in Hin. destruct Hin as [Hin|[E|[]]]; [apply (H8 _ _ _ Hin)|rewrite E in He; exact He].
  - intros e'. rewrite in_app_iff. simpl. rewrite H9. tauto.
  - constructor; auto. intro Hin. apply existsb_edge in Hin. congruence.
  - apply NoDup_snoc; auto. intro Hin. apply H9 in Hin. apply existsb_edge in Hin. congruence.
Qed.

Lemma add_relation_new r e : RegInv (@nil orec) r \/ True -> snd (add_relation r e) = negb (existsb (edge_eqb e) (rel_index r)).
Proof. intros _. unfold add_relation. destruct (existsb _ _); auto. Qed.
