(* What the correspondence check evaluates (vm_compute): the model's trace of a history, in the
   canonical sx form the harness also produces from the implementation, and the three-way comparison. *)
From Coq Require Import List Arith Bool PeanoNat ZArith.
From Krrood Require Import Base.Sx Onto.RegistrySpec Onto.RegistrySpecRun Onto.Registry.
Import ListNotations.
Local Open Scope nat_scope.

Section Run.
  Variable tbl : list (cls * list cls).
  Variable fuel : nat.
  Let ch := children_of tbl.

  (* full observation of the model state: census, container sizes, relations between existing instances,
     size of the expression table *)
  Definition obs (s : st) : sx :=
    SL [ SL (map SN (map o_id (live s)));
         SL (map SN (sizes (g s)));
         SL (sx_set (map sx_rel (abs_rels (live s) (g s))));
         SN (length (vars s)) ].

  Fixpoint trace (s : st) (h : list op) : list sx :=
    match h with
    | [] => []
    | o :: h' =>
        let '(s1, x) := step ch fuel s o in
        SL [SB (adm s o); sx_out x; obs s1] :: trace s1 h'
    end.

  Definition model_trace (h : list op) : sx := SL (trace init h).

  (* impl = SL [full trace ; property-level trace] as observed on the implementation.
     0 all agree; 1 impl = spec but the model differs; 2 impl = model <> spec; 3 impl differs from both *)
  Definition case_code (h : list op) (impl : sx) : Z :=
    match impl with
    | SL [full; abs] =>
        let m := sx_eqb full (model_trace h) in
        let sp := sx_eqb abs (ideal_trace tbl fuel h) in
        if sp then (if m then 0 else 1) else (if m then 2 else 3)
    | _ => 3
    end%Z.
End Run.
