(* Onto/ContainerInfer.v -- "recorded with the same inferences as if appended individually":
   every record call of the container model is C15's add_to_graph on (owner, field, element); by C15 the graph then
   holds the closure of all recorded facts, which contains the closure of each single element's fact. *)
From Coq Require Import List Bool Arith.
From Krrood Require Import Onto.ClosureSpec Onto.Closure Onto.ClosureProofs Onto.ContainerSpec Onto.Container Onto.ContainerProofs.
Import ListNotations.

Definition facts (owner : inst) (f : fld) (xs : list elt) : list edge := map (fun x => (owner, f, x)) xs.

Theorem writes_infer Sc n owner f k ops s G :
  wf k (items s) -> incl (items s) (rec s) ->
  Closure.run Sc n (facts owner f (rec (snd (Container.run k ops s)))) = Some G ->
  forall x, In x (items (snd (Container.run k ops s))) ->
  forall e, closure Sc [(owner, f, x)] e -> In e G.
Proof.
  intros Hwf Hin HG x Hx e He.
  destruct (writes_ok k ops s Hwf Hin) as [_ [_ [Hrec _]]].
  apply (run_is_closure Sc n _ G HG).
  apply (closure_mono Sc [(owner, f, x)]); [|exact He].
  intros y [<- | []]. unfold facts. apply in_map_iff. exists x. split; [reflexivity | apply Hrec; exact Hx].
Qed.
