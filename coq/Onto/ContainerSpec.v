(* Onto/ContainerSpec.v -- Spec of property C16 (no dependency on the model): what plain Python does to a list / a set
   under the write operations the property lists.  A set is represented by the duplicate-free list of its elements in
   order of first insertion (the order is not observable; the harness compares sets sorted). *)
From Coq Require Import List Bool Arith ZArith Lia.
Import ListNotations.

Definition elt := nat.
Inductive kind := KList | KSet.

(* lazily evaluated iterables whose source is the very field that is assigned *)
Inductive view :=
| VRev                    (* reversed(x.f)            (lists only) *)
| VIter                   (* iter(x.f) *)
| VChain (vs : list elt)  (* itertools.chain(x.f, vs) *)
| VFilterOut (x : elt).   (* (v for v in x.f if v is not x)  /  filter(...) *)
Definition view_apply (v : view) (l : list elt) : list elt :=
  match v with
  | VRev => rev l
  | VIter => l
  | VChain vs => l ++ vs
  | VFilterOut x => filter (fun y => negb (Nat.eqb y x)) l
  end.

Inductive op :=
| Assign (vs : list elt)          (* x.f = [...]   /  x.f = {...}            a fresh collection *)
| AssignSelf                      (* x.f = x.f *)
| IAug (vs : list elt)            (* x.f += vs  (list)   /   x.f |= set(vs)  (set) *)
| Append (x : elt)
| Extend (vs : list elt)
| Insert (i : Z) (x : elt)
| SetItem (i : Z) (x : elt)       (* x.f[i] = v ; IndexError when out of range *)
| SetSlice (i j : Z) (vs : list elt)  (* x.f[i:j] = [...]  (step 1) *)
| SetSliceIter (i j : Z) (vs : list elt)  (* x.f[i:j] = (v for v in ...)   the value is a one-shot iterator yielding vs *)
| ExtendSelf                      (* x.f.extend(x.f) *)
| Add (x : elt)
| Update (vss : list (list elt))  (* x.f.update(it1, it2, ...) *)
| AssignView (v : view)           (* x.f = <a LAZY iterable over x.f itself>: Python evaluates it against the OLD contents *)
| SetSliceView (i j : Z) (v : view)  (* x.f[i:j] = <a lazy iterable over x.f itself>: list.__setitem__ materialises it before it changes the list *)
| IAugAlias (vs : list elt)       (* c = x.f; c += vs  /  c |= set(vs): the in-place operator through another reference to the container *)
| ExtendLazyNew (cands : list elt). (* x.f.extend(v for v in cands if v not in x.f): a LAZY iterable that reads the field *)

Definition applicable (k : kind) (o : op) : bool :=
  match k, o with
  | _, Assign _ | _, AssignSelf | _, IAug _ | _, IAugAlias _ => true
  | KList, ExtendLazyNew _ => true
  | KList, AssignView _ => true
  | KSet, AssignView VRev => false   (* a set is not reversible *)
  | KSet, AssignView _ => true
  | KList, Append _ | KList, Extend _ | KList, Insert _ _ | KList, SetItem _ _ | KList, SetSlice _ _ _ | KList, SetSliceIter _ _ _ | KList, SetSliceView _ _ _ | KList, ExtendSelf => true
  | KSet, Add _ | KSet, Update _ => true
  | _, _ => false
  end.

Definition memb (x : elt) (l : list elt) : bool := existsb (Nat.eqb x) l.
Definition set_add (x : elt) (s : list elt) : list elt := if memb x s then s else s ++ [x].
Definition set_union (s vs : list elt) : list elt := fold_left (fun s x => set_add x s) vs s.

(* list.insert: negative indices count from the end, everything is clamped *)
Definition zlen (l : list elt) : Z := Z.of_nat (length l).
Definition insert_pos (l : list elt) (i : Z) : nat :=
  Z.to_nat (if (i <? 0)%Z then Z.max 0 (i + zlen l) else Z.min i (zlen l)).
Fixpoint insert_at (n : nat) (x : elt) (l : list elt) : list elt :=
  match n, l with
  | O, _ => x :: l
  | S n', a :: l' => a :: insert_at n' x l'
  | S _, [] => [x]
  end.
Definition py_insert (i : Z) (x : elt) (l : list elt) : list elt := insert_at (insert_pos l i) x l.

Fixpoint replace_at (n : nat) (x : elt) (l : list elt) : list elt :=
  match n, l with
  | _, [] => []
  | O, _ :: l' => x :: l'
  | S n', a :: l' => a :: replace_at n' x l'
  end.
Definition py_setitem (i : Z) (x : elt) (l : list elt) : option (list elt) :=
  let j := (if i <? 0 then i + zlen l else i)%Z in
  if ((0 <=? j) && (j <? zlen l))%Z then Some (replace_at (Z.to_nat j) x l) else None.

(* l[i:j] = vs: both bounds clamped like insert positions, an empty or inverted range inserts at i *)
Definition py_setslice (i j : Z) (vs : list elt) (l : list elt) : list elt :=
  let a := insert_pos l i in
  let b := Nat.max a (insert_pos l j) in
  firstn a l ++ vs ++ skipn b l.

(* xs.extend(v for v in cands if v not in xs): list.extend consumes a generator ITEM BY ITEM, so the filter sees the elements added so
   far: a candidate that occurs twice is added once *)
Fixpoint extend_lazy_new (cands : list elt) (l : list elt) : list elt :=
  match cands with
  | [] => l
  | c :: r => extend_lazy_new r (if memb c l then l else l ++ [c])
  end.

(* one operation: new contents, and whether Python raises IndexError *)
Definition py_step (k : kind) (o : op) (l : list elt) : list elt * bool :=
  match k, o with
  | KList, Assign vs => (vs, false)
  | KSet, Assign vs => (set_union [] vs, false)
  | _, AssignSelf => (l, false)
  | KList, IAug vs => (l ++ vs, false)
  | KSet, IAug vs => (set_union l vs, false)
  | KList, Append x => (l ++ [x], false)
  | KList, Extend vs => (l ++ vs, false)
  | KList, Insert i x => (py_insert i x l, false)
  | KList, SetItem i x => match py_setitem i x l with Some l' => (l', false) | None => (l, true) end
  | KList, SetSlice i j vs => (py_setslice i j vs l, false)
  | KList, SetSliceIter i j vs => (py_setslice i j vs l, false)   (* list.__setitem__ drains the iterator once *)
  | KList, ExtendSelf => (l ++ l, false)                         (* list.extend(self) doubles the list *)
  | KSet, Add x => (set_add x l, false)
  | KSet, Update vss => (fold_left set_union vss l, false)
  | KList, SetSliceView i j v => (py_setslice i j (view_apply v l) l, false)
  | KList, ExtendLazyNew cands => (extend_lazy_new cands l, false)
  | KList, IAugAlias vs => (l ++ vs, false)
  | KSet, IAugAlias vs => (set_union l vs, false)
  | KList, AssignView v => (view_apply v l, false)
  | KSet, AssignView v => (set_union [] (view_apply v l), false)    (* the set of what the view yields *)
  | _, _ => (l, false)
  end.

(* a history: contents after every operation (with the IndexError flag), and the final contents *)
Fixpoint py_run (k : kind) (ops : list op) (l : list elt) : list (list elt * bool) * list elt :=
  match ops with
  | [] => ([], l)
  | o :: ops' => let r := py_step k o l in
                 let '(tr, fin) := py_run k ops' (fst r) in (r :: tr, fin)
  end.

From Krrood Require Import Base.Sx.
Definition elts_sx (l : list elt) : sx := SL (map (fun x => SZ (Z.of_nat x)) l).
Definition trace_sx (tr : list (list elt * bool)) : sx := SL (map (fun r => SL [elts_sx (fst r); SB (snd r)]) tr).
Definition cspec_out (k : kind) (ops : list op) (l : list elt) : sx := trace_sx (fst (py_run k ops l)).
