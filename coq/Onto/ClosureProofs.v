(* Onto/ClosureProofs.v -- the incremental inference computes exactly the closure, in every order. *)
From Coq Require Import List Bool Arith Lia.
From Krrood Require Import Onto.ClosureSpec Onto.Closure.
Import ListNotations.

Section Proofs.
  Variable Sc : schema.
  Notation add_rel := (add_rel Sc).
  Notation unary := (unary Sc).
  Notation combo := (combo Sc).
  Notation closure := (closure Sc).

  Lemma In_dec_edge (e : edge) (E : list edge) : In e E \/ ~ In e E.
  Proof. destruct (mem e E) eqn:H; [left; now apply mem_In | right; now apply mem_false_In]. Qed.

  (* ---------------- soundness: only derivable relations are ever added ---------------------- *)
  Lemma fold_sound A n es :
    (forall e E E', add_rel n e E = Some E' -> (forall x, In x E -> closure A x) -> closure A e ->
                    forall x, In x E' -> closure A x) ->
    forall E E', fold_add (add_rel n) es E = Some E' ->
    (forall x, In x E -> closure A x) -> (forall e, In e es -> closure A e) ->
    forall x, In x E' -> closure A x.
  Proof.
    intros IH. induction es as [|e es IHes]; intros E E' H HE Hes; simpl in H.
    - injection H as <-. exact HE.
    - destruct (add_rel n e E) as [E1|] eqn:H1; [|discriminate].
      apply (IHes E1 E' H).
      + apply (IH e E E1 H1 HE). apply Hes. now left.
      + intros e' He'. apply Hes. now right.
  Qed.

  Lemma add_rel_sound A n : forall e E E', add_rel n e E = Some E' ->
    (forall x, In x E -> closure A x) -> closure A e -> forall x, In x E' -> closure A x.
  Proof.
    induction n as [|n IH]; intros e E E' H HE He; simpl in H; [discriminate|].
    destruct (mem e E) eqn:Hm.
    { injection H as <-. exact HE. }
    destruct (fold_add (add_rel n) (sup_of Sc e) (e :: E)) as [E1|] eqn:H1; [|discriminate].
    assert (HE0 : forall x, In x (e :: E) -> closure A x) by (intros x [<- | Hx]; auto).
    assert (HE1 : forall x, In x E1 -> closure A x).
    { apply (fold_sound A n _ IH _ _ H1 HE0). intros e' He'. eapply cl_super; eauto. }
    destruct (fold_add (add_rel n) (inv_of Sc e) E1) as [E2|] eqn:H2; [|discriminate].
    assert (HE2 : forall x, In x E2 -> closure A x).
    { apply (fold_sound A n _ IH _ _ H2 HE1). intros e' He'. eapply cl_inverse; eauto. }
    destruct (trans_e Sc e) eqn:Ht.
    - destruct (fold_add (add_rel n) (map (fun e' => (esrc e, efld e, etgt e')) (outs Sc E2 e)) E2) as [E3|] eqn:H3; [|discriminate].
      assert (HE3 : forall x, In x E3 -> closure A x).
      { apply (fold_sound A n _ IH _ _ H3 HE2). intros c Hc. apply in_map_iff in Hc.
        destruct Hc as [y [<- Hy]]. unfold outs in Hy. apply filter_In in Hy. destruct Hy as [Hy Hc].
        apply andb_true_iff in Hc. destruct Hc as [Hc1 Hc2]. apply Nat.eqb_eq in Hc1.
        unfold same_dsc in Hc2. apply Nat.eqb_eq in Hc2.
        apply (cl_trans Sc A e y); auto. unfold chains. unfold trans_e in Ht. auto. }
      apply (fold_sound A n _ IH _ _ H HE3). intros c Hc. apply in_map_iff in Hc.
      destruct Hc as [y [<- Hy]]. unfold ins in Hy. apply filter_In in Hy. destruct Hy as [Hy Hc].
      apply andb_true_iff in Hc. destruct Hc as [Hc1 Hc2]. apply Nat.eqb_eq in Hc1.
      unfold same_dsc in Hc2. apply Nat.eqb_eq in Hc2.
      apply (cl_trans Sc A y e); auto. unfold chains. unfold trans_e in Ht. rewrite Hc2. auto.
    - injection H as <-. exact HE2.
  Qed.

  (* ---------------- closedness --------------------------------------------------------------
     newclosed E E': E' extends E, and every relation that is new in E' has all its unary consequences in E'
     and combines (on either side) with every relation of E' inside E'.  It is reflexive and transitive,
     which is what makes it inductive over the nested calls. *)
  Definition newclosed (E E' : list edge) : Prop :=
    incl E E' /\
    forall x, In x E' -> ~ In x E ->
      incl (unary x) E' /\ forall y, In y E' -> incl (combo x y) E' /\ incl (combo y x) E'.

  Lemma newclosed_refl E : newclosed E E.
  Proof. split; [apply incl_refl|]. intros x Hx Hn. contradiction. Qed.

  Lemma newclosed_trans E1 E2 E3 : newclosed E1 E2 -> newclosed E2 E3 -> newclosed E1 E3.
  Proof.
    intros [I12 N12] [I23 N23]. split; [eapply incl_tran; eauto|].
    intros x Hx3 Hn1. destruct (In_dec_edge x E2) as [Hx2 | Hx2].
    - destruct (N12 x Hx2 Hn1) as [Hu Hb]. split; [eapply incl_tran; eauto|].
      intros y Hy3. destruct (In_dec_edge y E2) as [Hy2 | Hy2].
      + destruct (Hb y Hy2) as [Ha Hb']. split; eapply incl_tran; eauto.
      + destruct (N23 y Hy3 Hy2) as [_ Hby]. destruct (Hby x Hx3) as [Ha Hb']. split; auto.
    - exact (N23 x Hx3 Hx2).
  Qed.

  Lemma fold_post n es :
    (forall e E E', add_rel n e E = Some E' -> newclosed E E' /\ In e E') ->
    forall E E', fold_add (add_rel n) es E = Some E' ->
    newclosed E E' /\ forall e, In e es -> In e E'.
  Proof.
    intros IH. induction es as [|e es IHes]; intros E E' H; simpl in H.
    - injection H as <-. split; [apply newclosed_refl | intros e []].
    - destruct (add_rel n e E) as [E1|] eqn:H1; [|discriminate].
      destruct (IH _ _ _ H1) as [N1 He]. destruct (IHes _ _ H) as [N2 Hes]. split.
      + eapply newclosed_trans; eauto.
      + intros e' [<- | He']; [apply (proj1 N2); exact He | auto].
  Qed.

  Lemma add_rel_post n : forall e E E', add_rel n e E = Some E' -> newclosed E E' /\ In e E'.
  Proof.
    induction n as [|n IH]; intros e E E' H; simpl in H; [discriminate|].
    destruct (mem e E) eqn:Hm.
    { injection H as <-. split; [apply newclosed_refl | now apply mem_In]. }
    apply mem_false_In in Hm.
    destruct (fold_add (add_rel n) (sup_of Sc e) (e :: E)) as [E1|] eqn:H1; [|discriminate].
    destruct (fold_post n _ IH _ _ H1) as [N1 S1].
    destruct (fold_add (add_rel n) (inv_of Sc e) E1) as [E2|] eqn:H2; [|discriminate].
    destruct (fold_post n _ IH _ _ H2) as [N2 S2].
    assert (I0 : incl E (e :: E)) by (intros x Hx; now right).
    assert (HeE1 : In e E1) by (apply (proj1 N1); now left).
    assert (Hun2 : incl (unary e) E2).
    { intros u Hu. unfold ClosureSpec.unary in Hu. apply in_app_or in Hu. destruct Hu as [Hu | Hu].
      - apply (proj1 N2). auto.
      - auto. }
    destruct (trans_e Sc e) eqn:Ht.
    - destruct (fold_add (add_rel n) (map (fun e' => (esrc e, efld e, etgt e')) (outs Sc E2 e)) E2) as [E3|] eqn:H3; [|discriminate].
      destruct (fold_post n _ IH _ _ H3) as [N3 S3].
      destruct (fold_post n _ IH _ _ H) as [N4 S4].
      assert (N24 : newclosed E2 E') by (eapply newclosed_trans; eauto).
      assert (N04 : newclosed (e :: E) E').
      { eapply newclosed_trans; [exact N1|]. eapply newclosed_trans; [exact N2|]. exact N24. }
      assert (HeE' : In e E') by (apply (proj1 N04); now left).
      split; [|exact HeE'].
      split; [eapply incl_tran; [exact I0 | exact (proj1 N04)]|].
      intros x Hx Hn. destruct (edge_eqb x e) eqn:Hxe.
      + apply edge_eqb_eq in Hxe. subst x. split.
        { eapply incl_tran; [exact Hun2 | exact (proj1 N24)]. }
        intros y Hy. split.
        * (* e then y *)
          intros c Hc. apply combo_In in Hc. destruct Hc as [[Hc1 [Hc2 Hc3]] ->].
          destruct (In_dec_edge y E2) as [Hy2 | Hy2].
          -- apply (proj1 N4). apply S3. apply in_map_iff. exists y. split; [reflexivity|].
             unfold outs. apply filter_In. split; [exact Hy2|]. apply andb_true_iff. split.
             ++ apply Nat.eqb_eq. auto.
             ++ unfold same_dsc. apply Nat.eqb_eq. auto.
          -- destruct (proj2 N24 y Hy Hy2) as [_ Hb]. destruct (Hb e HeE') as [_ Hb2].
             apply Hb2. apply combo_In. split; [unfold chains; auto | reflexivity].
        * (* y then e *)
          intros c Hc. apply combo_In in Hc. destruct Hc as [[Hc1 [Hc2 Hc3]] ->].
          destruct (In_dec_edge y E3) as [Hy3 | Hy3].
          -- apply S4. apply in_map_iff. exists y. split; [reflexivity|].
             unfold ins. apply filter_In. split; [exact Hy3|]. apply andb_true_iff. split.
             ++ apply Nat.eqb_eq. auto.
             ++ unfold same_dsc. apply Nat.eqb_eq. auto.
          -- destruct (proj2 N4 y Hy Hy3) as [_ Hb]. destruct (Hb e HeE') as [Hb1 _].
             apply Hb1. apply combo_In. split; [unfold chains; auto | reflexivity].
      + apply (proj2 N04 x Hx). intros [<- | Hx']; [|contradiction].
        rewrite (proj2 (edge_eqb_eq e e) eq_refl) in Hxe. discriminate.
    - injection H as <-.
      assert (N02 : newclosed (e :: E) E2) by (eapply newclosed_trans; eauto).
      assert (HeE' : In e E2) by (apply (proj1 N02); now left).
      split; [|exact HeE'].
      split; [eapply incl_tran; [exact I0 | exact (proj1 N02)]|].
      intros x Hx Hn. destruct (edge_eqb x e) eqn:Hxe.
      + apply edge_eqb_eq in Hxe. subst x. split; [exact Hun2|].
        intros y Hy. split; intros c Hc; apply combo_In in Hc; destruct Hc as [[Hc1 [Hc2 Hc3]] _];
          unfold trans_e in Ht; congruence.
      + apply (proj2 N02 x Hx). intros [<- | Hx']; [|contradiction].
        rewrite (proj2 (edge_eqb_eq e e) eq_refl) in Hxe. discriminate.
  Qed.

  (* a closed graph stays closed when extended by add_rel *)
  Lemma closed_newclosed E E' : closed Sc E -> newclosed E E' -> closed Sc E'.
  Proof.
    intros HC [I N] x Hx. destruct (In_dec_edge x E) as [HxE | HxE].
    - destruct (HC x HxE) as [Hu Hb]. split; [eapply incl_tran; eauto|].
      intros y Hy. destruct (In_dec_edge y E) as [HyE | HyE].
      + eapply incl_tran; [apply (Hb y HyE) | exact I].
      + destruct (N y Hy HyE) as [_ Hby]. exact (proj2 (Hby x Hx)).
    - destruct (N x Hx HxE) as [Hu Hb]. split; [exact Hu|]. intros y Hy. exact (proj1 (Hb y Hy)).
  Qed.

  Lemma add_rel_closed n e E E' : add_rel n e E = Some E' -> closed Sc E ->
    closed Sc E' /\ incl E E' /\ In e E'.
  Proof.
    intros H HC. destruct (add_rel_post n e E E' H) as [N He]. split; [|split].
    - eapply closed_newclosed; eauto.
    - exact (proj1 N).
    - exact He.
  Qed.

  (* ---------------- whole histories --------------------------------------------------------- *)
  Lemma run_inv A n : forall es E E', fold_add (add_rel n) es E = Some E' ->
    closed Sc E -> (forall x, In x E -> closure A x) -> (forall e, In e es -> closure A e) ->
    closed Sc E' /\ (forall x, In x E' -> closure A x) /\ incl E E' /\ (forall e, In e es -> In e E').
  Proof.
    induction es as [|e es IHes]; intros E E' H HC HS Hes; simpl in H.
    - injection H as <-. split; [exact HC | split; [exact HS | split; [apply incl_refl | intros e []]]].
    - destruct (add_rel n e E) as [E1|] eqn:H1; [|discriminate].
      destruct (add_rel_closed _ _ _ _ H1 HC) as [HC1 [I1 He1]].
      assert (HS1 : forall x, In x E1 -> closure A x).
      { apply (add_rel_sound A n _ _ _ H1 HS). apply Hes. now left. }
      destruct (IHes E1 E' H HC1 HS1) as [HC' [HS' [I' Hes']]].
      { intros e' He'. apply Hes. now right. }
      split; [exact HC' | split; [exact HS' | split]].
      + eapply incl_tran; eauto.
      + intros e' [<- | He']; auto.
  Qed.

  Lemma closed_nil : closed Sc [].
  Proof. intros x []. Qed.

  (* C15: whatever the order (and repetition) of the assertions, the graph holds exactly their closure *)
  Theorem run_is_closure n A E : run Sc n A = Some E -> forall e, In e E <-> closure A e.
  Proof.
    unfold run. intros H.
    destruct (run_inv A n A [] E H closed_nil) as [HC [HS [_ HA]]].
    - intros x [].
    - intros e He. now apply cl_asserted.
    - intros e. split; [apply HS|]. apply (closed_contains_closure Sc A E HC). exact HA.
  Qed.

  Lemma closure_ext A B : (forall e, In e A <-> In e B) -> forall e, closure A e <-> closure B e.
  Proof.
    intros H e. split; apply closure_mono; intros x Hx; apply H; exact Hx.
  Qed.

  Corollary run_order_independent n m A B E E' :
    (forall e, In e A <-> In e B) -> run Sc n A = Some E -> run Sc m B = Some E' ->
    forall e, In e E <-> In e E'.
  Proof.
    intros HAB H1 H2 e. rewrite (run_is_closure n A E H1), (run_is_closure m B E' H2).
    apply closure_ext. exact HAB.
  Qed.

  (* ---------------- fuel ---------------------------------------------------------------------
     Inside a closed universe U that contains the assertions, every nested call inserts a relation of U
     that was not there, so the nesting depth is bounded by the number of relations still missing. *)
  Definition missing (U E : list edge) : nat := length (filter (fun u => negb (mem u E)) U).

  Lemma filter_len_le {B} (p q : B -> bool) l : (forall x, q x = true -> p x = true) ->
    length (filter q l) <= length (filter p l).
  Proof.
    intros H. induction l as [|a l IHl]; simpl; [lia|].
    destruct (q a) eqn:Hq.
    - rewrite (H a Hq). simpl. lia.
    - destruct (p a); simpl; lia.
  Qed.

  Lemma filter_len_lt {B} (p q : B -> bool) l a : (forall x, q x = true -> p x = true) ->
    In a l -> p a = true -> q a = false -> length (filter q l) < length (filter p l).
  Proof.
    intros H. induction l as [|b l IHl]; intros Ha Hp Hq; [destruct Ha|].
    simpl. destruct Ha as [-> | Ha].
    - rewrite Hp, Hq. simpl. pose proof (filter_len_le p q l H). lia.
    - specialize (IHl Ha Hp Hq). destruct (q b) eqn:Hqb.
      + rewrite (H b Hqb). simpl. lia.
      + destruct (p b); simpl; lia.
  Qed.

  Lemma filter_len_all {B} (p : B -> bool) l : length (filter p l) <= length l.
  Proof. induction l as [|a l IHl]; simpl; [lia|]. destruct (p a); simpl; lia. Qed.

  Lemma missing_mono U E E' : incl E E' -> missing U E' <= missing U E.
  Proof.
    intros I. unfold missing. apply filter_len_le. intros x Hx.
    apply negb_true_iff in Hx. apply negb_true_iff. apply mem_false_In. apply mem_false_In in Hx. auto.
  Qed.

  Lemma missing_cons U E e : In e U -> ~ In e E -> missing U (e :: E) < missing U E.
  Proof.
    intros HU Hn. unfold missing. apply filter_len_lt with (a := e); auto.
    - intros x Hx. apply negb_true_iff in Hx. apply negb_true_iff. apply mem_false_In.
      apply mem_false_In in Hx. intros Hc. apply Hx. now right.
    - apply negb_true_iff. now apply mem_false_In.
    - apply negb_false_iff. apply mem_In. now left.
  Qed.

  Section Fuel.
    Variable U : list edge.
    Hypothesis HU : closed Sc U.

    Lemma fold_fuel n es :
      (forall e E, In e U -> incl E U -> missing U E < n -> exists E', add_rel n e E = Some E' /\ incl E E' /\ incl E' U) ->
      forall E, incl es U -> incl E U -> missing U E < n ->
      exists E', fold_add (add_rel n) es E = Some E' /\ incl E E' /\ incl E' U.
    Proof.
      intros IH. induction es as [|e es IHes]; intros E Hes HE Hm; simpl.
      - exists E. split; [reflexivity|]. split; [apply incl_refl | exact HE].
      - destruct (IH e E (Hes e (or_introl eq_refl)) HE Hm) as [E1 [H1 [I1 U1]]]. rewrite H1.
        destruct (IHes E1) as [E' [H' [I' U']]].
        + intros x Hx. apply Hes. now right.
        + exact U1.
        + pose proof (missing_mono U E E1 I1). lia.
        + exists E'. split; [exact H'|]. split; [eapply incl_tran; eauto | exact U'].
    Qed.

    Lemma add_rel_fuel n : forall e E, In e U -> incl E U -> missing U E < n ->
      exists E', add_rel n e E = Some E' /\ incl E E' /\ incl E' U.
    Proof.
      induction n as [|n IH]; intros e E He HE Hm; [lia|]. simpl.
      destruct (mem e E) eqn:Hmem.
      { exists E. split; [reflexivity|]. split; [apply incl_refl | exact HE]. }
      apply mem_false_In in Hmem.
      assert (HE0 : incl (e :: E) U) by (intros x [<- | Hx]; auto).
      assert (Hm0 : missing U (e :: E) < n) by (pose proof (missing_cons U E e He Hmem); lia).
      destruct (HU e He) as [Hun Hbin].
      destruct (fold_fuel n (sup_of Sc e) IH (e :: E)) as [E1 [H1 [I1 U1]]]; auto.
      { intros x Hx. apply Hun. unfold ClosureSpec.unary. apply in_or_app. auto. }
      rewrite H1.
      assert (Hm1 : missing U E1 < n) by (pose proof (missing_mono U _ _ I1); lia).
      destruct (fold_fuel n (inv_of Sc e) IH E1) as [E2 [H2 [I2 U2]]]; auto.
      { intros x Hx. apply Hun. unfold ClosureSpec.unary. apply in_or_app. auto. }
      rewrite H2.
      assert (Hm2 : missing U E2 < n) by (pose proof (missing_mono U _ _ I2); lia).
      assert (I02 : incl E E2).
      { eapply incl_tran; [|exact I2]. eapply incl_tran; [|exact I1]. intros x Hx. now right. }
      destruct (trans_e Sc e) eqn:Ht.
      - destruct (fold_fuel n (map (fun e' => (esrc e, efld e, etgt e')) (outs Sc E2 e)) IH E2) as [E3 [H3 [I3 U3]]]; auto.
        { intros c Hc. apply in_map_iff in Hc. destruct Hc as [y [<- Hy]].
          unfold outs in Hy. apply filter_In in Hy. destruct Hy as [Hy Hc].
          apply andb_true_iff in Hc. destruct Hc as [Hc1 Hc2]. apply Nat.eqb_eq in Hc1.
          unfold same_dsc in Hc2. apply Nat.eqb_eq in Hc2.
          apply (Hbin y (U2 y Hy)). apply combo_In. split; [|reflexivity].
          unfold chains. unfold trans_e in Ht. auto. }
        rewrite H3.
        assert (Hm3 : missing U E3 < n) by (pose proof (missing_mono U _ _ I3); lia).
        destruct (fold_fuel n (map (fun e' => (esrc e', efld e', etgt e)) (ins Sc E3 e)) IH E3) as [E4 [H4 [I4 U4]]]; auto.
        { intros c Hc. apply in_map_iff in Hc. destruct Hc as [y [<- Hy]].
          unfold ins in Hy. apply filter_In in Hy. destruct Hy as [Hy Hc].
          apply andb_true_iff in Hc. destruct Hc as [Hc1 Hc2]. apply Nat.eqb_eq in Hc1.
          unfold same_dsc in Hc2. apply Nat.eqb_eq in Hc2.
          destruct (HU y (U3 y Hy)) as [_ Hby]. apply (Hby e He). apply combo_In. split; [|reflexivity].
          unfold chains. unfold trans_e in Ht. rewrite Hc2. auto. }
        exists E4. split; [exact H4|]. split; [|exact U4].
        eapply incl_tran; [exact I02|]. eapply incl_tran; eauto.
      - exists E2. split; [reflexivity|]. split; [exact I02 | exact U2].
    Qed.

    (* fuel above the size of any closed universe containing the assertions always suffices *)
    Theorem run_fuel n A : incl A U -> length U < n -> exists E, run Sc n A = Some E.
    Proof.
      intros HA Hn. unfold run.
      assert (Hall : forall E, missing U E < n).
      { intros E. unfold missing. pose proof (filter_len_all (fun u => negb (mem u E)) U). lia. }
      destruct (fold_fuel n A (fun e E He HE _ => add_rel_fuel n e E He HE (Hall E)) [] HA) as [E [H _]].
      - intros x [].
      - apply Hall.
      - exists E. exact H.
    Qed.
  End Fuel.

  (* with the executable closure as the universe *)
  Corollary run_fuel_closure n k A :
    closedb Sc (closure_fuel Sc k A) = true -> length (closure_fuel Sc k A) < n ->
    exists E, run Sc n A = Some E /\ forall e, In e E <-> In e (closure_fuel Sc k A).
  Proof.
    intros HC Hn.
    destruct (run_fuel (closure_fuel Sc k A) (proj1 (closedb_closed Sc _) HC) n A) as [E H]; auto.
    - apply closure_fuel_incl.
    - exists E. split; [exact H|]. intros e.
      rewrite (run_is_closure n A E H). symmetry. apply closure_fuel_correct. exact HC.
  Qed.
End Proofs.
