(* Onto/Container.v -- executable, code-faithful model of the write paths of a descriptor-managed collection field
   (PropertyDescriptor.__set__/__get__, MonitoredList, MonitoredSet at HEAD of /repo).

   State: the contents of the live monitored container, and the log of calls
   descriptor.add_relation_to_the_graph(owner, element) ("recorded"; each runs C15's add_to_graph).
   Aliasing is explicit: x.f = x.f and the augmented assignments hand the LIVE container to __set__.

   monitored_container.py / property_descriptor.py                         model
   ------------------------------------------------------------------     -----------------------------
   _add_item(v): v = _on_add(v)  [record] ; super().append/add(v)          add_item
   __set__(obj, value) (attr already monitored):                           desc_set
        values = make_list(value)     <- copy BEFORE clearing                (Live -> the current contents)
        attr._clear(); for v in values: attr._add_item(v)
   x.f += vs : t = x.f ; t = t.__iadd__(vs) = extend(vs), returns t ;      fold add_item ; desc_set Live
               x.f = t   (5f0198c: MonitoredList.__iadd__, MonitoredSet.__ior__)
   x.s |= vs : the same through __ior__ = update(vs)
   c = x.f ; c += vs : __iadd__ only                                        fold add_item
   append / add / update(it1, it2, ...): _add_item per element               add_item, folds
   extend(items): for item in list(items): _add_item(item)                  copy FIRST (items may be the list itself
                                                                           or a one-shot iterator), then fold add_item
   insert(i, v): list.insert ; _on_add(v)                                  py_insert ; record
   __setitem__(i, v): list.__setitem__ FIRST (IndexError before anything   py_setitem ; record only when stored
               is recorded) ; _on_add(v)
   __setitem__(slice, v): v = list(v) (drains a one-shot iterator once) ;  materialise ; py_setslice ; record EACH element
               list.__setitem__ ; _on_add(e) for e in v *)
From Coq Require Import List Bool Arith ZArith Lia.
From Krrood Require Import Onto.ContainerSpec.
Import ListNotations.

Record cst := { items : list elt; rec : list elt }.

Inductive value := Fresh (vs : list elt) | Live.

Definition add_item (k : kind) (s : cst) (x : elt) : cst :=
  {| items := match k with KList => items s ++ [x] | KSet => set_add x (items s) end;
     rec := rec s ++ [x] |}.

Definition desc_set (k : kind) (v : value) (s : cst) : cst :=
  let values := match v with Fresh vs => vs | Live => items s end in    (* make_list(value): a copy *)
  fold_left (add_item k) values {| items := []; rec := rec s |}.          (* _clear(), then re-add *)

(* before 5f0198c += / |= were the builtins: in place, no _on_add (kept for the regression lemma old_alias_inplace_unrecorded) *)
Definition builtin_iaug (k : kind) (vs : list elt) (s : cst) : cst :=
  {| items := match k with KList => items s ++ vs | KSet => set_union (items s) vs end; rec := rec s |}.

(* an iterable handed to extend / slice assignment, and what list(...) makes of it at that moment *)
Inductive iterable := OneShot (vs : list elt) | LiveIt.
Definition materialise (it : iterable) (s : cst) : list elt :=
  match it with OneShot vs => vs | LiveIt => items s end.

(* extend(items) with a generator: consumed ITEM BY ITEM (4de7ec8: only a list or tuple is copied first), so a generator that reads the
   field sees what was added so far *)
Definition extend_lazy_model (cands : list elt) (s : cst) : cst :=
  fold_left (fun s c => if memb c (items s) then s else add_item KList s c) cands s.

Definition step (k : kind) (o : op) (s : cst) : cst * bool :=
  match k, o with
  | _, Assign vs => (desc_set k (Fresh vs) s, false)
  | _, AssignSelf => (desc_set k Live s, false)
  | _, IAug vs =>               (* __iadd__ / __ior__ = extend / update (records the new elements), then __set__ with the live container *)
      (desc_set k Live (fold_left (add_item k) vs s), false)
  | KList, ExtendLazyNew cands => (extend_lazy_model cands s, false)
  | _, IAugAlias vs =>          (* the in-place operator through another reference: __iadd__ / __ior__ only, no __set__ follows *)
      (fold_left (add_item k) vs s, false)
  | KList, Append x => (add_item KList s x, false)
  | KList, Extend vs => (fold_left (add_item KList) vs s, false)
  | KList, Insert i x =>        (* list.insert FIRST, then _on_add *)
      ({| items := py_insert i x (items s); rec := rec s ++ [x] |}, false)
  | KList, SetItem i x =>       (* list.__setitem__ FIRST: a bad index raises IndexError before anything is recorded *)
      match py_setitem i x (items s) with
      | Some l' => ({| items := l'; rec := rec s ++ [x] |}, false)
      | None => (s, true)
      end
  | KList, SetSlice i j vs =>   (* value = list(value); list.__setitem__; then _on_add(v) for every element on its own *)
      ({| items := py_setslice i j vs (items s); rec := rec s ++ vs |}, false)
  | KList, SetSliceIter i j vs =>
      let values := materialise (OneShot vs) s in   (* list(value) drains the iterator exactly once; stored, then recorded element by element *)
      ({| items := py_setslice i j values (items s); rec := rec s ++ values |}, false)
  | KList, SetSliceView i j v =>
      let values := view_apply v (items s) in       (* list(value) drains the lazy view before the list is touched *)
      ({| items := py_setslice i j values (items s); rec := rec s ++ values |}, false)
  | KList, ExtendSelf =>
      let values := materialise LiveIt s in         (* list(items) with items the live list: a snapshot *)
      (fold_left (add_item KList) values s, false)
  | _, AssignView v =>          (* make_list(value) drains the lazy view BEFORE attr._clear(): it still sees the old contents *)
      (desc_set k (Fresh (view_apply v (items s))) s, false)
  | KSet, Add x => (add_item KSet s x, false)
  | KSet, Update vss => (fold_left (fun s vs => fold_left (add_item KSet) vs s) vss s, false)
  | _, _ => (s, false)
  end.

Fixpoint run (k : kind) (ops : list op) (s : cst) : list (list elt * bool) * cst :=
  match ops with
  | [] => ([], s)
  | o :: ops' => let r := step k o s in
                 let '(tr, fin) := run k ops' (fst r) in ((items (fst r), snd r) :: tr, fin)
  end.

(* contents given to the constructor: attr is not monitored yet -> a new monitored container is built, then the same
   copy / clear / re-add as any assignment *)
Definition init (k : kind) (vs : list elt) : cst := desc_set k (Fresh vs) {| items := []; rec := [] |}.

(* ---- the behaviour BEFORE commit 389dedc, kept for the regression lemmas of ContainerProofs.v ---------------

   old extend:  `for item in items: self._add_item(item)`; with items the list itself the iterator sees every element it
   appends, so position i always exists and the loop never ends. *)
Fixpoint extend_live (fuel : nat) (i : nat) (s : cst) : option cst :=
  match fuel with
  | O => None
  | S n => match nth_error (items s) i with
           | None => Some s
           | Some x => extend_live n (S i) (add_item KList s x)
           end
  end.

(* old slice assignment of a generator: _on_add(value) -> make_set(value) drained the iterator, list.__setitem__ got nothing *)
Definition setslice_gen_old (i j : Z) (vs : list elt) (s : cst) : cst :=
  {| items := py_setslice i j [] (items s); rec := rec s ++ vs |}.

(* old slice assignment (before b78c5e4): the whole list went to _on_add; add_relation_to_the_graph iterated make_set(list), which
   keeps ONE object per ==-class (the first), while the symbol graph identifies objects by identity.
   Elements are IDENTITIES; [cls x] is the ==-class of x. *)
Section OldSliceRecording.
Variable cls : elt -> nat.
Fixpoint make_set_keep (seen : list nat) (vs : list elt) : list elt :=
  match vs with
  | [] => []
  | x :: r => if existsb (Nat.eqb (cls x)) seen then make_set_keep seen r
              else x :: make_set_keep (cls x :: seen) r
  end.
Definition setslice_whole_old (i j : Z) (vs : list elt) (s : cst) : cst :=
  {| items := py_setslice i j vs (items s); rec := rec s ++ make_set_keep [] vs |}.
End OldSliceRecording.

(* ---- a constructor handed ANOTHER object's managed container:  q = C(f = p.f) ------------------------------------
   _ensure_monitored_type copies a container that is monitored for another owner like any other collection (6f674bd): q gets its
   own container filled from p's contents, p's container is untouched. *)
Definition ctor_copy (p : cst) : cst := init KList (items p).

(* before 6f674bd an already monitored value was adopted as is: p and q held ONE container; it was cleared and re-filled with
   owner q, and whoever read the field last was the owner that recorded (regression lemma old_ctor_alias_unrecorded) *)
Record cst2 := { shared : list elt; recp : list elt; recq : list elt }.
Definition ctor_alias (s : cst) : cst2 := {| shared := items s; recp := rec s; recq := items s |}.
Definition append_q (x : elt) (t : cst2) : cst2 := {| shared := shared t ++ [x]; recp := recp t; recq := recq t ++ [x] |}.

(* ---- item assignment on a field that inference writes back into (transitive / symmetric property) ------------------------
   The relations inferred from (owner, f, x) have the owner as source and f as field, so their targets [inf] are appended to the very
   list that is written.  Since cd6cc17 the value is stored first and recorded afterwards: the index means what Python says, and
   the inferred elements that are not there yet follow. *)
Definition setitem_then_infer (i : Z) (x : elt) (inf : list elt) (l : list elt) : option (list elt) :=
  match py_setitem i x l with
  | Some l' => Some (l' ++ filter (fun e => negb (memb e l')) inf)
  | None => None
  end.
(* before cd6cc17 _on_add ran first: the inferred elements were appended before the builtin resolved a negative index *)
Definition setitem_grown (i : Z) (x : elt) (inf : list elt) (l : list elt) : option (list elt) := py_setitem i x (l ++ inf).

(* ---- a shallow copy of the owner:  q = copy.copy(p) -------------------------------------------------------------------------
   The copy bypasses __set__: p and q hold ONE monitored container (plain Python shares the list as well).  The container records for
   the owner it is bound to: __get__ (every x.f.<method>(...), x.f[i] = v, x.f += ...) re-binds it to the reader, and since e598545
   __set__ re-binds an already monitored attribute to the object it is called on, so a write through either owner is recorded for
   that owner.  (cstep_old: before e598545 plain assignment recorded for the owner bound last.) *)
Inductive who := WP | WQ.
Inductive cop :=
| CRead (w : who)                       (* w.f is read *)
| CAppend (w : who) (x : elt)           (* w.f.append(x) *)
| CAssign (w : who) (vs : list elt).    (* w.f = [...] *)
Record cshared := { sitems : list elt; recs : who -> list elt; bound : who }.
Definition rec_for (w : who) (xs : list elt) (s : cshared) : who -> list elt :=
  fun w' => match w, w' with WP, WP | WQ, WQ => recs s w' ++ xs | _, _ => recs s w' end.
Definition cstep (o : cop) (s : cshared) : cshared :=
  match o with
  | CRead w => {| sitems := sitems s; recs := recs s; bound := w |}
  | CAppend w x => {| sitems := sitems s ++ [x]; recs := rec_for w [x] s; bound := w |}
  | CAssign w vs => {| sitems := vs; recs := rec_for w vs s; bound := w |}
  end.
Definition cstep_old (o : cop) (s : cshared) : cshared :=
  match o with
  | CAssign w vs => {| sitems := vs; recs := rec_for (bound s) vs s; bound := bound s |}
  | _ => cstep o s
  end.
Definition clone_init (vs0 : list elt) : cshared :=
  {| sitems := vs0; recs := fun w => match w with WP => vs0 | WQ => [] end; bound := WP |}.

(* before 4de7ec8 MonitoredList.extend copied every argument first (`for item in list(items)`), so a generator such as
   (v for v in cands if v not in x.f) was evaluated completely against the OLD contents (regression lemma old_extend_copy_first) *)
Definition extend_copy_first_new (cands : list elt) (s : cst) : cst :=
  fold_left (add_item KList) (filter (fun c => negb (memb c (items s))) cands) s.

From Krrood Require Import Base.Sx.
Definition model_out (k : kind) (ops : list op) (vs0 : list elt) : sx :=
  let '(tr, fin) := run k ops (init k vs0) in SL [trace_sx tr; elts_sx (rec fin)].
(* q = C(f = p.f); q.f.append(x):  p's contents and record, q's contents and record *)
Definition ctor_copy_out (vs0 : list elt) (x : elt) : sx :=
  let p := init KList vs0 in
  let q := add_item KList (ctor_copy p) x in
  SL [elts_sx (items p); elts_sx (rec p); elts_sx (items q); elts_sx (rec q)].
Definition setitem_then_infer_out (i : Z) (x : elt) (inf l : list elt) : sx :=
  match setitem_then_infer i x inf l with Some l' => elts_sx l' | None => SZ (-1) end.
Definition clone_out (vs0 : list elt) (ops : list cop) : sx :=
  let s := fold_left (fun s o => cstep o s) ops (clone_init vs0) in
  SL [elts_sx (sitems s); elts_sx (recs s WP); elts_sx (recs s WQ)].
