(* Invariant of the whole machine over arbitrary admissible histories, and what follows from it:
   C13 (queries), C14 (relation assertions), C20 (registry containers do not retain or grow). *)
From Coq Require Import List Arith Bool PeanoNat Lia Permutation.
From Krrood Require Import Onto.RegistrySpec Onto.Registry Onto.RegistryLemmas Onto.RegistryInv.
Import ListNotations.

Ltac splits := match goal with |- _ /\ _ => split; [|splits] | _ => idtac end.

(* ------------------------------------------------------------------ ensure_wrapped_instance *)
Lemma find_obj L o x : find (fun y => o_id y =? o) L = Some x -> In x L /\ o_id x = o.
Proof. intros H. apply find_some in H. now rewrite Nat.eqb_eq in H. Qed.

Lemma ensure_spec L r o i :
  RegInv L r -> WorldOk L -> adm_ensure L r o i = true ->
  exists w x, snd (ensure L r o i) = Some w /\ In x L /\ o_id x = o /\ w_obj w = o /\
            In w (nodes (fst (ensure L r o i))) /\
            RegInv L (fst (ensure L r o i)) /\
            (forall w', In w' (wl (fst (ensure L r o i))) -> In w' (wl r) \/ w' = w) /\
            (forall w', In w' (nodes r) -> In w' (nodes (fst (ensure L r o i)))) /\
            edges (fst (ensure L r o i)) = edges r /\
            ((fst (ensure L r o i) = r) \/
             (fst (ensure L r o i) = add_node r w /\ idx_free r (w_idx w) = true /\ ~ In o (map w_obj (wl r)))).
Proof.
  intros Hr Hw. unfold adm_ensure, ensure. destruct (find (fun y => o_id y =? o) L) as [x|] eqn:F; [|discriminate].
  apply find_obj in F. destruct F as [Hx Ho]. destruct (get (o_pyid x) (by_id r)) as [w|] eqn:G; intros Ha; simpl.
  - apply get_In in G. exists w, x. destruct (i_byid_wl _ _ Hr _ _ G) as [A B].
    splits; auto.
    + rewrite <- Ho. eapply i_byid_live; eauto.
    + now apply Hr.
  - exists (W o (o_cls x) (o_pyid x) i), x.
    assert (Hfresh : ~ In o (map w_obj (wl r))).
    { intro Hin. apply in_map_iff in Hin. destruct Hin as [w' [E Hw']]. rewrite <- Ho in E.
      destruct (i_wl_live _ _ Hr _ _ Hw' Hx E) as [_ [_ C]]. eapply get_None; eauto. }
    splits; auto.
    + rewrite in_app_iff. simpl. auto.
    + rewrite <- Ho. apply add_node_inv with (L := L); auto.
      * intros y. split; [auto|intros [H0 | ->]; auto].
      * now rewrite Ho.
    + intros w'. rewrite in_app_iff. simpl. intros [?|[<-|[]]]; auto.
    + intros w'. rewrite in_app_iff. auto.
Qed.

Section Machine.
  Variable children : cls -> list cls.
  Variable fuel : nat.
  Notation step := (step children fuel).
  Notation run := (run children fuel).
  Notation adm_run := (adm_run children fuel).
  Notation instances := (instances children fuel).

  Record Inv (s : st) : Prop := {
    inv_reg : RegInv (live s) (g s);
    inv_world : WorldOk (live s);
    inv_next_live : forall x, In x (live s) -> o_id x < next s;
    inv_next_wl : forall w, In w (wl (g s)) -> w_obj w < next s }.

  Lemma Inv_init : Inv init.
  Proof. constructor; simpl; try tauto. - apply RegInv_empty. - constructor; constructor. Qed.

  Lemma WorldOk_filter p L : WorldOk L -> WorldOk (filter p L).
  Proof. intros [A B]. constructor; now apply NoDup_map_filter. Qed.

  Lemma sweep_wl_sub L r w : RegInv L r -> In w (wl (sweep L r)) -> In w (wl r).
  Proof.
    intros Hr Hw. apply Hr. eapply sweep_nodes_sub. apply (i_nodes_wl _ _ (sweep_inv _ _ Hr)). exact Hw.
  Qed.

  Lemma Inv_sweep s u v es : Inv s -> Inv (ST (live s) u (sweep (live s) (g s)) v es (next s)).
  Proof.
    intros [A B C D]. constructor; simpl; auto.
    - now apply sweep_inv.
    - intros w Hw. apply D. eapply sweep_wl_sub; eauto.
  Qed.

  (* fewer instances exist (some were reclaimed), the graph is the same or was swept *)
  Lemma Inv_sub s p r' u v es :
    Inv s -> RegInv (live s) r' -> (forall w, In w (wl r') -> In w (wl (g s))) ->
    Inv (ST (filter p (live s)) u r' v es (next s)).
  Proof.
    intros [A B C D] Hr Hw. constructor; simpl; auto.
    - eapply RegInv_sub; [|exact Hr]. intros y Hy. apply filter_In in Hy. tauto.
    - now apply WorldOk_filter.
    - intros y Hy. apply filter_In in Hy. apply C. tauto.
  Qed.

  Lemma relate_spec L r a f b ia ib :
    RegInv L r -> WorldOk L ->
    adm_ensure L r a ia && adm_ensure L (fst (ensure L r a ia)) b ib = true ->
    exists r' nw, relate L r a f b ia ib = (r', Some nw) /\ RegInv L r' /\
      (forall w', In w' (wl r') -> In w' (wl r) \/ mem_obj (w_obj w') L = true) /\
      (forall w', In w' (wl r) -> In w' (wl r')).
  Proof.
    intros Hr Hw Ha. apply andb_true_iff in Ha. destruct Ha as [Ha Hb].
    destruct (ensure_spec _ _ _ _ Hr Hw Ha) as [wa [xa [E1 [Hxa [Hoa [Hwa [Hna [Hr1 [Hs1 [Hk1 _]]]]]]]]]].
    destruct (ensure_spec _ _ _ _ Hr1 Hw Hb) as [wb [xb [E2 [Hxb [Hob [Hwb [Hnb [Hr2 [Hs2 [Hk2 _]]]]]]]]]].
    unfold relate. destruct (ensure L r a ia) as [r1 oa] eqn:X1. simpl in *. subst oa.
    destruct (ensure L r1 b ib) as [r2 ob] eqn:X2. simpl in *. subst ob.
    destruct (add_relation r2 (w_idx wa, w_idx wb, f)) as [r3 nw] eqn:X3.
    exists r3, nw. split; auto.
    assert (r3 = fst (add_relation r2 (w_idx wa, w_idx wb, f))) by now rewrite X3. subst r3. splits.
    - apply add_relation_inv; auto. split; apply in_map; auto.
    - intros w' Hw'. assert (In w' (wl r2)).
      { revert Hw'. unfold add_relation. destruct (existsb _ _); simpl; auto. }
      destruct (Hs2 _ H) as [H1| ->].
      + destruct (Hs1 _ H1) as [?| ->]; auto. right. apply mem_obj_true. exists xa. split; auto. congruence.
      + right. apply mem_obj_true. exists xb. split; auto. congruence.
    - intros w' Hw'. assert (In w' (wl r2)).
      { apply (i_nodes_wl _ _ Hr) in Hw'. apply Hk1, Hk2 in Hw'. now apply (i_nodes_wl _ _ Hr2) in Hw'. }
      revert H. unfold add_relation. destruct (existsb _ _); simpl; auto.
  Qed.

  Lemma step_Inv s o : Inv s -> adm s o = true -> Inv (fst (step s o)).
  Proof.
    intros HI Ha. destruct HI as [A B C D]. destruct o as [c p i|x| |T|T|T|k|k|n y|n|a f b ia ib|]; simpl in *.
    - (* New *)
      apply andb_true_iff in Ha. destruct Ha as [Hp Hi].
      assert (HW : WorldOk (live s ++ [O (next s) c p])).
      { destruct B as [B1 B2]. constructor; rewrite map_app; simpl; apply NoDup_snoc; auto.
        - intro Hin. apply in_map_iff in Hin. destruct Hin as [y [E Hy]]. apply C in Hy. lia.
        - intro Hin. apply in_map_iff in Hin. destruct Hin as [y [E Hy]].
          unfold pyid_free in Hp. apply negb_true_iff in Hp.
          assert (existsb (fun x => o_pyid x =? p) (live s) = true); [|congruence].
          apply existsb_exists. exists y. split; auto. now apply Nat.eqb_eq. }
      constructor; simpl; auto.
      + apply (add_node_inv (live s) (live s ++ [O (next s) c p]) (g s) (O (next s) c p) i); auto.
        * intros y. rewrite in_app_iff. simpl. intuition.
        * simpl. intro Hin. apply in_map_iff in Hin. destruct Hin as [w [E Hw]]. apply D in Hw. lia.
      + intros y Hy. apply in_app_iff in Hy. destruct Hy as [Hy|[<-|[]]]; [apply C in Hy; lia|simpl; lia].
      + intros w Hw. apply in_app_iff in Hw. destruct Hw as [Hw|[<-|[]]]; [apply D in Hw; lia|simpl; lia].
    - (* Drop *)
      destruct (pinned (evals s) x); simpl; [constructor; simpl; auto|].
      apply (Inv_sub s); auto. constructor; auto.
    - now apply Inv_sweep.
    - now apply Inv_sweep.
    - now apply Inv_sweep.
    - constructor; simpl; auto.
    - destruct (nth_error (vars s) k); simpl; [now apply Inv_sweep|constructor; auto].
    - destruct (nth_error (vars s) k); simpl; constructor; auto.
    - (* NextV *)
      assert (HI : Inv s) by (constructor; auto).
      destruct (nth_error (evals s) n) as [[e|]|]; simpl; auto.
      destruct (e_stale e); simpl; auto.
      set (r := if e_started e then g s else sweep (live s) (g s)).
      assert (Hr : RegInv (live s) r) by (unfold r; destruct (e_started e); auto; now apply sweep_inv).
      assert (Hw : forall w, In w (wl r) -> In w (wl (g s))).
      { unfold r. destruct (e_started e); auto. intros w. now apply sweep_wl_sub. }
      destruct (pull (live s) r _) as [[[v cur] cs]|]; simpl.
      + constructor; simpl; auto.
      + unfold release. apply (Inv_sub s); auto.
    - (* CloseV *)
      destruct (nth_error (evals s) n); simpl; [|constructor; auto].
      unfold release. apply (Inv_sub s); auto. constructor; auto.
    - (* Relate *)
      destruct (relate_spec (live s) (g s) a f b ia ib A B Ha) as [r' [nw [E [Hr' [Hs _]]]]].
      rewrite E. simpl. constructor; simpl; auto.
      intros w Hw. destruct (Hs _ Hw) as [H|H]; auto.
      apply mem_obj_true in H. destruct H as [y [Hy Ey]]. rewrite <- Ey. auto.
    - constructor; simpl; auto; [apply RegInv_empty|tauto].
  Qed.

  Lemma run_Inv : forall h s, Inv s -> adm_run s h = true -> Inv (fst (run s h)).
  Proof.
    induction h as [|o h IH]; simpl; intros s HI Ha; auto.
    apply andb_true_iff in Ha. destruct Ha as [Ha Hr].
    destruct (step s o) as [s1 x] eqn:E. simpl in Hr.
    assert (Inv s1) by (replace s1 with (fst (step s o)) by (now rewrite E); now apply step_Inv).
    specialize (IH s1 H Hr). destruct (run s1 h) as [s2 xs]. simpl in *. auto.
  Qed.

  (* RegInv holds in every reachable state, for ANY admissible choice of addresses and node indices *)
  Theorem reach_Inv h : adm_run init h = true -> Inv (fst (run init h)).
  Proof. apply run_Inv, Inv_init. Qed.
End Machine.
