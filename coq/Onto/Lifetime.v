(* C20: what krrood holds on to.  (1) the registry containers after a sweep have exactly one entry per existing
   instance and are empty once every instance is gone; (2) a reference-holding abstraction of the process: the
   SymbolGraph reaches instances only through weak references, the expression table reaches every instance a cached
   domain has seen through strong ones. *)
From Coq Require Import List Arith Bool PeanoNat Lia Permutation.
From Krrood Require Import Onto.RegistrySpec Onto.Registry Onto.RegistryLemmas Onto.RegistryInv Onto.RegistryProofs
  Onto.RegistryQuery.
Import ListNotations.

(* ------------------------------------------------------------------ container sizes *)
Lemma NoDup_map_NoDup {A B} (f : A -> B) l : NoDup (map f l) -> NoDup l.
Proof.
  induction l as [|a l IH]; simpl; intros H; constructor; inversion H; subst; auto.
  intro Hin. apply H2. now apply in_map.
Qed.

Lemma byid_values_NoDup (m : list (pyid * wrapper)) :
  NoDup (map fst m) -> (forall p w, In (p, w) m -> w_pyid w = p) -> NoDup (map snd m).
Proof.
  induction m as [|[p w] m IH]; simpl; intros Hnd Hk; constructor; inversion Hnd; subst.
  - intro Hin. apply in_map_iff in Hin. destruct Hin as [[p' w'] [E Hin]]. simpl in E. subst w'.
    apply H1. apply in_map_iff. exists (p', w). split; auto. simpl.
    rewrite <- (Hk p' w) by auto. apply Hk. auto.
  - apply IH; auto.
Qed.

(* after a sweep: one node, one per-class entry and one id entry per existing (wrapped) instance *)
Theorem swept_sizes L r :
  RegInv L r -> WorldOk L -> swept L r -> AllReg L r ->
  length (nodes r) = length L /\ length (wl r) = length L /\ length (by_id r) = length L /\
  length (rel_index r) = length (edges r).
Proof.
  intros Hr Hw Hs Ha.
  assert (P4 : Permutation (rel_index r) (edges r)).
  { apply NoDup_Permutation; [apply Hr|apply Hr|apply Hr]. }
  assert (P1 : Permutation (map w_obj (wl r)) (map o_id L)).
  { apply NoDup_Permutation; [apply Hr|apply Hw|]. intros o. rewrite !in_map_iff. split.
    - intros [w [E Hin]]. assert (M : mem_obj (w_obj w) L = true) by (apply Hs; now apply Hr).
      apply mem_obj_true in M. destruct M as [x [Hx Ex]]. exists x. split; auto. congruence.
    - intros [x [E Hx]]. destruct (Ha _ Hx) as [w [Hw' Ew]]. exists w. split; auto. congruence. }
  assert (E1 : length (wl r) = length L).
  { apply Permutation_length in P1. now rewrite !map_length in P1. }
  assert (P2 : Permutation (nodes r) (wl r)).
  { apply NoDup_Permutation; [eapply NoDup_map_NoDup; apply Hr|eapply NoDup_map_NoDup; apply Hr|apply Hr]. }
  assert (P3 : Permutation (map snd (by_id r)) (wl r)).
  { apply NoDup_Permutation.
    - apply byid_values_NoDup; [apply Hr|]. intros p w Hin. now destruct (i_byid_wl _ _ Hr _ _ Hin).
    - eapply NoDup_map_NoDup; apply Hr.
    - intros w. rewrite in_map_iff. split.
      + intros [[p w'] [E Hin]]. simpl in E. subst. now destruct (i_byid_wl _ _ Hr _ _ Hin).
      + intros Hin. assert (M : mem_obj (w_obj w) L = true) by (apply Hs; now apply Hr).
        apply mem_obj_true in M. destruct M as [x [Hx Ex]].
        destruct (i_wl_live _ _ Hr _ _ Hin Hx (eq_sym Ex)) as [_ [_ C]]. exists (o_pyid x, w). auto. }
  apply Permutation_length in P2, P3, P4. rewrite map_length in P3. repeat split; congruence.
Qed.

(* ... and when nothing exists any more, nothing is left behind *)
Theorem swept_empty r : RegInv [] r -> swept [] r -> r = empty_reg.
Proof.
  intros Hr Hs.
  assert (N : nodes r = []).
  { destruct (nodes r) as [|w l] eqn:E; auto. specialize (Hs w). rewrite E in Hs. simpl in Hs. discriminate Hs; auto. }
  assert (Wl : wl r = []).
  { destruct (wl r) as [|w l] eqn:E; auto. assert (In w (nodes r)) by (apply Hr; rewrite E; simpl; auto).
    rewrite N in H. destruct H. }
  assert (B : by_id r = []).
  { destruct (by_id r) as [|[p w] l] eqn:E; auto. destruct (i_byid_wl _ _ Hr p w) as [H _]; [rewrite E; simpl; auto|].
    rewrite Wl in H. destruct H. }
  assert (Ed : edges r = []).
  { destruct (edges r) as [|[[s t] f] l] eqn:E; auto. destruct (i_edges_nodes _ _ Hr s t f) as [H _]; [rewrite E; simpl; auto|].
    rewrite N in H. destruct H. }
  assert (Ri : rel_index r = []).
  { destruct (rel_index r) as [|e l] eqn:E; auto. assert (In e (edges r)) by (apply Hr; rewrite E; simpl; auto).
    rewrite Ed in H. destruct H. }
  destruct r; simpl in *; subst; reflexivity.
Qed.

(* ------------------------------------------------------------------ who references what *)
Inductive hnode := HSymbolGraph | HExprTable | HProgram | HWrapper (o : obj) | HVar (k : nat) | HObj (o : obj).
Inductive strength := Strong | Weak.
Definition href := (hnode * strength * hnode)%type.

Fixpoint var_refs (k : nat) (vs : list (cls * vstate)) : list href :=
  match vs with
  | [] => []
  | v :: vs' => (HExprTable, Strong, HVar k) :: map (fun o => (HVar k, Strong, HObj o)) (cache_of v) ++ var_refs (S k) vs'
  end.

Definition refs (s : st) : list href :=
  map (fun w => (HSymbolGraph, Strong, HWrapper (w_obj w))) (nodes (g s) ++ wl (g s) ++ map snd (by_id (g s)))
  ++ map (fun w => (HWrapper (w_obj w), Weak, HObj (w_obj w))) (nodes (g s) ++ wl (g s) ++ map snd (by_id (g s)))
  ++ var_refs 0 (vars s)
  ++ map (fun o => (HProgram, Strong, HObj o)) (user s).

Inductive sreach (E : list href) : hnode -> hnode -> Prop :=
| sr_refl a : sreach E a a
| sr_step a b c : In (a, Strong, b) E -> sreach E b c -> sreach E a c.

Lemma var_refs_shape vs : forall k a st b, In (a, st, b) (var_refs k vs) ->
  (a = HExprTable /\ exists j, b = HVar j) \/ (exists j o, a = HVar j /\ b = HObj o).
Proof.
  induction vs as [|v vs IH]; simpl; intros k a st b Hin; [tauto|].
  rewrite in_app_iff, in_map_iff in Hin. destruct Hin as [E|[[u [E _]]|Hin]].
  - inversion E; subst. left. eauto.
  - inversion E; subst. right. eauto.
  - eapply IH; eauto.
Qed.

Lemma refs_from_graph s b : In (HSymbolGraph, Strong, b) (refs s) -> exists o, b = HWrapper o.
Proof.
  unfold refs. rewrite !in_app_iff, !in_map_iff.
  intros [[w [E _]]|[[w [E _]]|[Hin|[u [E _]]]]]; try (inversion E; eauto; fail).
  apply var_refs_shape in Hin. destruct Hin as [[E _]|[j [o [E _]]]]; discriminate.
Qed.

Lemma refs_from_wrapper s o b : ~ In (HWrapper o, Strong, b) (refs s).
Proof.
  unfold refs. rewrite !in_app_iff, !in_map_iff.
  intros [[w [E _]]|[[w [E _]]|[Hin|[u [E _]]]]]; try discriminate.
  apply var_refs_shape in Hin. destruct Hin as [[E _]|[j [o' [E _]]]]; discriminate.
Qed.

(* the SymbolGraph never keeps an instance alive: every path from it ends at a wrapper *)
Theorem registry_holds_nothing s o : ~ sreach (refs s) HSymbolGraph (HObj o).
Proof.
  intro H. inversion H as [|a b c Hin Hr]; subst.
  apply refs_from_graph in Hin. destruct Hin as [o' ->].
  inversion Hr as [|a b c Hin2 _]; subst. eapply refs_from_wrapper; eauto.
Qed.

(* the expression table keeps alive exactly what some cached domain contains *)
Lemma var_refs_strong k vs o : pinned vs o = true -> exists j, In (HExprTable, Strong, HVar j) (var_refs k vs) /\ In (HVar j, Strong, HObj o) (var_refs k vs).
Proof.
  revert k. induction vs as [|v vs IH]; simpl; intros k H; [discriminate|].
  apply orb_true_iff in H. destruct H as [H|H].
  - exists k. split; auto. right. rewrite in_app_iff. left. apply in_map_iff. exists o. split; auto.
    apply existsb_exists in H. destruct H as [y [Hy E]]. apply Nat.eqb_eq in E. now subst.
  - destruct (IH (S k) H) as [j [A B]]. exists j. split; right; rewrite in_app_iff; auto.
Qed.

Theorem cache_pins s o : pinned (vars s) o = true -> sreach (refs s) HExprTable (HObj o).
Proof.
  intros H. destruct (var_refs_strong 0 _ _ H) as [j [A B]].
  apply sr_step with (b := HVar j); [unfold refs; rewrite !in_app_iff; auto|].
  apply sr_step with (b := HObj o); [unfold refs; rewrite !in_app_iff; auto|]. constructor.
Qed.

(* ------------------------------------------------------------------ over histories *)
Section Life.
  Variable children : cls -> list cls.
  Variable fuel : nat.
  Notation step := (step children fuel).
  Notation run := (run children fuel).
  Notation adm_run := (adm_run children fuel).

  (* every instance that still exists is referenced by the program or by a cached domain: nothing else holds it *)
  Definition Accounted (s : st) : Prop :=
    forall x, In x (live s) -> In (o_id x) (user s) \/ pinned (vars s) (o_id x) = true.

  Lemma pinned_app vs v o : pinned vs o = true -> pinned (vs ++ [v]) o = true.
  Proof. unfold pinned. rewrite existsb_app. intros H. apply orb_true_iff. left. exact H. Qed.

  Lemma pinned_set_nth o v : forall vs k old, nth_error vs k = Some old -> cache_of old = [] ->
    pinned vs o = true -> pinned (set_nth k v vs) o = true.
  Proof.
    induction vs as [|a vs IH]; intros k old Hn Hc Hp; [destruct k; discriminate|].
    destruct k as [|k]; simpl in *.
    - inversion Hn; subst a. rewrite Hc in Hp. simpl in Hp. rewrite Hp. apply orb_true_r.
    - apply orb_true_iff in Hp. apply orb_true_iff. destruct Hp as [Hp|Hp]; auto. right. eapply IH; eauto.
  Qed.

  Lemma pinned_clear vs o :
    pinned (map (fun v : cls * vstate => match snd v with VPending => (fst v, VStale) | _ => v end) vs) o = pinned vs o.
  Proof.
    induction vs as [|[T [| |l]] vs IH]; simpl in *; auto; now rewrite IH.
  Qed.

  (* declaring a domain-less variable reads nothing and holds nothing *)
  Lemma declare_holds_nothing s T o :
    live (fst (step s (DeclV T))) = live s /\ user (fst (step s (DeclV T))) = user s /\ g (fst (step s (DeclV T))) = g s /\
    pinned (vars (fst (step s (DeclV T)))) o = pinned (vars s) o.
  Proof.
    simpl. repeat split. unfold pinned. rewrite existsb_app. simpl. now rewrite !orb_false_r.
  Qed.

  (* declare-and-evaluate at once (QueryE) is declare followed by the first evaluation *)
  Lemma fused_is_declare_eval s T :
    snd (step s (QueryE T)) = snd (step (fst (step s (DeclV T))) (EvalV (length (vars s)))) /\
    live (fst (step s (QueryE T))) = live (fst (step (fst (step s (DeclV T))) (EvalV (length (vars s))))) /\
    g (fst (step s (QueryE T))) = g (fst (step (fst (step s (DeclV T))) (EvalV (length (vars s))))).
  Proof.
    simpl. rewrite nth_error_app2 by auto. rewrite Nat.sub_diag. simpl. auto.
  Qed.

  Lemma step_Accounted s o : Accounted s -> Accounted (fst (step s o)).
  Proof.
    intros HA. unfold Accounted in *. destruct o as [c p i|x| |T|T|T|k|a f b ia ib|]; simpl; auto.
    - intros y Hy. apply in_app_iff in Hy. rewrite in_app_iff. destruct Hy as [Hy|[<-|[]]]; simpl; auto.
      destruct (HA _ Hy); auto.
    - destruct (pinned (vars s) x) eqn:P; simpl; intros y Hy.
      + destruct (HA _ Hy) as [H|H]; auto. destruct (Nat.eq_dec (o_id y) x) as [->|N]; auto.
        left. apply filter_In. split; auto. apply negb_true_iff, Nat.eqb_neq. auto.
      + apply filter_In in Hy. destruct Hy as [Hy N]. apply negb_true_iff, Nat.eqb_neq in N.
        destruct (HA _ Hy) as [H|H]; auto. left. apply filter_In. split; auto. apply negb_true_iff, Nat.eqb_neq. auto.
    - intros y Hy. simpl in Hy. destruct (HA _ Hy); auto. right. now apply pinned_app.
    - intros y Hy. simpl in Hy. destruct (HA _ Hy); auto. right. now apply pinned_app.
    - destruct (nth_error (vars s) k) as [[T [| |l]]|] eqn:E; simpl; auto.
      intros y Hy. destruct (HA _ Hy); auto. right. eapply pinned_set_nth; eauto.
    - destruct (relate _ _ _ _ _ _ _) as [r [nw|]]; simpl; auto.
    - intros y Hy. rewrite pinned_clear. auto.
  Qed.

  Theorem run_Accounted : forall h s, Accounted s -> Accounted (fst (run s h)).
  Proof.
    induction h as [|o h IH]; simpl; intros s HA; auto.
    assert (H := step_Accounted s o HA). destruct (step s o) as [s1 x]. simpl in *.
    specialize (IH s1 H). destruct (run s1 h) as [s2 xs]. auto.
  Qed.

  (* as long as no EQL query has cached a domain, dropping the last reference reclaims the instance *)
  Theorem drop_reclaims h o :
    no_eql h = true -> ~ In o (map o_id (live (fst (step (fst (run init h)) (Drop o))))).
  Proof.
    intros Hq. assert (H := live_is_user children fuel (h ++ [Drop o])).
    assert (R : forall h s, fst (run s (h ++ [Drop o])) = fst (step (fst (run s h)) (Drop o))).
    { clear. induction h as [|a h IH]; intros s.
      - cbn [app Registry.run fst]. destruct (step s (Drop o)). reflexivity.
      - cbn [app Registry.run]. destruct (step s a) as [s1 x]. specialize (IH s1).
        destruct (run s1 (h ++ [Drop o])), (run s1 h). cbn [fst] in *. exact IH. }
    rewrite R in H. rewrite H.
    - simpl. destruct (pinned _ o); simpl; rewrite filter_In, negb_true_iff, Nat.eqb_neq; tauto.
    - unfold no_eql in *. rewrite forallb_app, Hq. reflexivity.
  Qed.

  (* registry containers after create / relate / registry-query / drop-everything / sweep are empty again *)
  Theorem no_growth h :
    adm_run init h = true -> live (fst (run init h)) = [] ->
    g (fst (step (fst (run init h)) Sweep)) = empty_reg.
  Proof.
    intros Ha Hl. assert (HI := reach_Inv children fuel h Ha). simpl. apply swept_empty.
    - rewrite <- Hl. apply sweep_inv, HI.
    - rewrite <- Hl. apply sweep_swept.
  Qed.
End Life.
