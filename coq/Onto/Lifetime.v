(* C20: what krrood holds on to.  (1) the registry containers after a sweep have exactly one entry per existing
   instance and are empty once every instance is gone; (2) a reference-holding abstraction of the process: the
   SymbolGraph reaches instances only through weak references, the expression table reaches every instance a cached
   domain has seen through strong ones. *)
From Coq Require Import List Arith Bool PeanoNat Lia Permutation.
From Krrood Require Import Onto.RegistrySpec Onto.Registry Onto.RegistryLemmas Onto.RegistryInv Onto.RegistryProofs
  Onto.RegistryQuery Onto.RegistryRel.
Import ListNotations.

(* ------------------------------------------------------------------ container sizes *)
Lemma NoDup_map_NoDup {A B} (f : A -> B) l : NoDup (map f l) -> NoDup l.
Proof.
  induction l as [|a l IH]; simpl; intros H; constructor; inversion H; subst; auto.
  intro Hin. apply H2. now apply in_map.
Qed.

Lemma byid_values_NoDup (m : list (pyid * wrapper)) :
  NoDup (map fst m) -> (forall p w, In (p, w) m -> w_pyid w = p) -> NoDup (map snd m).
Proof.
  induction m as [|[p w] m IH]; simpl; intros Hnd Hk; constructor; inversion Hnd; subst.
  - intro Hin. apply in_map_iff in Hin. destruct Hin as [[p' w'] [E Hin]]. simpl in E. subst w'.
    apply H1. apply in_map_iff. exists (p', w). split; auto. simpl.
    rewrite <- (Hk p' w) by auto. apply Hk. auto.
  - apply IH; auto.
Qed.

(* after a sweep: one node, one per-class entry and one id entry per existing (wrapped) instance *)
Theorem swept_sizes L r :
  RegInv L r -> WorldOk L -> swept L r -> AllReg L r ->
  length (nodes r) = length L /\ length (wl r) = length L /\ length (by_id r) = length L /\
  length (rel_index r) = length (edges r).
Proof.
  intros Hr Hw Hs Ha.
  assert (P4 : Permutation (rel_index r) (edges r)).
  { apply NoDup_Permutation; [apply Hr|apply Hr|apply Hr]. }
  assert (P1 : Permutation (map w_obj (wl r)) (map o_id L)).
  { apply NoDup_Permutation; [apply Hr|apply Hw|]. intros o. rewrite !in_map_iff. split.
    - intros [w [E Hin]]. assert (M : mem_obj (w_obj w) L = true) by (apply Hs; now apply Hr).
      apply mem_obj_true in M. destruct M as [x [Hx Ex]]. exists x. split; auto. congruence.
    - intros [x [E Hx]]. destruct (Ha _ Hx) as [w [Hw' Ew]]. exists w. split; auto. congruence. }
  assert (E1 : length (wl r) = length L).
  { apply Permutation_length in P1. now rewrite !map_length in P1. }
  assert (P2 : Permutation (nodes r) (wl r)).
  { apply NoDup_Permutation; [eapply NoDup_map_NoDup; apply Hr|eapply NoDup_map_NoDup; apply Hr|apply Hr]. }
  assert (P3 : Permutation (map snd (by_id r)) (wl r)).
  { apply NoDup_Permutation.
    - apply byid_values_NoDup; [apply Hr|]. intros p w Hin. now destruct (i_byid_wl _ _ Hr _ _ Hin).
    - eapply NoDup_map_NoDup; apply Hr.
    - intros w. rewrite in_map_iff. split.
      + intros [[p w'] [E Hin]]. simpl in E. subst. now destruct (i_byid_wl _ _ Hr _ _ Hin).
      + intros Hin. assert (M : mem_obj (w_obj w) L = true) by (apply Hs; now apply Hr).
        apply mem_obj_true in M. destruct M as [x [Hx Ex]].
        destruct (i_wl_live _ _ Hr _ _ Hin Hx (eq_sym Ex)) as [_ [_ C]]. exists (o_pyid x, w). auto. }
  apply Permutation_length in P2, P3, P4. rewrite map_length in P3. repeat split; congruence.
Qed.

(* ... and when nothing exists any more, nothing is left behind *)
Theorem swept_empty r : RegInv [] r -> swept [] r -> r = empty_reg.
Proof.
  intros Hr Hs.
  assert (N : nodes r = []).
  { destruct (nodes r) as [|w l] eqn:E; auto. specialize (Hs w). rewrite E in Hs. simpl in Hs. discriminate Hs; auto. }
  assert (Wl : wl r = []).
  { destruct (wl r) as [|w l] eqn:E; auto. assert (In w (nodes r)) by (apply Hr; rewrite E; simpl; auto).
    rewrite N in H. destruct H. }
  assert (B : by_id r = []).
  { destruct (by_id r) as [|[p w] l] eqn:E; auto. destruct (i_byid_wl _ _ Hr p w) as [H _]; [rewrite E; simpl; auto|].
    rewrite Wl in H. destruct H. }
  assert (Ed : edges r = []).
  { destruct (edges r) as [|[[s t] f] l] eqn:E; auto. destruct (i_edges_nodes _ _ Hr s t f) as [H _]; [rewrite E; simpl; auto|].
    rewrite N in H. destruct H. }
  assert (Ri : rel_index r = []).
  { destruct (rel_index r) as [|e l] eqn:E; auto. assert (In e (edges r)) by (apply Hr; rewrite E; simpl; auto).
    rewrite Ed in H. destruct H. }
  destruct r; simpl in *; subst; reflexivity.
Qed.

(* ------------------------------------------------------------------ who references what *)
Inductive hnode :=
| HSymbolGraph | HExprTable | HProgram
| HWrapper (o : obj) | HVar (k : nat) | HEval (n : nat) | HObj (o : obj).
Inductive strength := Strong | Weak.
Definition href := (hnode * strength * hnode)%type.

(* the query objects: registered in the process-wide expression tables, holding no instance *)
Fixpoint var_refs (k : nat) (vs : list cls) : list href :=
  match vs with
  | [] => []
  | _ :: vs' => (HExprTable, Strong, HVar k) :: var_refs (S k) vs'
  end.

(* the live evaluations: iterators the program holds; each holds the cache of what it has passed on *)
Fixpoint eval_refs (n : nat) (es : list (option ev)) : list href :=
  match es with
  | [] => []
  | None :: es' => eval_refs (S n) es'
  | Some e :: es' =>
      (HProgram, Strong, HEval n) :: map (fun o => (HEval n, Strong, HObj o)) (somes (e_seen e)) ++ eval_refs (S n) es'
  end.

Definition refs (s : st) : list href :=
  map (fun w => (HSymbolGraph, Strong, HWrapper (w_obj w))) (nodes (g s) ++ wl (g s) ++ map snd (by_id (g s)))
  ++ map (fun w => (HWrapper (w_obj w), Weak, HObj (w_obj w))) (nodes (g s) ++ wl (g s) ++ map snd (by_id (g s)))
  ++ var_refs 0 (vars s)
  ++ eval_refs 0 (evals s)
  ++ map (fun o => (HProgram, Strong, HObj o)) (user s).

Inductive sreach (E : list href) : hnode -> hnode -> Prop :=
| sr_refl a : sreach E a a
| sr_step a b c : In (a, Strong, b) E -> sreach E b c -> sreach E a c.

Lemma var_refs_shape vs : forall k a st b, In (a, st, b) (var_refs k vs) -> a = HExprTable /\ exists j, b = HVar j.
Proof.
  induction vs as [|v vs IH]; simpl; intros k a st b Hin; [tauto|].
  destruct Hin as [E|Hin]; [inversion E; subst; eauto|eapply IH; eauto].
Qed.

Lemma eval_refs_shape es : forall n a st b, In (a, st, b) (eval_refs n es) ->
  (a = HProgram /\ exists j, b = HEval j) \/ (exists j o, a = HEval j /\ b = HObj o).
Proof.
  induction es as [|[e|] es IH]; simpl; intros n a st b Hin; [tauto| |eapply IH; eauto].
  rewrite in_app_iff, in_map_iff in Hin. destruct Hin as [E|[[u [E _]]|Hin]].
  - inversion E; subst. left. eauto.
  - inversion E; subst. right. eauto.
  - eapply IH; eauto.
Qed.

(* from a krrood root (the symbol graph, the expression tables) one strong step leads to a wrapper or a query object ... *)
Lemma refs_from_root s a b : a = HSymbolGraph \/ a = HExprTable -> In (a, Strong, b) (refs s) ->
  (exists o, b = HWrapper o) \/ (exists k, b = HVar k).
Proof.
  intros Ha. unfold refs. rewrite !in_app_iff, !in_map_iff.
  intros [[w [E _]]|[[w [E _]]|[Hin|[Hin|[u [E _]]]]]].
  - inversion E; eauto.
  - inversion E.
  - apply var_refs_shape in Hin. destruct Hin as [_ [j ->]]. eauto.
  - apply eval_refs_shape in Hin. destruct Hin as [[-> _]|[j [o [-> _]]]]; destruct Ha; discriminate.
  - inversion E; subst. destruct Ha; discriminate.
Qed.

(* ... and neither a wrapper nor a query object has a strong reference to anything *)
Lemma refs_dead_end s a b : (exists o, a = HWrapper o) \/ (exists k, a = HVar k) -> ~ In (a, Strong, b) (refs s).
Proof.
  intros Ha. unfold refs. rewrite !in_app_iff, !in_map_iff.
  intros [[w [E _]]|[[w [E _]]|[Hin|[Hin|[u [E _]]]]]].
  - inversion E; subst. destruct Ha as [[o H]|[k H]]; discriminate.
  - discriminate.
  - apply var_refs_shape in Hin. destruct Hin as [-> _]. destruct Ha as [[o H]|[k H]]; discriminate.
  - apply eval_refs_shape in Hin. destruct Hin as [[-> _]|[j [o [-> _]]]]; destruct Ha as [[o' H]|[k H]]; discriminate.
  - inversion E; subst. destruct Ha as [[o H]|[k H]]; discriminate.
Qed.

(* krrood never keeps an instance alive: no strong path from the symbol graph or from the expression tables to an instance *)
Theorem krrood_holds_nothing s a o : a = HSymbolGraph \/ a = HExprTable -> ~ sreach (refs s) a (HObj o).
Proof.
  intros Ha H. inversion H as [|a' b c Hin Hr]; subst.
  - destruct Ha; discriminate.
  - apply (refs_from_root s a b Ha) in Hin.
    inversion Hr as [|a' b' c' Hin2 _]; subst.
    + destruct Hin as [[o' E]|[k E]]; discriminate.
    + eapply refs_dead_end; eauto.
Qed.

Corollary registry_holds_nothing s o : ~ sreach (refs s) HSymbolGraph (HObj o).
Proof. apply krrood_holds_nothing. auto. Qed.

(* what a live iterator has passed on is held by that iterator (which the program holds) *)
Lemma eval_refs_strong es o : forall n, pinned es o = true ->
  exists j, In (HProgram, Strong, HEval j) (eval_refs n es) /\ In (HEval j, Strong, HObj o) (eval_refs n es).
Proof.
  induction es as [|[e|] es IH]; simpl; intros n H; [discriminate| |apply IH; auto].
  apply orb_true_iff in H. destruct H as [H|H].
  - exists n. split; auto. right. rewrite in_app_iff. left. apply in_map_iff. exists o. split; auto.
    apply existsb_exists in H. destruct H as [y [Hy E]]. apply oeqb_eq in E. subst y.
    unfold somes. apply in_flat_map. exists (Some o). simpl. auto.
  - destruct (IH (S n) H) as [j [A B]]. exists j. split; right; rewrite in_app_iff; auto.
Qed.

Theorem live_iterator_holds s o : pinned (evals s) o = true -> sreach (refs s) HProgram (HObj o).
Proof.
  intros H. destruct (eval_refs_strong _ _ 0 H) as [j [A B]].
  apply sr_step with (b := HEval j); [unfold refs; rewrite !in_app_iff; auto 6|].
  apply sr_step with (b := HObj o); [unfold refs; rewrite !in_app_iff; auto 6|]. constructor.
Qed.

(* ------------------------------------------------------------------ over histories *)
Section Life.
  Variable children : cls -> list cls.
  Variable fuel : nat.
  Notation step := (step children fuel).
  Notation run := (run children fuel).
  Notation adm_run := (adm_run children fuel).

  (* every instance that still exists is referenced by the program: directly, or as a row of an iterator it holds *)
  Definition Accounted (s : st) : Prop :=
    forall x, In x (live s) -> In (o_id x) (user s) \/ pinned (evals s) (o_id x) = true.
  (* ... and what the program references exists *)
  Definition UserLive (s : st) : Prop := forall o, In o (user s) -> mem_obj o (live s) = true.

  Lemma pinned_app es e o : pinned es o = true -> pinned (es ++ [e]) o = true.
  Proof. unfold pinned. rewrite existsb_app. intros H. apply orb_true_iff. left. exact H. Qed.

  Lemma pinned_set_nth o e' : forall es n e, nth_error es n = Some (Some e) ->
    (forall v, In v (e_seen e) -> In v (e_seen e')) ->
    pinned es o = true -> pinned (set_nth n (Some e') es) o = true.
  Proof.
    induction es as [|a es IH]; intros n e Hn Hs Hp; [destruct n; discriminate|].
    destruct n as [|n]; simpl in *.
    - inversion Hn; subst a. apply orb_true_iff in Hp. apply orb_true_iff. destruct Hp as [Hp|Hp]; auto. left.
      apply existsb_exists in Hp. destruct Hp as [y [Hy E]]. apply existsb_exists. exists y. auto.
    - apply orb_true_iff in Hp. apply orb_true_iff. destruct Hp as [Hp|Hp]; auto. right. eapply IH; eauto.
  Qed.

  Lemma pinned_clear es o :
    pinned (map (fun e => match e with
                          | Some e => Some (if e_started e then EV (e_T e) true true (e_classes e) (e_cur e) (e_seen e) else e)
                          | None => None end) es) o = pinned es o.
  Proof.
    induction es as [|[e|] es IH]; simpl in *; auto; rewrite IH; auto. destruct (e_started e); reflexivity.
  Qed.

  Lemma mem_nat_In o l : mem_nat o l = true <-> In o l.
  Proof.
    unfold mem_nat. rewrite existsb_exists. split.
    - intros [y [Hy E]]. apply Nat.eqb_eq in E. now subst.
    - intros H. exists o. split; auto. apply Nat.eqb_refl.
  Qed.

  Lemma release_Accounted L u es x : In x (release L u es) -> In (o_id x) u \/ pinned es (o_id x) = true.
  Proof.
    unfold release. rewrite filter_In, orb_true_iff, mem_nat_In. tauto.
  Qed.

  Lemma step_Accounted s o : Accounted s -> Accounted (fst (step s o)).
  Proof.
    intros HA. unfold Accounted in *.
    destruct o as [c p i|x| |T|T|T|k|k|n y|n|a f b ia ib|]; simpl; auto.
    - intros y Hy. apply in_app_iff in Hy. rewrite in_app_iff. destruct Hy as [Hy|[<-|[]]]; simpl; auto.
      destruct (HA _ Hy); auto.
    - destruct (pinned (evals s) x) eqn:P; simpl; intros y Hy.
      + destruct (HA _ Hy) as [H|H]; auto. destruct (Nat.eq_dec (o_id y) x) as [->|N]; auto.
        left. apply filter_In. split; auto. apply negb_true_iff, Nat.eqb_neq. auto.
      + apply filter_In in Hy. destruct Hy as [Hy N]. apply negb_true_iff, Nat.eqb_neq in N.
        destruct (HA _ Hy) as [H|H]; auto. left. apply filter_In. split; auto. apply negb_true_iff, Nat.eqb_neq. auto.
    - destruct (nth_error (vars s) k); simpl; auto.
    - destruct (nth_error (vars s) k); simpl; auto.
      intros y Hy. destruct (HA _ Hy); auto. right. now apply pinned_app.
    - destruct (nth_error (evals s) n) as [[e|]|] eqn:E; simpl; auto.
      destruct (e_stale e); simpl; auto.
      destruct (pull _ _ _) as [[[v cur] cs]|]; simpl.
      + intros z Hz. destruct (HA _ Hz); auto. right. eapply pinned_set_nth; eauto. simpl.
        intros w Hw. rewrite in_app_iff. left. destruct (e_started e); auto.
      + intros z Hz. now apply release_Accounted in Hz.
    - destruct (nth_error (evals s) n); simpl; auto. intros z Hz. now apply release_Accounted in Hz.
    - destruct (relate _ _ _ _ _ _ _) as [r [nw|]]; simpl; auto.
    - intros y Hy. rewrite pinned_clear. auto.
  Qed.

  Lemma step_UserLive s o : UserLive s -> UserLive (fst (step s o)).
  Proof.
    intros HU. unfold UserLive in *.
    assert (Rel : forall es u, (forall o, In o u -> mem_obj o (live s) = true) ->
                   forall o, In o u -> mem_obj o (release (live s) u es) = true).
    { intros es u H o' Ho. apply mem_obj_true. destruct (proj1 (mem_obj_true _ _) (H _ Ho)) as [x [Hx Ex]].
      exists x. split; auto. unfold release. apply filter_In. split; auto. apply orb_true_iff. left.
      apply mem_nat_In. now rewrite Ex. }
    destruct o as [c p i|x| |T|T|T|k|k|n y|n|a f b ia ib|]; simpl; auto.
    - intros o Ho. rewrite mem_obj_app. apply in_app_iff in Ho. destruct Ho as [Ho|[<-|[]]].
      + rewrite HU; auto.
      + simpl. rewrite Nat.eqb_refl. apply orb_true_r.
    - destruct (pinned (evals s) x); simpl; intros o Ho; apply filter_In in Ho; destruct Ho as [Ho N].
      + auto.
      + apply mem_obj_filter. split; auto. apply negb_true_iff, Nat.eqb_neq in N. auto.
    - destruct (nth_error (vars s) k); simpl; auto.
    - destruct (nth_error (vars s) k); simpl; auto.
    - destruct (nth_error (evals s) n) as [[e|]|]; simpl; auto.
      destruct (e_stale e); simpl; auto. destruct (pull _ _ _) as [[[v cur] cs]|]; simpl; auto.
    - destruct (nth_error (evals s) n); simpl; auto.
    - destruct (relate _ _ _ _ _ _ _) as [r [nw|]]; simpl; auto.
  Qed.

  Theorem run_Accounted : forall h s, Accounted s -> Accounted (fst (run s h)).
  Proof.
    induction h as [|o h IH]; simpl; intros s HA; auto.
    assert (H := step_Accounted s o HA). destruct (step s o) as [s1 x]. simpl in *.
    specialize (IH s1 H). destruct (run s1 h) as [s2 xs]. auto.
  Qed.

  Theorem run_UserLive : forall h s, UserLive s -> UserLive (fst (run s h)).
  Proof.
    induction h as [|o h IH]; simpl; intros s HA; auto.
    assert (H := step_UserLive s o HA). destruct (step s o) as [s1 x]. simpl in *.
    specialize (IH s1 H). destruct (run s1 h) as [s2 xs]. auto.
  Qed.

  (* after ANY history: whenever no live iterator holds a row, the instances that exist are exactly the ones the program
     references -- evaluated queries, declared variables and the symbol graph hold on to nothing *)
  Theorem existing_is_referenced h o :
    (forall x, pinned (evals (fst (run init h))) x = false) ->
    (In o (map o_id (live (fst (run init h)))) <-> In o (user (fst (run init h)))).
  Proof.
    intros Hp.
    assert (HA : Accounted (fst (run init h))) by (apply run_Accounted; intros x []).
    assert (HU : UserLive (fst (run init h))) by (apply run_UserLive; intros x []).
    split.
    - intros Hin. apply in_map_iff in Hin. destruct Hin as [x [<- Hx]]. destruct (HA _ Hx) as [H|H]; auto.
      rewrite Hp in H. discriminate.
    - intros Hin. apply HU in Hin. apply mem_obj_true in Hin. destruct Hin as [x [Hx <-]]. now apply in_map.
  Qed.

  (* dropping the last reference reclaims the instance, in any state, unless a live iterator has passed it on *)
  Theorem drop_reclaims s o : pinned (evals s) o = false -> ~ In o (map o_id (live (fst (step s (Drop o))))).
  Proof.
    intros Hp. simpl. rewrite Hp. simpl. rewrite in_map_iff. intros [x [E Hx]]. apply filter_In in Hx.
    destruct Hx as [_ N]. apply negb_true_iff, Nat.eqb_neq in N. auto.
  Qed.

  (* closing (or finalising) a live evaluation releases what only it was holding *)
  Theorem close_releases s n x : nth_error (evals s) n <> None ->
    In x (live (fst (step s (CloseV n)))) ->
    In (o_id x) (user s) \/ pinned (set_nth n None (evals s)) (o_id x) = true.
  Proof.
    intros Hn. simpl. destruct (nth_error (evals s) n); [|congruence]. simpl. apply release_Accounted.
  Qed.

  (* declaring a domain-less variable reads nothing and holds nothing *)
  Lemma declare_holds_nothing s T :
    live (fst (step s (DeclV T))) = live s /\ user (fst (step s (DeclV T))) = user s /\ g (fst (step s (DeclV T))) = g s /\
    evals (fst (step s (DeclV T))) = evals s.
  Proof. simpl. auto. Qed.

  (* a complete evaluation leaves nothing held either: it changes neither who exists nor what the iterators hold *)
  Lemma evaluation_holds_nothing s q : (exists T, q = QueryE T) \/ (exists k, q = EvalV k) ->
    live (fst (step s q)) = live s /\ user (fst (step s q)) = user s /\ evals (fst (step s q)) = evals s.
  Proof.
    intros [[T ->]|[k ->]]; simpl; auto. destruct (nth_error (vars s) k); simpl; auto.
  Qed.

  (* declare-and-evaluate at once (QueryE) is declare followed by a complete evaluation *)
  Lemma fused_is_declare_eval s T :
    snd (step s (QueryE T)) = snd (step (fst (step s (DeclV T))) (EvalV (length (vars s)))) /\
    live (fst (step s (QueryE T))) = live (fst (step (fst (step s (DeclV T))) (EvalV (length (vars s))))) /\
    g (fst (step s (QueryE T))) = g (fst (step (fst (step s (DeclV T))) (EvalV (length (vars s))))).
  Proof.
    simpl. rewrite nth_error_app2 by auto. rewrite Nat.sub_diag. simpl. auto.
  Qed.

  (* registry containers after create / relate / query / drop-everything / sweep are empty again *)
  Theorem no_growth h :
    adm_run init h = true -> live (fst (run init h)) = [] ->
    g (fst (step (fst (run init h)) Sweep)) = empty_reg.
  Proof.
    intros Ha Hl. assert (HI := reach_Inv children fuel h Ha). simpl. apply swept_empty.
    - rewrite <- Hl. apply sweep_inv, HI.
    - rewrite <- Hl. apply sweep_swept.
  Qed.

  (* what does grow: one entry in the process-wide expression tables per query object (finding C20-a2) *)
  Lemma expr_table_grows s q : (exists T, q = QueryE T) \/ (exists T, q = DeclV T) ->
    length (vars (fst (step s q))) = S (length (vars s)).
  Proof. intros [[T ->]|[T ->]]; simpl; rewrite app_length; simpl; lia. Qed.
End Life.
