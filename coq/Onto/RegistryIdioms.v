(* Meaning of the statement idioms of translator/t_registry.py: one state transformer per Python statement of the
   state-updating SymbolGraph methods.  (Trusted table: "this statement means this update".) *)
From Coq Require Import List Arith Bool PeanoNat.
From Krrood Require Import Onto.RegistrySpec Onto.Registry.
Import ListNotations.

(* wrapped_instance.index = self._instance_graph.add_node(wrapped_instance)     (the index is the observed one, carried by w) *)
Definition u_graph_add_node (r : reg) (w : wrapper) : reg := R (nodes r ++ [w]) (by_id r) (wl r) (edges r) (rel_index r).
(* self._instance_index[id(wrapped_instance.instance)] = wrapped_instance      (the instance is alive here: id = recorded address) *)
Definition u_index_set (r : reg) (w : wrapper) : reg := R (nodes r) (set (w_pyid w) w (by_id r)) (wl r) (edges r) (rel_index r).
(* self._class_to_wrapped_instances[wrapped_instance.instance_type].append(wrapped_instance) *)
Definition u_class_append (r : reg) (w : wrapper) : reg := R (nodes r) (by_id r) (wl r ++ [w]) (edges r) (rel_index r).
(* if self._instance_index.get(wrapped_instance.instance_id) is wrapped_instance: del self._instance_index[...] *)
Definition u_index_del_if_same (r : reg) (w : wrapper) : reg :=
  R (nodes r)
    (match get (w_pyid w) (by_id r) with
     | Some w' => if w_obj w' =? w_obj w then del (w_pyid w) (by_id r) else by_id r
     | None => by_id r
     end) (wl r) (edges r) (rel_index r).
(* self._class_to_wrapped_instances[wrapped_instance.instance_type].remove(wrapped_instance) *)
Definition u_class_remove (r : reg) (w : wrapper) : reg :=
  R (nodes r) (by_id r) (remove_first (w_obj w) (wl r)) (edges r) (rel_index r).
(* for source, target, relation in in_edges(index) + out_edges(index): _relation_index.get(field, set()).discard((source, target)) *)
Definition u_rel_discard_incident (r : reg) (w : wrapper) : reg :=
  R (nodes r) (by_id r) (wl r) (edges r)
    (filter (fun e => negb (existsb (edge_eqb e) (filter (incident (w_idx w)) (edges r)))) (rel_index r)).
(* self._instance_graph.remove_node(index)          (rustworkx drops the incident edges) *)
Definition u_graph_remove_node (r : reg) (w : wrapper) : reg :=
  R (filter (fun x => negb (w_idx x =? w_idx w)) (nodes r)) (by_id r) (wl r)
    (filter (fun e => negb (incident (w_idx w) e)) (edges r)) (rel_index r).
(* self._instance_graph.add_edge(relation.source.index, relation.target.index, relation) *)
Definition u_graph_add_edge (r : reg) (e : edge) : reg := R (nodes r) (by_id r) (wl r) (edges r ++ [e]) (rel_index r).
(* self._relation_index[relation.wrapped_field].add((relation.source.index, relation.target.index)) *)
Definition u_rel_add (r : reg) (e : edge) : reg := R (nodes r) (by_id r) (wl r) (edges r) (e :: rel_index r).
