(* C13: a domain-less variable ranges over exactly the existing instances of its type and subtypes, once. *)
From Coq Require Import List Arith Bool PeanoNat Lia Permutation.
From Krrood Require Import Onto.RegistrySpec Onto.Registry Onto.RegistryLemmas Onto.RegistryInv Onto.RegistryProofs.
Import ListNotations.

Section Query.
  Variable children : cls -> list cls.
  Variable fuel : nat.
  Notation step := (step children fuel).
  Notation run := (run children fuel).
  Notation adm_run := (adm_run children fuel).
  Notation instances := (instances children fuel).
  Notation Inv := (Inv).

  (* recursive_subclasses lists exactly the strict descendants (at the same depth bound as the Spec) *)
  Lemma rsub_desc_b : forall n c T, In c (rsub children n T) <-> desc_b children n c T = true.
  Proof.
    induction n as [|n IH]; simpl; intros c T.
    - split; [tauto|discriminate].
    - rewrite dedup_In, in_app_iff, in_flat_map, existsb_exists. split.
      + intros [H|[d [Hd Hc]]].
        * exists c. split; auto. now rewrite Nat.eqb_refl.
        * exists d. split; auto. apply IH in Hc. rewrite Hc. apply orb_true_r.
      + intros [d [Hd H]]. apply orb_true_iff in H. destruct H as [H|H].
        * apply Nat.eqb_eq in H. subst. auto.
        * right. exists d. split; auto. now apply IH.
  Qed.

  Lemma rsub_NoDup n T : NoDup (rsub children n T).
  Proof. destruct n; simpl; [constructor|apply dedup_NoDup]. Qed.

  (* the depth-bounded test is sound for the descendant relation, and complete when the bound covers the hierarchy *)
  Lemma desc_b_sound : forall n c T, desc_b children n c T = true -> desc children c T.
  Proof.
    induction n as [|n IH]; simpl; intros c T H; [discriminate|].
    apply existsb_exists in H. destruct H as [d [Hd H]]. apply orb_true_iff in H. destruct H as [H|H].
    - apply Nat.eqb_eq in H. subst. now constructor.
    - eapply desc_step; eauto.
  Qed.

  Lemma desc_b_complete (rank : cls -> nat) :
    (forall c d, In d (children c) -> rank d < rank c) ->
    forall c T, desc children c T -> forall n, rank T <= n -> desc_b children n c T = true.
  Proof.
    intros Hrank c T H. induction H as [c T Hc|c d T Hd H IH]; intros n Hn.
    - destruct n; [specialize (Hrank _ _ Hc); lia|]. simpl. apply existsb_exists. exists c. split; auto.
      now rewrite Nat.eqb_refl.
    - destruct n; [specialize (Hrank _ _ Hd); lia|]. simpl. apply existsb_exists. exists d. split; auto.
      rewrite IH; [apply orb_true_r|]. specialize (Hrank _ _ Hd). lia.
  Qed.

  Lemma in_classes c T : existsb (Nat.eqb c) (T :: rsub children fuel T) = true <-> le_b children fuel c T = true.
  Proof.
    unfold le_b. rewrite existsb_exists, orb_true_iff, Nat.eqb_eq, <- rsub_desc_b. split.
    - intros [d [[<-|Hd] E]]; apply Nat.eqb_eq in E; subst; auto.
    - intros [->|H]; [exists T|exists c]; simpl; rewrite Nat.eqb_refl; auto.
  Qed.

  (* every existing instance is wrapped in the current graph (true as long as the graph was not re-created) *)
  Definition AllReg (L : list orec) (r : reg) : Prop := forall x, In x L -> exists w, In w (wl r) /\ w_obj w = o_id x.

  Lemma instances_raw_perm L r T :
    RegInv L r -> WorldOk L -> swept L r -> AllReg L r -> desc_b children fuel T T = false ->
    Permutation (instances_raw children fuel L r T) (map Some (spec_query children fuel L T)).
  Proof.
    intros Hr Hw Hs Ha Hac. unfold instances_raw, spec_query.
    assert (Hcl : NoDup (T :: rsub children fuel T)).
    { constructor; [|apply rsub_NoDup]. rewrite rsub_desc_b. congruence. }
    rewrite (flat_map_map (deref L) (fun c => filter (fun w => w_cls w =? c) (wl r))).
    rewrite (Permutation_map (deref L) (flat_map_filter_perm (wl r) _ Hcl)).
    set (sel := filter (fun w => existsb (Nat.eqb (w_cls w)) (T :: rsub children fuel T)) (wl r)).
    assert (E : map (deref L) sel = map Some (map w_obj sel)).
    { rewrite map_map. apply map_ext_in. intros w Hin. apply filter_In in Hin. destruct Hin as [Hin _].
      unfold deref. rewrite Hs; auto. now apply Hr. }
    rewrite E. apply Permutation_map. apply NoDup_Permutation.
    - apply NoDup_map_filter. apply Hr.
    - apply NoDup_map_filter. apply Hw.
    - intros o. rewrite !in_map_iff. split.
      + intros [w [<- Hin]]. apply filter_In in Hin. destruct Hin as [Hin Hc].
        assert (Hl : mem_obj (w_obj w) L = true) by (apply Hs; now apply Hr).
        apply mem_obj_true in Hl. destruct Hl as [x [Hx Ex]]. exists x. split; auto.
        apply filter_In. split; auto.
        destruct (i_wl_live _ _ Hr _ _ Hin Hx (eq_sym Ex)) as [Ec _]. rewrite <- Ec. now apply in_classes.
      + intros [x [<- Hin]]. apply filter_In in Hin. destruct Hin as [Hx Hc].
        destruct (Ha _ Hx) as [w [Hw' Ew]]. exists w. split; auto. apply filter_In. split; auto.
        destruct (i_wl_live _ _ Hr _ _ Hw' Hx Ew) as [Ec _]. rewrite Ec. now apply in_classes.
  Qed.

  (* each existing instance once: a result that is a permutation of the Spec's answer has no repetition, so the
     domain cache (which yields an id once) passes it on unchanged *)
  Lemma once_each L T l : WorldOk L -> Permutation l (map Some (spec_query children fuel L T)) -> NoDup l.
  Proof.
    intros Hw P. eapply Permutation_NoDup; [symmetry; exact P|].
    apply FinFun.Injective_map_NoDup; [intros a b E; congruence|].
    unfold spec_query. apply NoDup_map_filter. apply Hw.
  Qed.

  Theorem instances_perm L r T :
    RegInv L r -> WorldOk L -> swept L r -> AllReg L r -> desc_b children fuel T T = false ->
    Permutation (instances L r T) (map Some (spec_query children fuel L T)).
  Proof.
    intros Hr Hw Hs Ha Hac. assert (P := instances_raw_perm L r T Hr Hw Hs Ha Hac).
    unfold instances. rewrite filter_all; auto.
    intros x Hx. apply (Permutation_in _ P) in Hx. apply in_map_iff in Hx. destruct Hx as [o [<- _]]. reflexivity.
  Qed.

  (* ---------------------------------------------------------------- AllReg over histories without Clear *)
  Definition is_clear (o : op) : bool := match o with Clear => true | _ => false end.
  Definition no_clear (h : list op) : bool := forallb (fun o => negb (is_clear o)) h.

  Lemma AllReg_sweep L r : RegInv L r -> AllReg L r -> AllReg L (sweep L r).
  Proof.
    intros Hr Ha x Hx. destruct (Ha _ Hx) as [w [Hw E]]. exists w. split; auto.
    apply (i_nodes_wl _ _ (sweep_inv _ _ Hr)). apply sweep_keeps_live; auto.
    - now apply Hr.
    - apply mem_obj_true. exists x. auto.
  Qed.

  Lemma AllReg_sub L L' r : (forall x, In x L' -> In x L) -> AllReg L r -> AllReg L' r.
  Proof. intros Hs Ha x Hx. apply Ha. auto. Qed.

  Lemma step_AllReg s o : Inv s -> adm s o = true -> is_clear o = false ->
    AllReg (live s) (g s) -> AllReg (live (fst (step s o))) (g (fst (step s o))).
  Proof.
    intros HI Ha Hc HA. destruct HI as [A B C D].
    destruct o as [c p i|x| |T|T|T|k|k|n y|n|a f b ia ib|]; simpl in *; try discriminate.
    - intros y Hy. apply in_app_iff in Hy. destruct Hy as [Hy|[<-|[]]].
      + destruct (HA _ Hy) as [w [Hw E]]. exists w. unfold add_node; simpl. rewrite in_app_iff. auto.
      + exists (W (next s) c p i). unfold add_node; simpl. rewrite in_app_iff. simpl. auto.
    - destruct (pinned (evals s) x); simpl; auto. intros y Hy. apply filter_In in Hy. apply HA. tauto.
    - now apply AllReg_sweep.
    - now apply AllReg_sweep.
    - now apply AllReg_sweep.
    - exact HA.
    - destruct (nth_error (vars s) k); simpl; auto; now apply AllReg_sweep.
    - destruct (nth_error (vars s) k); simpl; auto.
    - destruct (nth_error (evals s) n) as [[e|]|]; simpl; auto.
      destruct (e_stale e); simpl; auto.
      set (r := if e_started e then g s else sweep (live s) (g s)).
      assert (Hr : AllReg (live s) r) by (unfold r; destruct (e_started e); auto; now apply AllReg_sweep).
      destruct (pull (live s) r _) as [[[v cur] cs]|]; simpl; auto.
      eapply AllReg_sub; [|exact Hr]. unfold release. intros z Hz. apply filter_In in Hz. tauto.
    - destruct (nth_error (evals s) n); simpl; auto.
      eapply AllReg_sub; [|exact HA]. unfold release. intros z Hz. apply filter_In in Hz. tauto.
    - destruct (relate_spec (live s) (g s) a f b ia ib A B Ha) as [r' [nw [E [Hr' [_ Hm]]]]].
      rewrite E. simpl. intros y Hy. destruct (HA _ Hy) as [w [Hw Ew]]. exists w. split; auto.
  Qed.

  Lemma run_AllReg : forall h s, Inv s -> adm_run s h = true -> no_clear h = true ->
    AllReg (live s) (g s) -> AllReg (live (fst (run s h))) (g (fst (run s h))).
  Proof.
    induction h as [|o h IH]; simpl; intros s HI Ha Hc HA; auto.
    apply andb_true_iff in Ha. destruct Ha as [Ha Hr]. apply andb_true_iff in Hc. destruct Hc as [Hc Hc'].
    apply negb_true_iff in Hc.
    assert (H1 := step_Inv children fuel s o HI Ha). assert (H2 := step_AllReg s o HI Ha Hc HA).
    destruct (step s o) as [s1 x] eqn:E. simpl in *.
    specialize (IH s1 H1 Hr Hc' H2). destruct (run s1 h) as [s2 xs]. simpl in *. auto.
  Qed.

  (* ---------------------------------------------------------------- the property over histories *)
  (* a complete evaluation over type T: at registry level, declared-and-evaluated at once, or ANY evaluation -- the first
     or a later one -- of a query object declared earlier *)
  Definition evaluates (s : st) (q : op) (T : cls) : Prop :=
    q = QueryG T \/ q = QueryE T \/ exists k, q = EvalV k /\ nth_error (vars s) k = Some T.

  (* for every history of creation / dropping / sweeping / declarations / complete and partial evaluations / relation
     assertions, with any admissible addresses and node indices: a complete evaluation over T returns the existing instances
     of T and its subclasses, each once -- whatever happened since the query object was declared or evaluated before *)
  Theorem query_correct h q T :
    adm_run init h = true -> no_clear h = true -> desc_b children fuel T T = false ->
    evaluates (fst (run init h)) q T ->
    exists l, snd (step (fst (run init h)) q) = OInst l /\
              Permutation l (map Some (spec_query children fuel (live (fst (run init h))) T)).
  Proof.
    intros Ha Hc Hac Hq.
    assert (HI := reach_Inv children fuel h Ha).
    assert (HA : AllReg (live (fst (run init h))) (g (fst (run init h)))).
    { apply run_AllReg; auto; [exact (Inv_init children fuel)|intros x Hx; destruct Hx]. }
    set (s := fst (run init h)) in *.
    assert (P : Permutation (instances (live s) (sweep (live s) (g s)) T) (map Some (spec_query children fuel (live s) T))).
    { apply instances_perm; auto.
      + apply sweep_inv, HI. + apply HI. + apply sweep_swept. + apply AllReg_sweep; auto. apply HI. }
    assert (D : dedupo (instances (live s) (sweep (live s) (g s)) T) = instances (live s) (sweep (live s) (g s)) T).
    { apply dedupo_NoDup_id. eapply once_each; eauto. apply HI. }
    destruct Hq as [-> | [-> | [k [-> Hk]]]].
    - eexists. split; [reflexivity|exact P].
    - eexists. split; [reflexivity|]. now rewrite D.
    - eexists. split; [simpl; rewrite Hk; reflexivity|]. now rewrite D.
  Qed.
End Query.
