(* Property C16 -- every way of writing a descriptor-managed collection field keeps the data and infers alike.
   Statements only; Spec = Onto/ContainerSpec.v (plain Python list / set), model = Onto/Container.v. *)
From Coq Require Import List Bool Arith ZArith.
From Krrood Require Import Base.Sx Onto.ClosureSpec Onto.Closure Onto.ContainerSpec Onto.Container Onto.ContainerProofs Onto.ContainerInfer.
Import ListNotations. Open Scope nat_scope.

(* Elements are object IDENTITIES (two distinct objects that compare and hash equal are two elements; Python list semantics never
   compare elements, and every write path records element by element).
   For every history of assignment, self-assignment, += / |= (through `owner.field` or through another reference to the container), append, extend (of a list, a one-shot iterator, the field
   itself or a lazy iterable that reads the field), insert, item assignment (index, or a slice given a list or a one-shot iterator), add, update (any number of
   iterables), from any contents s whose elements are recorded (a set holding no element twice):
   the contents after every operation and the IndexErrors are those of a plain Python list / set, every element (identity) of
   the field is recorded in the graph, and nothing recorded is forgotten *)
Theorem C16_writes : forall k ops s, wf k (items s) -> incl (items s) (rec s) ->
  fst (Container.run k ops s) = fst (py_run k ops (items s)) /\
  items (snd (Container.run k ops s)) = snd (py_run k ops (items s)) /\
  incl (items (snd (Container.run k ops s))) (rec (snd (Container.run k ops s))) /\
  incl (rec s) (rec (snd (Container.run k ops s))).
Proof. exact writes_ok. Qed.

(* contents handed to the constructor satisfy the hypotheses of C16_writes and are what Python would hold *)
Theorem C16_constructor : forall k vs, wf k (items (init k vs)) /\ incl (items (init k vs)) (rec (init k vs)) /\
  items (init k vs) = fst (py_step k (Assign vs) []).
Proof. exact init_ok. Qed.

(* every element of the field carries all inferences its individual assertion would produce (C15 applied to the record log) *)
Theorem C16_inferences : forall Sc n owner f k ops s G, wf k (items s) -> incl (items s) (rec s) ->
  Closure.run Sc n (facts owner f (rec (snd (Container.run k ops s)))) = Some G ->
  forall x, In x (items (snd (Container.run k ops s))) -> forall e, closure Sc [(owner, f, x)] e -> In e G.
Proof. exact writes_infer. Qed.

(* a constructor handed ANOTHER object's managed container copies it: the new owner starts from the same contents, all recorded *)
Theorem C16_constructor_copy : forall p, items (ctor_copy p) = items p /\ incl (items (ctor_copy p)) (rec (ctor_copy p)).
Proof. exact ctor_copy_ok. Qed.

(* a shallow copy of the owner shares the container: every write through either owner's field is recorded for that owner *)
Theorem C16_clone_writes : forall o s, match o with
  | CRead _ => True
  | CAppend w x => In x (recs (cstep o s) w)
  | CAssign w vs => incl vs (recs (cstep o s) w)
  end.
Proof. exact clone_write_recorded. Qed.

(* non-vacuity: the three formerly erasing writes, and an assignment with repetitions *)
Example C16_nonvacuous :
  items (snd (Container.run KList [Assign [2; 1; 0; 1]; AssignSelf; IAug [3]] (init KList []))) = [2; 1; 0; 1; 3] /\
  items (snd (Container.run KList [ExtendSelf; SetSliceIter 0 1 [3]] (init KList [0; 1]))) = [3; 1; 0; 1] /\
  items (snd (Container.run KSet [Add 1; IAug [2; 1]; Update [[3]; [4; 1]]; AssignSelf] (init KSet [0]))) = [0; 1; 2; 3; 4].
Proof. repeat split; vm_compute; reflexivity. Qed.

Print Assumptions C16_writes.
Print Assumptions C16_constructor.
Print Assumptions C16_inferences.
Print Assumptions C16_constructor_copy.
Print Assumptions C16_clone_writes.
