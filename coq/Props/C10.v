(* Property C10 -- queries are lazy: building evaluates nothing, consuming pulls only what it needs.
   Statements only.  Model Eql/Trace.v (instrumented CPS evaluator over the EQL core syntax: event log in Python's order,
   consumer that stops after n results), Spec Eql/TraceSpec.v (predicates on an event log), list-monad model Eql/Eval.v.
   Unbounded in: nesting of and_/or_/not_, attribute chains, number of variables, domain sizes and contents, number n of
   results pulled.  LEVEL: partial -- the property is about WHEN CPython runs user code; these theorems bound the demand
   of the MODEL, the event-for-event comparison of harness/c10.py is what connects the model to CPython's generators. *)
From Coq Require Import List ZArith Bool Arith.
From Krrood Require Import Base.Sx Eql.Syntax Eql.Sat Eql.Eval Eql.ShowSpec Eql.TraceSpec Eql.Trace Eql.TraceProofs Eql.TraceDemand
  Eql.TraceAhead Eql.TraceReeval.
Import ListNotations.
Open Scope nat_scope.

(* bridge to the model of C01/C02: the instrumented evaluator hands out exactly the rows of the list-monad evaluator, in order
   (every condition of the syntax: comparisons, and_/or_/not_, exists, for_all) *)
Theorem C10_bridge : forall W D q, rows_of (trace_full W D q) = run W D q.
Proof. exact trace_full_rows. Qed.

(* the first n results of an(...).evaluate() are a prefix of the full result sequence ... *)
Theorem C10_prefix_rows : forall W D q n, rows_of (trace_k W D q n) = firstn n (run W D q).
Proof. exact trace_k_rows. Qed.

(* ... and whoever stops earlier has caused a prefix of the events *)
Theorem C10_prefix_trace : forall W D q n,
  Prefix (trace_k W D q n) (trace_k W D q (S n)) /\ Prefix (trace_k W D q n) (trace_full W D q).
Proof. intros W D q n. split; [apply trace_k_prefix_S | apply trace_k_prefix_full]. Qed.

(* obtaining them consumes only a prefix of each lazily produced domain: the indices pulled from any variable's one-shot
   generator in any n-stopped run are 0, 1, 2, ..., m-1 in this order (each element at most once) *)
Theorem C10_pulls_prefix : forall W D q n x,
  pulls_in_order x (trace_k W D q n) /\ pulls_in_order x (trace_full W D q).
Proof. intros W D q n x. split; [apply trace_k_pulls_in_order | apply trace_full_pulls_in_order]. Qed.

(* consuming pulls only what it needs.  F10 = every condition WITHOUT for_all (comparisons, and_, or_ of both kinds, not_,
   exists), any selection -- a syntactic, decidable class, [f10].  At every moment a result is handed out, in the n-stopped
   run for EVERY n, a domain has been exhausted ([End x] logged) only if
   (1) some variable that was pulled from BEFORE x was first pulled from has itself been pulled from at least twice -- i.e.
       an enclosing loop moved past its first element, which is when a lazy nested-loop enumerator (variables in first-use
       order, inner domains replayed from a cache) exhausts an inner domain too; or
   (2) x was already exhausted when the second pass of an or_ over different variable sets (Union) began: the first pass
       runs like ElseIf(l, r) -- and satisfies (1) at each of its results --, completes its loops, and the second pass then
       re-enumerates the right operand from the caches (nothing is pulled twice: C10_pulls_prefix).
   In particular the variable used first is never exhausted while results of a union-free condition are still being
   handed out, and before any loop has advanced no domain is.  exists obeys the same bound (it is a filter over its
   condition's results). *)
Theorem C10_demand : forall W D q n, f10 q = true ->
  demand_ok (trace_k W D q n) /\ demand_ok (trace_full W D q).
Proof. intros W D q n H. split; [apply trace_k_demand | apply trace_full_demand]; exact H. Qed.

(* several evaluations one after the other over the same variables (the same an(...) evaluated again after its iterator
   was abandoned, or a second query sharing the variables): the log only grows, every domain is still consumed as the index
   prefix 0,1,2,... across ALL evaluations (a later evaluation continues where the cache ends: nothing is pulled twice,
   nothing is skipped), and the rows of the later evaluation are again the first m rows of its query *)
Theorem C10_reeval : forall W D steps more x q1 n q2 m,
  pulls_in_order x (trace_seq W D steps) /\
  Prefix (trace_seq W D steps) (trace_seq W D (steps ++ more)) /\
  trace_seq W D [(q1, n)] = trace_k W D q1 n /\
  rows_of (trace_seq W D [(q1, n); (q2, m)]) = firstn n (run W D q1) ++ firstn m (run W D q2).
Proof.
  intros W D steps more x q1 n q2 m.
  split; [apply trace_seq_pulls_in_order | split; [apply trace_seq_prefix | split; [apply trace_seq_single | apply trace_seq_rows2]]].
Qed.

(* no read-ahead: for a variable that the query uses only below attributes and that the selection does not enumerate, and
   that either no for_all quantifies ([attr_only_strict]) or one does, the comparison evaluated first in that for_all's
   body reads it, and no variable of the condition has an empty domain ([attr_only_len]) -- decidable classes --, every
   element pulled out of its generator has one of its attributes read (or is handed out in a row) before the next element
   is pulled, before the generator is finished, and before the log ends; in the n-stopped run for every n and in the
   full run.  [examined_scan] is the scan the harness runs on the real engine's logs.  For a for_all variable this says
   that the universal domain is pulled only as long as candidates are left to refute. *)
Theorem C10_no_read_ahead : forall W D q n x, attr_only_strict q x = true \/ attr_only_len D q x = true ->
  examined_scan D x None (trace_k W D q n) = true /\ examined_scan D x None (trace_full W D q) = true.
Proof.
  intros W D q n x [H|H]; split;
    [apply trace_k_examined | apply trace_full_examined | apply trace_k_examined_len | apply trace_full_examined_len]; exact H.
Qed.

(* a repeated evaluation that needs only what is cached touches no generator: after n results were pulled from a query
   (without exists) and the iterator was abandoned, pulling m <= n results from a fresh evaluation of the same query pulls
   no element and finishes no generator *)
Theorem C10_reeval_quiet : forall W D q n m x, exists_free_o (q_cond q) = true -> m <= n ->
  npulls x (trace_seq W D [(q, n); (q, m)]) = npulls x (trace_seq W D [(q, n)]) /\
  ended x (trace_seq W D [(q, n); (q, m)]) = ended x (trace_seq W D [(q, n)]).
Proof. exact reeval_quiet. Qed.

(* the executable Spec the harness evaluates on the REAL engine's logs decides exactly these predicates *)
Theorem C10_spec_exec : forall t a b x,
  (demand_okb t = true <-> demand_ok t) /\ (prefixb a b = true <-> Prefix a b) /\
  (pulls_in_orderb x t = true <-> pulls_in_order x t).
Proof. intros t a b x. split; [apply demand_okb_iff | split; [apply prefixb_Prefix | apply pulls_in_orderb_iff]]. Qed.

(* ---- repaired: finding C10-a (32abf51).  The evaluator before the repair ([trace_k_product]: itertools.product over the
   selected expressions' generators) drained the whole domain before the first row; the evaluator as it is now pulls one
   element.  Kept as regression witnesses (corpus/C10/kf_product.json, product_unbound.json). ---- *)
(* an(entity(x)), x over a 5-element generator, no condition *)
Definition w_product : ecase :=
  {| e_world := [(1, 1, []); (2, 2, []); (3, 3, []); (4, 4, []); (5, 5, [])]%Z;
     e_doms := [(0%nat, [VO 1; VO 2; VO 3; VO 4; VO 5])]%Z;
     e_query := {| q_sels := [OVar 0]; q_cond := None |} |}.
Theorem C10_fixed_product :
  let W := mk_world (e_world w_product) in let D := mk_domains (e_doms w_product) in
  f10 (e_query w_product) = true /\
  trace_k W D (e_query w_product) 1 = [Pull 0 0; Yield [VO 1%Z]] /\
  trace_k_product W D (e_query w_product) 1
    = [Pull 0 0; Pull 0 1; Pull 0 2; Pull 0 3; Pull 0 4; End 0; Yield [VO 1%Z]] /\
  demand_okb (trace_k_product W D (e_query w_product) 1) = false.
Proof. repeat split; vm_compute; reflexivity. Qed.

(* an(set_of([x, y], x.a >= 1)): y is not bound by the condition *)
Definition w_product2 : ecase :=
  {| e_world := [(1, 1, [(0%nat, VI 1)]); (2, 2, [(0%nat, VI 1)]); (3, 3, [(0%nat, VI 0)]); (4, 4, [(0%nat, VI 0)])]%Z;
     e_doms := [(0%nat, [VO 1; VO 2]); (1%nat, [VO 3; VO 4])]%Z;
     e_query := {| q_sels := [OVar 0; OVar 1]; q_cond := Some (CCmp OpGe (OAttr (OVar 0) 0) (OLit (VI 1))) |} |}.
Theorem C10_fixed_product_unbound :
  let W := mk_world (e_world w_product2) in let D := mk_domains (e_doms w_product2) in
  f10 (e_query w_product2) = true /\
  trace_k W D (e_query w_product2) 1 = [Pull 0 0; Get 1 0; Pull 1 0; Yield [VO 1; VO 3]%Z] /\
  trace_k_product W D (e_query w_product2) 1 = [Pull 0 0; Get 1 0; Pull 1 0; Pull 1 1; End 1; Yield [VO 1; VO 3]%Z] /\
  demand_okb (trace_k_product W D (e_query w_product2) 1) = false.
Proof. repeat split; vm_compute; reflexivity. Qed.

(* part (2) of the bound is needed: without the exemption (drop the bookkeeping entries, among them the second-pass mark)
   the bound is false for an(entity(y, or_(x.a >= 1, y.a >= 1))) -- with it, it holds (C10_demand) *)
Definition w_union : ecase :=
  {| e_world := [(1, 1, [(0%nat, VI 0)]); (2, 2, [(0%nat, VI 1)])]%Z;
     e_doms := [(0%nat, [VO 1]); (1%nat, [VO 2])]%Z;
     e_query := {| q_sels := [OVar 1]; q_cond := Some (mk_or (CCmp OpGe (OAttr (OVar 0) 0) (OLit (VI 1)))
                                                             (CCmp OpGe (OAttr (OVar 1) 0) (OLit (VI 1)))) |} |}.
Theorem C10_union_two_parts :
  let t := trace_full (mk_world (e_world w_union)) (mk_domains (e_doms w_union)) (e_query w_union) in
  f10 (e_query w_union) = true /\
  t = [Pull 0 0; Get 1 0; Pull 1 0; Get 2 0; Yield [VO 2%Z]; End 1; End 0; Pass; Get 2 0; Yield [VO 2%Z]] /\
  demand_okb t = true /\ demand_okb (filter visible t) = false.
Proof. repeat split; vm_compute; reflexivity. Qed.

(* exists does NOT stop at the first witness: an(entity(x, exists(y, x.a <= y.a))), y's first element witnesses every x, yet
   the scan over y goes on after the result for the first x was handed out (later witnesses are skipped as duplicates):
   the second result costs the rest of y's domain.  The bound "y is pulled only as far as the first witness requires" is
   false of the faithful model; the nested-loop bound of C10_demand is what holds. *)
Definition w_exists : ecase :=
  {| e_world := [(1, 1, [(0%nat, VI 1)]); (2, 2, [(0%nat, VI 1)]); (3, 3, [(0%nat, VI 1)]); (4, 4, [(0%nat, VI 1)]); (5, 5, [(0%nat, VI 1)])]%Z;
     e_doms := [(0%nat, [VO 1; VO 2]); (1%nat, [VO 3; VO 4; VO 5])]%Z;
     e_query := {| q_sels := [OVar 0]; q_cond := Some (CExists (OVar 1) (CCmp OpLe (OAttr (OVar 0) 0) (OAttr (OVar 1) 0))) |} |}.
Theorem C10_exists_scans_on :
  let W := mk_world (e_world w_exists) in let D := mk_domains (e_doms w_exists) in
  f10 (e_query w_exists) = true /\
  filter visible (trace_k W D (e_query w_exists) 1) = [Pull 0 0; Get 1 0; Pull 1 0; Get 3 0; Yield [VO 1%Z]] /\
  filter visible (trace_k W D (e_query w_exists) 2)
    = [Pull 0 0; Get 1 0; Pull 1 0; Get 3 0; Yield [VO 1%Z];
       Pull 1 1; Get 4 0; Pull 1 2; Get 5 0; End 1; Pull 0 1; Get 2 0; Get 3 0; Yield [VO 2%Z]].
Proof. repeat split; vm_compute; reflexivity. Qed.

(* for_all is outside F10: it collects the candidate solutions of its condition for the first universal value before it
   hands anything on, and needs the whole universal domain to confirm a result: an(entity(x, for_all(y, x.a >= y.a))) has
   pulled ALL of x's domain (and exhausted both domains) before the first result *)
Definition w_forall : ecase :=
  {| e_world := [(1, 1, [(0%nat, VI 1)]); (2, 2, [(0%nat, VI 2)]); (3, 3, [(0%nat, VI 3)]); (4, 4, [(0%nat, VI 0)])]%Z;
     e_doms := [(0%nat, [VO 1; VO 2; VO 3]); (1%nat, [VO 4])]%Z;
     e_query := {| q_sels := [OVar 0]; q_cond := Some (CForAll 1 (CCmp OpGe (OAttr (OVar 0) 0) (OAttr (OVar 1) 0))) |} |}.
Theorem C10_forall_eager :
  let W := mk_world (e_world w_forall) in let D := mk_domains (e_doms w_forall) in
  f10 (e_query w_forall) = false /\
  trace_k W D (e_query w_forall) 1
    = [Pull 1 0; Get 4 0; Pull 0 0; Get 1 0; Pull 0 1; Get 2 0; Pull 0 2; Get 3 0; End 0; End 1; Yield [VO 1%Z]] /\
  demand_okb (trace_k W D (e_query w_forall) 1) = false.
Proof. repeat split; vm_compute; reflexivity. Qed.

(* a query inside F10 with three results: the hypotheses are satisfiable and the statements say something:
   an(set_of([x, y], and_(x.a >= 1, y.a <= x.a))) -- stopping after the first row has pulled 2 of x's 3 and 1 of y's 2 elements *)
Definition w_lazy : ecase :=
  {| e_world := [(1, 1, [(0%nat, VI 0)]); (2, 2, [(0%nat, VI 1)]); (3, 3, [(0%nat, VI 2)]); (4, 4, [(0%nat, VI 1)]); (5, 5, [(0%nat, VI 2)])]%Z;
     e_doms := [(0%nat, [VO 1; VO 2; VO 3]); (1%nat, [VO 4; VO 5])]%Z;
     e_query := {| q_sels := [OVar 0; OVar 1];
                   q_cond := Some (mk_and (CCmp OpGe (OAttr (OVar 0) 0) (OLit (VI 1)))
                                          (CCmp OpLe (OAttr (OVar 1) 0) (OAttr (OVar 0) 0))) |} |}.
Example C10_nonvacuous :
  f10 (e_query w_lazy) = true /\
  trace_k (mk_world (e_world w_lazy)) (mk_domains (e_doms w_lazy)) (e_query w_lazy) 1
    = [Pull 0 0; Get 1 0; Pull 0 1; Get 2 0; Get 2 0; Pull 1 0; Get 4 0; Yield [VO 2; VO 4]%Z] /\
  length (rows_of (trace_full (mk_world (e_world w_lazy)) (mk_domains (e_doms w_lazy)) (e_query w_lazy))) = 3.
Proof. repeat split; vm_compute; reflexivity. Qed.

Print Assumptions C10_bridge.
Print Assumptions C10_prefix_rows.
Print Assumptions C10_prefix_trace.
Print Assumptions C10_pulls_prefix.
Print Assumptions C10_demand.
Print Assumptions C10_reeval.
Print Assumptions C10_no_read_ahead.
Print Assumptions C10_reeval_quiet.
Print Assumptions C10_spec_exec.
Print Assumptions C10_fixed_product.
Print Assumptions C10_fixed_product_unbound.
Print Assumptions C10_union_two_parts.
Print Assumptions C10_exists_scans_on.
Print Assumptions C10_forall_eager.
