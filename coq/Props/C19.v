(* Property C19 -- unresolvable JSON type tags fail with the documented serialisation errors only.
   Only statements, each closed by [exact].  The guard chain [from_json_chain] is Gen/JsonResolve.v, regenerated from
   adapters/json_serializer.py on every run; the Spec (decision table) is Json/ResolveSpec.v.
   Quantifiers: every JSON value as document and under the tag key; every behaviour the import machinery documents
   (importer: module | ModuleNotFoundError | ImportError | ValueError only for "" | TypeError only for relative names;
    getattr (on a module or a class): object | AttributeError;  issubclass: bool | TypeError only for non-classes).
   Tag format (since 70c605d): "<module>.<qualified class name>"; the Spec's owner part = longest importable module prefix,
   then classes.  SubclassJSONSerializer._resolve_enclosing_class is hand-modelled ([enclosing], Json/Resolve.v) and source-pinned. *)
From Coq Require Import List ZArith Bool.
From Krrood Require Import Base.Sx Json.JsonVal Json.ResolveSpec Gen.JsonResolve Json.Resolve Json.ResolveProofs.
Import ListNotations.
Open Scope Z_scope.

(* the translated chain never lets AttributeError / ValueError / TypeError escape (the repaired C19-a) *)
Theorem C19_chain_never_escapes :
  forall (pymodule pyclass pydeser : Type) import_module getattr_ is_type issubclass_ser get_deserializer,
    importer_documented pymodule import_module -> getattr_documented pymodule pyclass getattr_ ->
    issubclass_documented pyclass is_type issubclass_ser ->
    forall (data : jv) (e : pyexn),
      chain pymodule pyclass pydeser import_module getattr_ is_type issubclass_ser get_deserializer data <> RaiseF e.
Proof. exact chain_no_escape. Qed.

(* the full statement, unconditional: for every document and every documented oracle behaviour the outcome is a return or
   a JSONSerializationError subclass -- never a foreign exception (C19-a repaired by 04c9528, C19-b by dd15a30) *)
Theorem C19_only_documented :
  forall (pymodule pyclass pydeser : Type) import_module getattr_ is_type issubclass_ser get_deserializer implements_from_json,
    importer_documented pymodule import_module -> getattr_documented pymodule pyclass getattr_ ->
    issubclass_documented pyclass is_type issubclass_ser ->
    forall data : jv,
      documented_outcome pyclass pydeser
        (resolve pymodule pyclass pydeser import_module getattr_ is_type issubclass_ser get_deserializer implements_from_json data).
Proof. exact resolve_only_documented. Qed.

(* a tag that names a serialiser class without _from_json (the base class itself, ...) is reported as not deserialisable *)
Theorem C19_abstract_class_not_deserializable :
  forall (pymodule pyclass pydeser : Type) import_module getattr_ is_type issubclass_ser get_deserializer implements_from_json (data : jv),
    K_abstract pymodule pyclass pydeser import_module getattr_ is_type issubclass_ser get_deserializer implements_from_json data = true ->
    resolve pymodule pyclass pydeser import_module getattr_ is_type issubclass_ser get_deserializer implements_from_json data
    = RaiseJ ClassNotDeserializableError.
Proof. exact resolve_abstract. Qed.

(* ... and the error identifies the problem: the outcome is exactly the Spec's decision table on the tag.  Excluded: an
   abstract serialiser class that ALSO has a registered deserialiser (there the code answers ClassNotDeserializableError --
   documented, so C19_only_documented covers it -- where the table would use the registry; see the Example below) *)
Theorem C19_identifies_problem :
  forall (pymodule pyclass pydeser : Type) import_module getattr_ is_type issubclass_ser get_deserializer implements_from_json,
    importer_documented pymodule import_module -> getattr_documented pymodule pyclass getattr_ ->
    issubclass_documented pyclass is_type issubclass_ser ->
    forall d : list (str * jv),
      K_abstract_registered pymodule pyclass pydeser import_module getattr_ is_type issubclass_ser get_deserializer implements_from_json (JObj d) = false ->
      resolve pymodule pyclass pydeser import_module getattr_ is_type issubclass_ser get_deserializer implements_from_json (JObj d)
      = outcome_of pyclass pydeser
          (full_spec pymodule pyclass pydeser import_module getattr_ is_type issubclass_ser get_deserializer implements_from_json (tag_of d)).
Proof. exact resolve_obj. Qed.

(* never a wrongly typed object: a class receives the document only if the tag is "<owner part>.<n>", the owner part
   resolves (longest importable module prefix, then through classes) to an owner o, and n is that class in o *)
Theorem C19_never_wrongly_typed :
  forall (pymodule pyclass pydeser : Type) import_module getattr_ is_type issubclass_ser get_deserializer implements_from_json,
    importer_documented pymodule import_module -> getattr_documented pymodule pyclass getattr_ ->
    issubclass_documented pyclass is_type issubclass_ser ->
    forall (data : jv) (c : pyclass),
      resolve pymodule pyclass pydeser import_module getattr_ is_type issubclass_ser get_deserializer implements_from_json data
        = Return (FJ_CallClass c) ->
      exists d s m n o, data = JObj d /\ dict_get d JSON_TYPE_NAME = Some (JStr s) /\ s = m ++ 46 :: n /\ no_sep 46 n = true /\
        owner_of pymodule pyclass (view_module pymodule import_module) (view_attr pymodule pyclass getattr_) is_type m = Some o /\
        getattr_ o n = Ok c /\ is_type c = true /\ issubclass_ser c = Ok true.
Proof. exact resolve_class_named. Qed.

(* the hand model of _resolve_enclosing_class (source-pinned) computes the Spec's owner: the longest importable dotted
   prefix, then the remaining names through classes -- and never asks the importer for "" or a relative name *)
Theorem C19_enclosing_is_spec :
  forall (pymodule pyclass : Type) import_module getattr_ is_type,
    importer_documented pymodule import_module -> getattr_documented pymodule pyclass getattr_ ->
    forall (c : Z) (r : str) (k : nat), c <> 46 ->
      try_prefixes pymodule pyclass import_module getattr_ is_type (split_dots (c :: r)) k
      = Ok (owner_from pymodule pyclass (view_module pymodule import_module) (view_attr pymodule pyclass getattr_) is_type
              (split_dots (c :: r)) k).
Proof. exact try_prefixes_owner_from. Qed.

(* what the correspondence check evaluates is covered: on documented oracle tables the model is the Spec *)
Theorem C19_model_is_spec :
  forall c : rcase,
    importer_documented Z (rc_import c) -> getattr_documented Z Z (rc_getattr c) ->
    issubclass_documented Z (memz (rc_types c)) (rc_issub c) ->
    (rc_has_tag c = false -> dict_get (rc_extra c) JSON_TYPE_NAME = None) ->
    K_abstract_registered Z Z Z (rc_import c) (rc_getattr c) (memz (rc_types c)) (rc_issub c) (assoc_z (rc_regs c)) (memz (rc_impl c)) (rc_data c) = false ->
    model_rcase c = spec_rcase c.
Proof. exact model_rcase_eq_spec. Qed.

(* regression example for the former finding C19-e (fixed by 2cf212b): falsy tags of the wrong JSON type (0, false, [], "") are
   format errors like the truthy ones; only an absent or null tag is missing *)
Example C19_regression_falsy_wrong_type :
  let run := fun t => resolve Z Z Z w_import w_getattr (fun _ => true) (fun _ => Ok true) (fun _ => None) (fun _ => true)
                        (JObj [(JSON_TYPE_NAME, t)]) in
  run (JInt 0) = RaiseJ InvalidTypeFormatError /\ run (JBool false) = RaiseJ InvalidTypeFormatError /\
  run (JArr []) = RaiseJ InvalidTypeFormatError /\ run (JStr []) = RaiseJ InvalidTypeFormatError /\
  run (JInt 5) = RaiseJ InvalidTypeFormatError /\ run JNull = RaiseJ MissingTypeError /\
  resolve Z Z Z w_import w_getattr (fun _ => true) (fun _ => Ok true) (fun _ => None) (fun _ => true) (JObj []) = RaiseJ MissingTypeError.
Proof. exact falsy_wrong_type_is_format_error. Qed.

(* regression example for the former finding C19-c (fixed by 34c3d21): an importer that answers ImportError for an existing
   module is inside the documented behaviours, and the outcome is UnknownModuleError *)
Example C19_regression_import_error :
  importer_documented Z w_import_err /\
  resolve Z Z Z w_import_err w_getattr (fun _ => true) (fun _ => Ok true) (fun _ => None) (fun _ => true) w_data
  = RaiseJ UnknownModuleError.
Proof. exact import_error_is_unknown_module. Qed.

(* finding C19-g: OUTSIDE the premise [getattr_documented] (object | AttributeError) -- a module whose module-level __getattr__
   raises ModuleNotFoundError (PEP 562 lazy import of a missing optional dependency): the exception escapes from getattr,
   where the Spec (the module has no such attribute) says ClassNotFoundError *)
Theorem C19_refuted_lazy_getattr :
  resolve Z Z Z w_import w_getattr_lazy (fun _ => true) (fun _ => Ok true) (fun _ => None) (fun _ => true) w_data
  = RaiseF ModuleNotFoundError /\
  full_spec Z Z Z w_import w_getattr_lazy (fun _ => true) (fun _ => Ok true) (fun _ => None) (fun _ => true) (tag_of [(JSON_TYPE_NAME, JStr [107; 46; 83])])
  = RError EClassNotFound.
Proof. exact lazy_getattr_escapes. Qed.

(* regression example for the former finding C19-b (fixed by dd15a30): the tag "k.S", S a serialiser class without
   _from_json, in a documented world, now gives ClassNotDeserializableError (it was NotImplementedError) *)
Example C19_regression_abstract_base :
  importer_documented Z w_import /\ getattr_documented Z Z w_getattr /\
  issubclass_documented Z (fun _ => true) (fun _ => Ok true) /\
  resolve Z Z Z w_import w_getattr (fun _ => true) (fun _ => Ok true) (fun _ => None) (fun _ => false) w_data
  = RaiseJ ClassNotDeserializableError.
Proof. exact abstract_base_documented. Qed.

(* the exclusion of C19_identifies_problem is inhabited: same tag, S also registered with deserialiser 9 *)
Example C19_abstract_registered_divergence :
  let res := resolve Z Z Z w_import w_getattr (fun _ => true) (fun _ => Ok true) (fun _ => Some 9) (fun _ => false) w_data in
  let spec := full_spec Z Z Z w_import w_getattr (fun _ => true) (fun _ => Ok true) (fun _ => Some 9) (fun _ => false) (tag_of [(JSON_TYPE_NAME, JStr [107; 46; 83])]) in
  res = RaiseJ ClassNotDeserializableError /\ spec = RByRegistry 2 9 /\
  K_abstract_registered Z Z Z w_import w_getattr (fun _ => true) (fun _ => Ok true) (fun _ => Some 9) (fun _ => false) w_data = true.
Proof. exact abstract_registered_divergence. Qed.

(* non-vacuity: in one documented world (module "k" with class S = 2 and function f = 3; class S has the nested class
   I = 4), a tag that resolves, a NESTED tag that resolves, and the former C19-a witnesses each with its documented error *)
Example C19_nonvacuous :
  let imp := fun s : str => if str_eqb s [107] then Ok 1 else if str_eqb s [] then Exn ValueError else Exn ModuleNotFoundError in
  let ga := fun (o : owner Z Z) (n : str) =>
              match o with
              | OMod _ => if str_eqb n [83] then Ok 2 else if str_eqb n [102] then Ok 3 else Exn AttributeError
              | OCls k => if Z.eqb k 2 && str_eqb n [73] then Ok 4 else Exn AttributeError
              end in
  let ty := fun o : Z => Z.eqb o 2 || Z.eqb o 4 in
  let sub := fun o : Z => if Z.eqb o 2 || Z.eqb o 4 then Ok true else Exn TypeError in
  let run := fun t => outcome_sx (resolve Z Z Z imp ga ty sub (fun _ => None) (fun _ => true) (JObj [(JSON_TYPE_NAME, t)])) in
  run (JStr [107; 46; 83]) = SL [SZ 10; SZ 2] /\
  run (JStr [107; 46; 83; 46; 73]) = SL [SZ 10; SZ 4] /\          (* "k.S.I" *)
  run (JStr [107; 46; 83; 46; 120]) = SL [SZ 20; SZ 4] /\         (* "k.S.x": class S has no x *)
  run (JStr [107; 46; 102; 46; 73]) = SL [SZ 20; SZ 3] /\         (* "k.f.I": f is not a class *)
  run (JInt 5) = SL [SZ 20; SZ 2] /\
  run (JStr [46; 120]) = SL [SZ 20; SZ 2] /\
  run (JStr [107; 46; 102]) = SL [SZ 20; SZ 4] /\
  run (JStr [113; 46; 83]) = SL [SZ 20; SZ 3] /\
  run JNull = SL [SZ 20; SZ 1].
Proof. repeat split. Qed.

Print Assumptions C19_chain_never_escapes.
Print Assumptions C19_only_documented.
Print Assumptions C19_abstract_class_not_deserializable.
Print Assumptions C19_identifies_problem.
Print Assumptions C19_never_wrongly_typed.
Print Assumptions C19_enclosing_is_spec.
Print Assumptions C19_model_is_spec.
Print Assumptions C19_refuted_lazy_getattr.
