(* Property C07 -- an EQL query translated to SQL selects the same entities as in-memory evaluation.
   Only statements, each closed by [exact].  Model: Orm/EqlToSql.v (translator, tree after the C07 fix: commits
   5ffa83c f1c6930 6b20ce1 6e7d0db 7e47af0 f599ad3 20777ed 24ba119 c0600cf) over Orm/SqlAlg.v (what the statement means on SQLite --
   compared, not proved); Spec: Orm/EqlToSqlSpec.v ([answers]).  Level: partial. *)
From Coq Require Import List ZArith Bool.
From Krrood Require Import Base.Sx Orm.EqlToSqlSpec Orm.SqlAlg Orm.EqlToSql Orm.EqlToSqlProofs.
Import ListNotations.
Open Scope Z_scope.

(* for every schema, every query accepted by the translator, every world (database content): inside F07 the rows the
   statement returns are the rows in-memory evaluation returns -- same keys, same multiplicities, same order.
   F07: one variable; ==, != (also against None and between None-valued columns), <, <=, >, >= between non-None values of
   one kind, in_ of a possibly-None column in a list of scalars, a possibly-None column as condition, and_, or_; chains
   follow to-one references that are never None and end in a scalar column *)
Theorem C07_agree : forall sc q w s,
  translate sc q = TOk s -> f07 sc q w = true -> sem_res s (encode sc w) = answers sc q w.
Proof. exact agree. Qed.

(* the(...): .one() fails exactly when the(...) fails, in the same way, and otherwise returns the same entity *)
Theorem C07_the : forall sc q w s,
  translate sc q = TOk s -> f07 sc q w = true -> one_of (sem_res s (encode sc w)) = one_of (answers sc q w).
Proof. exact the_agree. Qed.

(* every query of the fragment is accepted (the shape part of F07 alone decides this), hence answered as in memory *)
Theorem C07_accepts : forall sc q w, f07 sc q w = true -> exists s, translate sc q = TOk s.
Proof. exact f07_accepted. Qed.

(* reject or agree.  (1) a condition containing a node kind the translator does not know (not_) never yields a statement *)
Theorem C07_reject_or_agree : forall sc q c,
  q_cond q = Some c -> has_not c = true -> forall s, translate sc q <> TOk s.
Proof. exact not_never_answered. Qed.
(* (2) an attribute of a variable other than the selected one is rejected (was C07-a: translated as the selected one) *)
Theorem C07_rejects_othervar : forall sc q op v ch lit,
  q_cond q = Some (CCmp op (OAttr v ch) (OLit lit)) -> v <> q_sel q -> translate sc q = TReject.
Proof. exact rejects_othervar. Qed.
Theorem C07_rejects_othervar_attr : forall sc sel root st v ch, v <> sel -> tattr sc sel root st v ch = RReject.
Proof. exact tattr_othervar. Qed.
(* (3) a relationship-valued operand against a plain literal / in a literal list is rejected (was C07-c) *)
Theorem C07_rejects_rel_literal : forall sc q op v ch lit,
  q_cond q = Some (CCmp op (OAttr v ch) (OLit lit)) -> is_rel sc (q_vars q) (OAttr v ch) = true -> translate sc q = TReject.
Proof. exact rejects_rel_literal. Qed.
Theorem C07_rejects_rel_in_list : forall sc q v ch cs,
  q_cond q = Some (CContains (OList cs) (OAttr v ch)) -> is_rel sc (q_vars q) (OAttr v ch) = true -> translate sc q = TReject.
Proof. exact rejects_rel_in_list. Qed.
(* (4) an attribute-equality join of two variables of the selected type is rejected (was C07-g) *)
Theorem C07_rejects_selfjoin : forall sc q v1 ch1 v2 ch2 root a1 a2 t1 t2,
  q_cond q = Some (CCmp OEq (OAttr v1 ch1) (OAttr v2 ch2)) -> v1 <> v2 ->
  assoc (q_sel q) (q_vars q) = Some root -> assoc v1 (q_vars q) = Some root -> assoc v2 (q_vars q) = Some root ->
  last_of ch1 = Some a1 -> last_of ch2 = Some a2 ->
  field_kind sc root a1 = Some (FRel t1) -> field_kind sc root a2 = Some (FRel t2) ->
  translate sc q = TReject.
Proof. exact rejects_selfjoin. Qed.
(* (5) <, <=, >, >= against the literal None is never answered (was C07-f) *)
Theorem C07_rejects_none_order : forall sc q op v ch,
  q_cond q = Some (CCmp op (OAttr v ch) (OLit VNull)) -> eqne op = false -> forall s, translate sc q <> TOk s.
Proof. exact rejects_none_order. Qed.

(* outside F07 the faithful model does NOT meet the property; one witness per open class *)
Theorem C07_refuted_null :         (* ordering against a None value: Python raises TypeError, SQL drops the row -- the(...) fails in memory only *)
  (model_res Wit.sc Wit.q_null_lt Wit.w = Some (Ok []) /\ answers Wit.sc Wit.q_null_lt Wit.w = Err TypeErr) /\
  (option_map one_of (model_res Wit.sc Wit.q_null_lt_the Wit.w) = Some (OneValue 4) /\
   one_of (answers Wit.sc Wit.q_null_lt_the Wit.w) = OneFailed).
Proof. exact refuted_null. Qed.
Theorem C07_refuted_valueeq :      (* related entities are compared by foreign key (identity), Python compares by __eq__ (value) *)
  model_res Wit.sc Wit.q_valueeq Wit.w = Some (Ok []) /\ answers Wit.sc Wit.q_valueeq Wit.w = Ok [10].
Proof. exact refuted_valueeq. Qed.

(* regression: the witnesses of the repaired classes: C07-a, -c, -e, -f, -g are rejected; C07-d (substring), C07-b (!= with None),
   C07-h (str column as condition), C07-i (two equality joins onto one table) agree *)
Example C07_fixed_witnesses :
  translate Wit.sc Wit.q_othervar = TReject /\ translate Wit.sc Wit.q_fk = TReject /\
  translate Wit.sc Wit.q_varop = TReject /\ translate Wit.sc Wit.q_noneorder = TReject /\
  translate Wit.sc Wit.q_selfjoin = TReject /\
  (model_res Wit.sc Wit.q_like Wit.w = Some (Ok []) /\ answers Wit.sc Wit.q_like Wit.w = Ok []) /\
  (model_res Wit.sc Wit.q_like2 Wit.w = Some (Ok [7; 8]) /\ answers Wit.sc Wit.q_like2 Wit.w = Ok [7; 8]) /\
  (model_res Wit.sc Wit.q_null_ne Wit.w = Some (Ok [3]) /\ answers Wit.sc Wit.q_null_ne Wit.w = Ok [3]) /\
  (model_res Wit.sc Wit.q_strtruth Wit.w = Some (Ok [7; 8; 9]) /\ answers Wit.sc Wit.q_strtruth Wit.w = Ok [7; 8; 9]) /\
  (model_res Wit.sc Wit.q_eqjoin_twice Wit.w = Some (Ok [11]) /\ answers Wit.sc Wit.q_eqjoin_twice Wit.w = Ok [11]) /\
  (model_res Wit.sc Wit.q_eqjoin_once Wit.w = Some (Ok [10; 11]) /\ answers Wit.sc Wit.q_eqjoin_once Wit.w = Ok [10; 11]).
Proof. exact fixed_witnesses. Qed.

(* non-vacuity: a query with two relationship paths, and/or and an attribute-attribute comparison is in F07, accepted, non-trivial;
   so are queries over a None-valued column (!=, == None, bare column, in_), while an ordering on it is outside *)
Example C07_nonvacuous :
  f07 Wit.sc Wit.q_ok Wit.w_ok = true /\ model_res Wit.sc Wit.q_ok Wit.w_ok = Some (Ok [5]) /\
  answers Wit.sc Wit.q_ok Wit.w_ok = Ok [5].
Proof. exact nonvacuous. Qed.
Example C07_nonvacuous_null :
  f07 Wit.sc Wit.q_null_mix Wit.w = true /\ model_res Wit.sc Wit.q_null_mix Wit.w = Some (Ok [3; 4]) /\
  answers Wit.sc Wit.q_null_mix Wit.w = Ok [3; 4] /\
  f07 Wit.sc Wit.q_is_none Wit.w = true /\ model_res Wit.sc Wit.q_is_none Wit.w = Some (Ok [3]) /\
  f07 Wit.sc Wit.q_null_ne Wit.w = true /\ f07 Wit.sc Wit.q_strtruth Wit.w = true /\
  f07 Wit.sc Wit.q_null_lt Wit.w = false.
Proof. exact nonvacuous_null. Qed.

Print Assumptions C07_agree.
Print Assumptions C07_the.
Print Assumptions C07_accepts.
Print Assumptions C07_reject_or_agree.
Print Assumptions C07_rejects_othervar.
Print Assumptions C07_rejects_othervar_attr.
Print Assumptions C07_rejects_rel_literal.
Print Assumptions C07_rejects_rel_in_list.
Print Assumptions C07_rejects_selfjoin.
Print Assumptions C07_rejects_none_order.
Print Assumptions C07_refuted_null.
Print Assumptions C07_refuted_valueeq.
