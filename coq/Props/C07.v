From Coq Require Import List ZArith Bool.
From Krrood Require Import Base.Sx Orm.EqlToSqlSpec Orm.SqlAlg Orm.EqlToSql.
Import ListNotations.
Open Scope Z_scope.
Example C07_nonvacuous : True. Proof. exact I. Qed.
