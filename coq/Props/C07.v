(* Property C07 -- an EQL query translated to SQL selects the same entities as in-memory evaluation.
   Only statements, each closed by [exact].  Model: Orm/EqlToSql.v (translator) over Orm/SqlAlg.v (what the
   statement means on SQLite -- compared, not proved); Spec: Orm/EqlToSqlSpec.v ([answers]).  Level: partial. *)
From Coq Require Import List ZArith Bool.
From Krrood Require Import Base.Sx Orm.EqlToSqlSpec Orm.SqlAlg Orm.EqlToSql Orm.EqlToSqlProofs.
Import ListNotations.
Open Scope Z_scope.

(* for every schema, every query accepted by the translator, every world (database content): inside F07 the rows the
   statement returns are the rows in-memory evaluation returns -- same keys, same multiplicities, same order *)
Theorem C07_agree : forall sc q w s,
  translate sc q = TOk s -> f07 sc q w = true -> sem_res s (encode sc w) = answers sc q w.
Proof. exact agree. Qed.

(* the(...): .one() fails exactly when the(...) fails, in the same way, and otherwise returns the same entity *)
Theorem C07_the : forall sc q w s,
  translate sc q = TOk s -> f07 sc q w = true -> one_of (sem_res s (encode sc w)) = one_of (answers sc q w).
Proof. exact the_agree. Qed.

(* a query of the fragment (with at least one instance of the selected type) is accepted, hence answered as in memory *)
Theorem C07_accepts : forall sc q w v root,
  f07 sc q w = true -> q_vars q = [(v, root)] -> instances sc w root <> [] -> exists s, translate sc q = TOk s.
Proof. exact f07_accepted. Qed.

(* reject or agree: a condition containing a node kind the translator does not know (not_) never yields a statement *)
Theorem C07_reject_or_agree : forall sc q c,
  q_cond q = Some c -> has_not c = true -> forall s, translate sc q <> TOk s.
Proof. exact not_never_answered. Qed.

(* outside F07 the faithful model does NOT meet the property; one witness per excluded class *)
Theorem C07_refuted_othervar :   (* a second variable is translated as the selected one *)
  model_res Wit.sc Wit.q_othervar Wit.w = Some (Ok [1]) /\ answers Wit.sc Wit.q_othervar Wit.w = Ok [1; 2].
Proof. exact refuted_othervar. Qed.
Theorem C07_refuted_null :       (* None: NULL comparison drops the row; Python: None != 1 holds, None < 0 raises *)
  (model_res Wit.sc Wit.q_null_ne Wit.w = Some (Ok []) /\ answers Wit.sc Wit.q_null_ne Wit.w = Ok [3]) /\
  (model_res Wit.sc Wit.q_null_lt Wit.w = Some (Ok []) /\ answers Wit.sc Wit.q_null_lt Wit.w = Err TypeErr).
Proof. exact refuted_null. Qed.
Theorem C07_refuted_fk_literal : (* a relationship-valued operand is its foreign key *)
  model_res Wit.sc Wit.q_fk Wit.w = Some (Ok [6]) /\ answers Wit.sc Wit.q_fk Wit.w = Ok [].
Proof. exact refuted_fk_literal. Qed.
Theorem C07_refuted_like :       (* contains(column, str) becomes LIKE: case-insensitive, % and _ are wildcards *)
  model_res Wit.sc Wit.q_like Wit.w = Some (Ok [7]) /\ answers Wit.sc Wit.q_like Wit.w = Ok [].
Proof. exact refuted_like. Qed.
Theorem C07_refuted_varoperand : (* a bare variable operand is handed to the driver as a parameter: execution fails *)
  model_res Wit.sc Wit.q_varop Wit.w = Some (Err TypeErr) /\ answers Wit.sc Wit.q_varop Wit.w = Ok [5; 6].
Proof. exact refuted_varoperand. Qed.
Theorem C07_refuted_noneorder :  (* <,<=,>,>= against None: SQLAlchemy's ArgumentError escapes, not an EQLTranslationError *)
  translate Wit.sc Wit.q_noneorder = TCrash.
Proof. exact refuted_noneorder. Qed.
Theorem C07_refuted_selfjoin :   (* attribute-equality join of two variables of the selected type: statement cannot be compiled *)
  model_res Wit.sc Wit.q_selfjoin Wit.w = Some (Err TypeErr) /\ answers Wit.sc Wit.q_selfjoin Wit.w = Ok [5; 6].
Proof. exact refuted_selfjoin. Qed.

(* non-vacuity: a query with two relationship paths, and/or and an attribute-attribute comparison is in F07, accepted, non-trivial *)
Example C07_nonvacuous :
  f07 Wit.sc Wit.q_ok Wit.w_ok = true /\ model_res Wit.sc Wit.q_ok Wit.w_ok = Some (Ok [5]) /\
  answers Wit.sc Wit.q_ok Wit.w_ok = Ok [5].
Proof. exact nonvacuous. Qed.

Print Assumptions C07_agree.
Print Assumptions C07_the.
Print Assumptions C07_accepts.
Print Assumptions C07_reject_or_agree.
Print Assumptions C07_refuted_othervar.
Print Assumptions C07_refuted_null.
Print Assumptions C07_refuted_fk_literal.
Print Assumptions C07_refuted_like.
Print Assumptions C07_refuted_varoperand.
Print Assumptions C07_refuted_noneorder.
Print Assumptions C07_refuted_selfjoin.
