(* Property C07 -- an EQL query translated to SQL selects the same entities as in-memory evaluation.
   Only statements, each closed by [exact].  Model: Orm/EqlToSql.v (translator, tree after the C07 fix: commits
   5ffa83c f1c6930 6b20ce1 6e7d0db 7e47af0 f599ad3 20777ed 24ba119 c0600cf cbfdb2e 313603b 99b53a0 beaaa59 ca259e0 562b77d 7963bf7 873189c 5834cd1 0ef3a40 7ef093b 4f6a661 517d0b9 dc46254) over Orm/SqlAlg.v (what the statement means on SQLite --
   compared, not proved); Spec: Orm/EqlToSqlSpec.v ([answers]).  Level: partial. *)
From Coq Require Import List ZArith Bool.
From Krrood Require Import Base.Sx Orm.EqlToSqlSpec Orm.SqlAlg Orm.EqlToSql Orm.EqlToSqlProofs Orm.EqlToSqlJoinProofs.
Import ListNotations.
Open Scope Z_scope.

(* for every schema, every query accepted by the translator, every world (database content): inside F07 the rows the
   statement returns are the rows in-memory evaluation returns -- same keys, same multiplicities, same order.
   F07: one variable; ==, != (also against None and between None-valued columns), <, <=, >, >= between non-None values of
   one kind, in_ of a possibly-None column in a list of scalars, a possibly-None column as condition, and_, or_; chains
   follow to-one references that are never None and end in a scalar column *)
Theorem C07_agree : forall sc q w s,
  translate sc q = TOk s -> f07 sc q w = true -> sem_res s (encode sc w) = answers sc q w.
Proof. exact agree. Qed.

(* the(...): .one() fails exactly when the(...) fails, in the same way, and otherwise returns the same entity *)
Theorem C07_the : forall sc q w s,
  translate sc q = TOk s -> f07 sc q w = true -> one_of (sem_res s (encode sc w)) = one_of (answers sc q w).
Proof. exact the_agree. Qed.

(* every query of the fragment is accepted (the shape part of F07 alone decides this), hence answered as in memory *)
Theorem C07_accepts : forall sc q w, f07 sc q w = true -> exists s, translate sc q = TOk s.
Proof. exact f07_accepted. Qed.

(* TWO variables connected by equality joins (F07J): the selected variable sel : root and one other variable v2 : c2 (no table
   shared with root); the condition is an and_/or_ tree of F07 atoms over sel and of equality joins sel.r1 == v2.r2 (either
   order) between to-one relationships, as the repaired translator produces them -- the first join at conjunctive level is a JOIN
   with the equality in ON, below an or_ the table is joined ON true and the equality is a condition, and when the table is joined
   already the equality alone is the condition; on every pair (o, t) Python's == on the two related entities coincides with
   equality of the foreign keys.  The statement returns one row per satisfying ASSIGNMENT (o, t), in the order of [answers]:
   equality of lists, hence of multisets.  For a purely conjunctive condition these multiplicities are the in-memory
   evaluator's (C02); when an equality join stands below an or_ the evaluator's multiplicities are its Union's (C02_refuted_union),
   so only the SET statement C07_agree_join_set is claimed about the implementation there *)
Theorem C07_agree_join : forall sc q w s,
  translate sc q = TOk s -> f07j sc q w = true -> sem_res s (encode sc w) = answers sc q w.
Proof. exact agree_join. Qed.
Theorem C07_the_join : forall sc q w s,
  translate sc q = TOk s -> f07j sc q w = true -> one_of (sem_res s (encode sc w)) = one_of (answers sc q w).
Proof. exact the_agree_join. Qed.
Theorem C07_agree_join_set : forall sc q w s l l',
  translate sc q = TOk s -> f07j sc q w = true -> sem_res s (encode sc w) = Ok l -> answers sc q w = Ok l' ->
  forall k, In k l <-> In k l'.
Proof. exact agree_join_set. Qed.
Theorem C07_accepts_join : forall sc q w, f07j sc q w = true -> exists s, translate sc q = TOk s.
Proof. exact f07j_accepted. Qed.

(* a to-one chain through a None reference is OUTSIDE F07: the rows of a statement are the concatenation of what each root row
   contributes, and a root row whose foreign key for the first hop of an INNER-joined path is NULL contributes nothing, whatever
   the WHERE clause says -- while in memory the chain raises AttributeError (C07_refuted_noneref).  Joins made below an or_ are
   LEFT OUTER joins since 873189c: there the row is kept and another alternative can select it, as in memory (C07_fixed_noneref_or) *)
Theorem C07_rows_by_root : forall s d l, sem s d = Some l -> l = flat_map (contribution s d) (d (s_root s)).
Proof. exact sem_by_root. Qed.
Theorem C07_noneref_drops : forall s d r js1 a tgt js2,
  s_joins s = js1 ++ JRel false 0%nat a tgt :: js2 -> col r a = VNull -> contribution s d r = [].
Proof. exact noneref_drops. Qed.

(* reject or agree.  (1) a condition containing a node kind the translator does not know (not_) never yields a statement *)
Theorem C07_reject_or_agree : forall sc q c,
  q_cond q = Some c -> has_not c = true -> forall s, translate sc q <> TOk s.
Proof. exact not_never_answered. Qed.
(* (2) an attribute of a variable other than the selected one is rejected (was C07-a: translated as the selected one) *)
Theorem C07_rejects_othervar : forall sc q op v ch lit,
  q_cond q = Some (CCmp op (OAttr v ch) (OLit lit)) -> v <> q_sel q -> translate sc q = TReject.
Proof. exact rejects_othervar. Qed.
Theorem C07_rejects_othervar_attr : forall sc sel root st v ch, v <> sel -> tattr sc sel root st v ch = RReject.
Proof. exact tattr_othervar. Qed.
(* (3) a relationship-valued operand against a plain literal / in a literal list is rejected (was C07-c) *)
Theorem C07_rejects_rel_literal : forall sc q op v ch lit,
  q_cond q = Some (CCmp op (OAttr v ch) (OLit lit)) -> is_rel sc (q_vars q) (OAttr v ch) = true -> translate sc q = TReject.
Proof. exact rejects_rel_literal. Qed.
Theorem C07_rejects_rel_in_list : forall sc q v ch cs,
  q_cond q = Some (CContains (OList cs) (OAttr v ch)) -> is_rel sc (q_vars q) (OAttr v ch) = true -> translate sc q = TReject.
Proof. exact rejects_rel_in_list. Qed.
(* (4) an attribute-equality join of two variables of the selected type is rejected (was C07-g) *)
Theorem C07_rejects_selfjoin : forall sc q v1 a1 v2 a2 root t1 t2,
  q_cond q = Some (CCmp OEq (OAttr v1 [a1]) (OAttr v2 [a2])) -> v1 <> v2 ->
  assoc (q_sel q) (q_vars q) = Some root -> assoc v1 (q_vars q) = Some root -> assoc v2 (q_vars q) = Some root ->
  field_kind sc root a1 = Some (FRel t1) -> field_kind sc root a2 = Some (FRel t2) ->
  translate sc q = TReject.
Proof. exact rejects_selfjoin. Qed.
(* (5) <, <=, >, >= against the literal None is never answered (was C07-f) *)
Theorem C07_rejects_none_order : forall sc q op v ch,
  q_cond q = Some (CCmp op (OAttr v ch) (OLit VNull)) -> eqne op = false -> forall s, translate sc q <> TOk s.
Proof. exact rejects_none_order. Qed.

(* outside F07 the faithful model does NOT meet the property; one witness per open class *)
Theorem C07_refuted_null :         (* ordering against a None value: Python raises TypeError, SQL drops the row -- the(...) fails in memory only *)
  (model_res Wit.sc Wit.q_null_lt Wit.w = Some (Ok []) /\ answers Wit.sc Wit.q_null_lt Wit.w = Err TypeErr) /\
  (option_map one_of (model_res Wit.sc Wit.q_null_lt_the Wit.w) = Some (OneValue 4) /\
   one_of (answers Wit.sc Wit.q_null_lt_the Wit.w) = OneFailed).
Proof. exact refuted_null. Qed.
Theorem C07_refuted_valueeq :      (* related entities are compared by foreign key (identity), Python compares by __eq__ (value) *)
  model_res Wit.sc Wit.q_valueeq Wit.w = Some (Ok []) /\ answers Wit.sc Wit.q_valueeq Wit.w = Ok [10].
Proof. exact refuted_valueeq. Qed.

Theorem C07_refuted_noneref :      (* a None reference on a conjunctive chain: memory raises AttributeError, the inner join drops the row, SQL answers *)
  model_res Wit.sc WitJ.q_noneref WitJ.wn = Some (Ok [6]) /\ answers Wit.sc WitJ.q_noneref WitJ.wn = Err AttrErr /\
  f07 Wit.sc WitJ.q_noneref WitJ.wn = false.
Proof. exact refuted_noneref. Qed.
Example C07_fixed_noneref_or :     (* below or_ the join is an outer join: the pose without position is returned on both sides (was C07-l) *)
  model_res Wit.sc WitJ.q_noneref_or WitJ.wn = Some (Ok [5; 6]) /\ answers Wit.sc WitJ.q_noneref_or WitJ.wn = Ok [5; 6].
Proof. exact fixed_noneref_or. Qed.
(* (9) the round-7 rejections: an operand the translator does not know (method call, index), at any depth; a text literal against
   a numeric column / a number against a text column; a join equality with a chain of more than one hop *)
Theorem C07_rejects_other : forall sc q c, q_cond q = Some c -> has_other c = true -> forall s, translate sc q <> TOk s.
Proof. exact rejects_other. Qed.
Theorem C07_rejects_text_number : forall sc q op v ch lit,
  q_cond q = Some (CCmp op (OAttr v ch) (OLit lit)) -> operand_mismatch sc (q_vars q) (OAttr v ch) lit = true ->
  forall s, translate sc q <> TOk s.
Proof. exact rejects_text_number. Qed.
Theorem C07_rejects_long_join : forall sc q v1 a1 b1 ch1 v2 ch2,
  q_cond q = Some (CCmp OEq (OAttr v1 (a1 :: b1 :: ch1)) (OAttr v2 ch2)) -> v2 <> q_sel q ->
  forall s, translate sc q <> TOk s.
Proof. exact rejects_long_join. Qed.
Theorem C07_rejects_text_number_columns : forall sc q op v ch1 ch2,
  q_cond q = Some (CCmp op (OAttr v ch1) (OAttr v ch2)) ->
  col_mismatch sc (q_vars q) (OAttr v ch1) (OAttr v ch2) = true -> forall s, translate sc q <> TOk s.
Proof. exact rejects_text_number_columns. Qed.
Example C07_fixed_round8 :         (* b.name == b.size and b.size < b.name are rejected (was C07-ac) *)
  translate Wit.sc (Wit.mk false [(1, 5)] (CCmp OEq (OAttr 1 [1]) (OAttr 1 [9]))) = TReject /\
  translate Wit.sc (Wit.mk false [(1, 5)] (CCmp OLt (OAttr 1 [9]) (OAttr 1 [1]))) = TReject.
Proof. exact fixed_round8. Qed.
Example C07_fixed_round7 :         (* two variables of one type, long join chain, unknown operand, text vs number, plain-value variable: rejected;
                                      None inside in_: same rows; an or-join over an empty other table keeps the rows (outside F07J) *)
  translate Wit.sc WitJ.q_two_vars = TReject /\ translate Wit.sc WitJ.q_long_join = TReject /\
  translate Wit.sc WitJ.q_other = TReject /\ translate Wit.sc WitJ.q_text_number = TReject /\
  translate Wit.sc WitJ.q_text_number_in = TReject /\ translate Wit.sc WitJ.q_plain_var = TReject /\
  (model_res Wit.sc WitJ.q_none_in Wit.w = Some (Ok [3]) /\ answers Wit.sc WitJ.q_none_in Wit.w = Ok [3]) /\
  (model_res Wit.sc WitJ.q_join_or WitJ.w_nopc = Some (Ok [10]) /\ answers Wit.sc WitJ.q_join_or WitJ.w_nopc = Ok [] /\
   f07j Wit.sc WitJ.q_join_or WitJ.w_nopc = false).
Proof. exact fixed_round7. Qed.
(* (8) <, <=, >, >= with an Enum-typed column on either side is never answered (was C07-o) *)
Theorem C07_rejects_enum_order : forall sc q op l r,
  q_cond q = Some (CCmp op l r) -> eqne op = false ->
  (enum_col sc (q_vars q) l || enum_col sc (q_vars q) r) = true -> forall s, translate sc q <> TOk s.
Proof. exact rejects_enum_order. Qed.
Example C07_fixed_enumorder :      (* a.element < Element.H is rejected; before beaaa59 SQL ordered the stored names where memory raises TypeError *)
  translate WitJ.sce WitJ.q_enum_lt = TReject /\ answers WitJ.sce WitJ.q_enum_lt WitJ.we = Err TypeErr /\
  f07 WitJ.sce WitJ.q_enum_lt WitJ.we = false.
Proof. exact fixed_enumorder. Qed.
Example C07_nonvacuous_enum :      (* a bare Enum attribute as condition, ==, in_ on it: inside F07, same rows *)
  f07 WitJ.sce WitJ.q_enum WitJ.we = true /\ model_res WitJ.sce WitJ.q_enum WitJ.we = Some (Ok [1; 3]) /\
  answers WitJ.sce WitJ.q_enum WitJ.we = Ok [1; 3].
Proof. exact nonvacuous_enum. Qed.
(* (7) a bare variable as comparison operand is never answered, in either order (was C07-e / C07-n) *)
Theorem C07_rejects_var_operand : forall sc q op l r v,
  q_cond q = Some (CCmp op l r) -> (l = OVar v \/ r = OVar v) -> forall s, translate sc q <> TOk s.
Proof. exact rejects_var_operand. Qed.
Example C07_fixed_setlit :         (* in_(p.x, {1, 2}) is IN (1, 2): inside F07, same rows (was C07-m) *)
  f07 Wit.sc WitJ.q_inset Wit.w = true /\ model_res Wit.sc WitJ.q_inset Wit.w = Some (Ok [1]) /\ answers Wit.sc WitJ.q_inset Wit.w = Ok [1].
Proof. exact fixed_setlit. Qed.
Example C07_fixed_namedvar :       (* entity(f, b == f.parent) and entity(f, f.parent == b) are rejected (was C07-n) *)
  translate Wit.sc WitJ.q_namedvar = TReject /\ translate Wit.sc WitJ.q_namedvar_right = TReject.
Proof. exact fixed_namedvar. Qed.
(* (6) a set_of query is rejected (was C07-k: AttributeError) *)
Theorem C07_rejects_setof : forall sc q, q_setof q = true -> translate sc q = TReject.
Proof. exact rejects_setof. Qed.
Example C07_fixed_setof : translate Wit.sc WitJ.q_setof = TReject.
Proof. exact fixed_setof. Qed.

(* regression: the witnesses of the repaired classes: C07-a, -c, -e, -f, -g are rejected; C07-d (substring), C07-b (!= with None),
   C07-h (str column as condition), C07-i (two equality joins onto one table) agree *)
Example C07_fixed_witnesses :
  translate Wit.sc Wit.q_othervar = TReject /\ translate Wit.sc Wit.q_fk = TReject /\
  translate Wit.sc Wit.q_varop = TReject /\ translate Wit.sc Wit.q_noneorder = TReject /\
  translate Wit.sc Wit.q_selfjoin = TReject /\
  (model_res Wit.sc Wit.q_like Wit.w = Some (Ok []) /\ answers Wit.sc Wit.q_like Wit.w = Ok []) /\
  (model_res Wit.sc Wit.q_like2 Wit.w = Some (Ok [7; 8]) /\ answers Wit.sc Wit.q_like2 Wit.w = Ok [7; 8]) /\
  (model_res Wit.sc Wit.q_null_ne Wit.w = Some (Ok [3]) /\ answers Wit.sc Wit.q_null_ne Wit.w = Ok [3]) /\
  (model_res Wit.sc Wit.q_strtruth Wit.w = Some (Ok [7; 8; 9]) /\ answers Wit.sc Wit.q_strtruth Wit.w = Ok [7; 8; 9]) /\
  (model_res Wit.sc Wit.q_eqjoin_twice Wit.w = Some (Ok [11]) /\ answers Wit.sc Wit.q_eqjoin_twice Wit.w = Ok [11]) /\
  (model_res Wit.sc Wit.q_eqjoin_once Wit.w = Some (Ok [10; 11]) /\ answers Wit.sc Wit.q_eqjoin_once Wit.w = Ok [10; 11]).
Proof. exact fixed_witnesses. Qed.

(* non-vacuity: a query with two relationship paths, and/or and an attribute-attribute comparison is in F07, accepted, non-trivial;
   so are queries over a None-valued column (!=, == None, bare column, in_), while an ordering on it is outside *)
Example C07_nonvacuous :
  f07 Wit.sc Wit.q_ok Wit.w_ok = true /\ model_res Wit.sc Wit.q_ok Wit.w_ok = Some (Ok [5]) /\
  answers Wit.sc Wit.q_ok Wit.w_ok = Ok [5].
Proof. exact nonvacuous. Qed.
Example C07_nonvacuous_null :
  f07 Wit.sc Wit.q_null_mix Wit.w = true /\ model_res Wit.sc Wit.q_null_mix Wit.w = Some (Ok [3; 4]) /\
  answers Wit.sc Wit.q_null_mix Wit.w = Ok [3; 4] /\
  f07 Wit.sc Wit.q_is_none Wit.w = true /\ model_res Wit.sc Wit.q_is_none Wit.w = Some (Ok [3]) /\
  f07 Wit.sc Wit.q_null_ne Wit.w = true /\ f07 Wit.sc Wit.q_strtruth Wit.w = true /\
  f07 Wit.sc Wit.q_null_lt Wit.w = false.
Proof. exact nonvacuous_null. Qed.

(* non-vacuity of F07J: a join alone, next to and below or_ with a comparison, two joins onto one table, an entity with two
   partners (twice in both lists, the(...) fails on both sides); two distinct entities equal by value are excluded and refute *)
Example C07_nonvacuous_join :
  f07j Wit.sc WitJ.q_join Wit.w = true /\ model_res Wit.sc WitJ.q_join Wit.w = Some (Ok [10; 11]) /\
  f07j Wit.sc WitJ.q_join_and Wit.w = true /\ model_res Wit.sc WitJ.q_join_and Wit.w = Some (Ok [11]) /\
  answers Wit.sc WitJ.q_join_and Wit.w = Ok [11] /\
  f07j Wit.sc WitJ.q_join_or Wit.w = true /\ model_res Wit.sc WitJ.q_join_or Wit.w = Some (Ok [10; 11]) /\
  answers Wit.sc WitJ.q_join_or Wit.w = Ok [10; 11] /\
  f07j Wit.sc Wit.q_eqjoin_twice Wit.w = true /\
  f07j Wit.sc WitJ.q_join WitJ.w2 = true /\ model_res Wit.sc WitJ.q_join WitJ.w2 = Some (Ok [10; 10; 11; 11]) /\
  answers Wit.sc WitJ.q_join WitJ.w2 = Ok [10; 10; 11; 11] /\
  option_map one_of (model_res Wit.sc WitJ.q_join_the WitJ.w2) = Some MultipleFound /\
  one_of (answers Wit.sc WitJ.q_join_the WitJ.w2) = MultipleFound /\
  f07j Wit.sc WitJ.q_join_valueeq Wit.w = false /\
  model_res Wit.sc WitJ.q_join_valueeq Wit.w = Some (Ok []) /\ answers Wit.sc WitJ.q_join_valueeq Wit.w = Ok [10].
Proof. exact nonvacuous_join. Qed.

Print Assumptions C07_agree.
Print Assumptions C07_the.
Print Assumptions C07_accepts.
Print Assumptions C07_agree_join.
Print Assumptions C07_the_join.
Print Assumptions C07_agree_join_set.
Print Assumptions C07_accepts_join.
Print Assumptions C07_rows_by_root.
Print Assumptions C07_noneref_drops.
Print Assumptions C07_reject_or_agree.
Print Assumptions C07_rejects_othervar.
Print Assumptions C07_rejects_othervar_attr.
Print Assumptions C07_rejects_rel_literal.
Print Assumptions C07_rejects_rel_in_list.
Print Assumptions C07_rejects_selfjoin.
Print Assumptions C07_rejects_none_order.
Print Assumptions C07_refuted_null.
Print Assumptions C07_refuted_valueeq.
Print Assumptions C07_refuted_noneref.
Print Assumptions C07_rejects_var_operand.
Print Assumptions C07_rejects_setof.
Print Assumptions C07_rejects_enum_order.
Print Assumptions C07_rejects_other.
Print Assumptions C07_rejects_text_number.
Print Assumptions C07_rejects_long_join.
Print Assumptions C07_rejects_text_number_columns.
