(* Property C05 -- persisting to SQL and reloading in a fresh session restores the object graph.
   Only statements, each closed by [exact].  Spec: Orm/Iso.v.  Model: Orm/Rows.v (schema, flush, load) on top of the
   C04 models.  SQLAlchemy's direction inference, set semantics of secondary tables and polymorphic loading are
   MODELLED in Orm/Rows.v and compared with the real library by harness/c05.py; they are not proved about it. *)
From Coq Require Import List ZArith Bool Lia Arith PeanoNat.
From Krrood Require Import Base.Sx Orm.ObjGraph Orm.Iso Orm.ObjGraphWalk Orm.ObjGraphWalkProofs Orm.IsoCanon
  Orm.ToDao Orm.FromDao Orm.RoundTrip Orm.Rows Orm.Persist.
Import ListNotations.
Local Open Scope nat_scope.

(* the relational encoding has an inverse: for every schema, every DAO graph (any size, sharing, cycles) that fits the
   schema and lies in F05, and EVERY primary-key assignment that is injective per hierarchy, reading the rows back
   yields the DAO graph itself: concrete classes from the discriminator, column values re-joined along the chain of
   tables, None, single references, collections *)
Theorem C05_load_flush : forall S d n pk,
  wf_dao S d n = true -> F05 S d n = true ->
  (forall a b, a < n -> b < n -> K S d pk a = K S d pk b -> a = b) ->
  forall a, a < n -> load S (flush S d n pk) a = d a.
Proof. exact load_flush. Qed.

(* to_dao, flush, load, from_dao -- for every user code whose column handling round-trips on the heap (codec_ok), every class model (alternatively mapped classes and
   DAOs below an alternatively mapped DAO included) that is coherent on the heap: if the persisted DAO graph fits the schema
   and lies in F05, the reload terminates, and unless from_dao handed out a mapping object in progress (C04-a: [bad]) the
   reloaded graph is isomorphic to the original; [bad] cannot happen when no DAO is a mapping-class DAO *)
Theorem C05_reload : forall (enc dec : Z -> list Z -> list Z) S alts ab pk l r dr s1,
  wf_heap l r = true -> alts_ok alts l = true -> codec_ok enc dec l = true -> to_dao enc alts l r = Some (dr, s1) ->
  wf_dao S (dst s1) (nxt s1) = true -> F05 S (dst s1) (nxt s1) = true ->
  (forall a b, a < nxt s1 -> b < nxt s1 -> K S (dst s1) pk a = K S (dst s1) pk b -> a = b) ->
  exists r' s2, reload S enc dec alts ab pk l r = Some (r', s2) /\
    (bad s2 = false -> iso (dst s2) r' (heap_of l) r) /\
    ((forall y o, y < nxt s1 -> dst s1 y = Some o -> zassoc_inv (ocls o) alts = None) -> bad s2 = false).
Proof. exact reload_iso. Qed.

(* with every hypothesis on the input: an object graph g that fits the schema (wf_src), without alternatively mapped
   classes (strict F04), without repeated collection elements and without values in single references the mapper reads as
   ONETOMANY (F05_src; none in generated layers since 22a99b9); keys: any assignment injective on the DAOs of a hierarchy *)
Theorem C05_reload_src : forall S alts ab pk l r,
  wf_heap l r = true -> F04 alts l = true -> wf_src S l = true -> F05_src S l = true ->
  exists dr s1, to_dao idc alts l r = Some (dr, s1) /\
    ((forall a b, a < nxt s1 -> b < nxt s1 -> K S (dst s1) pk a = K S (dst s1) pk b -> a = b) ->
     exists r' s2, reload S idc idc alts ab pk l r = Some (r', s2) /\ iso (dst s2) r' (heap_of l) r).
Proof. exact reload_iso_src. Qed.

(* every distinct object is stored as exactly one root row: root row i <-> the reachable object x with memo x = i
   (any class model, alternatively mapped objects included) *)
Theorem C05_one_root_row_per_object : forall (enc : Z -> list Z -> list Z) S alts pk l r dr s1,
  wf_heap l r = true -> to_dao enc alts l r = Some (dr, s1) ->
  length (t_root (flush S (dst s1) (nxt s1) pk)) = nxt s1 /\
  (forall x, reach (heap_of l) r x <-> exists i, mlook x s1 = Some i) /\
  (forall i, i < nxt s1 -> exists x, mlook x s1 = Some i) /\
  (forall x x' i, mlook x s1 = Some i -> mlook x' s1 = Some i -> x = x') /\
  (forall x i, mlook x s1 = Some i -> i < nxt s1).
Proof. exact one_root_row_per_object. Qed.

(* regression example (finding C05-a, FIXED by repo commit 22a99b9): on a schema in which a single reference into the own
   hierarchy is read as ONETOMANY ([s_selfref] non-empty, what the generator produced before it emitted remote_side), two
   sources sharing the target lose one link.  Since 22a99b9 the mappers of the generated layers yield s_selfref = [], so
   such references lie inside F05 and are covered by C05_reload. *)
Example C05_regression_selfref_schema :
  wf_heap selfref_heap2 0 = true /\
  exists r' s2, reload selfref_schema2 idc idc [] [] (pk_id 1) selfref_heap2 0 = Some (r', s2) /\
    ~ iso (dst s2) r' (heap_of selfref_heap2) 0.
Proof. exact refuted_selfref. Qed.

(* the same graph on the schema the repaired generator produces (no ONETOMANY single reference) reloads correctly *)
Example C05_selfref_now_inside :
  let S := mkSchema [] [] [(1%Z, [2%Z]); (5%Z, [7%Z])] [] in
  frag_code S [] [] [] selfref_heap2 0 = 7%Z /\ model_reload S [] [] [] selfref_heap2 0 = spec_canon selfref_heap2 0.
Proof. split; vm_compute; reflexivity. Qed.

(* outside F05: a collection holding the same element twice (finding C05-b) *)
Theorem C05_refuted_repeated_element :
  wf_heap repeated_heap 0 = true /\
  exists r' s2, reload repeated_schema idc idc [] [] (pk_id 1) repeated_heap 0 = Some (r', s2) /\
    ~ iso (dst s2) r' (heap_of repeated_heap) 0.
Proof. exact refuted_repeated_element. Qed.

(* non-vacuity: three-level joined-table inheritance (1 <- 2 <- 3 with 1, 2, 0 own columns), a holder (class 5) with a
   single reference (tag 6) and a collection (tag 7), shared elements, a cycle through the holder (tag 8 on class 3) *)
Definition c05_schema : schema :=
  mkSchema [(2, 1); (3, 2)]%Z [(1%Z, 1); (2%Z, 2)] [(5%Z, [6; 7]%Z); (3%Z, [8%Z]); (1%Z, []); (2%Z, [])] [].
Definition c05_example : lheap :=
  [(0, mkObj 5 [] [(6%Z, [1]); (7%Z, [1; 2; 3])]);
   (1, mkObj 3 [10; 20; 30]%Z [(8%Z, [0])]);
   (2, mkObj 2 [11; 21; 31]%Z []);
   (3, mkObj 1 [12%Z] [])].
Example C05_nonvacuous :
  wf_heap c05_example 0 = true /\ F04 [] c05_example = true /\
  wf_src c05_schema c05_example = true /\ F05_src c05_schema c05_example = true /\
  frag_code c05_schema [] [] [] c05_example 0 = 7%Z /\
  model_reload c05_schema [] [] [] c05_example 0 = spec_canon c05_example 0 /\
  model_counts c05_schema [] c05_example 0 [1; 2; 3; 5]%Z [7%Z] = SL [SL [SZ 3; SZ 2; SZ 1; SZ 1]; SL [SZ 3]]%Z.
Proof. vm_compute. repeat split. Qed.

Print Assumptions C05_load_flush.
Print Assumptions C05_reload.
Print Assumptions C05_reload_src.
Print Assumptions C05_one_root_row_per_object.
Print Assumptions C05_refuted_repeated_element.
