(* Property C17 -- class diagrams mirror the Python classes and derived views leave them intact.
   Only statements, each closed by [exact].  Model: Gen/FieldKind.v (regenerated from wrapped_field.py on every
   run), Diagram/Diagram.v, Diagram/SubDiagram.v.  Spec: Diagram/FieldKindSpec.v, Diagram/DiagramSpec.v. *)
From Coq Require Import List Bool PArith.
From Krrood Require Import Base.Sx Diagram.Ty Diagram.FieldKindSpec Diagram.DiagramSpec Gen.FieldKind
  Diagram.FieldKindProofs Diagram.Diagram Diagram.DiagramProofs Diagram.SpecExec Diagram.SubDiagram.
Import ListNotations.
Local Open Scope positive_scope.

(* every field whose (resolved) annotation is in the supported grammar is classified as the annotation says,
   and no predicate raises *)
Theorem C17_classify : forall f : wfield,
  wf_ty (resolved_type f) = true -> kinds_of f = Ok (spec_kind (resolved_type f)).
Proof. exact classify_ok. Qed.

(* the same for declared annotations: forward references at the leaves resolve (through the module namespace; a
   reference to a class defined inside a function or nested in a class through the diagram's classes ns) into the
   supported grammar, to the class they name *)
Theorem C17_classify_declared : forall p ns t d df, wf_ann t = true -> leaf_ok p t = true -> locals_res p ns t ->
  exists rt, resolve p ns (fun n => n) t = Ok rt /\
    kinds_of {| resolved_type := rt; has_default := d; has_default_factory := df |} = Ok (spec_kind rt) /\
    forall c, about rt c = about t c.
Proof. exact classify_declared. Qed.

(* for every well-formed program (any declaration order Python admits, forward references anywhere -- also to
   classes the declaring module imports under `if TYPE_CHECKING:` only --, single and multiple inheritance of any depth, classes of different modules sharing a __name__) and every list of distinct dataclasses of it: construction succeeds, the
   nodes are the given classes in the given order, no edge occurs twice and an edge is present exactly when the
   Spec demands it (inheritance: direct base, both in the diagram; association: a public field declared by the
   class or an ancestor whose annotation, seen through Optional / container / Type[...] and forward references,
   is a class of the diagram) *)
Theorem C17_edges : forall p cs, wf_prog p = true -> wf_classes p cs = true ->
  exists g, build p cs = Ok g /\ g_nodes g = cs /\ NoDup (g_edges g) /\
            forall e, In e (g_edges g) <-> spec_edge p cs e.
Proof. exact build_meets_spec. Qed.

(* the same against the executable form of the Spec that the correspondence check runs: same nodes, same edge
   set, and the model lists no edge twice *)
Theorem C17_edges_exec : forall p cs, wf_prog p = true -> wf_classes p cs = true ->
  exists g, build p cs = Ok g /\ g_nodes g = g_nodes (spec_graph p cs) /\ NoDup (g_edges g) /\
            forall e, In e (g_edges g) <-> In e (g_edges (spec_graph p cs)).
Proof. exact build_matches_spec_graph. Qed.

(* what one can observe of a diagram is its graph and the answers of its read-only queries (several of which are
   memoised per diagram object).  After any sequence of read-only operations -- sub-diagram derivations with either
   flag, shallow copies, queries and rendering, applied to the diagram or to any view derived from it, in any
   order (the view asked first, then the source, or the reverse) -- the source has the graph it had and every
   query on it answers what that graph says *)
Theorem C17_views_pure : forall (g : graph) (ops : list op),
  graph_at (run_ops ops (init g)) 0 = Some g /\ forall q, ask (run_ops ops (init g)) 0 q = answer g q.
Proof. exact source_observations_intact. Qed.

(* and every diagram object, derived ones included, answers what its own graph says *)
Theorem C17_views_consistent : forall g ops t gt,
  graph_at (run_ops ops (init g)) t = Some gt -> forall q, ask (run_ops ops (init g)) t q = answer gt q.
Proof. exact observations_consistent. Qed.

(* ... nor any other graph that existed when the operations started *)
Theorem C17_views_pure_all : forall ops s i g,
  nth_error (heap s) i = Some g -> nth_error (heap (run_ops ops s)) i = Some g.
Proof. exact views_pure. Qed.

(* the code before commit 9f76ed7 (shallow copy only) did change the source: regression witness *)
Theorem C17_refuted_subdiagram_before_fix :
  graph_at (fold_left run_op_shallow [OpSub 0 false] (init witness_graph)) 0 <> Some witness_graph.
Proof. exact shallow_refuted. Qed.

(* what C17_views_pure excludes: if a derived diagram kept the memo table of its source (a cache attribute copied
   by copy(self)), asking the view first would change what the source answers although its graph is untouched *)
Theorem C17_refuted_shared_memo :
  let s := fold_left run_op_sharedmemo [OpSub 0 false; OpQuery 1 (QOutEdges 3)] (init witness_graph) in
  graph_at s 0 = Some witness_graph /\ snd (step true s (OpQuery 0 (QOutEdges 3))) <> answer witness_graph (QOutEdges 3).
Proof. exact sharedmemo_refuted. Qed.

(* regression (C17-b, repaired by 90ccf0e): the old rule "contained type of an optional = get_args(...)[0]" answers
   NoneType on Union[None, X]; the code as translated now answers X, and Union[None, X] is inside wf_ty *)
Theorem C17_regression_union_none_first : forall c d df,
  index0 (get_args (OptionalL (Cls c))) = Ok (Builtin BNoneType)
  /\ type_endpoint {| resolved_type := OptionalL (Cls c); has_default := d; has_default_factory := df |} = Ok (Cls c)
  /\ is_builtin_type {| resolved_type := OptionalL (Cls c); has_default := d; has_default_factory := df |} = Ok false.
Proof. exact union_none_first_regression. Qed.

(* regression (C17-c, repaired by 91db0c8): a module that sees two classes under `if TYPE_CHECKING:` only, one of
   them missing from the diagram.  The retry as it was (diagram classes plus the first missing name) raised
   NameError; the program is inside the fragment now (C17_edges applies) and construction gives the Spec's edges *)
Theorem C17_regression_two_unresolved :
  old_retry two_unresolved_prog [2; 3] 2 = Raise NameError
  /\ wf_prog two_unresolved_prog = true /\ wf_classes two_unresolved_prog [2; 3] = true
  /\ build two_unresolved_prog [2; 3]
     = Ok (mk_graph [2; 3] [mk_edge EInh 2 3 1; mk_edge EAssoc 2 3 5; mk_edge EAssoc 3 3 5]).
Proof. exact two_unresolved_regression. Qed.

(* regression (C17-d, repaired by cfad88b): a class whose module needs the retry (a TYPE_CHECKING-only name) in a diagram
   with two classes of the same __name__ from different modules.  The retry as it was re-bound the class's reference to ITS
   OWN module's X to the namesake listed last; the program is inside the fragment now and both list orders give A.p -> X *)
Theorem C17_regression_namesake_retry :
  resolve namesake_prog [2; 3; 4; 5] (sh_of_old namesake_prog [2; 3; 4; 5] 2) (Optional (Fwd 3)) = Ok (Optional (Cls 4))
  /\ wf_prog namesake_prog = true /\ wf_classes namesake_prog [2; 3; 4; 5] = true
  /\ build namesake_prog [2; 3; 4; 5] = Ok (mk_graph [2; 3; 4; 5] [mk_edge EAssoc 2 3 6; mk_edge EAssoc 2 5 7])
  /\ build namesake_prog [2; 4; 3; 5] = Ok (mk_graph [2; 4; 3; 5] [mk_edge EAssoc 2 3 6; mk_edge EAssoc 2 5 7]).
Proof. exact namesake_regression. Qed.

(* outside the fragment (open findings C17-e, C17-f): a TYPE_CHECKING-only name that has a namesake among the diagram's
   classes.  (e) User.item follows the list order (the last class of that __name__ wins); (f) Child's inherited field pit,
   which Parent's own module resolves to its own Item, is re-bound by Child's retry to the other module's Item *)
Theorem C17_refuted_missing_namesake :
  (build missing_prog [5; 2; 3] = Ok (mk_graph [5; 2; 3] [mk_edge EAssoc 5 3 8])
   /\ g_edges (spec_graph missing_prog [5; 2; 3]) = [mk_edge EAssoc 5 2 8]
   /\ build missing_prog [5; 3; 2] = Ok (mk_graph [5; 3; 2] [mk_edge EAssoc 5 2 8]))
  /\ (build missing_prog [4; 6; 3; 2]
        = Ok (mk_graph [4; 6; 3; 2] [mk_edge EInh 4 6 1; mk_edge EAssoc 4 3 7; mk_edge EAssoc 6 2 7; mk_edge EAssoc 6 2 9])
      /\ g_edges (spec_graph missing_prog [4; 6; 3; 2])
        = [mk_edge EInh 4 6 1; mk_edge EAssoc 4 3 7; mk_edge EAssoc 6 2 9; mk_edge EAssoc 6 3 7]).
Proof. exact missing_namesake_refuted. Qed.

(* regression (C17-g, repaired by 2a64235): the PEP 604 spelling `X | None` of Optional[X].  is_optional as it was did not
   accept it; it is inside wf_ty now (C17_classify applies) *)
Theorem C17_regression_pep604 : forall c d df,
  let f := {| resolved_type := Pep604 (Cls c); has_default := d; has_default_factory := df |} in
  old_is_optional (Pep604 (Cls c)) = false /\ wf_ty (Pep604 (Cls c)) = true /\
  is_optional f = Ok true /\ type_endpoint f = Ok (Cls c) /\ kinds_of f = Ok (spec_kind (Pep604 (Cls c))).
Proof. exact pep604_regression. Qed.

(* the ancestors query (parent_map / all_ancestors) answers exactly the classes reachable backwards over the diagram's
   inheritance edges, for every graph - parallel edges included *)
Theorem C17_ancestors : forall g c, answer g (QAncestors c) = spec_ancestors_sx g c.
Proof. exact ancestors_correct. Qed.

(* regression (C17-h, repaired by d1fa493): with a parallel association edge Parent -> Child, parent_map / all_ancestors as
   they were missed the inheritance edge; the ancestors query now answers what the inheritance edges say *)
Theorem C17_regression_parallel_ancestors :
  all_ancestors_old parallel_graph 2 = [] /\ true_ancestors parallel_graph 2 = [1]
  /\ answer parallel_graph (QAncestors 2) = spec_ancestors_sx parallel_graph 2.
Proof. exact parallel_ancestors_regression. Qed.

Example C17_nonvacuous :
  wf_ty (Optional (Cls 2)) = true /\ wf_ty (OptionalL (Cls 2)) = true /\ wf_ty (Pep604 (Cls 2)) = true /\ wf_ty (Cont KList (Enum 3)) = true /\ wf_ty (TypeOf (Cls 2)) = true /\
  k_one_to_one (spec_kind (Optional (Cls 2))) = true /\ k_endpoint (spec_kind (TypeOf (Cls 2))) = Cls 2 /\
  g_edges (sub_graph false witness_graph) <> g_edges witness_graph /\
  wf_prog example_prog = true /\ wf_classes example_prog [4; 3; 2] = true /\
  build example_prog [4; 3; 2]
  = Ok (mk_graph [4; 3; 2] [mk_edge EInh 2 4 1; mk_edge EAssoc 4 3 6; mk_edge EAssoc 2 3 6]).
Proof.
  repeat split; try reflexivity; try apply example_in_fragment. vm_compute. discriminate.
Qed.

Print Assumptions C17_classify.
Print Assumptions C17_classify_declared.
Print Assumptions C17_edges.
Print Assumptions C17_edges_exec.
Print Assumptions C17_views_pure.
Print Assumptions C17_views_consistent.
Print Assumptions C17_views_pure_all.
Print Assumptions C17_refuted_subdiagram_before_fix.
Print Assumptions C17_refuted_shared_memo.
Print Assumptions C17_regression_union_none_first.
Print Assumptions C17_regression_two_unresolved.
Print Assumptions C17_regression_namesake_retry.
Print Assumptions C17_refuted_missing_namesake.
Print Assumptions C17_regression_pep604.
Print Assumptions C17_ancestors.
Print Assumptions C17_regression_parallel_ancestors.
