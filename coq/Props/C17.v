(* Property C17 -- class diagrams mirror the Python classes and derived views leave them intact.
   Only statements, each closed by [exact].  Model: Gen/FieldKind.v (regenerated from wrapped_field.py on every
   run), Diagram/Diagram.v, Diagram/SubDiagram.v.  Spec: Diagram/FieldKindSpec.v, Diagram/DiagramSpec.v. *)
From Coq Require Import List Bool PArith.
From Krrood Require Import Base.Sx Diagram.Ty Diagram.FieldKindSpec Diagram.DiagramSpec Gen.FieldKind
  Diagram.FieldKindProofs Diagram.Diagram Diagram.SubDiagram.
Import ListNotations.
Local Open Scope positive_scope.

(* every field whose (resolved) annotation is in the supported grammar is classified as the annotation says,
   and no predicate raises *)
Theorem C17_classify : forall f : wfield,
  wf_ty (resolved_type f) = true -> kinds_of f = Ok (spec_kind (resolved_type f)).
Proof. exact classify_ok. Qed.

(* no sequence of read-only operations (sub-diagram derivations with either flag, shallow copies, queries,
   rendering), applied to the diagram or to any view derived from it, changes the diagram *)
Theorem C17_views_pure : forall (g : graph) (ops : list op), graph_at (run_ops ops (init g)) 0 = Some g.
Proof. exact source_intact. Qed.

(* ... nor any other graph that existed when the operations started *)
Theorem C17_views_pure_all : forall ops s i g,
  nth_error (heap s) i = Some g -> nth_error (heap (run_ops ops s)) i = Some g.
Proof. exact views_pure. Qed.

(* the code before commit 9f76ed7 (shallow copy only) did change the source: regression witness *)
Theorem C17_refuted_subdiagram_before_fix :
  graph_at (fold_left run_op_shallow [OpSub 0 false] (init witness_graph)) 0 <> Some witness_graph.
Proof. exact shallow_refuted. Qed.

(* outside the grammar: Union[None, X] is the same type as Optional[X], yet it is classified builtin and its
   endpoint is NoneType (no association edge) *)
Theorem C17_refuted_union_none_first : exists f : wfield,
  s_optional (resolved_type f) = true /\ kinds_of f <> Ok (spec_kind (resolved_type f)).
Proof. exact union_none_first_refuted. Qed.

Example C17_nonvacuous :
  wf_ty (Optional (Cls 2)) = true /\ wf_ty (Cont KList (Enum 3)) = true /\ wf_ty (TypeOf (Cls 2)) = true /\
  k_one_to_one (spec_kind (Optional (Cls 2))) = true /\ k_endpoint (spec_kind (TypeOf (Cls 2))) = Cls 2 /\
  g_edges (sub_graph false witness_graph) <> g_edges witness_graph.
Proof. repeat split; try reflexivity. vm_compute. discriminate. Qed.

Print Assumptions C17_classify.
Print Assumptions C17_views_pure.
Print Assumptions C17_views_pure_all.
Print Assumptions C17_refuted_subdiagram_before_fix.
Print Assumptions C17_refuted_union_none_first.
