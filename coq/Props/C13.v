(* Property C13 -- a variable declared with let(T, domain=None) ranges over exactly the existing instances of T
   and of T's subclasses, each once, whatever was created, dropped, collected, related, declared or evaluated before.
   Only statements, each closed by [exact].  Model: Onto/Registry.v (SymbolGraph, Symbol.__new__,
   recursive_subclasses, let + evaluate incl. live row-by-row evaluations), Spec: Onto/RegistrySpec.v. *)
From Coq Require Import List Arith Bool PeanoNat Permutation.
From Krrood Require Import Onto.RegistrySpec Onto.Registry Onto.RegistryInv Onto.RegistryProofs Onto.RegistryQuery
  Onto.RegistryRel Onto.RegistryLive Onto.RegistryLiveInv Onto.Lifetime Onto.RegistryWitness Onto.RegistryGen Onto.RegistryRefine.
Import ListNotations.

(* the registry invariant (the three indexes and the graph describe the same wrappers; entries under the address of
   an existing instance belong to it; relation index = current edges) holds after EVERY admissible history, for
   any addresses and node indices the runtime hands out *)
Theorem C13_RegInv : forall children fuel h,
  adm_run children fuel init h = true -> Inv (fst (run children fuel init h)).
Proof. exact reach_Inv. Qed.

(* recursive_subclasses = the strict descendants, each once (diamonds included) *)
Theorem C13_subclasses : forall children n c T, In c (rsub children n T) <-> desc_b children n c T = true.
Proof. exact (fun children => rsub_desc_b children 0). Qed.

Theorem C13_subclasses_unbounded : forall children (rank : cls -> nat),
  (forall c d, In d (children c) -> rank d < rank c) ->
  forall c T, desc children c T -> forall n, rank T <= n -> desc_b children n c T = true.
Proof. exact desc_b_complete. Qed.

(* the property: for every history without graph re-creation -- creation, dropping, sweeping, relation assertions,
   declarations, complete evaluations and evaluations consumed row by row, in any order -- EVERY complete evaluation of
   EVERY variable (registry level; declared and evaluated at once; a query object declared earlier, evaluated for the
   first time or again) returns a permutation of the instances of T and its subclasses existing at that evaluation *)
Theorem C13_query : forall children fuel h q T,
  adm_run children fuel init h = true -> no_clear h = true -> desc_b children fuel T T = false ->
  evaluates (fst (run children fuel init h)) q T ->
  exists l, snd (step children fuel (fst (run children fuel init h)) q) = OInst l /\
            Permutation l (map Some (spec_query children fuel (live (fst (run children fuel init h))) T)).
Proof. exact query_correct. Qed.

(* a row of an evaluation consumed row by row: always an instance, which exists now and was not handed out before *)
Theorem C13_row : forall children fuel s n y v e,
  nth_error (evals s) n = Some (Some e) ->
  snd (step children fuel s (NextV n y)) = OInst [v] ->
  exists o, v = Some o /\ mem_obj o (live s) = true /\ (e_started e = true -> ~ In (Some o) (e_seen e)).
Proof. exact next_row_sound. Qed.

(* ... and over histories: after any admissible history without graph re-creation -- however the evaluation was interleaved
   with creation, dropping, sweeping, assertions and other evaluations -- the row a live evaluation hands out next is an
   existing instance of its variable's type or of a subclass, not handed out before (the Spec's condition for a row) *)
Theorem C13_live_row : forall children fuel h n y v e,
  adm_run children fuel init h = true -> no_clear h = true ->
  nth_error (evals (fst (run children fuel init h))) n = Some (Some e) ->
  snd (step children fuel (fst (run children fuel init h)) (NextV n y)) = OInst [v] ->
  exists o, v = Some o /\ In o (spec_query children fuel (live (fst (run children fuel init h))) (e_T e)) /\
            (e_started e = true -> ~ In (Some o) (e_seen e)).
Proof. exact live_row_correct. Qed.

(* ... and the end condition: h1 brings the process to a point where evaluation n has not begun; whatever happens afterwards
   (h2; no graph re-creation), when evaluation n reports the end, every instance that was created before it began, still exists
   and is of the variable's type or of a subclass has been handed out by it.  With C13_live_row: the model meets the Spec's
   conditions for every row and for the end of every row-by-row evaluation *)
Theorem C13_live_end : forall children fuel h1 h2 n y e0 e,
  adm_run children fuel init (h1 ++ h2) = true -> no_clear (h1 ++ h2) = true ->
  nth_error (evals (fst (run children fuel init h1))) n = Some (Some e0) -> e_started e0 = false ->
  nth_error (evals (fst (run children fuel init (h1 ++ h2)))) n = Some (Some e) ->
  snd (step children fuel (fst (run children fuel init (h1 ++ h2))) (NextV n y)) = OInst [] ->
  forall x, In x (live (fst (run children fuel init (h1 ++ h2)))) -> o_id x < next (fst (run children fuel init h1)) ->
            le_b children fuel (o_cls x) (e_T e) = true -> In (Some (o_id x)) (e_seen e).
Proof. exact live_end_complete. Qed.

(* "existing" = "referenced by the program", after any history, whenever no live iterator holds a row *)
Theorem C13_existing_is_referenced : forall children fuel h o,
  (forall x, pinned (evals (fst (run children fuel init h))) x = false) ->
  (In o (map o_id (live (fst (run children fuel init h)))) <-> In o (user (fst (run children fuel init h)))).
Proof. exact existing_is_referenced. Qed.

(* Model = Spec on F (no graph re-creation, every evaluation complete): over every admissible history the model's outputs
   are those of the ideal machine -- every query result a permutation of the existing instances, every assertion flag equal *)
Theorem C13_model_is_spec_on_F : forall children fuel h,
  adm_run children fuel init h = true -> in_F h = true -> acyclic children fuel ->
  Forall2 out_eq (snd (run children fuel init h)) (snd (spec_run children fuel a_init h)).
Proof. exact model_refines_spec. Qed.

(* outside the fragment: the defects of the current code, with computed witnesses *)
Theorem C13_refuted_clear :
  exists h T, adm_run wch wfuel init h = true /\
              snd (step wch wfuel (fst (run wch wfuel init h)) (QueryG T)) = OInst [] /\
              spec_query wch wfuel (live (fst (run wch wfuel init h))) T = [0].
Proof. exact refuted_clear. Qed.

(* tie to the source: the definitions regenerated from symbol_graph.py / utils.py / predicate.py / entity.py /
   hashed_data.py / symbolic.py / singleton.py on this run (Gen/Registry.v) are the model these theorems are about *)
Theorem C13_model_is_source : GenIsModel.
Proof. exact gen_is_model. Qed.

Example C13_nonvacuous :
  adm_run wch wfuel init sample_history = true /\ no_clear sample_history = true /\ no_live sample_history = true /\
  in_F sample_history = true /\ (forall T, T < 4 -> desc_b wch wfuel T T = false) /\
  snd (run wch wfuel init sample_history) =
    [ONone; ONone; ONone; OBool true; ONone; ONone; ONone; OBool true; OInst [Some 2; Some 1]; OInst [Some 2; Some 1];
     OBool false; OInst [Some 2; Some 1]; ONone; OInst [Some 2]].
Proof. exact sample_ok. Qed.

Print Assumptions C13_RegInv.
Print Assumptions C13_subclasses.
Print Assumptions C13_subclasses_unbounded.
Print Assumptions C13_query.
Print Assumptions C13_row.
Print Assumptions C13_live_row.
Print Assumptions C13_live_end.
Print Assumptions C13_existing_is_referenced.
Print Assumptions C13_model_is_spec_on_F.
Print Assumptions C13_refuted_clear.
Print Assumptions C13_model_is_source.
