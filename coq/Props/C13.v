(* Property C13 -- a variable declared with let(T, domain=None) ranges over exactly the existing instances of T
   and of T's subclasses, each once, whatever was created, dropped, collected, related or queried before.
   Only statements, each closed by [exact].  Model: Onto/Registry.v (SymbolGraph, Symbol.__new__,
   recursive_subclasses, let+evaluate), Spec: Onto/RegistrySpec.v. *)
From Coq Require Import List Arith Bool PeanoNat Permutation.
From Krrood Require Import Onto.RegistrySpec Onto.Registry Onto.RegistryInv Onto.RegistryProofs Onto.RegistryQuery
  Onto.RegistryRel Onto.Lifetime Onto.RegistryWitness Onto.RegistryGen Onto.RegistryRefine.
Import ListNotations.

(* the registry invariant (the three indexes and the graph describe the same wrappers; entries under the address of
   an existing instance belong to it; relation index = current edges) holds after EVERY admissible history, for
   any addresses and node indices the runtime hands out *)
Theorem C13_RegInv : forall children fuel h,
  adm_run children fuel init h = true -> Inv (fst (run children fuel init h)).
Proof. exact reach_Inv. Qed.

(* recursive_subclasses = the strict descendants, each once (diamonds included) *)
Theorem C13_subclasses : forall children n c T, In c (rsub children n T) <-> desc_b children n c T = true.
Proof. exact (fun children => rsub_desc_b children 0). Qed.

Theorem C13_subclasses_unbounded : forall children (rank : cls -> nat),
  (forall c d, In d (children c) -> rank d < rank c) ->
  forall c T, desc children c T -> forall n, rank T <= n -> desc_b children n c T = true.
Proof. exact desc_b_complete. Qed.

(* the property: for every history without graph re-creation, a fresh query (registry level or through
   an(entity(let(T, None))).evaluate()) returns a permutation of the existing instances of T and its subclasses *)
Theorem C13_query : forall children fuel h q T,
  adm_run children fuel init h = true -> no_clear h = true -> desc_b children fuel T T = false -> is_query q T ->
  exists l, snd (step children fuel (fst (run children fuel init h)) q) = OInst l /\
            Permutation l (map Some (spec_query children fuel (live (fst (run children fuel init h))) T)).
Proof. exact query_correct. Qed.

(* the same for a variable declared earlier (let(T, None) called, nothing evaluated) and evaluated for the first time now:
   its range is decided at this first evaluation, whatever happened since the declaration *)
Theorem C13_eval_declared : forall children fuel h k T,
  adm_run children fuel init h = true -> no_clear h = true -> desc_b children fuel T T = false ->
  nth_error (vars (fst (run children fuel init h))) k = Some (T, VPending) ->
  exists l, snd (step children fuel (fst (run children fuel init h)) (EvalV k)) = OInst l /\
            Permutation l (map Some (spec_query children fuel (live (fst (run children fuel init h))) T)).
Proof. exact eval_correct. Qed.

(* ... and while no EQL query has cached a domain, "existing" = "still referenced by the program" *)
Theorem C13_existing_is_referenced : forall children fuel h,
  no_eql h = true -> map o_id (live (fst (run children fuel init h))) = user (fst (run children fuel init h)).
Proof. exact live_is_user. Qed.

(* Model = Spec on F (no graph re-creation, no EQL evaluation): over every admissible history the model's outputs are
   those of the ideal machine -- every query result a permutation of the existing instances, every assertion flag equal *)
Theorem C13_model_is_spec_on_F : forall children fuel h,
  adm_run children fuel init h = true -> in_F h = true -> Forall (acyclic_op children fuel) h ->
  Forall2 out_eq (snd (run children fuel init h)) (snd (spec_run children fuel a_init h)).
Proof. exact model_refines_spec. Qed.

(* outside the fragment: the defects of the current code, with computed witnesses *)
Theorem C13_refuted_clear :
  exists h T, adm_run wch wfuel init h = true /\
              snd (step wch wfuel (fst (run wch wfuel init h)) (QueryG T)) = OInst [] /\
              spec_query wch wfuel (live (fst (run wch wfuel init h))) T = [0].
Proof. exact refuted_clear. Qed.

Theorem C13_refuted_stale_variable :
  exists h k, adm_run wch wfuel init h = true /\
              snd (step wch wfuel (fst (run wch wfuel init h)) (EvalV k)) = OInst [Some 0] /\
              snd (spec_step wch wfuel (fst (spec_run wch wfuel a_init h)) (EvalV k)) = OInst [Some 0; Some 1].
Proof. exact refuted_stale_variable. Qed.

Theorem C13_refuted_pinned :
  exists h T, adm_run wch wfuel init h = true /\ user (fst (run wch wfuel init h)) = [] /\
              snd (step wch wfuel (fst (run wch wfuel init h)) (QueryG T)) = OInst [Some 0] /\
              sreach (refs (fst (run wch wfuel init h))) HExprTable (HObj 0).
Proof. exact refuted_pinned. Qed.

(* tie to the source: the definitions regenerated from symbol_graph.py / utils.py / predicate.py / entity.py /
   hashed_data.py / symbolic.py / singleton.py on this run (Gen/Registry.v) are the model these theorems are about *)
Theorem C13_model_is_source : GenIsModel.
Proof. exact gen_is_model. Qed.

Example C13_nonvacuous :
  adm_run wch wfuel init sample_history = true /\ no_clear sample_history = true /\ no_eval sample_history = true /\
  no_eql sample_history = true /\ desc_b wch wfuel 0 0 = false /\
  snd (run wch wfuel init sample_history) =
    [ONone; ONone; OBool true; ONone; ONone; ONone; OBool true; OInst [Some 2; Some 1]; OBool false].
Proof. exact sample_ok. Qed.

Print Assumptions C13_RegInv.
Print Assumptions C13_subclasses.
Print Assumptions C13_subclasses_unbounded.
Print Assumptions C13_query.
Print Assumptions C13_existing_is_referenced.
Print Assumptions C13_refuted_clear.
Print Assumptions C13_refuted_stale_variable.
Print Assumptions C13_refuted_pinned.
Print Assumptions C13_model_is_source.
Print Assumptions C13_model_is_spec_on_F.
Print Assumptions C13_eval_declared.
