(* Property C02 -- no duplicated or dropped solutions in conjunctive / else-if queries.
   Statements only; model Eql/Eval.v, Spec Eql/Sat.v.  Unbounded in the shape of the condition, the number of
   variables, domain sizes / contents and the world. *)
From Coq Require Import List ZArith Bool Arith.
From Coq Require Import Permutation.
From Krrood Require Import Base.Sx Eql.Syntax Eql.Sat Eql.Eval Eql.EvalProofs Eql.CountProofs Eql.RunProofs Eql.Show.
From Krrood Require Import Eql.BagProofs Eql.ShowFrag Eql.QuantSpec.
Import ListNotations.
Open Scope nat_scope.

(* every assignment compatible with the incoming bindings is covered by exactly ONE result (Union-free conditions,
   duplicate-free domains) ... *)
Theorem C02_partition : forall W D, (forall x, NoDup (D x)) ->
  forall c, ufree c = true -> forall b rho,
  extends rho b -> (forall x, In x (cond_vars c) -> In (rho x) (D x)) ->
  cnt (cov rho) (eval W D c b) = 1.
Proof. exact eval_partition. Qed.

(* ... so a satisfying assignment is covered by exactly one TRUE result and a non-satisfying one by none *)
Theorem C02_exactly_once : forall W D, (forall x, NoDup (D x)) ->
  forall c, ufree c = true -> forall b rho,
  extends rho b -> (forall x, In x (cond_vars c) -> In (rho x) (D x)) ->
  cnt (covt rho) (eval W D c b) = if sat W D rho c then 1 else 0.
Proof. exact eval_exactly_once. Qed.

(* in the negation-normal conjunctive / else-if fragment (or_ only between conditions over the same variables) every true
   result binds every variable of the condition: one result IS one assignment of the query's variables *)
Theorem C02_true_total : forall W D c, nnf c = true -> forall b b',
  In (b', false) (eval W D c b) -> binds_all b' (cond_vars c).
Proof. exact eval_true_total. Qed.

(* whole queries: the rows are a PERMUTATION of the Spec's enumeration of the satisfying assignments - exactly one row
   per satisfying assignment, never zero, never two - for every query of the fragment over duplicate-free domains *)
Theorem C02_rows_exactly_once : forall W D, (forall x, NoDup (D x)) -> forall q c,
  q_cond q = Some c -> nnf c = true ->
  (forall x, In x (flat_map opnd_vars (q_sels q)) -> In x (cond_vars c)) ->
  Permutation (run W D q) (answers_exec W D q).
Proof. exact run_perm. Qed.

(* consequently the(...) succeeds exactly when there is one satisfying assignment (it sees the Spec's enumeration up to
   order), and result-count constraints see the true number of solutions; what the(...) / an(..., quantification=c) do
   with a row list is C09 (C09_the : run_the rows = the_spec rows, C09_an) *)
Theorem C02_the_sees_true_count : forall W D, (forall x, NoDup (D x)) -> forall q c,
  q_cond q = Some c -> nnf c = true ->
  (forall x, In x (flat_map opnd_vars (q_sels q)) -> In x (cond_vars c)) ->
  the_spec (run W D q) = the_spec (answers_exec W D q) /\ length (run W D q) = length (answers_exec W D q).
Proof. exact the_sees_true_count. Qed.

(* the decidable flag the correspondence check computes for every generated case is covered by that theorem *)
Theorem C02_fragment_flag : forall c, case_in_F02 c = true ->
  Permutation (run (mk_world (e_world c)) (mk_domains (e_doms c)) (e_query c))
              (answers_exec (mk_world (e_world c)) (mk_domains (e_doms c)) (e_query c)).
Proof. exact case_in_F02_perm. Qed.

Theorem C02_fragment_is_union_free : forall c, nnf c = true -> ufree c = true.
Proof. exact nnf_ufree. Qed.

(* or_ builds the else-if form exactly when both sides mention the same variables *)
Theorem C02_or_choice : forall l r,
  mk_or l r = if same_vars (cond_vars l) (cond_vars r) then CElseIf l r else CUnion l r.
Proof. reflexivity. Qed.

(* the hypothesis on domains is needed: a domain listing an element twice yields the row twice *)
Definition w_dupdom : ecase :=
  {| e_world := [(1, 1, [(0%nat, VI 1)])]%Z;
     e_doms := [(0%nat, [VO 1; VO 1])]%Z;
     e_query := {| q_sels := [OVar 0]; q_cond := Some (CCmp OpEq (OAttr (OVar 0) 0) (OLit (VI 1))) |} |}.
Theorem C02_refuted_dupdom : model_rows w_dupdom = SL [SL [SL [SZ 1; SZ 1]]; SL [SL [SZ 1; SZ 1]]].
Proof. vm_compute; reflexivity. Qed.

(* outside the fragment: or_ over different variable sets (Union) duplicates a solution *)
Definition w_union : ecase :=
  {| e_world := [(1, 1, [(0%nat, VI 1)])]%Z;
     e_doms := [(0%nat, [VO 1]); (1%nat, [VO 1])]%Z;
     e_query := {| q_sels := [OVar 0; OVar 1];
                   q_cond := Some (mk_or (CCmp OpEq (OAttr (OVar 0) 0) (OLit (VI 1)))
                                         (CCmp OpEq (OAttr (OVar 1) 0) (OLit (VI 1)))) |} |}.
Theorem C02_refuted_union : model_differs_as_bag w_union = true /\ model_differs_as_set w_union = false.
Proof. split; vm_compute; reflexivity. Qed.

(* non-vacuity: an else-if query in the fragment over duplicate-free domains, evaluated exactly *)
Definition w_c02 : ecase :=
  {| e_world := [(1, 1, [(0%nat, VI 0); (1%nat, VI 2)]); (2, 2, [(0%nat, VI 1); (1%nat, VI 0)])]%Z;
     e_doms := [(0%nat, [VO 1; VO 2]); (1%nat, [VO 1; VO 2])]%Z;
     e_query := {| q_sels := [OVar 0; OVar 1];
                   q_cond := Some (mk_and (mk_or (CCmp OpLt (OAttr (OVar 0) 0) (OAttr (OVar 1) 0))
                                                 (mk_not (CCmp OpEq (OVar 0) (OVar 1))))
                                          (CCmp OpGe (OAttr (OVar 1) 1) (OLit (VI 0)))) |} |}.
Example C02_nonvacuous :
  case_in_F02 w_c02 = true /\
  model_differs_as_bag w_c02 = false /\ spec_rows w_c02 <> SL [].
Proof. split; [vm_compute; reflexivity|]. split; [vm_compute; reflexivity|]. vm_compute. discriminate. Qed.

Print Assumptions C02_partition.
Print Assumptions C02_exactly_once.
Print Assumptions C02_true_total.
Print Assumptions C02_rows_exactly_once.
Print Assumptions C02_the_sees_true_count.
Print Assumptions C02_fragment_flag.
Print Assumptions C02_fragment_is_union_free.
Print Assumptions C02_or_choice.
Print Assumptions C02_refuted_dupdom.
Print Assumptions C02_refuted_union.
