(* Property C18 -- JSON serialisation round-trips polymorphic objects through real JSON text.
   Only statements, each closed by [exact].  Dispatch ([to_json_dispatch], [from_json_chain]), the base to_json and
   get_full_class_name are Gen/JsonResolve.v, regenerated from the source on every run.
   Quantifiers: every value of the grammar (any list nesting, any mix of classes, any payload type P), every world of
   classes, every user to_json/_from_json pair and registered (de)serialiser pair meeting the per-class round-trip
   hypothesis.  F = [value_ok]: no object's class is defined inside a function ("<locals>" in its qualified name), and every
   class is named by its own tag: the C19 decision table, read on the world, resolves "<module>.<qualified name>" to the
   class itself (module-level classes and classes nested in classes alike, since 70c605d).
   Modelled, not proved: json.loads (json.dumps j) = j ([json_text]).  _resolve_enclosing_class: hand model + source pin. *)
From Coq Require Import List ZArith Bool.
From Krrood Require Import Base.Sx Json.JsonVal Json.ResolveSpec Json.SerializerSpec Gen.JsonResolve Json.Serializer Json.SerializerProofs.
Import ListNotations.
Open Scope Z_scope.

Theorem C18_round_trip :
  forall (P : Type) ufields usplit rser rdeser as_leaf as_items,
    user_round_trip P ufields usplit -> registered_round_trip P rser rdeser ->
    forall (w : world) (v : value P) (fuel : nat),
      value_ok w v = true -> (value_depth v <= fuel)%nat ->
      round_trip P ufields usplit rser rdeser as_leaf as_items w fuel v = Some (Return v).
Proof. exact round_trip_ok. Qed.

(* the serialised form of every object is a dict that carries its fully qualified type tag *)
Theorem C18_tag_present :
  forall (P : Type) ufields usplit rser rdeser as_leaf as_items,
    user_round_trip P ufields usplit -> registered_round_trip P rser rdeser ->
    forall (w : world) (c : cls) (own : P) (kids : list (value P)),
      ok P w (VObj c own kids) ->
      exists d, to_json P ufields rser as_leaf as_items (VObj c own kids) = Return (JObj d) /\
                dict_get d JSON_TYPE_NAME = Some (JStr (qualified_tag c)).
Proof. exact object_tag. Qed.

(* the harness classes (two dict layouts, registered types as {tag, "value": ...}) are instances of the hypotheses *)
Theorem C18_sample_round_trip :
  forall (w : world) (v : value jv) (fuel : nat),
    value_ok w v = true -> (value_depth v <= fuel)%nat ->
    round_trip jv s_ufields s_usplit s_rser s_rdeser s_as_leaf s_as_items w fuel v = Some (Return v).
Proof. exact sample_round_trip. Qed.

(* what the correspondence check evaluates is covered: inside F the model's answer (value and tags) is the Spec's *)
Theorem C18_model_is_spec :
  forall (w : world) (v : value jv),
    value_ok w v = true -> plain_payloads v = true -> model_round_trip w v = spec_round_trip v.
Proof. exact sample_model_is_spec. Qed.

(* F in words.  A class satisfies [cls_ok] when: the world has no two classes of one module under one qualified name; the
   class is defined in it, is a serialiser or registered class, not function-local; its module name is non-empty and not
   relative; the names on its qualified path are dot-free; every enclosing class is defined in the world; and -- the premise
   that the longest-importable-prefix rule needs -- NO MODULE IS NAMED LIKE A CLASS PATH of it ("m.Outer" next to class Outer
   of module m would be imported in place of the class) *)
Theorem C18_fragment_is_named_classes :
  forall (w : world) (c : cls),
    unique_names w -> In c w -> module_part_ok (c_mod c) = true -> dot_free (c_qual c) -> c_qual c <> [] ->
    enclosing_classes_defined w c -> no_module_named_like_class_path w c ->
    c_kind c <> KPlain -> is_local c = false -> cls_ok w c = true.
Proof. exact named_classes_are_ok. Qed.

(* regression examples for the former finding C18-a (fixed by 70c605d): a serialiser class nested in another class now
   round-trips, is not confused with a module-level class of the same __name__, and is tagged with its qualified name *)
Example C18_regression_nested_class :
  value_ok [c_outer; c_inner] v_inner = true /\
  round_trip jv s_ufields s_usplit s_rser s_rdeser s_as_leaf s_as_items [c_outer; c_inner] 5 v_inner = Some (Return v_inner).
Proof. exact nested_class_round_trips. Qed.

Example C18_regression_nested_shadow :
  value_ok [c_outer; c_inner; c_shadow] v_inner = true /\
  round_trip jv s_ufields s_usplit s_rser s_rdeser s_as_leaf s_as_items [c_outer; c_inner; c_shadow] 5 v_inner = Some (Return v_inner).
Proof. exact nested_class_not_shadowed. Qed.

Example C18_regression_tag_qualified :
  exists d, to_json jv s_ufields s_rser s_as_leaf s_as_items v_inner = Return (JObj d) /\
            dict_get d JSON_TYPE_NAME = Some (JStr [109; 46; 79; 46; 73]) /\ qualified_tag c_inner = [109; 46; 79; 46; 73].
Proof. exact nested_class_tag_qualified. Qed.

(* outside F the statement is false -- known finding C18-b: an instance of a serialiser class defined inside a function is a
   value of the statement's grammar, but it is refused at to_json (no importable name exists for such a class);
   for every such class, every payload, children and user code: *)
Theorem C18_refuted_local_class :
  forall (P : Type) ufields usplit rser rdeser as_leaf as_items (w : world) (c : cls) (own : P) (kids : list (value P)) (fuel : nat),
    c_kind c = KSer -> is_local c = true ->
    round_trip P ufields usplit rser rdeser as_leaf as_items w fuel (VObj c own kids) = Some (RaiseJ ClassNotSerializableError).
Proof. exact local_class_refused. Qed.

Example C18_refuted_local_class_witness :
  in_grammar v_local = true /\
  round_trip jv s_ufields s_usplit s_rser s_rdeser s_as_leaf s_as_items [c_local] 5 v_local = Some (RaiseJ ClassNotSerializableError).
Proof. exact local_class_not_serializable. Qed.

(* regression example for the former finding C18-d (fixed by 8efc58f): a registered type deriving from int and a serialiser
   class deriving from list are inside F and round-trip (before, they came back as a plain int / list because to_json tested
   the builtin leaf / list types first); C18_round_trip covers registered / serialisable subclasses of builtin types *)
Example C18_regression_builtin_base :
  value_ok w_base (VObj c_status (JInt 404) [] : value jv) = true /\
  round_trip jv s_ufields s_usplit s_rser s_rdeser s_as_leaf s_as_items w_base 5 (VObj c_status (JInt 404) [])
  = Some (Return (VObj c_status (JInt 404) [])) /\
  value_ok w_base (VObj c_traj JNull [VInt 1; VInt 2] : value jv) = true /\
  round_trip jv s_ufields s_usplit s_rser s_rdeser s_as_leaf s_as_items w_base 5 (VObj c_traj JNull [VInt 1; VInt 2])
  = Some (Return (VObj c_traj JNull [VInt 1; VInt 2])).
Proof. exact builtin_base_round_trips. Qed.

(* outside F -- known finding C18-c: a class that is not bound under its qualified name in its module (defined, but not in
   the world of bindings): types.MappingProxyType = builtins.mappingproxy, name-mangled private nested classes *)
Theorem C18_refuted_unbound_class :
  in_grammar (VObj c_unbound (JInt 1) [] : value jv) = true /\
  round_trip jv s_ufields s_usplit s_rser s_rdeser s_as_leaf s_as_items [c_status] 5 (VObj c_unbound (JInt 1) [])
  = Some (RaiseJ ClassNotFoundError).
Proof. exact unbound_class_not_found. Qed.

(* non-vacuity: a value with a subclass chain in a dotted module, a class nested in a class, a registered type, unicode, 2^70, +inf, empty lists
   satisfies F, and its round trip computes to itself *)
Example C18_nonvacuous :
  value_ok w_sample v_sample = true /\
  round_trip jv s_ufields s_usplit s_rser s_rdeser s_as_leaf s_as_items w_sample 6 v_sample = Some (Return v_sample) /\
  value_ok [c_local] v_local = false.
Proof. repeat split; vm_compute; reflexivity. Qed.

Print Assumptions C18_round_trip.
Print Assumptions C18_tag_present.
Print Assumptions C18_sample_round_trip.
Print Assumptions C18_model_is_spec.
Print Assumptions C18_fragment_is_named_classes.
Print Assumptions C18_refuted_local_class.
Print Assumptions C18_refuted_unbound_class.
