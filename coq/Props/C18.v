(* Property C18 -- JSON serialisation round-trips polymorphic objects through real JSON text.
   Only statements, each closed by [exact].  Dispatch ([to_json_dispatch], [from_json_chain]), the base to_json and
   get_full_class_name are Gen/JsonResolve.v, regenerated from the source on every run.
   Quantifiers: every value of the grammar (any list nesting, any mix of classes, any payload type P), every world of
   classes, every user to_json/_from_json pair and registered (de)serialiser pair meeting the per-class round-trip
   hypothesis.  F = [value_ok]: every object's class is defined at module level under a well-formed name and is what its
   module binds under that name.  Modelled, not proved: json.loads (json.dumps j) = j ([json_text]). *)
From Coq Require Import List ZArith Bool.
From Krrood Require Import Base.Sx Json.JsonVal Json.SerializerSpec Gen.JsonResolve Json.Serializer Json.SerializerProofs.
Import ListNotations.
Open Scope Z_scope.

Theorem C18_round_trip :
  forall (P : Type) ufields usplit rser rdeser,
    user_round_trip P ufields usplit -> registered_round_trip P rser rdeser ->
    forall (w : world) (v : value P) (fuel : nat),
      value_ok w v = true -> (value_depth v <= fuel)%nat ->
      round_trip P ufields usplit rser rdeser w fuel v = Some (Return v).
Proof. exact round_trip_ok. Qed.

(* the serialised form of every object is a dict that carries its fully qualified type tag *)
Theorem C18_tag_present :
  forall (P : Type) ufields usplit rser rdeser,
    user_round_trip P ufields usplit -> registered_round_trip P rser rdeser ->
    forall (w : world) (c : cls) (own : P) (kids : list (value P)),
      ok P w (VObj c own kids) ->
      exists d, to_json P ufields rser (VObj c own kids) = Return (JObj d) /\
                dict_get d JSON_TYPE_NAME = Some (JStr (qualified_tag c)).
Proof. exact object_tag. Qed.

(* the harness classes (two dict layouts, registered types as {tag, "value": ...}) are instances of the hypotheses *)
Theorem C18_sample_round_trip :
  forall (w : world) (v : value jv) (fuel : nat),
    value_ok w v = true -> (value_depth v <= fuel)%nat ->
    round_trip jv s_ufields s_usplit s_rser s_rdeser w fuel v = Some (Return v).
Proof. exact sample_round_trip. Qed.

(* what the correspondence check evaluates is covered: inside F the model's answer (value and tags) is the Spec's *)
Theorem C18_model_is_spec :
  forall (w : world) (v : value jv),
    value_ok w v = true -> plain_payloads v = true -> model_round_trip w v = spec_round_trip v.
Proof. exact sample_model_is_spec. Qed.

(* F in words: defined at module level, under a dot-free name, in a module with a well-formed name, in a world where no
   two module-level classes of one module share a name *)
Theorem C18_fragment_is_module_level :
  forall (w : world) (c : cls),
    unique_names w -> In c w -> module_level c = true -> valid_module_name (c_mod c) = true -> no_sep DOT (cname c) = true ->
    cls_ok w c = true.
Proof. exact cls_ok_defined. Qed.

(* outside F the statement is false -- known finding C18-a: the tag is built from __name__, so a serialiser class
   nested in another class cannot be found again ... *)
Theorem C18_refuted_nested_class :
  in_grammar v_inner = true /\
  round_trip jv s_ufields s_usplit s_rser s_rdeser [c_outer; c_inner] 5 v_inner = Some (RaiseJ ClassNotFoundError).
Proof. exact nested_class_not_found. Qed.

(* ... or comes back as an instance of a different class when the module binds the same __name__ *)
Theorem C18_refuted_nested_shadow :
  in_grammar v_inner = true /\
  round_trip jv s_ufields s_usplit s_rser s_rdeser [c_outer; c_inner; c_shadow] 5 v_inner
  = Some (Return (VObj c_shadow (JInt 3) [])).
Proof. exact nested_class_wrong_type. Qed.

Theorem C18_refuted_tag_not_qualified :
  exists d, to_json jv s_ufields s_rser v_inner = Return (JObj d) /\
            dict_get d JSON_TYPE_NAME = Some (JStr [109; 46; 73]) /\ qualified_tag c_inner = [109; 46; 79; 46; 73].
Proof. exact nested_class_tag_not_qualified. Qed.

(* non-vacuity: a value with a subclass chain in a dotted module, a registered type, unicode, 2^70, +inf, empty lists
   satisfies F, and its round trip computes to itself *)
Example C18_nonvacuous :
  value_ok w_sample v_sample = true /\
  round_trip jv s_ufields s_usplit s_rser s_rdeser w_sample 6 v_sample = Some (Return v_sample) /\
  value_ok [c_outer; c_inner] v_inner = false.
Proof. repeat split; vm_compute; reflexivity. Qed.

Print Assumptions C18_round_trip.
Print Assumptions C18_tag_present.
Print Assumptions C18_sample_round_trip.
Print Assumptions C18_model_is_spec.
Print Assumptions C18_fragment_is_module_level.
Print Assumptions C18_refuted_nested_class.
Print Assumptions C18_refuted_nested_shadow.
Print Assumptions C18_refuted_tag_not_qualified.
