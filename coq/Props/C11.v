(* Property C11 -- stub while the proofs are written *)
From Krrood Require Import Eql.MatchSpec Eql.Match Eql.MatchFrag.
