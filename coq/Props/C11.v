(* Property C11 -- pattern matching is equivalent to the explicit query it abbreviates.
   Statements only.  Spec: Eql/MatchSpec.v ([matches], structural recursion on the pattern).  Model: Eql/Match.v
   (pattern -> conditions as match.py builds them, with every boolean decision taken from Gen/Match.v which is
   regenerated from match.py on every run; evaluation of the conditions as symbolic.py does, bindings keyed by node).
   Unbounded in: nesting depth, number of keywords per match, sizes of collections, domain and world contents. *)
From Coq Require Import List ZArith Bool Arith.
From Krrood Require Import Base.Sx Eql.Syntax Eql.MatchSpec Eql.MatchSpecShow Gen.Match Eql.Match Eql.MatchFrag
  Eql.MatchProofs Eql.MatchWitness.
Import ListNotations.

(* an(entity_matching(T, dom)(keywords)).evaluate() returns exactly the elements of dom of type T that satisfy the
   pattern -- as a set of identities: two distinct elements are two answers whatever their attribute values.
   F11 (decidable, Eql/MatchFrag.v): keywords well typed against the class model and distinct, nested types comparable
   with the declared attribute type, no empty value list under match_any / match_all, every nested match on a
   collection emits a condition and its first one is not an exists(...). *)
Theorem C11_match : forall C objcls M T l dom,
  sub_trans C -> typed C objcls M -> NoDup dom -> F11 C objcls T l = true ->
  forall o, In o (run C M T l dom) <-> In o (spec_run (sub C) M T l dom).
Proof. exact match_run_exact. Qed.

(* the conditions built from the keywords are satisfiable from the binding root := o exactly when o satisfies the
   keywords (Spec), and every result keeps that binding of the root *)
Theorem C11_match_sat : forall C objcls M D, sub_trans C -> typed C objcls M -> forall T l o,
  fok_alist C objcls T PRoot l = true -> In o D -> sub C (otype M o) T = true ->
  (eval_all C M D (tr_alist C T PRoot l) [(PRoot, VO o)] <> [] <-> matches_attrs (sub C) M l o = true)
  /\ (forall e', In e' (eval_all C M D (tr_alist C T PRoot l) [(PRoot, VO o)]) -> lookup e' PRoot = Some (VO o)).
Proof. exact match_sat. Qed.

(* the left-nested AND chain with its false results computes the sequential evaluation used in the proofs *)
Theorem C11_and_chain : forall C M D cs, true_envs C M D cs = eval_all C M D cs [].
Proof. exact true_envs_seq. Qed.

(* ---- outside F11 the statement is false of the faithful model (and of the implementation: known findings) ---- *)
(* C11-b: match_all([]) / match_any([]) contribute no condition *)
Theorem C11_refuted_empty_list :
  in_F w_kf_emptylist = false /\ differs w_kf_emptylist = true /\
  in_F w_kf_emptylist_any = false /\ differs w_kf_emptylist_any = true.
Proof. exact refuted_empty_list. Qed.
(* C11-c: match_any as the first condition under a flattened collection keeps one witness per root element *)
Theorem C11_refuted_exists_first : in_F w_kf_existsfirst = false /\ differs w_kf_existsfirst = true.
Proof. exact refuted_exists_first. Qed.
(* C11-d: a nested type unrelated to the declared attribute type is not checked *)
Theorem C11_refuted_unrelated_type : in_F w_kf_unrelated = false /\ differs w_kf_unrelated = true.
Proof. exact refuted_unrelated_type. Qed.
(* C11-e: a nested match on a collection that emits no condition does not require a member *)
Theorem C11_refuted_empty_nested : in_F w_kf_emptynested = false /\ differs w_kf_emptynested = true.
Proof. exact refuted_empty_nested. Qed.
(* C11-a (repaired by ded4892): value-equal collections no longer collapse *)
Theorem C11_fixed_any_dedup :
  in_F w_fixed_any_dedup = true /\ model_out w_fixed_any_dedup = SL [SZ 4; SZ 5] /\ spec_out w_fixed_any_dedup = SL [SZ 4; SZ 5].
Proof. exact fixed_any_dedup. Qed.

(* non-vacuity: a depth-3 pattern inside F11 (type narrowing through a collection, match_any after a binding
   condition, a second keyword at the root) whose answer is one of three racks *)
Example C11_nonvacuous : in_F w_ok = true /\ model_out w_ok = SL [SZ 6] /\ spec_out w_ok = SL [SZ 6].
Proof. exact nonvacuous. Qed.

Print Assumptions C11_match.
Print Assumptions C11_match_sat.
Print Assumptions C11_and_chain.
Print Assumptions C11_refuted_empty_list.
Print Assumptions C11_refuted_exists_first.
Print Assumptions C11_refuted_unrelated_type.
Print Assumptions C11_refuted_empty_nested.
Print Assumptions C11_fixed_any_dedup.
