(* Property C11 -- pattern matching is equivalent to the explicit query it abbreviates.
   Statements only.  Spec: Eql/MatchSpec.v ([matches], structural recursion on the pattern).  Model: Eql/Match.v
   (pattern -> conditions as match.py builds them, with every boolean decision taken from Gen/Match.v which is
   regenerated from match.py on every run; evaluation of the conditions as symbolic.py does, bindings keyed by node).
   Unbounded in: nesting depth, number of keywords per match, sizes of collections, domain and world contents. *)
From Coq Require Import List ZArith Bool Arith.
From Krrood Require Import Base.Sx Eql.Syntax Eql.MatchSpec Eql.MatchSpecShow Gen.Match Eql.Match Eql.MatchFrag
  Eql.MatchProofs Eql.MatchFlag Eql.MatchWitness.
Import ListNotations.

(* an(entity_matching(T, dom)(keywords)).evaluate() returns exactly the elements of dom of type T that satisfy the
   pattern -- as a set of identities: two distinct elements are two answers whatever their attribute values.
   F11 (decidable, Eql/MatchFrag.v): keywords well typed against the class model and distinct, every nested match on a
   collection emits a condition.  Empty value lists under match_any / match_all, match_any as the first keyword of a
   nested match and nested types unrelated to the declared attribute type are inside F11. *)
Theorem C11_match : forall C objcls M T l dom,
  sub_trans C -> typed C objcls M -> F11 C objcls T l = true ->
  forall o, In o (run C M T l dom) <-> In o (spec_run (sub C) M T l dom).
Proof. exact match_run_exact. Qed.

(* selected inner parts (select / select_any / select_all / entity_selection): the rows reported -- the values of the
   selected expressions: for a selected keyword the attribute value and, on a collection attribute, the matched member;
   the root element first for entity_selection, or alone when nothing is selected -- are exactly the Spec's projections
   of the satisfying assignments, as a set.  Multiplicities are not claimed: a row is yielded once per satisfying
   assignment of ALL flattened collections (selected or not) and once per common member of a literal collection. *)
Theorem C11_rows : forall C objcls M rootsel T l dom,
  sub_trans C -> typed C objcls M -> F11 C objcls T l = true ->
  forall r, In r (run_rows C M rootsel T l dom) <-> In r (spec_rows (sub C) M rootsel T l dom).
Proof. exact match_rows_exact. Qed.

(* the conditions built from the keywords are satisfiable from the binding root := o exactly when o satisfies the
   keywords (relaxed reading; the Spec itself for patterns in F11, see lax_strict), and every result keeps that binding
   of the root *)
Theorem C11_match_sat : forall C objcls M D, sub_trans C -> typed C objcls M -> forall T l o,
  F11lax C objcls T l = true -> In o D -> sub C (otype M o) T = true ->
  (eval_all C M D (tr_alist C T PRoot l) [(PRoot, VO o)] <> [] <-> lax_alist C M T PRoot l o = true)
  /\ (forall e', In e' (eval_all C M D (tr_alist C T PRoot l) [(PRoot, VO o)]) -> lookup e' PRoot = Some (VO o)).
Proof. exact match_sat. Qed.

(* inside the (relaxed) fragment no exception is raised *)
Theorem C11_no_error : forall C objcls M T l dom, F11lax C objcls T l = true -> run_raises C M T l dom = false.
Proof. exact no_error. Qed.

(* ... and resolving the pattern raises nothing (every keyword is a field of the declared class) *)
Theorem C11_no_build_error : forall C objcls T l, F11lax C objcls T l = true -> build_raises C T l = false.
Proof. exact no_build_error. Qed.

(* whatever the pattern: in a world without None (the object 0) no attribute access fails *)
Theorem C11_no_attr_error : forall C M T l dom, no_none M dom -> run_araises C M T l dom = false.
Proof. exact no_attr_error. Qed.

(* the left-nested AND chain with its false results computes the sequential evaluation used in the proofs *)
Theorem C11_and_chain : forall C M D cs, true_envs C M D cs = eval_all C M D cs [].
Proof. exact true_envs_seq. Qed.

(* the flag the harness computes on a concrete case implies every hypothesis of C11_match: each case counted as
   "inside F11" is an instance of the theorem *)
Theorem C11_fragment_flag : forall c : mcase, in_F c = true ->
  build_raises (case_cmodel c) (c_T c) (c_pat c) = false /\
  run_araises (case_cmodel c) (case_world c) (c_T c) (c_pat c) (c_dom c) = false /\
  run_raises (case_cmodel c) (case_world c) (c_T c) (c_pat c) (c_dom c) = false /\
  forall o, In o (run (case_cmodel c) (case_world c) (c_T c) (c_pat c) (c_dom c)) <->
            In o (spec_run (sub (case_cmodel c)) (case_world c) (c_T c) (c_pat c) (c_dom c)).
Proof. exact fragment_flag. Qed.

Theorem C11_fragment_flag_rows : forall c : mcase, in_F c = true ->
  forall r, In r (run_rows (case_cmodel c) (case_world c) (c_rootsel c) (c_T c) (c_pat c) (c_dom c)) <->
            In r (spec_rows (sub (case_cmodel c)) (case_world c) (c_rootsel c) (c_T c) (c_pat c) (c_dom c)).
Proof. exact fragment_flag_rows. Qed.

(* ---- finding C11-e characterised: on F11lax (F11 without the clause "every nested match on a collection emits a
   condition") the answer is exactly what the relaxed reading [lax_*] denotes: the Spec, except that a nested match on a
   collection that emits no condition constrains nothing.  The Spec's answers are never lost; for the simplest vacuous
   keyword the two readings differ exactly on the elements whose collection is empty. ---- *)
Theorem C11_match_lax : forall C objcls M T l dom,
  sub_trans C -> typed C objcls M -> F11lax C objcls T l = true ->
  forall o, In o (run C M T l dom) <-> In o (lax_run C M T l dom).
Proof. exact match_run_lax. Qed.
Theorem C11_lax_superset : forall C M T l dom o, In o (spec_run (sub C) M T l dom) -> In o (lax_run C M T l dom).
Proof. exact lax_superset. Qed.
Theorem C11_vacuous_keyword : forall C objcls M oc p a t o d xs,
  sub_trans C -> typed C objcls M -> sub C (otype M o) oc = true ->
  f_type C oc a = Some d -> f_iter C oc a = true -> type_filter C oc a t = false -> attr (mw M) o a = VLO xs ->
  lax_apat C M oc p a (PMatch (Pat t ANil)) (VLO xs) = true /\
  matches_attr (sub C) M (PMatch (Pat t ANil)) (VLO xs) = negb (match xs with [] => true | _ => false end).
Proof. exact vacuous_keyword. Qed.
Theorem C11_fragment_flag_lax : forall c : mcase, in_Flax c = true ->
  build_raises (case_cmodel c) (c_T c) (c_pat c) = false /\
  run_araises (case_cmodel c) (case_world c) (c_T c) (c_pat c) (c_dom c) = false /\
  run_raises (case_cmodel c) (case_world c) (c_T c) (c_pat c) (c_dom c) = false /\
  forall o, In o (run (case_cmodel c) (case_world c) (c_T c) (c_pat c) (c_dom c)) <->
            In o (lax_run (case_cmodel c) (case_world c) (c_T c) (c_pat c) (c_dom c)).
Proof. exact fragment_flag_lax. Qed.

(* ---- outside F11 the statement is false of the faithful model (and of the implementation: known findings) ---- *)
(* C11-e: a nested match on a collection that emits no condition does not require a member *)
Theorem C11_refuted_empty_nested : in_F w_kf_emptynested = false /\ differs w_kf_emptynested = true.
Proof. exact refuted_empty_nested. Qed.

(* C11-f: a keyword whose value is a let-variable over an explicit domain raises TypeError (outcome [-1; 940]) where the
   Spec (the attribute equals / has a member equal to some value of the domain) has an answer *)
Theorem C11_refuted_letvalue :
  in_F w_kf_letvalue = false /\ model_out w_kf_letvalue = SL [SZ (-1); SZ 940] /\ spec_out w_kf_letvalue = SL [SZ 5].
Proof. exact refuted_letvalue. Qed.

(* C11-h: a collection attribute of builtin values is compared as a scalar *)
Theorem C11_refuted_builtin_collection :
  in_F w_kf_builtincoll = false /\ model_out w_kf_builtincoll = SL [] /\ spec_out w_kf_builtincoll = SL [SZ 4].
Proof. exact refuted_builtin_collection. Qed.
(* C11-i: a nested match of a narrower type cannot constrain an attribute only the subtype has *)
Theorem C11_refuted_subtype_attribute :
  in_F w_kf_subattr = false /\ model_out w_kf_subattr = SL [SZ (-1); SZ 2129] /\ spec_out w_kf_subattr = SL [SZ 4].
Proof. exact refuted_subtype_attribute. Qed.

(* ---- repaired defects: the former witnesses are inside F11 and answered as the Spec says ---- *)
(* C11-a (ded4892): value-equal collections no longer collapse *)
Theorem C11_fixed_any_dedup :
  in_F w_fixed_any_dedup = true /\ model_out w_fixed_any_dedup = SL [SZ 4; SZ 5] /\ spec_out w_fixed_any_dedup = SL [SZ 4; SZ 5].
Proof. exact fixed_any_dedup. Qed.
(* C11-b (663e923): match_all([]) / match_any([]) constrain the attribute *)
Theorem C11_fixed_empty_list :
  in_F w_fixed_emptylist = true /\ model_out w_fixed_emptylist = SL [SZ 5] /\ spec_out w_fixed_emptylist = SL [SZ 5] /\
  in_F w_fixed_emptylist_any = true /\ model_out w_fixed_emptylist_any = SL [] /\ spec_out w_fixed_emptylist_any = SL [].
Proof. exact fixed_empty_list. Qed.
(* C11-c (38657f3): match_any as the first keyword under a flattened collection *)
Theorem C11_fixed_exists_first :
  in_F w_fixed_existsfirst = true /\ model_out w_fixed_existsfirst = SL [SZ 6] /\ spec_out w_fixed_existsfirst = SL [SZ 6].
Proof. exact fixed_exists_first. Qed.

(* C11-d (a8e94bb): a nested type unrelated to the declared attribute type is checked *)
Theorem C11_fixed_unrelated_type :
  in_F w_fixed_unrelated = true /\ model_out w_fixed_unrelated = SL [] /\ spec_out w_fixed_unrelated = SL [].
Proof. exact fixed_unrelated_type. Qed.

(* C11-g (5008deb): a nested match on an Optional attribute does not match None and raises nothing *)
Theorem C11_fixed_nonevalue : model_out w_fixed_nonevalue = SL [SZ 3] /\ spec_out w_fixed_nonevalue = SL [SZ 3].
Proof. exact fixed_nonevalue. Qed.

(* non-vacuity: a depth-3 pattern inside F11 (type narrowing through a collection, match_any after a binding
   condition, a second keyword at the root) whose answer is one of three racks *)
Example C11_nonvacuous : in_F w_ok = true /\ model_out w_ok = SL [SZ 6] /\ spec_out w_ok = SL [SZ 6].
Proof. exact nonvacuous. Qed.

(* a pattern with select, select_any and entity_selection inside F11 with a non-empty set of rows *)
Example C11_select_example :
  in_F w_select = true /\ sx_eqb (model_rows_out w_select) (spec_rows_out w_select) = true /\
  negb (sx_eqb (spec_rows_out w_select) (SL [])) = true.
Proof. exact select_example. Qed.

Print Assumptions C11_match.
Print Assumptions C11_rows.
Print Assumptions C11_match_sat.
Print Assumptions C11_no_error.
Print Assumptions C11_no_build_error.
Print Assumptions C11_no_attr_error.
Print Assumptions C11_and_chain.
Print Assumptions C11_fragment_flag.
Print Assumptions C11_fragment_flag_rows.
Print Assumptions C11_match_lax.
Print Assumptions C11_lax_superset.
Print Assumptions C11_vacuous_keyword.
Print Assumptions C11_fragment_flag_lax.
Print Assumptions C11_refuted_empty_nested.
Print Assumptions C11_refuted_letvalue.
Print Assumptions C11_refuted_builtin_collection.
Print Assumptions C11_refuted_subtype_attribute.
Print Assumptions C11_fixed_any_dedup.
Print Assumptions C11_fixed_empty_list.
Print Assumptions C11_fixed_exists_first.
Print Assumptions C11_fixed_unrelated_type.
Print Assumptions C11_fixed_nonevalue.
