(* Property C03 -- evaluations are repeatable and do not interfere with each other.
   Only statements, each closed by [exact].  Three layers (DESIGN section 6, C03):
   (a) the HashedIterable domain cache as a concurrent object (Eql/DomainCache.v).  The faithful model of the CURRENT
       iterator (krrood 1997e3c: positional replay of a per-round snapshot, one new element per round, cached ids skipped)
       is [rstep]/[rrun]: proved for EVERY domain and EVERY schedule.  [hstep]/[run] model the PREVIOUS iterator and are
       kept as regression statements (what used to fail, and the fragment on which it was correct);
   (b) whole evaluations threaded through the surviving state (Eql/Reeval.v): history-independent on the conjunctive
       fragment INCLUDING rule queries with a refinement (selector memory forgotten at the start of an evaluation, a3cd335);
       the Exists node's de-duplication memory (Eql/ReevalExists.v): isolated because it is per evaluation;
   (c) whole evaluations interleaved step by step: the coroutine machine of Eql/DomainCacheSched.v (the executable prediction the
       harness compares with the implementation on enumerated schedules) is PROVED isolating for every schedule when the
       evaluated query objects are pairwise distinct (C03_sched_isolated); it is tied to the whole-evaluation model by
       C03_sched_sequential_is_hist; refuted for one rule-query object evaluated twice at the same time (open finding C03-b2). *)
From Coq Require Import List ZArith Bool.
From Krrood Require Import Eql.DomainCacheSpec Eql.DomainCache Eql.DomainCacheProofs
                           Eql.ReevalSpec Eql.Reeval Eql.ReevalProofs Eql.ReevalExists
                           Eql.DomainCacheSched Eql.DomainCacheSchedProofs.
Import ListNotations.
Open Scope Z_scope.

(* ================= (a) the current iterator ================= *)
(* every domain (an element may be listed several times), every schedule of create/next/abandon operations of any
   length, any number of live handles, abandonment anywhere: a handle that ran to StopIteration yielded exactly the
   de-duplicated domain in order, and every handle -- live or abandoned -- has yielded a prefix of it.
   (The model has no failure state: the iterator raises nothing.) *)
Theorem C03_cache_any_schedule_repaired : forall (domain : list hv) (ops : list op) (h : nat) (st : rstate) (tr : list hv),
  nth_error (rhs (rrun ops (rinit domain))) h = Some (st, tr) ->
  (st = RDone -> tr = dedup domain) /\ is_prefix tr (dedup domain).
Proof. exact cache_any_schedule_repaired. Qed.

(* for a domain without repetitions the de-duplicated domain is the domain *)
Theorem C03_dedup_nodup : forall l : list hv, NoDup l -> dedup l = l.
Proof. exact dedup_nodup. Qed.

(* the EMPTY domain explicitly (also one emptied by let's isinstance filter): every handle of every schedule yields nothing *)
Theorem C03_cache_any_schedule_empty : forall (ops : list op) (h : nat) (st : rstate) (tr : list hv),
  nth_error (rhs (rrun ops (rinit []))) h = Some (st, tr) -> tr = [].
Proof. exact cache_any_schedule_empty. Qed.

(* ================= (b) whole evaluations ================= *)
(* a whole evaluation of ANY query of the fragment -- rule-free or carrying a rule with a refinement -- from any state
   whose caches stand for the world W (cold, warm, partially filled) and whose selector memory holds anything, yields the
   isolated rows over W and leaves such a state (the selector memory is forgotten when an evaluation starts: krrood a3cd335);
   [C03_cold_is_good]: W = the de-duplicated domains *)
Theorem C03_reeval_isolated : forall (W : world) (A : attrs) (q : query) (s : qstate),
  good W s ->
  fst (Reeval.run A s q) = iso_rows W A q /\ good W (snd (Reeval.run A s q)).
Proof. exact run_isolated. Qed.

Theorem C03_reeval_idempotent : forall (W : world) (A : attrs) (q : query) (s : qstate),
  good W s ->
  fst (Reeval.run A (snd (Reeval.run A s q)) q) = fst (Reeval.run A s q).
Proof. exact reeval_idempotent. Qed.

(* any history of whole evaluations of queries sharing variables (rule queries re-evaluated included): each yields its isolated rows *)
Theorem C03_history_independent : forall (W : world) (A : attrs) (qs : list query) (s : qstate),
  good W s ->
  hist A s qs = map (iso_rows W A) qs.
Proof. exact hist_isolated. Qed.

Theorem C03_cold_is_good : forall W : world, good (map dedup W) (cold W).
Proof. exact good_cold. Qed.

(* the link between the two models: what a whole evaluation does with a variable is a fresh handle of the current
   iterator run to exhaustion *)
Theorem C03_iter_full_is_exhaust : forall (d : dstate) (w : list Z), dgood d w ->
  rexhaust (S (S (length w))) d (RLive 0 []) [] = Some (iter_full d).
Proof. exact iter_full_exhaust. Qed.

(* the de-duplication memory of an Exists node: local to the evaluation (the code as it is) => any number of evaluations of
   the node in ANY interleaving each yield one result per key; kept on the node and cleared at start => refuted *)
Theorem C03_exists_local_isolated : forall (ks : list Z) (ops : list eop) (h : nat) (hd : lhandle),
  nth_error (lrun ks ops []) h = Some hd ->
  is_prefix (l_tr hd) (dedup ks) /\ (l_st hd = EDone -> l_tr hd = dedup ks).
Proof. exact exists_local_isolated. Qed.

Theorem C03_refuted_shared_exists_memory :
  s_hs (srun [1; 2] lockstep) = [(SLive [], [1; 2]); (SDone, [1])] /\ dedup [1; 2] = [1; 2] /\
  map l_tr (lrun [1; 2] lockstep []) = [[1; 2]; [1; 2]].
Proof. exact refuted_shared_exists_memory. Qed.

(* ================= (c) whole evaluations interleaved: the coroutine machine ================= *)
(* [irun] drives the machine ([istep]: shared domain caches with the HashedIterable handles of 1997e3c, suspended evaluations as
   continuation trees, selector node per query object) through a schedule and records per evaluation the rows it delivered,
   whether it was closed, whether it ended by itself (StopIteration without having been closed), whether it failed.
   For every world (explicit domains, repeated elements allowed), every list of query objects of the fragment -- rule-free or
   with a refinement rule --, every assignment of evaluations to PAIRWISE DISTINCT objects, and every schedule of next()/close()
   steps of any length (a warm-up history is just a prefix of the schedule with further evaluations):
   no evaluation fails, each delivered a prefix of its isolated rows, and exactly those if it ended by itself. *)
Theorem C03_sched_isolated : forall (W : world) (A : attrs) (qobjs : list query) (itobj : list nat) (ops : list iop)
                                    (S' : isys rstate) (T' : list itrace),
  NoDup itobj -> Forall (fun o => o < length qobjs)%nat itobj ->
  irun rstate (RLive 0 []) rstep ops (isys1 W A qobjs itobj) (map (fun _ => trace0) itobj) = (S', T') ->
  forall i t, nth_error T' i = Some t ->
  exists o, nth_error itobj i = Some o /\
            t_failed t = false /\
            is_prefix_rows (t_rows t) (iso_rows (map dedup W) A (nth o qobjs q_none)) /\
            (t_stopped t = true -> t_rows t = iso_rows (map dedup W) A (nth o qobjs q_none)).
Proof. exact sched_isolated. Qed.

(* the form used for rule-free queries (every evaluation its own object; also the same rule-free query object several times) *)
Theorem C03_sched_isolated_rule_free_objects : forall (W : world) (A : attrs) (qs : list query) (ops : list iop)
                                                      (S' : isys rstate) (T' : list itrace),
  irun rstate (RLive 0 []) rstep ops (isys0 W A qs) (map (fun _ => trace0) (seq 0 (length qs))) = (S', T') ->
  forall i t, nth_error T' i = Some t ->
  exists q, nth_error qs i = Some q /\
            t_failed t = false /\
            is_prefix_rows (t_rows t) (iso_rows (map dedup W) A q) /\
            (t_stopped t = true -> t_rows t = iso_rows (map dedup W) A q).
Proof. exact sched_isolated0. Qed.

(* the CPS / list-monad bridge behind it: what a compiled query still has to deliver when its domain iterators simply walk the
   de-duplicated domains is its isolated row list *)
Theorem C03_compile_ideal : forall (W' : world) (A : attrs) (F : nat),
  (forall x, (F > length (domW W' x))%nat) ->
  forall q, ideal W' (compile A F q) [] ([], []) = (iso_rows W' A q, true).
Proof. exact compile_ideal. Qed.

(* the two models cannot drift apart: whatever the schedule, if every evaluation ended by itself the machine delivered what the
   whole-evaluation model [hist] computes; and the sequential schedule (each evaluation stepped to its end in turn) does end them all *)
Theorem C03_sched_exhausted_is_hist : forall (W : world) (A : attrs) (qobjs : list query) (itobj : list nat) (ops : list iop)
                                             (S' : isys rstate) (T' : list itrace),
  NoDup itobj -> Forall (fun o => o < length qobjs)%nat itobj ->
  irun rstate (RLive 0 []) rstep ops (isys1 W A qobjs itobj) (map (fun _ => trace0) itobj) = (S', T') ->
  Forall (fun t => t_stopped t = true) T' ->
  map t_rows T' = hist A (cold W) (queries_of qobjs itobj).
Proof. exact sched_exhausted_is_hist. Qed.

Theorem C03_sched_sequential_is_hist : forall (W : world) (A : attrs) (qobjs : list query) (itobj : list nat)
                                              (S' : isys rstate) (T' : list itrace),
  NoDup itobj -> Forall (fun o => o < length qobjs)%nat itobj ->
  irun rstate (RLive 0 []) rstep (seq_sched W A qobjs O itobj) (isys1 W A qobjs itobj) (map (fun _ => trace0) itobj) = (S', T') ->
  map t_rows T' = hist A (cold W) (queries_of qobjs itobj).
Proof. exact sched_sequential_is_hist. Qed.

(* OPEN (finding C03-b2): ONE rule-query object evaluated twice at the same time -- the hypothesis NoDup of C03_sched_isolated is
   necessary: both evaluations end by themselves having lost a row; two distinct objects of the same query are fine *)
Theorem C03_refuted_rule_object_twice :
  map (fun t => (t_rows t, t_stopped t))
      (snd (irun rstate (RLive 0 []) rstep sched_x (isys1 W_x A_x [q_rule_x] [0; 0]%nat) [trace0; trace0]))
  = [([[0; 11]; [1; 13]], true); ([[0; 11]; [1; 12]], true)] /\
  iso_rows (map dedup W_x) A_x q_rule_x = [[0; 11]; [1; 12]; [1; 13]] /\
  map (fun t => (t_rows t, t_stopped t))
      (snd (irun rstate (RLive 0 []) rstep sched_x (isys1 W_x A_x [q_rule_x; q_rule_x] [0; 1]%nat) [trace0; trace0]))
  = [([[0; 11]; [1; 12]; [1; 13]], false); ([[0; 11]; [1; 12]; [1; 13]], true)].
Proof. exact refuted_rule_object_twice. Qed.

(* ================= regression: the PREVIOUS iterator (before 1997e3c) =================
   yield from self.values.values(); for v in self.iterable: self.values[v.id_] = v; yield v          -- model [hstep] *)
(* what it did get right: duplicate-free domains, one live handle at a time *)
Theorem C03_old_cache_sequential : forall (domain : list hv), NoDup domain ->
  forall (ops : list op) (S' : sys) (h : nat) (st : hstate) (tr : list hv),
  seq_run ops (init domain) = Some S' ->
  nth_error (hs S') h = Some (st, tr) ->
  st <> HFailed /\ (st = HDone -> tr = iter_spec domain) /\ is_prefix tr (iter_spec domain).
Proof. exact cache_sequential. Qed.

Theorem C03_old_cache_warm_any_schedule : forall (domain : list hv), NoDup domain ->
  forall (ops : list op) (h : nat) (st : hstate) (tr : list hv),
  nth_error (hs (DomainCache.run ops {| dom := warm domain; hs := [] |})) h = Some (st, tr) ->
  st <> HFailed /\ (st = HDone -> tr = iter_spec domain) /\ is_prefix tr (iter_spec domain).
Proof. exact cache_warm_any_schedule. Qed.

(* what it got wrong (fixed by 1997e3c; the witnesses are replayed on the implementation and must meet the Spec now):
   two live handles -- lost rows, RuntimeError -- and a duplicate element yielded twice, then once *)
Theorem C03_refuted_interleave :
  (NoDup [1; 2] /\ hs (DomainCache.run sched_lost (init [1; 2])) = [(HDone, [1]); (HDone, [1; 2])]) /\
  (NoDup [1; 2] /\ hs (DomainCache.run sched_err (init [1; 2])) = [(HDrain, [1; 2]); (HFailed, [1])]).
Proof. exact (conj refuted_interleave_lost refuted_interleave_err). Qed.

Theorem C03_refuted_dup :
  seq_run sched_dup (init [7; 7]) <> None /\
  hs (DomainCache.run sched_dup (init [7; 7])) = [(HDone, [7; 7]); (HDone, [7])].
Proof. exact refuted_dup. Qed.

(* before a3cd335 the selector memory was never reset: second evaluation of a rule query empty (model [run_old]); now equal *)
Theorem C03_refuted_rule_reeval :
  hist_old A_w (cold W_w) [q_rule_w; q_rule_w] = [[[0; 11]; [1; 12]; [1; 13]]; []] /\
  iso_rows W_w A_w q_rule_w = [[0; 11]; [1; 12]; [1; 13]] /\
  hist A_w (cold W_w) [q_rule_w; q_rule_w] = [[[0; 11]; [1; 12]; [1; 13]]; [[0; 11]; [1; 12]; [1; 13]]].
Proof. exact refuted_rule_reeval_old. Qed.

(* the same three schedules on the current iterator *)
Example C03_current_on_old_witnesses :
  rhs (rrun (sched_lost ++ [Next 0]%nat) (rinit [1; 2])) = [(RDone, [1; 2]); (RDone, [1; 2])] /\
  rhs (rrun (sched_err ++ [Next 1; Next 0; Next 1]%nat) (rinit [1; 2])) = [(RDone, [1; 2]); (RDone, [1; 2])] /\
  rhs (rrun sched_dup (rinit [7; 7])) = [(RDone, [7]); (RDone, [7])].
Proof. exact repaired_on_witnesses. Qed.

(* non-vacuity: three live handles interleaved over a domain with a repeated element, one abandoned;
   a two-variable query evaluated twice; the empty domain with four handles *)
Example C03_nonvacuous :
  rhs (rrun [Create; Next 0; Create; Create; Next 1; Next 2; Next 2; Abandon 2; Next 0; Next 1; Next 1; Next 0; Next 0; Next 1]%nat
            (rinit [1; 2; 1; 3]))
  = [(RDone, [1; 2; 3]); (RDone, [1; 2; 3]); (RClosed, [1; 2])] /\
  (let q := {| q_sel := [0%nat; 1%nat]; q_conds := [ACmpC 0 Cge 1; ACmpV 0 Clt 1]; q_rule := None |} in
   let W := [[10; 11; 12]; [20; 21]] in
   let A := [(10, 0); (11, 1); (12, 2); (20, 2); (21, 3)] in
   good (map dedup W) (cold W) /\
   hist A (cold W) [q; q] = [[[11; 20]; [11; 21]; [12; 21]]; [[11; 20]; [11; 21]; [12; 21]]]) /\
  rhs (rrun [Create; Next 0; Create; Next 1; Next 0; Create; Abandon 2; Create; Next 3]%nat (rinit []))
  = [(RDone, []); (RDone, []); (RClosed, []); (RDone, [])].
Proof.
  split; [vm_compute; reflexivity|]. split; [exact reeval_nonvacuous|vm_compute; reflexivity].
Qed.

Print Assumptions C03_cache_any_schedule_repaired.
Print Assumptions C03_dedup_nodup.
Print Assumptions C03_cache_any_schedule_empty.
Print Assumptions C03_reeval_isolated.
Print Assumptions C03_reeval_idempotent.
Print Assumptions C03_history_independent.
Print Assumptions C03_cold_is_good.
Print Assumptions C03_iter_full_is_exhaust.
Print Assumptions C03_exists_local_isolated.
Print Assumptions C03_refuted_shared_exists_memory.
Print Assumptions C03_sched_isolated.
Print Assumptions C03_sched_isolated_rule_free_objects.
Print Assumptions C03_compile_ideal.
Print Assumptions C03_sched_exhausted_is_hist.
Print Assumptions C03_sched_sequential_is_hist.
Print Assumptions C03_refuted_rule_object_twice.
Print Assumptions C03_old_cache_sequential.
Print Assumptions C03_old_cache_warm_any_schedule.
Print Assumptions C03_refuted_interleave.
Print Assumptions C03_refuted_dup.
Print Assumptions C03_refuted_rule_reeval.
