(* Property C03 -- evaluations are repeatable and do not interfere with each other.
   Only statements, each closed by [exact].  Three layers (DESIGN section 6, C03):
   (a) the HashedIterable domain cache as a concurrent object (Eql/DomainCache.v): proved for every schedule with at
       most one live handle; refuted for two live handles and for duplicate elements; the repaired (index-based)
       iterator proved for every schedule whatsoever;
   (b) whole evaluations threaded through the surviving state (Eql/Reeval.v): history-independent on the rule-free
       conjunctive fragment with NoDup domains; refuted for rule queries (selector memory) and duplicate elements;
   (c) whole evaluations interleaved step by step: NOT proved -- Eql/DomainCacheSched.v is an executable prediction that
       the harness compares with the implementation on enumerated schedules. *)
From Coq Require Import List ZArith Bool.
From Krrood Require Import Eql.DomainCacheSpec Eql.DomainCache Eql.DomainCacheProofs
                           Eql.ReevalSpec Eql.Reeval Eql.ReevalProofs Eql.ReevalExists.
Import ListNotations.
Open Scope Z_scope.

(* (a) current __iter__: every domain without duplicates, every schedule of create/next/abandon operations of any
   length in which a handle is created only when no other handle is live (abandoning at any point included):
   no handle dies with RuntimeError, a handle that ran to StopIteration yielded exactly the domain in order, and every
   handle -- abandoned ones too -- yielded a prefix of it. *)
Theorem C03_cache_sequential : forall (domain : list hv), NoDup domain ->
  forall (ops : list op) (S' : sys) (h : nat) (st : hstate) (tr : list hv),
  seq_run ops (init domain) = Some S' ->
  nth_error (hs S') h = Some (st, tr) ->
  st <> HFailed /\ (st = HDone -> tr = iter_spec domain) /\ is_prefix tr (iter_spec domain).
Proof. exact cache_sequential. Qed.

(* (a) the EMPTY domain explicitly (a variable without any value of its type, also after let's isinstance filter): every
   handle of every sequential schedule -- the second, third, ... included -- yields nothing and none dies *)
Theorem C03_cache_sequential_empty : forall (ops : list op) (S' : sys) (h : nat) (st : hstate) (tr : list hv),
  seq_run ops (init []) = Some S' -> nth_error (hs S') h = Some (st, tr) -> st <> HFailed /\ tr = [].
Proof. exact cache_sequential_empty. Qed.

(* (a) a WARM cache (source exhausted, everything cached -- the state after one complete evaluation): every schedule
   whatsoever, any number of live handles: the cache cannot make evaluations interfere any more *)
Theorem C03_cache_warm_any_schedule : forall (domain : list hv), NoDup domain ->
  forall (ops : list op) (h : nat) (st : hstate) (tr : list hv),
  nth_error (hs (DomainCache.run ops {| dom := warm domain; hs := [] |})) h = Some (st, tr) ->
  st <> HFailed /\ (st = HDone -> tr = iter_spec domain) /\ is_prefix tr (iter_spec domain).
Proof. exact cache_warm_any_schedule. Qed.

(* [seq_run] is the unrestricted machine [run] plus the side condition, nothing else *)
Theorem C03_seq_run_is_run : forall ops S S', seq_run ops S = Some S' -> S' = DomainCache.run ops S.
Proof. exact seq_run_is_run. Qed.

(* (a) two live handles on the current code: the inner of two nested loops consumes the shared generator and the outer
   one ends after its first element (lost rows); round robin: RuntimeError from the live dict view *)
Theorem C03_refuted_interleave :
  (NoDup [1; 2] /\ hs (DomainCache.run sched_lost (init [1; 2])) = [(HDone, [1]); (HDone, [1; 2])]) /\
  (NoDup [1; 2] /\ hs (DomainCache.run sched_err (init [1; 2])) = [(HDrain, [1; 2]); (HFailed, [1])]).
Proof. exact (conj refuted_interleave_lost refuted_interleave_err). Qed.

(* (a) a duplicate element, sequential schedule: twice on the iteration that fills the cache, once afterwards *)
Theorem C03_refuted_dup :
  seq_run sched_dup (init [7; 7]) <> None /\
  hs (DomainCache.run sched_dup (init [7; 7])) = [(HDone, [7; 7]); (HDone, [7])].
Proof. exact refuted_dup. Qed.

(* (a) repaired iterator (index-based replay, duplicates skipped): every domain, EVERY schedule (any interleaving,
   any number of handles, abandonment anywhere): exhausted handles yielded the de-duplicated domain, all handles a prefix *)
Theorem C03_cache_any_schedule_repaired : forall (domain : list hv) (ops : list op) (h : nat) (st : rstate) (tr : list hv),
  nth_error (rhs (rrun ops (rinit domain))) h = Some (st, tr) ->
  (st = RDone -> tr = dedup domain) /\ is_prefix tr (dedup domain).
Proof. exact cache_any_schedule_repaired. Qed.

Theorem C03_dedup_nodup : forall l : list hv, NoDup l -> dedup l = iter_spec l.
Proof. exact dedup_nodup. Qed.

(* (b) a whole evaluation of a rule-free conjunctive query from any state whose caches hold NoDup domains (cold, warm,
   partially filled) yields the isolated rows and leaves such a state *)
Theorem C03_reeval_isolated : forall (W : world) (A : attrs) (c0 : list (list Z)) (q : query) (s : qstate),
  q_rule q = None -> good W c0 s ->
  fst (run A s q) = iso_rows W A q /\ good W c0 (snd (run A s q)).
Proof. exact run_isolated. Qed.

Theorem C03_reeval_idempotent : forall (W : world) (A : attrs) (c0 : list (list Z)) (q : query) (s : qstate),
  q_rule q = None -> good W c0 s ->
  fst (run A (snd (run A s q)) q) = fst (run A s q).
Proof. exact reeval_idempotent. Qed.

(* (b) any history of whole evaluations of rule-free queries sharing variables: each yields its isolated rows *)
Theorem C03_history_independent : forall (W : world) (A : attrs) (c0 : list (list Z)) (qs : list query) (s : qstate),
  Forall (fun q => q_rule q = None) qs -> good W c0 s ->
  hist A s qs = map (iso_rows W A) qs.
Proof. exact hist_isolated. Qed.

Theorem C03_cold_is_good : forall W : world, Forall (@NoDup Z) W -> good W [] (cold W).
Proof. exact good_cold. Qed.

(* (b) the link between the two models: a fresh handle run to exhaustion is what a whole evaluation uses *)
Theorem C03_iter_full_is_exhaust : forall (d : dstate) (w : list Z), dgood d w ->
  exhaust (S (S (length w))) d HNew [] = Some (iter_full d).
Proof. exact iter_full_exhaust. Qed.

(* (b) refuted: rule query with a refinement, second evaluation empty; duplicate element *)
Theorem C03_refuted_rule_reeval :
  hist A_w (cold W_w) [q_rule_w; q_rule_w] = [[[0; 11]; [1; 12]; [1; 13]]; []] /\
  iso_rows W_w A_w q_rule_w = [[0; 11]; [1; 12]; [1; 13]].
Proof. exact refuted_rule_reeval. Qed.

Theorem C03_refuted_dup_reeval :
  hist [(10, 5)] (cold [[10; 10]]) [q_plain_w; q_plain_w] = [[[10]; [10]]; [[10]]].
Proof. exact refuted_dup_reeval. Qed.

(* the de-duplication memory of an Exists node: local to the evaluation (the code as it is) => any number of evaluations of
   the node in ANY interleaving each yield one result per key; kept on the node and cleared at start => refuted *)
Theorem C03_exists_local_isolated : forall (ks : list Z) (ops : list eop) (h : nat) (hd : lhandle),
  nth_error (lrun ks ops []) h = Some hd ->
  is_prefix (l_tr hd) (dedup ks) /\ (l_st hd = EDone -> l_tr hd = dedup ks).
Proof. exact exists_local_isolated. Qed.

Theorem C03_refuted_shared_exists_memory :
  s_hs (srun [1; 2] lockstep) = [(SLive [], [1; 2]); (SDone, [1])] /\ dedup [1; 2] = [1; 2] /\
  map l_tr (lrun [1; 2] lockstep []) = [[1; 2]; [1; 2]].
Proof. exact refuted_shared_exists_memory. Qed.

(* non-vacuity: a sequential schedule with an abandoned handle and a fresh one; a two-variable query evaluated twice *)
Example C03_nonvacuous :
  (NoDup [1; 2; 3] /\
   exists S', seq_run [Create; Next 0; Next 0; Abandon 0; Create; Next 1; Next 1; Next 1; Next 1]%nat (init [1; 2; 3]) = Some S' /\
              hs S' = [(HClosed, [1; 2]); (HDone, [1; 2; 3])]) /\
  (let q := {| q_sel := [0%nat; 1%nat]; q_conds := [ACmpC 0 Cge 1; ACmpV 0 Clt 1]; q_rule := None |} in
   let W := [[10; 11; 12]; [20; 21]] in
   let A := [(10, 0); (11, 1); (12, 2); (20, 2); (21, 3)] in
   Forall (@NoDup Z) W /\
   hist A (cold W) [q; q] = [[[11; 20]; [11; 21]; [12; 21]]; [[11; 20]; [11; 21]; [12; 21]]]).
Proof.
  split.
  - split; [repeat constructor; simpl; intuition discriminate|].
    eexists. split; vm_compute; reflexivity.
  - exact reeval_nonvacuous.
Qed.

(* non-vacuity for the empty domain: four handles one after the other, one of them abandoned *)
Example C03_nonvacuous_empty :
  exists S', seq_run [Create; Next 0; Next 0; Create; Next 1; Create; Abandon 2; Create; Next 3]%nat (init []) = Some S' /\
             hs S' = [(HDone, []); (HDone, []); (HClosed, []); (HDone, [])].
Proof. exact empty_domain_two_handles. Qed.

Print Assumptions C03_cache_sequential.
Print Assumptions C03_cache_sequential_empty.
Print Assumptions C03_cache_warm_any_schedule.
Print Assumptions C03_seq_run_is_run.
Print Assumptions C03_refuted_interleave.
Print Assumptions C03_refuted_dup.
Print Assumptions C03_cache_any_schedule_repaired.
Print Assumptions C03_dedup_nodup.
Print Assumptions C03_reeval_isolated.
Print Assumptions C03_reeval_idempotent.
Print Assumptions C03_history_independent.
Print Assumptions C03_cold_is_good.
Print Assumptions C03_iter_full_is_exhaust.
Print Assumptions C03_refuted_rule_reeval.
Print Assumptions C03_refuted_dup_reeval.
Print Assumptions C03_exists_local_isolated.
Print Assumptions C03_refuted_shared_exists_memory.
