(* Property C01, part b -- flatten(e) and nested sub-queries used as operands / selected expressions.
   Statements only; model Eql/EvalDep.v (hand-written: the evaluator of Eql/Eval.v generalised to GENERATED variables
   z := FlatOf e | SubOf z0 c, tied by the correspondence check harness/c01.py), Spec Eql/EvalDepSpec.v (one assignment of
   all variables, plain and generated; every generated variable has a value of its range).
   Unbounded in: nesting of and_/or_/not_, number of plain and generated variables, flatten of flatten of ..., attribute
   chains, selections, domain / collection sizes and contents, world contents. *)
From Coq Require Import List ZArith Bool Arith.
From Krrood Require Import Base.Sx Eql.Syntax Eql.Sat Eql.Eval Eql.EvalProofs Eql.RunProofs Eql.ShowSpec.
From Krrood Require Import Eql.EvalDepSpec Eql.EvalDep Eql.EvalDepGeneric Eql.EvalDepProofs Eql.EvalDepRun Eql.EvalDepExec
  Eql.EvalDepExists Eql.ShowDep Eql.ShowDepFrag.
Import ListNotations.
Open Scope nat_scope.

(* the executable Spec the harness compares against computes exactly the answers -- quantifiers over generated variables
   included -- when the declarations are in dependency order and quantified variables are scoped *)
Theorem C01b_spec_exec : forall W D ds q row, wf_ds ds = true -> scoped ds q = true ->
  (In row (answers_execD W D ds q) <-> answerD W D ds q row).
Proof. exact answers_execD_correct. Qed.

(* link to Props/C01.v: without declarations the generalised evaluator IS the evaluator of Eql/Eval.v -- every condition
   (exists / for_all included), every query *)
Theorem C01b_conservative_eval : forall W D c b, evalD W D [] c b = eval W D c b.
Proof. exact evalD_nil. Qed.
Theorem C01b_conservative_run : forall W D q, runD W D [] q = run W D q.
Proof. exact runD_nil. Qed.

(* nothing that satisfies the conditions is ever missing: every quantifier-free query over any well-formed declaration
   list ([wf_ds]: dependency order; [wf_sub]: sub-query conditions quantifier-free over a plain variable of their own;
   [localb]: that variable occurs nowhere outside its sub-query) *)
Theorem C01b_complete : forall W D DS q row,
  wf_ds DS = true -> wf_sub DS = true -> localb DS q = true -> qfree_opt (q_cond q) = true ->
  answerD W D DS q row -> In row (runD W D DS q).
Proof. exact runD_complete. Qed.

(* nothing that violates the conditions is ever returned and every row is one consistent assignment, provided no variable
   can be left without a value: plain variables have non-empty domains, and no generated variable has an empty range under
   an assignment that is admissible for the variables declared before it (otherwise: finding C01-h / C01-h2) *)
Theorem C01b_sound : forall W D DS q row,
  wf_ds DS = true -> wf_sub DS = true -> qfree_opt (q_cond q) = true ->
  plain_ne D DS (mentioned DS q) -> ne_ranges W D DS (mentioned DS q) ->
  In row (runD W D DS q) -> answerD W D DS q row.
Proof. exact runD_sound. Qed.

Theorem C01b_sound_complete : forall W D DS q,
  wf_ds DS = true -> wf_sub DS = true -> localb DS q = true -> qfree_opt (q_cond q) = true ->
  plain_ne D DS (mentioned DS q) -> ne_ranges W D DS (mentioned DS q) ->
  forall row, In row (runD W D DS q) <-> answerD W D DS q row.
Proof. exact runD_exact. Qed.

(* the condition-level invariant behind both, re-proved for the generalised evaluator: results are a cylinder cover *)
Theorem C01b_cover_sound : forall W D DS c pol b b',
  wf_ds DS = true -> wf_sub DS = true -> qfree c = true ->
  In (b', negb pol) (evalD W D DS c b) -> forall rho, extends rho b' -> sat W D rho c = pol.
Proof. exact evalD_cover_sound. Qed.

Theorem C01b_cover_complete : forall W D DS c,
  wf_ds DS = true -> wf_sub DS = true -> qfree c = true -> forall b rho,
  GoodD W D DS rho -> (forall x, In x (cond_vars c) -> InD D DS rho x) -> extends rho b ->
  exists b', In (b', negb (sat W D rho c)) (evalD W D DS c b) /\ extends rho b'.
Proof. exact evalD_cover_complete. Qed.

(* ---- exists over a plain or a flattened variable (exists(y, ...) with y = flatten(z.items), z = flatten(x.kids)) ----
   one positive existential conjunct: exists(y, body) or and_(c0, exists(y, body)) with c0, body quantifier-free.
   [ex_side]: y occurs in body and nowhere else (not in c0, the selection or a declaration), is not a sub-query, and every
   variable the body may bind other than y is part of Exists' de-duplication key (its Variable instances and the Flatten
   nodes below y); the query with the quantifier stripped is in the quantifier-free fragment [in_FD] *)
Theorem C01b_exists_sound_complete : forall W D DS q c0 y body,
  q_cond q = Some (match c0 with Some c0 => CAnd c0 (CExists (OVar y) body) | None => CExists (OVar y) body end) ->
  ex_side DS (q_sels q) c0 y body = true ->
  in_FD W D DS (strip_query q c0 body) = true ->
  forall row, In row (runD W D DS q) <-> answerD W D DS q row.
Proof. exact runD_ex_exact. Qed.

(* the decidable flag the correspondence check computes for every generated flatten / sub-query case is covered by the
   theorems: inside it the model's rows are the answers, and the rows of the executable Spec *)
Theorem C01b_fragment_flag : forall c, dcase_in_FD c = true ->
  forall row, In row (runD (mk_world (e_world (dc_case c))) (mk_domains (e_doms (dc_case c))) (dc_decls c) (e_query (dc_case c))) <->
              answerD (mk_world (e_world (dc_case c))) (mk_domains (e_doms (dc_case c))) (dc_decls c) (e_query (dc_case c)) row.
Proof. exact dcase_in_FD_exact. Qed.

Theorem C01b_fragment_flag_exec : forall c, dcase_in_FD c = true ->
  forall row, In row (runD (mk_world (e_world (dc_case c))) (mk_domains (e_doms (dc_case c))) (dc_decls c) (e_query (dc_case c))) <->
              In row (answers_execD (mk_world (e_world (dc_case c))) (mk_domains (e_doms (dc_case c))) (dc_decls c) (e_query (dc_case c))).
Proof. exact dcase_in_FD_exec. Qed.

(* ---- outside the fragment the full statement is false of the faithful model: concrete witnesses ---- *)
(* corpus/C01/kf_emptyflat.json (finding C01-h2): z = flatten(x.kids) with x.kids empty, used only in the second branch of
   an or_: an(entity(x, or_(y <= 0, z.a < y))) returns x although z ranges over nothing *)
Definition w_emptyflat : dcase :=
  let dsv : decls := [(10, FlatOf (OAttr (OVar 0) 3))] in
  {| dc_case := {| e_world := [(1, 1, [(0%nat, VI 2); (1%nat, VI 0); (2%nat, VLI []); (3%nat, VLO []); (4%nat, VO 1)])]%Z;
                   e_doms := [(0%nat, [VO 1]); (1%nat, [VI 0])]%Z;
                   e_query := {| q_sels := [OVar 0];
                                 q_cond := Some (mk_orD dsv (CCmp OpLe (OVar 1) (OLit (VI 0)))
                                                            (CCmp OpLt (OAttr (OVar 10) 0) (OVar 1))) |} |};
     dc_decls := dsv |}.
Theorem C01b_refuted_emptyflat :
  dmodel_differs_as_set w_emptyflat = true /\ dmodel_rows w_emptyflat = SL [SL [SL [SZ 1; SZ 1]]] /\ dspec_rows w_emptyflat = SL [] /\
  dcase_in_FD w_emptyflat = false /\
  (wf_ds (dc_decls w_emptyflat) && wf_sub (dc_decls w_emptyflat) && localb (dc_decls w_emptyflat) (e_query (dc_case w_emptyflat)) &&
   qfree_opt (q_cond (e_query (dc_case w_emptyflat)))) = true.
Proof. repeat split; vm_compute; reflexivity. Qed.

(* the same with a sub-query that has no answer: an(entity(x, or_(x.a >= 0, z.a >= 0))), z = an(entity(z0, z0.a > 5)) *)
Definition w_emptysub : dcase :=
  let dsv : decls := [(50, SubOf 30 (Some (CCmp OpGt (OAttr (OVar 30) 0) (OLit (VI 5)))))] in
  {| dc_case := {| e_world := [(1, 1, [(0%nat, VI 1); (1%nat, VI 0); (2%nat, VLI []); (3%nat, VLO []); (4%nat, VO 1)])]%Z;
                   e_doms := [(0%nat, [VO 1]); (30%nat, [VO 1])]%Z;
                   e_query := {| q_sels := [OVar 0];
                                 q_cond := Some (mk_orD dsv (CCmp OpGe (OAttr (OVar 0) 0) (OLit (VI 0)))
                                                            (CCmp OpGe (OAttr (OVar 50) 0) (OLit (VI 0)))) |} |};
     dc_decls := dsv |}.
Theorem C01b_refuted_emptysub :
  dmodel_differs_as_set w_emptysub = true /\ dspec_rows w_emptysub = SL [] /\ dcase_in_FD w_emptysub = false.
Proof. repeat split; vm_compute; reflexivity. Qed.

(* ---- non-vacuity ---- *)
(* z = flatten(x.kids), y = flatten(z.items): an(set_of([x, z, y], and_(or_(z.a > x.a, not_(z == x.child)), y >= 1))) *)
Definition w_flat_ok : dcase :=
  let dsv : decls := [(11, FlatOf (OAttr (OVar 10) 2)); (10, FlatOf (OAttr (OVar 0) 3))] in
  {| dc_case := {| e_world := [(1, 1, [(0%nat, VI 0); (2%nat, VLI [0; 1]); (3%nat, VLO [2; 1]); (4%nat, VO 2)]);
                               (2, 2, [(0%nat, VI 1); (2%nat, VLI [2]); (3%nat, VLO [1]); (4%nat, VO 2)])]%Z;
                   e_doms := [(0%nat, [VO 1; VO 2])]%Z;
                   e_query := {| q_sels := [OVar 0; OVar 10; OVar 11];
                                 q_cond := Some (mk_and (mk_orD dsv (CCmp OpGt (OAttr (OVar 10) 0) (OAttr (OVar 0) 0))
                                                                    (mk_not (CCmp OpEq (OVar 10) (OAttr (OVar 0) 4))))
                                                        (CCmp OpGe (OVar 11) (OLit (VI 1)))) |} |};
     dc_decls := dsv |}.
(* z = an(entity(z0, z0.a >= 1)): an(set_of([x, z], x.a < z.a)) *)
Definition w_sub_ok : dcase :=
  let dsv : decls := [(50, SubOf 30 (Some (CCmp OpGe (OAttr (OVar 30) 0) (OLit (VI 1)))))] in
  {| dc_case := {| e_world := [(1, 1, [(0%nat, VI 0)]); (2, 2, [(0%nat, VI 1)]); (3, 3, [(0%nat, VI 2)])]%Z;
                   e_doms := [(0%nat, [VO 1; VO 2; VO 3]); (30%nat, [VO 1; VO 2; VO 3])]%Z;
                   e_query := {| q_sels := [OVar 0; OVar 50];
                                 q_cond := Some (CCmp OpLt (OAttr (OVar 0) 0) (OAttr (OVar 50) 0)) |} |};
     dc_decls := dsv |}.
Example C01b_nonvacuous :
  dcase_in_FD w_flat_ok = true /\ dmodel_differs_as_set w_flat_ok = false /\ dspec_rows w_flat_ok <> SL [] /\
  dcase_in_FD w_sub_ok = true /\ dmodel_differs_as_set w_sub_ok = false /\ dspec_rows w_sub_ok <> SL [].
Proof. repeat split; try (vm_compute; reflexivity); vm_compute; discriminate. Qed.

(* exists over a flatten of a flatten: an(set_of([x, z], and_(z.a >= x.a, exists(y, y > x.a)))), z = flatten(x.kids), y = flatten(z.items) *)
Definition w_exists_ok : dcase :=
  let dsv : decls := [(11, FlatOf (OAttr (OVar 10) 2)); (10, FlatOf (OAttr (OVar 0) 3))] in
  {| dc_case := {| e_world := [(1, 1, [(0%nat, VI 0); (2%nat, VLI [0; 1]); (3%nat, VLO [2; 1]); (4%nat, VO 2)]);
                               (2, 2, [(0%nat, VI 1); (2%nat, VLI [2; 2]); (3%nat, VLO [1; 2]); (4%nat, VO 2)])]%Z;
                   e_doms := [(0%nat, [VO 1; VO 2])]%Z;
                   e_query := {| q_sels := [OVar 0; OVar 10];
                                 q_cond := Some (mk_and (CCmp OpGe (OAttr (OVar 10) 0) (OAttr (OVar 0) 0))
                                                        (CExists (OVar 11) (CCmp OpGt (OVar 11) (OAttr (OVar 0) 0)))) |} |};
     dc_decls := dsv |}.
Example C01b_exists_nonvacuous :
  in_FDx (mk_world (e_world (dc_case w_exists_ok))) (mk_domains (e_doms (dc_case w_exists_ok))) (dc_decls w_exists_ok) (e_query (dc_case w_exists_ok)) = true /\
  dcase_in_FD w_exists_ok = true /\ dmodel_differs_as_set w_exists_ok = false /\ dspec_rows w_exists_ok <> SL [].
Proof. repeat split; try (vm_compute; reflexivity); vm_compute; discriminate. Qed.

Print Assumptions C01b_spec_exec.
Print Assumptions C01b_conservative_eval.
Print Assumptions C01b_conservative_run.
Print Assumptions C01b_complete.
Print Assumptions C01b_sound.
Print Assumptions C01b_sound_complete.
Print Assumptions C01b_cover_sound.
Print Assumptions C01b_cover_complete.
Print Assumptions C01b_exists_sound_complete.
Print Assumptions C01b_fragment_flag.
Print Assumptions C01b_fragment_flag_exec.
Print Assumptions C01b_refuted_emptyflat.
Print Assumptions C01b_refuted_emptysub.
