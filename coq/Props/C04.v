(* Property C04 -- object -> DAO -> object round trip preserves structure, types and aliasing.
   Only statements, each closed by [exact].  Spec: Orm/Iso.v (rooted heap isomorphism).  Model: Orm/ObjGraphWalk.v
   (the memoised walk of dao.py), Orm/ToDao.v, Orm/FromDao.v, Orm/RoundTrip.v.  Tie: harness/c04.py. *)
From Coq Require Import List ZArith Bool Lia Arith PeanoNat.
From Krrood Require Import Base.Sx Orm.ObjGraph Orm.Iso Orm.ObjGraphWalk Orm.ObjGraphWalkProofs Orm.IsoCanon
  Orm.ToDao Orm.FromDao Orm.RoundTrip.
Import ListNotations.
Local Open Scope nat_scope.

(* for every closed heap (any size, depth, sharing, cycles, None, empty collections, any concrete class in any field)
   without alternatively mapped classes, on fuel |heap|+1 resp. |DAOs|+1 both conversions terminate and
   from_dao (to_dao g) is isomorphic to g *)
Theorem C04_round_trip : forall alts l r, wf_heap l r = true -> F04 alts l = true ->
  exists r' s2, round_trip alts l r = Some (r', s2) /\ iso (dst s2) r' (heap_of l) r.
Proof. exact round_trip_iso. Qed.

(* the invariant of the memoised walk, for both directions, over the whole recursion: from any state satisfying
   Inv (memo values below the counter, memo injective, every allocated address a memo value, memo keys within the
   reference-closed set Q, e.g. the objects reachable from the root, every memo key pinned when the state keeps alive) a call with enough fuel
   returns, the state is extended (old entries and old destination objects untouched; every entry registered during
   the call is done: its object is the image of the source object under the memo), and Inv holds again *)
Theorem C04_memo_invariant : forall P src U (Q : addr -> Prop),
  (forall a, Q a -> exists o, src a = Some o /\ forall t ks k, In (t, ks) (oflds o) -> In k ks -> Q k) ->
  (forall a, Q a -> In a U) ->
  (forall a o, src a = Some o -> p_late P (p_cmap P (ocls o)) = None) ->
  forall fuel a s, Inv P src Q s -> Q a -> length (unmemo U s) < fuel ->
  exists d s', walk P src fuel a s = Some (d, s') /\ ext P src s s' /\ Inv P src Q s' /\ mlook a s' = Some d.
Proof. exact walk_ok. Qed.

(* what the Spec means: an isomorphism is a bijection between the reachable parts *)
Theorem C04_iso_bijection : forall h1 r1 h2 r2, iso h1 r1 h2 r2 ->
  exists R, functional R /\ injective R /\
    (forall a, reach h1 r1 a -> exists b, R a b /\ reach h2 r2 b) /\
    (forall b, reach h2 r2 b -> exists a, R a b /\ reach h1 r1 a).
Proof. exact iso_reach. Qed.

(* the executable comparison used by the harness is sound for the Spec *)
Theorem C04_canon_sound : forall l1 r1 l2 r2, wf_heap l1 r1 = true -> wf_heap l2 r2 = true ->
  canon_l l1 r1 = canon_l l2 r2 -> iso (heap_of l1) r1 (heap_of l2) r2.
Proof. exact canon_eq_iso. Qed.

(* outside the fragment: a cycle entered at an alternatively mapped object (finding C04-a) *)
Theorem C04_refuted_altcycle :
  wf_heap altcycle_heap 0 = true /\
  exists r' s2, round_trip altcycle_alts altcycle_heap 0 = Some (r', s2) /\
    ~ iso (dst s2) r' (heap_of altcycle_heap) 0.
Proof. exact refuted_altcycle. Qed.

(* keep-alive, as an invariant of the walk for both directions (ToDAOState.keep_alive; FromDAOState.keep_alive since repo
   commit 32013a0): with p_keep every key of the memo is pinned by the state, so its address cannot be recycled *)
Theorem C04_keep_alive_invariant : forall P src U (Q : addr -> Prop),
  (forall a, Q a -> exists o, src a = Some o /\ forall t ks k, In (t, ks) (oflds o) -> In k ks -> Q k) ->
  (forall a, Q a -> In a U) ->
  (forall a o, src a = Some o -> p_late P (p_cmap P (ocls o)) = None) ->
  forall fuel a s d s', p_keep P = true -> Inv P src Q s -> Q a -> length (unmemo U s) < fuel ->
  walk P src fuel a s = Some (d, s') -> forall x y, mlook x s' = Some y -> In x (keep s').
Proof. exact keep_memo_keys. Qed.

(* over histories: a FromDAOState reused for a second conversion.  The DAOs of the history are kept alive, hence live in
   one heap with distinct addresses; the second conversion is correct, the first result stays valid, every memoised DAO
   is pinned (finding C04-b / C04-c, fixed by 32013a0) *)
Theorem C04_state_reuse_safe : forall alts l r1 r2,
  wf_heap l r1 = true -> wf_heap l r2 = true -> F04 alts l = true ->
  exists d1 s1 d2 s2,
    from_dao alts (heap_of l) (length l) r1 st0 = Some (d1, s1) /\
    from_dao alts (heap_of l) (length l) r2 s1 = Some (d2, s2) /\
    iso (heap_of l) r1 (dst s2) d1 /\ iso (heap_of l) r2 (dst s2) d2 /\
    (forall x y, mlook x s2 = Some y -> In x (keep s2)).
Proof. exact state_reuse_safe. Qed.

(* the old failing scenario (second DAO at the released address of the first) is no longer a state the runtime can
   present: the first DAO is pinned *)
Theorem C04_state_reuse_scenario_excluded :
  exists r1 s1, from_dao [] reuse_dao1 1 0 st0 = Some (r1, s1) /\ In 0 (keep s1) /\
    ~ admissible_next s1 reuse_dao1 reuse_dao2.
Proof. exact state_reuse_scenario_excluded. Qed.

(* regression example about the code BEFORE 32013a0 (no keep_alive in FromDAOState): nothing is pinned, the recycled
   address is admissible, and the second from_dao returns the first row's object *)
Example C04_regression_state_reuse_old :
  exists r1 s1 r2 s2,
    from_dao_old [] reuse_dao1 1 0 st0 = Some (r1, s1) /\
    keep s1 = [] /\ admissible_next s1 reuse_dao1 reuse_dao2 /\
    from_dao_old [] reuse_dao2 1 0 s1 = Some (r2, s2) /\
    ~ iso (dst s2) r2 reuse_dao2 0.
Proof. exact old_state_reuse_regression. Qed.

(* non-vacuity: a heap with a shared object, a 2-cycle, a self loop, None and an empty collection is in the fragment,
   and the model's round trip has the canonical form of the input *)
Definition c04_example : lheap :=
  [(0, mkObj 1 [7%Z] [(1%Z, [1; 2; 1]); (2%Z, [])]);
   (1, mkObj 2 [] [(3%Z, [2]); (4%Z, [0])]);
   (2, mkObj 3 [1%Z; 2%Z] [(5%Z, [2]); (6%Z, [])])].
Example C04_nonvacuous :
  wf_heap c04_example 0 = true /\ F04 [(10, 11)%Z] c04_example = true /\
  model_canon [(10, 11)%Z] c04_example 0 = spec_canon c04_example 0 /\
  spec_canon c04_example 0 <> SL [SZ (-1)%Z].
Proof. repeat split; try (vm_compute; reflexivity). vm_compute. discriminate. Qed.

Print Assumptions C04_round_trip.
Print Assumptions C04_memo_invariant.
Print Assumptions C04_iso_bijection.
Print Assumptions C04_canon_sound.
Print Assumptions C04_refuted_altcycle.
Print Assumptions C04_keep_alive_invariant.
Print Assumptions C04_state_reuse_safe.
Print Assumptions C04_state_reuse_scenario_excluded.
