(* Property C04 -- object -> DAO -> object round trip preserves structure, types and aliasing.
   Only statements, each closed by [exact].  Spec: Orm/Iso.v (rooted heap isomorphism).  Model: Orm/ObjGraphWalk.v
   (the memoised walk of dao.py), Orm/ToDao.v, Orm/FromDao.v, Orm/RoundTrip.v.  Tie: harness/c04.py. *)
From Coq Require Import List ZArith Bool Lia Arith PeanoNat.
From Krrood Require Import Base.Sx Orm.ObjGraph Orm.Iso Orm.ObjGraphWalk Orm.ObjGraphWalkProofs Orm.IsoCanon
  Orm.ToDao Orm.FromDao Orm.RoundTrip.
Import ListNotations.
Local Open Scope nat_scope.

(* For every user code [enc]/[dec] (create_instance / create_from_dao resp. krrood's own copying of columns) whose composition is
   the identity on the column values of the heap (codec_ok, part of F04w: the hypothesis the property text grants), every class model
   (alternative mappings [alts], DAOs below an alternatively mapped DAO [ab]) and every closed heap (any size, depth,
   sharing, cycles, None, empty and repeated collections, any concrete class in any field, alternatively mapped objects
   anywhere) in F04w -- the class model is coherent on the heap and from_dao never hands out a mapping object that is still
   in progress (no cycle FIRST ENTERED at an alternatively mapped object) -- both conversions terminate on fuel |heap|+1
   resp. |DAOs|+1 and from_dao (to_dao g) is isomorphic to g. *)
Theorem C04_round_trip : forall (enc dec : Z -> list Z -> list Z) alts ab l r,
  wf_heap l r = true -> F04w enc dec alts ab l r = true ->
  exists r' s2, round_trip enc dec alts ab l r = Some (r', s2) /\ bad s2 = false /\ iso (dst s2) r' (heap_of l) r.
Proof. exact round_trip_iso_w. Qed.

(* the fragment of the first version (no object of an alternatively mapped class or of a mapping class at all) lies inside *)
Theorem C04_round_trip_plain : forall (enc dec : Z -> list Z -> list Z) alts ab l r,
  wf_heap l r = true -> F04 alts l = true -> codec_ok enc dec l = true ->
  exists r' s2, round_trip enc dec alts ab l r = Some (r', s2) /\ bad s2 = false /\ iso (dst s2) r' (heap_of l) r.
Proof. exact round_trip_iso. Qed.

(* the invariant of the memoised walk, for both directions, over the whole recursion: from any state satisfying Inv (memo
   values below the counter, memo injective, memo keys within the reference-closed set Q and pinned when the state keeps
   alive, keys in progress are memo keys) a call with enough fuel returns; the state is extended (entries present at call
   time, in-progress set and older destination objects untouched -- the only entry ever overwritten is that of the object
   being finished; unless a mapping object in progress was handed out, every entry registered during the call is done: its
   object is the image of the source object under the memo, through FINAL entries only); Inv holds again; and the returned
   entry is final. *)
Theorem C04_memo_invariant : forall P src U (Q : addr -> Prop),
  (forall a, Q a -> exists o, src a = Some o /\ forall t ks k, In (t, ks) (oflds o) -> In k ks -> Q k) ->
  (forall a, Q a -> In a U) ->
  forall fuel a s, Inv P src Q s -> Q a -> length (unmemo U s) < fuel ->
  exists d s', walk P src fuel a s = Some (d, s') /\ ext P src Q s s' /\ Inv P src Q s' /\
    (bad s' = false -> krelf P src s' a d).
Proof. exact walk_ok. Qed.

(* keep-alive, as an invariant of the walk for both directions (ToDAOState.keep_alive; FromDAOState.keep_alive since repo
   commit 32013a0): with p_keep every key of the memo is pinned by the state, so its address cannot be recycled *)
Theorem C04_keep_alive_invariant : forall P src U (Q : addr -> Prop),
  (forall a, Q a -> exists o, src a = Some o /\ forall t ks k, In (t, ks) (oflds o) -> In k ks -> Q k) ->
  (forall a, Q a -> In a U) ->
  forall fuel a s d s', p_keep P = true -> Inv P src Q s -> Q a -> length (unmemo U s) < fuel ->
  walk P src fuel a s = Some (d, s') -> forall x y, mlook x s' = Some y -> In x (keep s').
Proof. exact keep_memo_keys. Qed.

(* over histories: a FromDAOState reused for a second conversion.  The DAOs of the history are kept alive, hence live in
   one heap with distinct addresses; the second conversion is correct, the first result stays valid, every memoised DAO
   is pinned (finding C04-b / C04-c, fixed by 32013a0) *)
Theorem C04_state_reuse_safe : forall (dec : Z -> list Z -> list Z) alts ab l r1 r2,
  wf_heap l r1 = true -> wf_heap l r2 = true -> F04 alts l = true ->
  (forall a o, heap_of l a = Some o -> dec (ocls o) (oscal o) = oscal o) ->
  exists d1 s1 d2 s2,
    from_dao dec alts ab (heap_of l) (length l) r1 st0 = Some (d1, s1) /\
    from_dao dec alts ab (heap_of l) (length l) r2 s1 = Some (d2, s2) /\
    iso (heap_of l) r1 (dst s2) d1 /\ iso (heap_of l) r2 (dst s2) d2 /\
    (forall x y, mlook x s2 = Some y -> In x (keep s2)).
Proof. exact state_reuse_safe. Qed.

(* the old failing scenario (second DAO at the released address of the first) is no longer a state the runtime can
   present: the first DAO is pinned *)
Theorem C04_state_reuse_scenario_excluded :
  exists r1 s1, from_dao idc [] [] reuse_dao1 1 0 st0 = Some (r1, s1) /\ In 0 (keep s1) /\
    ~ admissible_next s1 reuse_dao1 reuse_dao2.
Proof. exact state_reuse_scenario_excluded. Qed.

(* what the Spec means: an isomorphism is a bijection between the reachable parts *)
Theorem C04_iso_bijection : forall h1 r1 h2 r2, iso h1 r1 h2 r2 ->
  exists R, functional R /\ injective R /\
    (forall a, reach h1 r1 a -> exists b, R a b /\ reach h2 r2 b) /\
    (forall b, reach h2 r2 b -> exists a, R a b /\ reach h1 r1 a).
Proof. exact iso_reach. Qed.

(* the executable comparison used by the harness is sound for the Spec *)
Theorem C04_canon_sound : forall l1 r1 l2 r2, wf_heap l1 r1 = true -> wf_heap l2 r2 = true ->
  canon_l l1 r1 = canon_l l2 r2 -> iso (heap_of l1) r1 (heap_of l2) r2.
Proof. exact canon_eq_iso. Qed.

(* outside the fragment, and the ONLY excluded class: a cycle first entered at an alternatively mapped object (finding C04-a):
   the class model is coherent, the model sets [bad], and the result is not isomorphic *)
Theorem C04_refuted_altcycle :
  wf_heap altcycle_heap 0 = true /\ alts_ok altcycle_alts altcycle_heap = true /\
  exists r' s2, round_trip idc idc altcycle_alts [] altcycle_heap 0 = Some (r', s2) /\ bad s2 = true /\
    ~ iso (dst s2) r' (heap_of altcycle_heap) 0.
Proof. exact refuted_altcycle. Qed.

(* regression example about the code BEFORE 96f6440 (finding C04-d, fixed): for a class two levels below an alternatively mapped
   class whose mapping renames a column, from_dao consulted only the immediate base DAO for an alternative parent and the column came
   back as the constructor default -- krrood's own column handling ([decg] with a non-empty table of lost columns) violated
   codec_ok, and the result was not isomorphic.  With the empty table (the current code) the same heap lies in F04w. *)
Example C04_regression_altgrandchild_old :
  wf_heap altgc_heap 0 = true /\ alts_ok altcycle_alts altgc_heap = true /\ codec_ok idc (decg altgc_gc) altgc_heap = false /\
  exists r' s2, round_trip idc (decg altgc_gc) altcycle_alts [12; 13]%Z altgc_heap 0 = Some (r', s2) /\ bad s2 = false /\
    ~ iso (dst s2) r' (heap_of altgc_heap) 0.
Proof. exact refuted_altgrandchild. Qed.

Example C04_altgrandchild_now_inside :
  F04w idc (decg []) altcycle_alts [12; 13]%Z altgc_heap 0 = true /\
  model_canon altcycle_alts [12; 13]%Z [] altgc_heap 0 = spec_canon altgc_heap 0.
Proof. split; vm_compute; reflexivity. Qed.

(* regression example about the code BEFORE 32013a0 (no keep_alive in FromDAOState): nothing is pinned, the recycled
   address is admissible, and the second from_dao returns the first row's object *)
Example C04_regression_state_reuse_old :
  exists r1 s1 r2 s2,
    from_dao_old idc [] [] reuse_dao1 1 0 st0 = Some (r1, s1) /\
    keep s1 = [] /\ admissible_next s1 reuse_dao1 reuse_dao2 /\
    from_dao_old idc [] [] reuse_dao2 1 0 s1 = Some (r2, s2) /\
    ~ iso (dst s2) r2 reuse_dao2 0.
Proof. exact old_state_reuse_regression. Qed.

(* non-vacuity: an alternatively mapped object (class 10) that is shared and lies on a cycle entered at a plain object, and a DAO
   below an alternatively mapped DAO (class 12): outside the old fragment, inside F04w, model result = canonical form of the input;
   the same cycle entered at the alternatively mapped object is outside *)
Example C04_nonvacuous :
  (let l := [(0, mkObj 20 [5%Z] [(2%Z, [1]); (3%Z, [1])]); (1, mkObj 10 [1%Z] [(1%Z, [0]); (4%Z, [2])]); (2, mkObj 12 [3%Z; 4%Z] [])] in
   wf_heap l 0 = true /\ F04 altcycle_alts l = false /\ F04w idc idc altcycle_alts [12%Z] l 0 = true /\
   model_canon altcycle_alts [12%Z] [] l 0 = spec_canon l 0) /\
  F04w idc idc altcycle_alts [] altcycle_heap 1 = true /\ F04w idc idc altcycle_alts [] altcycle_heap 0 = false.
Proof. split; [exact widened_fragment_example|]. split; vm_compute; reflexivity. Qed.

Print Assumptions C04_round_trip.
Print Assumptions C04_round_trip_plain.
Print Assumptions C04_memo_invariant.
Print Assumptions C04_keep_alive_invariant.
Print Assumptions C04_state_reuse_safe.
Print Assumptions C04_state_reuse_scenario_excluded.
Print Assumptions C04_iso_bijection.
Print Assumptions C04_canon_sound.
Print Assumptions C04_refuted_altcycle.
