(* Property C01 -- EQL answers are exactly the satisfying assignments (sound and complete).
   Statements only; model Eql/Eval.v (hand-written, tied by the correspondence check harness/c01.py),
   Spec Eql/Sat.v.  Unbounded in: nesting of and_/or_/not_, number of variables, attribute chains,
   domain sizes and contents, world contents. *)
From Coq Require Import List ZArith Bool Arith.
From Krrood Require Import Base.Sx Eql.Syntax Eql.Sat Eql.Eval Eql.EvalProofs Eql.RunProofs Eql.Show.
From Krrood Require Import Eql.EvalQInv Eql.EvalQDefs Eql.EvalQProofs Eql.RunQProofs Eql.ShowFrag.
Import ListNotations.
Open Scope nat_scope.

(* the executable Spec the harness compares against computes exactly the answers *)
Theorem C01_spec_exec : forall W D q row, In row (answers_exec W D q) <-> answer W D q row.
Proof. exact answers_exec_correct. Qed.

(* nothing that satisfies the conditions is ever missing: for EVERY quantifier-free query of the modelled vocabulary
   (any nesting of and_/or_/not_, Union under negation included) *)
Theorem C01_complete : forall W D q row, qfree_opt (q_cond q) = true -> answer W D q row -> In row (run W D q).
Proof. exact run_complete. Qed.

(* nothing that violates the conditions is ever returned, and every row is one consistent assignment: for EVERY
   quantifier-free query (any nesting, any selection -- the same variable may be selected several times, since 32abf51),
   provided no variable of the query has an empty domain (finding C01-e) *)
Theorem C01_sound : forall W D q row,
  qfree_opt (q_cond q) = true ->
  (forall x, In x (query_vars q) -> D x <> []) ->
  In row (run W D q) -> answer W D q row.
Proof. exact run_sound_qfree. Qed.

Theorem C01_sound_complete : forall W D q,
  qfree_opt (q_cond q) = true ->
  (forall x, In x (query_vars q) -> D x <> []) ->
  forall row, In row (run W D q) <-> answer W D q row.
Proof. exact run_exact_qfree. Qed.

(* the condition-level invariant behind both: results are a cylinder cover of the assignment space *)
Theorem C01_cover_complete : forall W D c, qfree c = true -> forall b rho,
  extends rho b -> (forall x, In x (cond_vars c) -> In (rho x) (D x)) ->
  exists b', In (b', negb (sat W D rho c)) (eval W D c b) /\ extends rho b'.
Proof. exact eval_complete. Qed.

Theorem C01_cover_sound : forall W D c pol b b',
  qfree c = true -> In (b', negb pol) (eval W D c b) ->
  forall rho, extends rho b' -> sat W D rho c = pol.
Proof. exact eval_sound_qfree. Qed.

(* ---- with exists / for_all ----
   [wfq]: every quantified variable is quantified once and occurs nowhere outside its quantifier;
   [ok TS [] c] / [ok TC [] c]: static side conditions under which true results tell the truth / every satisfying
   assignment is covered: no quantifier where its FALSE outcome is needed (quantifiers never yield one), every for_all
   over a quantifier-free condition whose other variables are certainly bound when it is evaluated (must-bind
   analysis [mb]). *)
Theorem C01_q_sound_complete : forall W D q c,
  q_cond q = Some c -> wfq c = true -> ok TS [] c = true -> ok TC [] c = true ->
  (forall x, In x (flat_map opnd_vars (q_sels q)) -> ~ In x (qvars c)) ->
  (forall x, In x (cond_vars c ++ flat_map opnd_vars (q_sels q)) -> D x <> []) ->
  forall row, In row (run W D q) <-> answer W D q row.
Proof. exact run_exact_q. Qed.

(* the four aspects of the cover, for every condition (quantifiers included), proved together *)
Theorem C01_q_cover : forall W D c, holds_TS W D c /\ holds_FS W D c /\ holds_TC W D c /\ holds_FC W D c.
Proof. exact cover_q. Qed.

(* for quantifier-free conditions the side conditions collapse to the polarity check of C01_sound *)
Theorem C01_q_conservative : forall c, qfree c = true -> forall bnd,
  wfq c = true /\ ok TC bnd c = true /\ ok FC bnd c = true /\
  ok TS bnd c = snd_ok true c /\ ok FS bnd c = snd_ok false c.
Proof. exact qfree_ok. Qed.

(* the decidable flag the correspondence check computes for every generated case is covered by the theorems *)
Theorem C01_fragment_flag : forall c, case_in_F01 c = true ->
  forall row, In row (run (mk_world (e_world c)) (mk_domains (e_doms c)) (e_query c)) <->
              answer (mk_world (e_world c)) (mk_domains (e_doms c)) (e_query c) row.
Proof. exact case_in_F01_exact. Qed.

(* ---- regressions: the witnesses of two repaired defects now lie inside the proved fragment and meet the Spec ---- *)
(* an(set_of([x, y], not_(or_(x.a == 0, y.a == 0)))): before 6dfdafd Union under Not returned rows with x.a == 0 *)
Definition w_notunion : ecase :=
  {| e_world := [(1, 1, [(0%nat, VI 0)]); (2, 2, [(0%nat, VI 1)])]%Z;
     e_doms := [(0%nat, [VO 1; VO 2]); (1%nat, [VO 1; VO 2])]%Z;
     e_query := {| q_sels := [OVar 0; OVar 1];
                   q_cond := Some (mk_not (mk_or (CCmp OpEq (OAttr (OVar 0) 0) (OLit (VI 0)))
                                                 (CCmp OpEq (OAttr (OVar 1) 0) (OLit (VI 0))))) |} |}.
Example C01_fixed_notunion : case_in_F01 w_notunion = true /\ model_differs_as_set w_notunion = false.
Proof. split; vm_compute; reflexivity. Qed.

(* an(set_of([x, x.a])) with x not bound by any condition: before 32abf51 the independent product of the selected
   expressions ([select_product], the previous code) returned the cross product *)
Definition w_selprod : ecase :=
  {| e_world := [(1, 1, [(0%nat, VI 0)]); (2, 2, [(0%nat, VI 1)])]%Z;
     e_doms := [(0%nat, [VO 1; VO 2])]%Z;
     e_query := {| q_sels := [OVar 0; OAttr (OVar 0) 0]; q_cond := None |} |}.
Example C01_fixed_selprod :
  case_in_F01 w_selprod = true /\ model_differs_as_set w_selprod = false /\
  length (select_product (mk_world (e_world w_selprod)) (mk_domains (e_doms w_selprod)) (q_sels (e_query w_selprod)) []) = 4.
Proof. split; [|split]; vm_compute; reflexivity. Qed.

(* ---- outside the fragment the full statement is false of the faithful model: concrete witness ---- *)
(* an(entity(x, or_(x.a == 1, y.a == 1))) with y over an empty domain: x is returned although no assignment of y exists *)
Definition w_emptydom : ecase :=
  {| e_world := [(1, 1, [(0%nat, VI 1)])]%Z;
     e_doms := [(0%nat, [VO 1]); (1%nat, [])]%Z;
     e_query := {| q_sels := [OVar 0];
                   q_cond := Some (mk_or (CCmp OpEq (OAttr (OVar 0) 0) (OLit (VI 1)))
                                         (CCmp OpEq (OAttr (OVar 1) 0) (OLit (VI 1)))) |} |}.
Theorem C01_refuted_emptydom : model_differs_as_set w_emptydom = true.
Proof. vm_compute; reflexivity. Qed.

(* non-vacuity: a query with nested or_/not_ over two variables that meets every hypothesis and has answers *)
Definition w_ok : ecase :=
  {| e_world := [(1, 1, [(0%nat, VI 0); (1%nat, VI 2)]); (2, 2, [(0%nat, VI 1); (1%nat, VI 0)])]%Z;
     e_doms := [(0%nat, [VO 1; VO 2]); (1%nat, [VO 1; VO 2])]%Z;
     e_query := {| q_sels := [OVar 0; OAttr (OVar 1) 1];
                   q_cond := Some (mk_and (mk_or (CCmp OpLt (OAttr (OVar 0) 0) (OAttr (OVar 1) 0))
                                                 (mk_not (CCmp OpEq (OVar 0) (OVar 1))))
                                          (mk_or (CCmp OpEq (OAttr (OVar 0) 0) (OLit (VI 0)))
                                                 (CCmp OpGe (OAttr (OVar 1) 1) (OLit (VI 1))))) |} |}.
Example C01_nonvacuous :
  qfree_opt (q_cond (e_query w_ok)) = true /\
  model_differs_as_set w_ok = false /\
  spec_rows w_ok <> SL [].
Proof.
  split; [vm_compute; reflexivity|]. split; [vm_compute; reflexivity|]. vm_compute. discriminate.
Qed.

(* non-vacuity with quantifiers: x such that some y is larger, and no z is smaller than x.b (for_all closed by x.a >= 0) *)
Definition w_quant : ecase :=
  {| e_world := [(1, 1, [(0%nat, VI 0); (1%nat, VI 0)]); (2, 2, [(0%nat, VI 1); (1%nat, VI 0)]); (3, 3, [(0%nat, VI 2); (1%nat, VI 1)])]%Z;
     e_doms := [(0%nat, [VO 1; VO 2; VO 3]); (1%nat, [VO 1; VO 2; VO 3]); (2%nat, [VO 1; VO 2; VO 3])]%Z;
     e_query := {| q_sels := [OVar 0];
                   q_cond := Some (mk_and (mk_and (CCmp OpGe (OAttr (OVar 0) 0) (OLit (VI 0)))
                                                  (CExists (OVar 1) (CCmp OpGt (OAttr (OVar 1) 0) (OAttr (OVar 0) 0))))
                                          (CForAll 2 (CCmp OpGe (OAttr (OVar 2) 0) (OAttr (OVar 0) 1)))) |} |}.
Example C01_q_nonvacuous :
  case_in_F01 w_quant = true /\ model_differs_as_set w_quant = false /\ spec_rows w_quant <> SL [].
Proof. split; [vm_compute; reflexivity|]. split; [vm_compute; reflexivity|]. vm_compute. discriminate. Qed.

Print Assumptions C01_spec_exec.
Print Assumptions C01_complete.
Print Assumptions C01_sound.
Print Assumptions C01_sound_complete.
Print Assumptions C01_cover_complete.
Print Assumptions C01_cover_sound.
Print Assumptions C01_q_sound_complete.
Print Assumptions C01_q_cover.
Print Assumptions C01_q_conservative.
Print Assumptions C01_fragment_flag.
Print Assumptions C01_refuted_emptydom.
