(* Property C06 -- ORMatic produces a valid, complete SQLAlchemy layer for every supported model.
   Only statements, each closed by [exact].  Model: Orm/Schema.v over Gen/ParseField.v (regenerated from
   wrapped_table.py / ormatic.py / wrapped_field.py on every run); Spec: Orm/SchemaSpec.v.
   [wfM] = the documented grammar; [topo M order] = the emission order lists every class once, parents first;
   F = [F_attrnames], [F_inherited], [F_classnames] (complement of the defect classes, see _refuted). *)
From Coq Require Import List String Ascii Bool ZArith Permutation.
From Krrood Require Import Base.Sx Orm.SchemaStr Orm.SchemaSpec Gen.ParseField Orm.Schema Orm.SchemaProofs Orm.SchemaWf.
Import ListNotations.
Open Scope string_scope.
Open Scope list_scope.

(* one DAO per class: the tables are exactly the images of the classes, in emission order, none twice *)
Theorem C06_one_dao_per_class : forall M order, topo M order ->
  s_tables (gen M order) = map (table_of M) order
  /\ map t_cls (s_tables (gen M order)) = map c_name order
  /\ NoDup (map t_cls (s_tables (gen M order)))
  /\ (forall c, In c M -> In (table_of M c) (s_tables (gen M order)))
  /\ (forall t, In t (s_tables (gen M order)) -> exists c, In c M /\ t = table_of M c).
Proof. exact one_dao_per_class. Qed.

(* the DAO of a class derives from the DAO of its parent class (or from Base), and its key references the parent's key *)
Theorem C06_mirrors_inheritance : forall M c,
  t_name (table_of M c) = dao_of (c_name c) /\ t_cls (table_of M c) = c_name c /\ t_module (table_of M c) = c_module c
  /\ t_base (table_of M c) = option_map (fun p => dao_of (c_name p)) (parent_of M c)
  /\ t_pk_target (table_of M c) = match parent_of M c with Some p => pk_of (dao_of (c_name p)) | None => "" end.
Proof. exact mirrors_inheritance. Qed.

(* derived DAO classes are emitted after the class they derive from *)
Theorem C06_bases_emitted_first : forall M order, topo M order -> wf_bases_first [] (s_tables (gen M order)) = true.
Proof. exact bases_first. Qed.

(* inherited-field elimination: the fields a table is built from are exactly the public fields the class declares
   itself (not declared by any ancestor) *)
Theorem C06_own_fields : forall M c, wfM M = true -> In c M -> parsed_fields M c = own_public_fields M c.
Proof. exact parsed_fields_own. Qed.

(* field coverage, stated against the ANNOTATION ([field_ok] / [kind_of] in the Spec): the columns, foreign keys,
   relationships and association tables of a table are the concatenation, over its own public fields in declaration
   order, of exactly what each annotation calls for; nothing comes from "_"-fields or inherited fields *)
Theorem C06_field_coverage : forall M c, wfM M = true -> In c M ->
  exists its,
    Forall2 (field_ok dao_of pk_of M c) (own_public_fields M c) its
    /\ t_builtin (table_of M c) = flat_map i_builtin its
    /\ (exists disc, t_custom (table_of M c) = flat_map i_custom its ++ disc /\ (disc = [] \/ disc = [disc_column]))
    /\ t_fks (table_of M c) = flat_map i_fks its
    /\ t_rels (table_of M c) = flat_map i_rels its
    /\ table_items M c = its.
Proof. exact field_coverage. Qed.

Theorem C06_no_generation_error : forall M order, wfM M = true -> (forall c, In c order -> In c M) ->
  s_error (gen M order) = false.
Proof. exact gen_no_error. Qed.

(* static well-formedness *)
(* two distinct association columns for every collection, also for a collection of the own class (c757abc) *)
Theorem C06_wf_assoc_columns : forall M order, wfM M = true -> (forall c, In c order -> In c M) ->
  wf_assoc_columns (gen M order) = true.
Proof. exact assoc_columns_distinct. Qed.

Theorem C06_wf_polymorphic : forall M order, wfM M = true -> (forall c, In c order -> In c M) ->
  wf_polymorphic (gen M order) = true.
Proof. exact polymorphic_ok. Qed.

Theorem C06_wf_imports : forall M order, wfM M = true -> topo M order ->
  wf_imports (gen M order) = true.
Proof. exact imports_closed. Qed.

(* every foreign key, relationship target, secondary table, inheritance key and association column refers to something emitted *)
Theorem C06_wf_fk_targets : forall M order, wfM M = true -> topo M order -> wf_fk_targets (gen M order) = true.
Proof. exact fk_targets_exist. Qed.

(* determinism: generation is a function of the class model and the emission order -- two generations from the same
   input give the same schema, whatever was generated before (no hidden state); the implementation is compared with this
   by generating repeatedly inside one interpreter (harness/c06.py, judge_repeat) *)
Theorem C06_generation_is_a_function : forall M order s1 s2, s1 = gen M order -> s2 = gen M order -> s1 = s2.
Proof. exact generation_is_a_function. Qed.

(* ... and the set of tables does not depend on the emission order *)
Theorem C06_tables_order_independent : forall M o1 o2, Permutation o1 o2 ->
  Permutation (s_tables (gen M o1)) (s_tables (gen M o2)).
Proof. exact tables_order_independent. Qed.

(* the open defect class C06-g: class names equal up to case *)
Theorem C06_refuted_casefold : exists M order, wfM M = true /\ topo M order /\ wf_table_names_unique (gen M order) = false.
Proof. exact refuted_casefold. Qed.

(* regression examples for the repaired findings.  C06-a (c757abc): a collection of the own class is well-formed *)
Example C06_fixed_selfcoll : wfM M_selfcoll = true /\ inF M_selfcoll = true /\ wf_assoc_columns (gen M_selfcoll M_selfcoll) = true
  /\ schema_wf (gen M_selfcoll M_selfcoll) = true /\ model_obs (gen M_selfcoll M_selfcoll) = spec_obs M_selfcoll.
Proof. exact fixed_selfcoll. Qed.
(* C06-c, d, e, f, h (bd9b8e0): models whose generated names clash are refused with an error, which is what the Spec
   ([spec_obs_r] / [spec_refused]) asks for these shapes *)
Example C06_refused_fkalias : refused_as_specified M_fkalias. Proof. exact refused_fkalias. Qed.
Example C06_refused_reserved : refused_as_specified M_reserved. Proof. exact refused_reserved. Qed.
Example C06_refused_pkname : refused_as_specified M_pkname. Proof. exact refused_pkname. Qed.
Example C06_refused_discname : refused_as_specified M_discname. Proof. exact refused_discname. Qed.
Example C06_refused_assocname : refused_as_specified M_assocname. Proof. exact refused_assocname. Qed.
(* C06-n (5e556b1): the clash with a column of an ancestor's table is refused as well *)
Example C06_refused_inhfkalias : refused_as_specified M_inhfkalias. Proof. exact refused_inhfkalias. Qed.
(* C06-p (84214c3): ... and so is the clash with a relationship of an ancestor *)
Example C06_refused_inhrelalias : refused_as_specified M_inhrelalias. Proof. exact refused_inhrelalias. Qed.

(* C06-b was repaired in /repo (b804898): the former counter-model is now well-formed and read back as the Spec says *)
Example C06_fixed_nobuiltin : wfM M_nobuiltin = true /\ inF M_nobuiltin = true /\ wf_imports (gen M_nobuiltin M_nobuiltin) = true
  /\ schema_wf (gen M_nobuiltin M_nobuiltin) = true /\ model_obs (gen M_nobuiltin M_nobuiltin) = spec_obs M_nobuiltin.
Proof. exact fixed_nobuiltin. Qed.

(* emission order (C06-i repaired by 280300b): whatever order the classes are handed over in, a topological order of
   ORMatic's inheritance graph (direct mapped base + first mapped class of the MRO) lists every class once and is
   parents-first along parent_table; hence every derived DAO is emitted after the DAO it derives from *)
Theorem C06_impl_order_is_topo : forall M order, impl_order M order -> topo M order.
Proof. exact impl_order_topo. Qed.
Theorem C06_emission_parents_first : forall M order, impl_order M order ->
  wf_bases_first [] (s_tables (gen M order)) = true.
Proof. exact emission_parents_first. Qed.

(* regression example for C06-i: the formerly admissible order that emits DogDAO before AnimalDAO is excluded now *)
Example C06_fixed_unmappedorder : wfM M_unmapped = true /\ inF M_unmapped = true
  /\ direct_parents_first M_unmapped [] (rev M_unmapped) = true
  /\ wf_bases_first [] (s_tables (gen M_unmapped (rev M_unmapped))) = false
  /\ graph_parents_first M_unmapped [] (rev M_unmapped) = false
  /\ graph_parents_first M_unmapped [] M_unmapped = true.
Proof. exact fixed_unmappedorder. Qed.

(* non-vacuity: a model with inheritance, a redeclared inherited field, references, collections and a private field is in
   the grammar and in F; its schema is statically well-formed and is read back exactly as the Spec says *)
Example C06_nonvacuous : wfM M_example = true /\ inF M_example = true /\ topo M_example M_example
  /\ schema_wf (gen M_example M_example) = true /\ model_obs (gen M_example M_example) = spec_obs M_example.
Proof. exact example_ok. Qed.

Print Assumptions C06_one_dao_per_class.
Print Assumptions C06_mirrors_inheritance.
Print Assumptions C06_bases_emitted_first.
Print Assumptions C06_own_fields.
Print Assumptions C06_field_coverage.
Print Assumptions C06_no_generation_error.
Print Assumptions C06_wf_assoc_columns.
Print Assumptions C06_wf_polymorphic.
Print Assumptions C06_wf_imports.
Print Assumptions C06_wf_fk_targets.
Print Assumptions C06_generation_is_a_function.
Print Assumptions C06_tables_order_independent.
Print Assumptions C06_refuted_casefold.
Print Assumptions C06_impl_order_is_topo.
Print Assumptions C06_emission_parents_first.
