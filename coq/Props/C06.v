From Coq Require Import List String Ascii Bool ZArith.
From Krrood Require Import Base.Sx Orm.SchemaStr Orm.SchemaSpec Gen.ParseField Orm.Schema Orm.SchemaProofs.
Import ListNotations.
Open Scope string_scope.

Theorem C06_one_dao_per_class : forall M order, map t_cls (s_tables (gen M order)) = map c_name order.
Proof. exact one_dao_per_class. Qed.

Print Assumptions C06_one_dao_per_class.
