(* Property C14 -- asserting a relation has the same effect whatever objects lived and died before.
   Only statements, each closed by [exact].  Model: Onto/Registry.v, Spec: the ideal machine of Onto/RegistrySpec.v. *)
From Coq Require Import List Arith Bool PeanoNat Permutation.
From Krrood Require Import Onto.RegistrySpec Onto.Registry Onto.RegistryInv Onto.RegistryProofs Onto.RegistryQuery
  Onto.RegistryRel Onto.RegistryWitness Onto.RegistryGen Onto.RegistryRefine.
Import ListNotations.

(* in ANY state satisfying the registry invariant (hence after any admissible history, C13_RegInv): asserting
   (a, f, b) reports "new" -- and so runs the inferences -- iff it is not among the relations between existing
   instances, and afterwards those relations are the old ones plus (a, f, b).  Dead instances, swept or not, and
   recycled node indices / addresses play no role. *)
Theorem C14_assert : forall L r a f b ia ib,
  RegInv L r -> WorldOk L ->
  adm_ensure L r a ia && adm_ensure L (fst (ensure L r a ia)) b ib = true ->
  exists r', relate L r a f b ia ib = (r', Some (negb (existsb (rel_eqb (a, f, b)) (abs_rels L r)))) /\
             forall x, In x (abs_rels L r') <-> x = (a, f, b) \/ In x (abs_rels L r).
Proof. exact relate_assert. Qed.

Theorem C14_reachable : forall children fuel h,
  adm_run children fuel init h = true ->
  RegInv (live (fst (run children fuel init h))) (g (fst (run children fuel init h))) /\
  WorldOk (live (fst (run children fuel init h))).
Proof. exact reach_RegInv. Qed.

(* history independence: over every admissible history (creation, dropping, sweeping, registry queries, declarations and
   complete evaluations, assertions, graph re-creation; any index / address reuse) the model answers every assertion like the ideal machine, whose state
   is only (existing instances, their relations), and stays in step with it *)
Theorem C14_history_independent : forall children fuel h s a,
  Inv s -> adm_run children fuel s h = true -> no_live h = true -> Sim s a ->
  Sim (fst (run children fuel s h)) (fst (spec_run children fuel a h)) /\
  Forall2 out_rel (snd (run children fuel s h)) (snd (spec_run children fuel a h)).
Proof. exact run_Sim. Qed.

(* the same with the query results included (fragment: no graph re-creation) *)
Theorem C14_model_is_spec_on_F : forall children fuel h,
  adm_run children fuel init h = true -> in_F h = true -> acyclic children fuel ->
  Forall2 out_eq (snd (run children fuel init h)) (snd (spec_run children fuel a_init h)).
Proof. exact model_refines_spec. Qed.

Theorem C14_from_fresh : Inv init /\ Sim init a_init.
Proof. exact (conj (Inv_init wch wfuel) (Sim_init wch wfuel)). Qed.

(* tie to the source: the definitions regenerated from symbol_graph.py / utils.py / predicate.py / entity.py /
   hashed_data.py / symbolic.py / singleton.py on this run (Gen/Registry.v) are the model these theorems are about *)
Theorem C14_model_is_source : GenIsModel.
Proof. exact gen_is_model. Qed.

Example C14_nonvacuous :
  let h := [New 0 0 0; New 0 1 1; Relate 0 0 1 0 1; Drop 0; Drop 1; Sweep; New 0 1 1; New 0 0 0] in
  adm_run wch wfuel init h = true /\
  snd (step wch wfuel (fst (run wch wfuel init h)) (Relate 3 0 2 0 1)) = OBool true /\
  sizes (g (fst (run wch wfuel init h))) = [2; 2; 2; 0; 0].
Proof. exact reuse_relation_new. Qed.

Print Assumptions C14_assert.
Print Assumptions C14_reachable.
Print Assumptions C14_history_independent.
Print Assumptions C14_from_fresh.
Print Assumptions C14_model_is_source.
Print Assumptions C14_model_is_spec_on_F.
