(* Property C15 -- property-descriptor inference reaches the full closure in any assertion order.
   Statements only; Spec = Onto/ClosureSpec.v, model = Onto/Closure.v, proofs = Onto/ClosureProofs.v.
   The schema [Sc] (super-property fields, inverse fields, transitive descriptor classes, role takers) is arbitrary data:
   the theorems hold for every schema, every population and every history, of any size. *)
From Coq Require Import List Bool Arith.
From Krrood Require Import Base.Sx Onto.ClosureSpec Onto.Closure Onto.ClosureProofs Onto.ClosureFields.
Import ListNotations.

(* add_to_graph only ever adds derivable relations *)
Theorem C15_add_rel_sound : forall Sc A n e E E', add_rel Sc n e E = Some E' ->
  (forall x, In x E -> closure Sc A x) -> closure Sc A e -> forall x, In x E' -> closure Sc A x.
Proof. exact add_rel_sound. Qed.

(* add_to_graph on a closed graph yields a closed graph that contains the old one and the new relation *)
Theorem C15_add_rel_closed : forall Sc n e E E', add_rel Sc n e E = Some E' -> closed Sc E ->
  closed Sc E' /\ incl E E' /\ In e E'.
Proof. exact add_rel_closed. Qed.

(* for every history of assertions, in any order and with any repetitions, the graph holds exactly the facts derivable
   from the asserted ones (out-of-fuel excluded in the statement; see C15_fuel) *)
Theorem C15_closure : forall Sc n A E, run Sc n A = Some E -> forall e, In e E <-> closure Sc A e.
Proof. exact run_is_closure. Qed.

(* ... hence two histories asserting the same set of facts end in the same set of relations *)
Theorem C15_order_independent : forall Sc n m A B E E',
  (forall e, In e A <-> In e B) -> run Sc n A = Some E -> run Sc m B = Some E' -> forall e, In e E <-> In e E'.
Proof. exact run_order_independent. Qed.

(* fuel: any closed universe containing the assertions bounds the nesting depth *)
Theorem C15_fuel : forall Sc U, closed Sc U -> forall n A, incl A U -> length U < n -> exists E, run Sc n A = Some E.
Proof. exact run_fuel. Qed.

(* what the harness evaluates as the Spec is the relational closure *)
Theorem C15_spec_link : forall Sc A n, closedb Sc (closure_fuel Sc n A) = true ->
  forall e, In e (closure_fuel Sc n A) <-> closure Sc A e.
Proof. exact closure_fuel_correct. Qed.

(* the field store follows the graph: the graph component of the model with fields is the model without.
   [cls o] is the ==-class of object o (Python ==/hash); the symbol graph and the write-back into list and single-valued fields go by
   identity, a Python set by == *)
Theorem C15_fields_graph : forall Sc sc li cls n A s, runV Sc sc li cls n A = Some s -> run Sc n A = Some (fst s).
Proof. exact runV_graph. Qed.

(* list fields hold exactly the relations of the graph, object by object, whatever compares equal *)
Theorem C15_list_fields_agree : forall Sc sc li cls n A E V, runV Sc sc li cls n A = Some (E, V) ->
  forall e, sc (efld e) = false -> li (efld e) = true -> (In e V <-> In e E).
Proof. exact runV_list_fields. Qed.

(* set fields: what the field holds is in the graph, and for every relation of the graph the field holds an element ==-equal to its
   target (a Python set cannot hold two equal objects) *)
Theorem C15_set_fields_agree : forall Sc sc li cls n A E V, runV Sc sc li cls n A = Some (E, V) ->
  forall e, sc (efld e) = false -> li (efld e) = false ->
    (In e V -> In e E) /\
    (In e E -> exists v, In v V /\ esrc v = esrc e /\ efld v = efld e /\ cls (etgt v) = cls (etgt e)).
Proof. exact runV_set_fields. Qed.

(* hence, when no two distinct objects compare equal, every container field holds exactly the relations of the graph *)
Theorem C15_fields_agree : forall Sc sc li cls n A E V, (forall a b, cls a = cls b -> a = b) ->
  runV Sc sc li cls n A = Some (E, V) -> forall e, sc (efld e) = false -> (In e V <-> In e E).
Proof. exact runV_fields. Qed.

(* non-vacuity: sub-organisation chain asserted leaf-to-root and root-to-leaf (transitive field 0 of descriptor 0) *)
Example C15_nonvacuous :
  let Sc := mk_schema [] [] [] [] [] [(0, 0)] [0] in
  (exists E, run Sc 20 [(0, 0, 1); (1, 0, 2); (2, 0, 3)] = Some E /\ length E = 6) /\
  (exists E, run Sc 20 [(2, 0, 3); (1, 0, 2); (0, 0, 1)] = Some E /\ length E = 6).
Proof. split; eexists; split; vm_compute; reflexivity. Qed.

Print Assumptions C15_add_rel_sound.
Print Assumptions C15_add_rel_closed.
Print Assumptions C15_closure.
Print Assumptions C15_order_independent.
Print Assumptions C15_fuel.
Print Assumptions C15_spec_link.
Print Assumptions C15_fields_graph.
Print Assumptions C15_list_fields_agree.
Print Assumptions C15_set_fields_agree.
Print Assumptions C15_fields_agree.
