(* Property C08 -- rule trees follow except-if / else-if / also-if semantics.
   Only statements, each closed by [exact].  Spec: Eql/RuleSpec.v (rdr).  Model: Eql/RuleBuild.v (construction) +
   Eql/RuleEval.v (selector evaluation); fragment predicates: Eql/RulePure.v. *)
From Coq Require Import List ZArith Bool Arith Permutation.
From Krrood Require Import Eql.RuleSpec Eql.RuleEval Eql.RuleBuild Eql.RulePure Eql.RuleProofs.
Import ListNotations.

(* outside the fragment: one witness per defect class (model = faithful restatement of the code) *)
Theorem C08_refuted_alt3 :
  agrees w_alt3 W8 = false /\ In (2, 2) (rdr w_alt3 W8) /\ ~ In (2, 2) (model_tags w_alt3 W8).
Proof. exact refuted_alt3. Qed.
Theorem C08_refuted_ref_nested :
  (agrees w_refref W8 = false /\ In (2, 3) (rdr w_refref W8) /\ ~ In (2, 3) (model_tags w_refref W8)) /\
  (agrees w_altref W8 = false /\ In (2, 3) (rdr w_altref W8) /\ ~ In (2, 3) (model_tags w_altref W8)).
Proof. exact refuted_ref_nested. Qed.
Theorem C08_refuted_ref_second :
  (agrees w_ref2 W8 = false /\ In (2, 2) (rdr w_ref2 W8) /\ ~ In (2, 2) (model_tags w_ref2 W8)) /\
  (agrees w_alt_ref W8 = false /\ In (1, 1) (rdr w_alt_ref W8) /\ ~ In (1, 1) (model_tags w_alt_ref W8)).
Proof. exact refuted_ref_second. Qed.
Theorem C08_refuted_next :
  (Gb w_next = true /\ agrees w_next W8 = false /\ In (1, 1) (rdr w_next W8) /\ ~ In (1, 1) (model_tags w_next W8)) /\
  (Gb w_alt_next = true /\ agrees w_alt_next W8 = false /\ In (2, 1) (rdr w_alt_next W8) /\ ~ In (2, 1) (model_tags w_alt_next W8)).
Proof. exact refuted_next. Qed.

Print Assumptions C08_refuted_alt3.
Print Assumptions C08_refuted_ref_nested.
Print Assumptions C08_refuted_ref_second.
Print Assumptions C08_refuted_next.
