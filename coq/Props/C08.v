(* Property C08 -- rule trees follow except-if / else-if / also-if semantics.
   Only statements, each closed by [exact].
   Spec : Eql/RuleSpec.v  ([rdr]: ripple-down-rules interpreter on the written program, per element of the domain).
   Model: Eql/RuleBuild.v ([build]/[reify]: the heap surgery of refinement/alternative/next_rule while the with-blocks
          are written) + Eql/RuleEval.v ([run]: ExceptIf/Alternative/Next selection, concluded_before, descriptor).
   Construction: proved for EVERY program ([C08_build_all]: the heap surgery yields the written tree, every node once).
   Evaluation: proved for every program without next_rule ([C08_rules]), and for programs whose only next_rule is the
   last top-level branch, possibly with refinements of its own, with conclusions of its own ([C08_rules_next],
   [C08_rules_next2], up to permutation).  Other programs with next_rule are compared with the faithful model and the Spec; the class
   [later_ref_next] (reading not settled by the property text) with the model only.  All former defects (C08-a..h) are
   regression theorems.
   next_rule ANYWHERE ([C08_rules_next_all]): every program outside the unsettled class [later_ref_next], as a SET of
   instances; evaluation of EVERY tree ([C08_ruleeval_all], [C08_ruleeval2_all]): rows of Next / the join as sequences.
   Two variables (Eql/RuleSpec2.v [rdr2], Eql/RuleEval2.v [run2]): [C08_rules2] -- next_rule-free programs over a
   connection c and a body b joined by one refinement `b == c.parent`, conclusions over c, b or both; the inferred
   instances agree with the Spec as a SET (bodies shared by several connections are inferred once). *)
From Coq Require Import List ZArith Bool Arith Permutation.
From Krrood Require Import Eql.RuleSpec Eql.RuleEval Eql.RuleBuild Eql.RulePure Eql.RuleEvalProofs Eql.RuleSpecProofs Eql.RuleProofs
  Eql.RuleNextProofs Eql.RuleNextSpecProofs Eql.RuleBuildProofs Eql.RuleBuildAll Eql.RuleNextTreeProofs
  Eql.RuleNextTreeSpecProofs Eql.RuleSpec2 Eql.RuleEval2 Eql.RuleEval2Proofs Eql.RuleEval2RootProofs Eql.RuleEval2SpecProofs
  Eql.RuleEval2MultiProofs Eql.RuleEval2MultiRootProofs Eql.RuleMultiProofs Eql.RuleMultiRootProofs Eql.RuleMultiPure
  Eql.RuleMultiSpecProofs.
Import ListNotations.

(* construction, for EVERY rule program of the grammar (any nesting, any number of siblings, any conditions and
   conclusions): executing the with-blocks on the node heap (re-parenting statements of refinement / alternative_or_next /
   `_parent_` setter / Conclusion.__post_init__ / __enter__ with the cached conditions root) yields a heap from which the
   evaluator reads exactly the written tree, every node once *)
Theorem C08_build_all : forall prog,
  exists h t, build prog = Some h /\ reify h = Some t /\ erase t = tree_of prog /\ NoDup (ids t).
Proof. exact build_written. Qed.

(* the central theorem: for EVERY program without next_rule (no premise about the construction), any conditions, any
   conclusions, and every domain contents, the run of the built query returns exactly the Spec's instances: one
   (tag, element) per firing, in element order *)
Theorem C08_rules : forall prog, has_next prog = false -> forall W,
  exists rows, model prog W = Some rows /\ singles rows = Some (rdr prog W).
Proof. exact rules_ok_all. Qed.

(* the same for programs WITH a next_rule, in the extended fragment [Fb_next]: the program is built as written, its
   last top-level branch is a next_rule without refinements, there is no other next_rule, and the next_rule's conclusion is
   not the conclusion of another rule.  The statement is up to PERMUTATION: the second pass of Next (Union) emits the
   additional instances after all first-pass instances, the Spec lists them element by element. *)
Theorem C08_rules_next : forall prog, Fb_next prog = true -> forall W,
  exists rows xs, model prog W = Some rows /\ singles rows = Some xs /\ Permutation xs (rdr prog W).
Proof. exact rules_next_ok. Qed.

(* wider: the last top-level branch is a next_rule that may carry refinements of its own (no alternative / next_rule in
   its block), no other next_rule, conclusions of the next_rule's branch distinct from the others'; up to permutation *)
Theorem C08_rules_next2 : forall prog, Fb_next2 prog = true -> forall W,
  exists rows xs, model prog W = Some rows /\ singles rows = Some xs /\ Permutation xs (rdr prog W).
Proof. exact rules_next2_ok. Qed.

(* next_rule ANYWHERE: nested in a branch or in a refinement's block, not last, several of them, with alternatives /
   next_rules / refinements in its own block.  For EVERY one-variable program outside the class [later_ref_next] (a
   next_rule in the level of a refinement that is not the first refinement of its rule: reading not settled by the
   property text, see [C08_unsettled_reading]), any conditions, conclusions and domain: the instances inferred by the
   run of the built query are, as a SET, the Spec's.  (A set, because the root selector infers an instance once when
   two branches conclude the same for one element; the ordered / counted statements are [C08_rules],
   [C08_rules_next], [C08_rules_next2].) *)
Theorem C08_rules_next_all : forall prog, later_ref_next prog = false -> forall W,
  exists rows, model prog W = Some rows /\ forall x, In x (insts1 rows) <-> In x (rdr prog W).
Proof. exact rules_next_all. Qed.

(* evaluation of EVERY tree with pairwise distinct nodes (any nesting of ExceptIf / ElseIf / Next, Next evaluated with x
   bound yielding up to two rows per row of its operands): the instances of the run are those of the true rows of the
   pure multi-row reading [pes1] over the whole domain *)
Theorem C08_ruleeval_all : forall W t, NoDup (ids t) ->
  forall x, In x (insts1 (run W t)) <-> In x (insts1 (trows1 (pes1 W t None))).
Proof. exact run_all. Qed.

(* ... the rows of one element summarised: [fires] / [Tg] (ExceptIf: the exception's conclusions if it fires, else the
   base's; ElseIf: the first operand that fires; Next: both) ... *)
Theorem C08_rows_summary : forall W t ie,
  pes1 W t (Some ie) <> [] /\
  (forall y, In y (pes1 W t (Some ie)) -> snd y = ie /\ fst (fst y) = negb (fires t (snd ie))) /\
  (forall tg, In tg (Tg t (snd ie)) <->
              exists y, In y (pes1 W t (Some ie)) /\ RuleMultiProofs.rtrue y = true /\ In tg (snd (fst y))).
Proof. exact summ_all. Qed.

(* ... and that summary of the written tree is the Spec's interpreter, per element, as a set of conclusions *)
Theorem C08_tree_is_rdr_next : forall prog e, later_ref_next prog = false ->
  forall tg, In tg (rdr1 prog e) <-> In tg (Tg (tree_of prog) e).
Proof. exact tree_is_rdr_next. Qed.

(* the same evaluation theorem for the two-variable evaluator: EVERY tree (the join anywhere, Next anywhere) *)
Theorem C08_ruleeval2_all : forall selof Cs Bs t, NoDup (ids t) ->
  forall x, In x (insts selof (run2 selof Cs Bs t)) <-> In x (insts selof (trows (pes2 Cs Bs t None))).
Proof. exact run2_all. Qed.

(* TWO variables: c ranges over connections (k, parent), b over bodies (a).  Fragment [F2b]: no next_rule; one refinement J
   starts with the join `b == c.parent` and carries only refinements in its own block; outside J conditions read c and
   conclusions name c; at and below J conditions read c.k and b.a freely, conclusions name c, b or both (refinement in
   refinement, alternatives below, shared bodies, any domain contents with parents in range).  The run of the built
   query -- join leaf yielding one row per body, ExceptIf/ElseIf over those rows, coverage of the root selector keyed by
   the bindings of the variables the selected conclusions name -- infers exactly the SET of instances of the Spec
   (ripple-down-rules over the elements (c.k, c.parent.a), an instance naming c, b or both as its conclusion says). *)
Theorem C08_rules2 : forall selof Cs Bs prog, F2b selof prog = true -> inrangeb Cs Bs = true ->
  exists rows, model2 selof prog Cs Bs = Some rows /\
               forall x, In x (insts selof rows) <-> In x (rdr2 selof prog Cs Bs).
Proof. exact rules2_ok. Qed.

(* evaluation on two-variable trees: every tree of the shape class [okb] (the join below a chain of ExceptIf-left inside a
   right operand; no Next), distinct nodes, parents in range: the instances of the run are those of the pure reading *)
Theorem C08_ruleeval2_ok : forall selof Cs Bs t, okb t = true -> nextfree t = true -> NoDup (ids t) -> inrange Cs Bs ->
  forall x, In x (insts selof (run2 selof Cs Bs t))
            <-> In x (insts selof (flat_map (fun ic => rows2 Bs t (cbind ic)) (enum Cs))).
Proof. exact run2_okb. Qed.

(* evaluation of Next(l, r) at the root, for all Next-free l and r with distinct nodes and every domain: first-pass rows
   (l's conclusion, else r's) followed by second-pass rows (r's conclusion where it is not covered yet) *)
Theorem C08_ruleeval_root_next : forall W id l r,
  nextfree l = true -> nextfree r = true -> NoDup (ids (Node id SNext l r)) ->
  run W (Node id SNext l r) = flat_map (g1 l r) (enum W) ++ flat_map (g2 l r) (enum W).
Proof. exact run_root_next_tree. Qed.

(* evaluation: on EVERY tree without Next whose nodes are pairwise distinct, and every domain, the generator
   semantics with concluded_before / stale flags / dynamic conclusion sets computes the pure per-element reading *)
Theorem C08_ruleeval_ok : forall W t, nextfree t = true -> NoDup (ids t) ->
  run W t = flat_map (rows1 t) (enum W).
Proof. exact run_nextfree. Qed.

(* ... and the pure reading of the written tree is the Spec *)
Theorem C08_tree_is_rdr : forall prog e, has_next prog = false ->
  nextfree (tree_of prog) = true /\
  rdr1 prog e = (if fst (pe (tree_of prog) e) then [] else snd (pe (tree_of prog) e)) /\
  length (rdr1 prog e) <= 1.
Proof. exact pe_tree_of. Qed.

(* no written branch is ignored: every rule of the program is a leaf of the tree that is evaluated, for EVERY program *)
Theorem C08_no_branch_ignored : forall prog,
  exists h t, build prog = Some h /\ reify h = Some t /\
              forall q, In q (rules_of prog) -> In (leaf_of q) (leaves t).
Proof. exact no_branch_ignored_all. Qed.

(* the decidable check of the construction that the harness evaluates is therefore always true *)
Theorem C08_Gb_all : forall prog, Gb prog = true.
Proof. exact Gb_all. Qed.

(* the shapes of the documented tests (and three that look broken but are repaired by a later alternative) are in Gb,
   for arbitrary conditions and conclusions *)
Theorem C08_documented_shapes : forall c0 t0 c1 t1 c2 t2 c3 t3,
  Gb (Rule c0 t0 []) = true /\
  Gb (Rule c0 t0 [(KRef, Rule c1 t1 [])]) = true /\
  Gb (Rule c0 t0 [(KAlt, Rule c1 t1 [])]) = true /\
  Gb (Rule c0 t0 [(KAlt, Rule c1 t1 []); (KAlt, Rule c2 t2 [])]) = true /\
  Gb (Rule c0 t0 [(KRef, Rule c1 t1 []); (KAlt, Rule c2 t2 [])]) = true /\
  Gb (Rule c0 t0 [(KRef, Rule c1 t1 [(KAlt, Rule c2 t2 [])])]) = true /\
  Gb (Rule c0 t0 [(KRef, Rule c1 t1 [(KAlt, Rule c2 t2 []); (KAlt, Rule c3 t3 [])])]) = true /\
  Gb (Rule c0 t0 [(KRef, Rule c1 t1 [(KAlt, Rule c2 t2 [])]); (KAlt, Rule c3 t3 [])]) = true /\
  Gb (Rule c0 t0 [(KRef, Rule c1 t1 [(KRef, Rule c2 t2 []); (KAlt, Rule c3 t3 [])])]) = true /\
  Gb (Rule c0 t0 [(KAlt, Rule c1 t1 [(KAlt, Rule c2 t2 [(KAlt, Rule c3 t3 [])])])]) = true /\
  Gb (Rule c0 t0 [(KNext, Rule c1 t1 [])]) = true /\
  (* shapes that were built wrongly before commit 4511011 *)
  Gb (Rule c0 t0 [(KAlt, Rule c1 t1 []); (KAlt, Rule c2 t2 []); (KAlt, Rule c3 t3 [])]) = true /\
  Gb (Rule c0 t0 [(KRef, Rule c1 t1 [(KRef, Rule c2 t2 [])])]) = true /\
  Gb (Rule c0 t0 [(KAlt, Rule c1 t1 [(KRef, Rule c2 t2 [])])]) = true /\
  Gb (Rule c0 t0 [(KRef, Rule c1 t1 []); (KRef, Rule c2 t2 [])]) = true /\
  Gb (Rule c0 t0 [(KAlt, Rule c1 t1 []); (KRef, Rule c2 t2 [])]) = true /\
  Gb (Rule c0 t0 [(KRef, Rule c1 t1 []); (KRef, Rule c2 t2 []); (KAlt, Rule c3 t3 [])]) = true /\
  Gb (Rule c0 t0 [(KAlt, Rule c1 t1 []); (KRef, Rule c2 t2 []); (KAlt, Rule c3 t3 [])]) = true.
Proof. exact documented_shapes. Qed.

(* regression witnesses of the repaired surgery defects C08-a, b, b2, c, c2: now inside the fragment and right *)
Theorem C08_fixed_surgery :
  (Fb w_alt3 = true /\ agrees w_alt3 W8 = true /\ In (2, 2) (model_tags w_alt3 W8)) /\
  (Fb w_refref = true /\ agrees w_refref W8 = true /\ In (2, 3) (model_tags w_refref W8)) /\
  (Fb w_altref = true /\ agrees w_altref W8 = true /\ In (2, 3) (model_tags w_altref W8)) /\
  (Fb w_ref2 = true /\ agrees w_ref2 W8 = true /\ In (2, 2) (model_tags w_ref2 W8)) /\
  (Fb w_alt_ref = true /\ agrees w_alt_ref W8 = true /\ In (1, 1) (model_tags w_alt_ref W8)).
Proof. exact fixed_surgery. Qed.

(* regression witnesses of the repaired next_rule defects C08-d, C08-e, C08-g: the model's run is the Spec's answer *)
Theorem C08_fixed_next :
  (Gb w_next = true /\ agrees w_next W8 = true /\ In (1, 1) (model_tags w_next W8)) /\
  (Gb w_alt_next = true /\ agrees w_alt_next W8 = true /\ In (2, 1) (model_tags w_alt_next W8)) /\
  (Gb w_next_alt = true /\ agrees w_next_alt W8 = true /\ ~ In (2, 0) (model_tags w_next_alt W8)).
Proof. exact fixed_next. Qed.

(* not a finding: the class whose reading the property text does not settle (kept outside the fragment) *)
Theorem C08_unsettled_reading :
  later_ref_next w_unsettled = true /\ Gb w_unsettled = true /\
  In (3, 1) (rdr w_unsettled W8) /\ ~ In (3, 1) (model_tags w_unsettled W8) /\ In (3, 2) (model_tags w_unsettled W8).
Proof. exact unsettled_reading. Qed.

(* the two-variable fragment is inhabited, and the set comparison is essential: two connections share the body whose
   instance the joining refinement infers -- the Spec lists it twice, the run infers it once *)
Example C08_rules2_nonvacuous :
  F2b w2_sel w2_prog = true /\ inrangeb w2_Cs w2_Bs = true /\
  rdr2 w2_sel w2_prog w2_Cs w2_Bs
  = [(1, None, Some 0); (2, Some 1, Some 0); (0, Some 2, None); (1, None, Some 0)] /\
  option_map (insts w2_sel) (model2 w2_sel w2_prog w2_Cs w2_Bs)
  = Some [(1, None, Some 0); (2, Some 1, Some 0); (0, Some 2, None)].
Proof. exact rules2_nonvacuous. Qed.

(* [C08_rules_next_all] reaches programs outside every earlier fragment *)
Example C08_next_all_nonvacuous :
  later_ref_next w_next_nested = false /\ Fx w_next_nested = false /\
  rdr w_next_nested W8n
  = [(3, 0); (3, 1); (1, 2); (3, 2); (1, 3); (2, 3); (3, 3); (1, 4); (2, 4); (3, 4); (1, 5); (2, 5); (4, 5);
     (1, 6); (2, 6); (6, 6); (4, 7)] /\
  option_map insts1 (model w_next_nested W8n)
  = Some [(3, 0); (3, 1); (1, 2); (3, 2); (1, 3); (2, 3); (3, 3); (1, 4); (2, 4); (3, 4); (1, 5); (2, 5);
          (1, 6); (2, 6); (4, 7); (4, 5); (6, 6)].
Proof. exact next_all_nonvacuous. Qed.

Example C08_nonvacuous2 :
  Fb_next2 w_next_ref = true /\ Fb_next w_next_ref = false /\
  rdr w_next_ref W8 = [(0, 0); (1, 1); (0, 2); (2, 2); (0, 3); (3, 3); (2, 4); (2, 5); (2, 6); (2, 7)].
Proof. exact next2_nonvacuous. Qed.

Example C08_nonvacuous :
  Fb_next w_next = true /\ Fb_next w_alt_next = true /\
  Fb ex_prog = true /\
  rdr ex_prog W8 = [(0, 0); (2, 1); (1, 2); (1, 3); (1, 4); (1, 5); (3, 7)] /\
  model_tags ex_prog W8 = rdr ex_prog W8.
Proof. exact ex_nonvacuous2. Qed.

Print Assumptions C08_build_all.
Print Assumptions C08_rules.
Print Assumptions C08_rules_next.
Print Assumptions C08_rules_next2.
Print Assumptions C08_rules_next_all.
Print Assumptions C08_ruleeval_all.
Print Assumptions C08_rows_summary.
Print Assumptions C08_tree_is_rdr_next.
Print Assumptions C08_ruleeval2_all.
Print Assumptions C08_rules2.
Print Assumptions C08_ruleeval2_ok.
Print Assumptions C08_ruleeval_root_next.
Print Assumptions C08_ruleeval_ok.
Print Assumptions C08_tree_is_rdr.
Print Assumptions C08_no_branch_ignored.
Print Assumptions C08_Gb_all.
Print Assumptions C08_documented_shapes.
Print Assumptions C08_fixed_surgery.
Print Assumptions C08_fixed_next.
Print Assumptions C08_unsettled_reading.
