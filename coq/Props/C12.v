(* Property C12 -- predicates and symbolic functions agree between concrete and symbolic calls.
   Only statements, each closed by [exact].  Gen/Pred.v (merge_args_and_kwargs, symbolic_function.wrapper,
   Predicate.__new__, _any_of_the_kwargs_is_a_variable) is regenerated from predicate.py / symbolic.py on every run;
   Eql/PredEval.v is the hand model of the predicate-variable evaluation; Eql/PredSpec.v is the Spec
   (Python's own parameter binding; one call per candidate binding). *)
From Coq Require Import List ZArith Bool.
From Krrood Require Import Eql.PredIdioms Eql.PredSpec Eql.PredCase Eql.PredEval Eql.PredProofs Eql.PredEvalProofs.
From Krrood Require Gen.Pred.
Import ListNotations.
Open Scope Z_scope.
Module G := Gen.Pred.

(* --- argument merging = Python's own binding, for every arity ------------------------------------ *)
(* @symbolic_function (ignore_first = False): every parameter gets what the call f( *pos, **kw ) gives it *)
Theorem C12_merge_function : forall (V : Type) (params : list Z) (pos : list V) (kw : list (Z * V)),
  NoDup params -> call_ok params pos kw ->
  forall p, dict_get (G.merge_args_and_kwargs params pos kw false) p = python_bind params pos kw p.
Proof. exact @merge_get. Qed.

(* Predicate subclass (ignore_first = True over cls.__init__): as __init__(inst, *pos, **kw) binds them; self is skipped *)
Theorem C12_merge_method : forall (V : Type) (self : Z) (ps : list Z) (inst : V) (pos : list V) (kw : list (Z * V)),
  NoDup (self :: ps) -> call_ok (self :: ps) (inst :: pos) kw ->
  forall p, dict_get (G.merge_args_and_kwargs (self :: ps) pos kw true) p =
            if Z.eqb p self then None else python_bind (self :: ps) (inst :: pos) kw p.
Proof. exact @merge_get_method. Qed.

(* the merged dict is a dict (no key twice) and holds exactly the written arguments *)
Theorem C12_merge_is_dict : forall (V : Type) (params : list Z) (pos : list V) (kw : list (Z * V)) flag,
  NoDup (dict_keys (G.merge_args_and_kwargs params pos kw flag)).
Proof. exact @merge_nodup. Qed.

Theorem C12_merge_values : forall (V : Type) (params : list Z) (pos : list V) (kw : list (Z * V)),
  NoDup params -> call_ok params pos kw ->
  forall v, In v (dict_values (G.merge_args_and_kwargs params pos kw false)) <-> In v pos \/ In v (map snd kw).
Proof. exact @merge_values. Qed.

(* --- dispatch: symbolic iff some argument, positional or keyword, is a variable -------------------- *)
Theorem C12_dispatch_function : forall (V : Type) (is_var : V -> bool) params pos kw,
  NoDup params -> call_ok params pos kw ->
  G.symbolic_function_wrapper is_var params pos kw =
  if existsb is_var pos || existsb is_var (map snd kw)
  then G.MakeVariable G.DecoratedMethod (G.merge_args_and_kwargs params pos kw false)   (* a condition; nothing runs *)
  else G.CallFunction pos kw.                                                            (* function( *args, **kwargs ) *)
Proof. exact @dispatch_function. Qed.

Theorem C12_dispatch_predicate : forall (V : Type) (is_var : V -> bool) self ps (inst : V) pos kw,
  NoDup (self :: ps) -> call_ok (self :: ps) (inst :: pos) kw ->
  G.Predicate_new is_var (self :: ps) pos kw =
  if existsb is_var pos || existsb is_var (map snd kw)
  then G.MakeVariable G.SubClassOfPredicate (G.merge_args_and_kwargs (self :: ps) pos kw true)
  else G.NewInstance.
Proof. exact @dispatch_predicate. Qed.

(* --- evaluation: once per candidate binding (every extension of b over the open variables of the written arguments,
   each variable once), exactly the argument values, truth = bool of the call -- for every list of written arguments *)
Theorem C12_once_per_binding :
  forall (dom : Z -> list Z) (attr : Z -> Z -> Z) (R : Type) (body : list (Z * Z) -> R) (truthy : R -> bool)
         (kwargs : list (Z * arg)) (b : assignment),
  kwargs <> [] -> NoDup (map fst b) ->
  pred_eval dom attr body truthy kwargs b = spec_eval dom attr body truthy kwargs b.
Proof. exact @once_per_binding. Qed.

(* the three together, from the written call to the calls made during evaluation *)
Theorem C12_symbolic_call_function :
  forall (dom : Z -> list Z) (attr : Z -> Z -> Z) (R : Type) (body : list (Z * Z) -> R) (truthy : R -> bool)
         (params : list Z) (pos : list arg) (kw : list (Z * arg)),
  NoDup params -> call_ok params pos kw -> some_var arg_is_symbolic pos kw = true ->
  exists m, G.symbolic_function_wrapper arg_is_symbolic params pos kw = G.MakeVariable G.DecoratedMethod m /\
    (forall rho p, assoc p (call_of attr m rho) = option_map (den attr rho) (python_bind params pos kw p)) /\
    (forall b, NoDup (map fst b) ->
               pred_eval dom attr body truthy m b = spec_eval dom attr body truthy m b).
Proof. exact @symbolic_call_function. Qed.

Theorem C12_symbolic_call_predicate :
  forall (dom : Z -> list Z) (attr : Z -> Z -> Z) (R : Type) (body : list (Z * Z) -> R) (truthy : R -> bool)
         (self : Z) (ps : list Z) (inst : arg) (pos : list arg) (kw : list (Z * arg)),
  NoDup (self :: ps) -> call_ok (self :: ps) (inst :: pos) kw -> some_var arg_is_symbolic pos kw = true ->
  exists m, G.Predicate_new arg_is_symbolic (self :: ps) pos kw = G.MakeVariable G.SubClassOfPredicate m /\
    (forall rho p, p <> self ->
       assoc p (call_of attr m rho) = option_map (den attr rho) (python_bind (self :: ps) (inst :: pos) kw p)) /\
    (forall rho, assoc self (call_of attr m rho) = None) /\
    (forall b, NoDup (map fst b) ->
               pred_eval dom attr body truthy m b = spec_eval dom attr body truthy m b).
Proof. exact @symbolic_call_predicate. Qed.

(* --- regression statement for finding C01-d (repaired by 3f7e74b): the definition before the repair -- every written
   argument evaluated independently under the same sources, itertools.product -- made a number of calls different from
   the number of candidate bindings and returned different rows when two arguments share an open variable; the current
   definition meets the Spec on the same input *)
Theorem C12_d_old_product_refuted :
  exists dom attr (body : list (Z * Z) -> bool) kwargs b,
    kwargs <> [] /\ NoDup (map fst b) /\
    length (pred_eval_product dom attr body (fun r => r) kwargs b) <> length (spec_eval dom attr body (fun r => r) kwargs b) /\
    map (fun r => fst (fst r)) (filter (fun r => snd r) (pred_eval_product dom attr body (fun r => r) kwargs b)) <>
    map (fun r => fst (fst r)) (filter (fun r => snd r) (spec_eval dom attr body (fun r => r) kwargs b)) /\
    pred_eval dom attr body (fun r => r) kwargs b = spec_eval dom attr body (fun r => r) kwargs b.
Proof. exact old_product_refuted. Qed.

(* --- regression statements for the defect repaired by 264f917 (C12-a): with the flag the old wrapper relied on
   (merge_args_and_kwargs' default, ignore_first = True) a plain function's positional argument is bound one
   parameter off, and a positional variable of a one-parameter function is not seen at all *)
Theorem C12_a_old_flag_binds_off_by_one :
  exists (params : list Z) (pos : list bool) (kw : list (Z * bool)),
    NoDup params /\ call_ok params pos kw /\
    exists p, dict_get (G.merge_args_and_kwargs params pos kw true) p <> python_bind params pos kw p.
Proof. exact old_flag_refuted_bind. Qed.

Theorem C12_a_old_flag_misses_variable :
  exists (params : list Z) (pos : list bool) (kw : list (Z * bool)),
    NoDup params /\ call_ok params pos kw /\ existsb (fun b => b) pos = true /\
    G._any_of_the_kwargs_is_a_variable (fun b => b) (G.merge_args_and_kwargs params pos kw true) = false.
Proof. exact old_flag_refuted_dispatch. Qed.

(* non-vacuity: f(p1, p2=.., p3=..) called as f(x.a, p3 = x) with x open in BOTH arguments: well formed, symbolic,
   and exactly two calls for the two candidate bindings of x, each with the values of one and the same x *)
Example C12_nonvacuous :
  let params := [1; 2; 3] in let pos := [AAttr (AVar 1) 0] in let kw := [(3, AVar 1)] in
  let dom := fun x : Z => if Z.eqb x 1 then [100; 101] else [200; 201] in
  NoDup params /\ call_ok params pos kw /\ some_var arg_is_symbolic pos kw = true /\
  map (fun r => snd (fst r)) (pred_eval dom (fun f v => v + 1) (fun c => c) (fun _ => true)
                                (G.merge_args_and_kwargs params pos kw false) []) =
  [[(1, 101); (3, 100)]; [(1, 102); (3, 101)]].
Proof.
  cbv zeta. split; [repeat constructor; simpl; intuition discriminate|].
  split; [split; [simpl; auto | split; [repeat constructor; simpl; tauto|]]|].
  - intros k [<-|[]]. exists 2%nat. split; [reflexivity | simpl; auto].
  - split; reflexivity.
Qed.

Print Assumptions C12_merge_function.
Print Assumptions C12_merge_method.
Print Assumptions C12_merge_is_dict.
Print Assumptions C12_merge_values.
Print Assumptions C12_dispatch_function.
Print Assumptions C12_dispatch_predicate.
Print Assumptions C12_once_per_binding.
Print Assumptions C12_symbolic_call_function.
Print Assumptions C12_symbolic_call_predicate.
Print Assumptions C12_d_old_product_refuted.
Print Assumptions C12_a_old_flag_binds_off_by_one.
Print Assumptions C12_a_old_flag_misses_variable.
