(* Property C09 -- result quantifiers enforce exactly the stated solution count.
   Only statements, each closed by [exact]; the model is Eql/Quant.v over Gen/Quant.v
   (the latter regenerated from result_quantification_constraint.py on every run). *)
From Coq Require Import List ZArith Bool.
From Krrood Require Import Base.Sx Eql.QuantSpec Eql.Quant Eql.QuantProofs.
Import ListNotations.
Open Scope Z_scope.

(* negative / inverted bounds are rejected when the constraint is constructed, and only those *)
Theorem C09_ctor : forall k,
  construct k = match ctor_spec k with Some e => inr e | None => inl (canonical k) end.
Proof. exact construct_ok. Qed.

(* an(..., quantification=k): for every number of rows, all rows when the count satisfies k;
   otherwise Less.../Greater..., with at most [upper k] rows yielded *)
Theorem C09_an : forall (A : Type) k (rows : list A), ctor_spec k = None ->
  run_an (Some (canonical k)) rows = an_spec k rows.
Proof. exact @an_correct. Qed.

Theorem C09_an_never_exceeds : forall (A : Type) k (rows : list A) u,
  ctor_spec k = None -> upper k = Some u ->
  Z.of_nat (length (fst (run_an (Some (canonical k)) rows))) <= u.
Proof. exact @an_never_exceeds. Qed.

Theorem C09_an_unconstrained : forall (A : Type) (rows : list A), run_an None rows = (rows, None).
Proof. exact @an_unconstrained. Qed.

(* the(...): one -> the value; none -> NoSolutionFound; several -> MultipleSolutionFound *)
Theorem C09_the : forall (A : Type) (rows : list A), run_the rows = the_spec rows.
Proof. exact @the_correct. Qed.

(* what the correspondence check evaluates is covered by the theorems: model = spec everywhere *)
Theorem C09_model_is_spec : forall k rows, model_an k rows = spec_an k rows.
Proof. exact model_an_eq_spec. Qed.

(* non-vacuity: a constraint that is accepted, and one run on each side of its bounds *)
Example C09_nonvacuous :
  ctor_spec (KRange 1 2) = None /\
  run_an (Some (canonical (KRange 1 2))) [7; 8; 9] = ([7; 8], Some GreaterThanExpectedNumberOfSolutions) /\
  run_an (Some (canonical (KRange 1 2))) ([] : list Z) = ([], Some LessThanExpectedNumberOfSolutions) /\
  run_an (Some (canonical (KRange 1 2))) [7] = ([7], None).
Proof. repeat split. Qed.

Print Assumptions C09_ctor.
Print Assumptions C09_an.
Print Assumptions C09_an_never_exceeds.
Print Assumptions C09_an_unconstrained.
Print Assumptions C09_the.
Print Assumptions C09_model_is_spec.
