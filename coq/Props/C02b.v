(* Property C02, predicate bridge -- conditions whose atoms are comparisons OR calls of boolean user functions
   (Predicate subclasses / @symbolic_function).  Statements only.  Model Eql/PredCond.v [peval] (comparison atom =
   Eql/Eval.v's ev_cmp, predicate atom = the predicate-variable evaluation as of 3f7e74b, logical operators as in
   Eql/Eval.v, or_ decided on the variables the sides range over as of 8c61b7d); Spec [psat] / [panswers_exec].
   Unbounded in the shape of the condition, arities, number of variables, domains, the world and the user's functions P. *)
From Coq Require Import List ZArith Bool Arith.
From Coq Require Import Permutation.
From Krrood Require Import Base.Sx Eql.Syntax Eql.Sat Eql.Eval Eql.EvalProofs Eql.CountProofs.
From Krrood Require Import Eql.PredCond Eql.PredCondProofs Eql.PredCondCount Eql.PredCondShow.
Import ListNotations.
Open Scope nat_scope.

(* (1) as sets, C01 style: the rows are exactly the answers of the first-order Spec -- for EVERY condition over
   comparisons and predicate calls with and_ / or_ (else-if or union) / not_, every selection *)
Theorem C02b_rows_are_answers : forall W D P q,
  (forall x, In x (pquery_vars q) -> D x <> []) ->
  forall row, In row (prun W D P q) <-> panswer W D P q row.
Proof. exact prun_exact. Qed.

Theorem C02b_result_tells_truth : forall W D P c pol b b',
  In (b', negb pol) (peval W D P c b) -> forall rho, extends rho b' -> psat W P rho c = pol.
Proof. exact peval_sound. Qed.

Theorem C02b_every_assignment_covered : forall W D P c b rho,
  extends rho b -> (forall x, In x (pcond_vars c) -> In (rho x) (D x)) ->
  exists b', In (b', negb (psat W P rho c)) (peval W D P c b) /\ extends rho b'.
Proof. exact peval_complete. Qed.

(* (2) exactly once, C02 style: Union-free conditions over duplicate-free domains partition the assignment space ... *)
Theorem C02b_partition : forall W D P, (forall x, NoDup (D x)) ->
  forall c, pufree c = true -> forall b rho,
  extends rho b -> (forall x, In x (pcond_vars c) -> In (rho x) (D x)) ->
  cnt (cov rho) (peval W D P c b) = 1.
Proof. exact peval_partition. Qed.

Theorem C02b_exactly_once : forall W D P, (forall x, NoDup (D x)) ->
  forall c, pufree c = true -> forall b rho,
  extends rho b -> (forall x, In x (pcond_vars c) -> In (rho x) (D x)) ->
  cnt (covt rho) (peval W D P c b) = if psat W P rho c then 1 else 0.
Proof. exact peval_exactly_once. Qed.

(* ... in the negation-normal and_ / else-if fragment every true result binds every variable ... *)
Theorem C02b_true_total : forall W D P c, pnnf c = true -> forall b b',
  In (b', false) (peval W D P c b) -> binds_all b' (pcond_vars c).
Proof. exact peval_true_total. Qed.

(* ... so the rows of a query are a PERMUTATION of the Spec's enumeration of the satisfying assignments *)
Theorem C02b_rows_exactly_once : forall W D P, (forall x, NoDup (D x)) -> forall q,
  pnnf (pq_cond q) = true ->
  (forall x, In x (flat_map opnd_vars (pq_sels q)) -> In x (pcond_vars (pq_cond q))) ->
  Permutation (prun W D P q) (panswers_exec W D P q).
Proof. exact prun_perm. Qed.

(* the flag computed for every case of the predicate stream is covered by that theorem *)
Theorem C02b_fragment_flag : forall c, pe_in_F c = true ->
  Permutation (prun int_world (pe_domains c) std_preds (pe_query c))
              (panswers_exec int_world (pe_domains c) std_preds (pe_query c)).
Proof. exact pe_in_F_perm. Qed.

(* or_ : else-if exactly when both sides range over the same variables; the results of calls do not count *)
Theorem C02b_or_choice : forall l r,
  mk_por l r = if same_vars (pcond_vars l) (pcond_vars r) then PElseIf l r else PUnion l r.
Proof. reflexivity. Qed.

Theorem C02b_fragment_is_union_free : forall c, pnnf c = true -> pufree c = true.
Proof. exact pnnf_pufree. Qed.

(* (3) Eql/Eval.v, Eql/Sat.v and the fragment of Props/C02.v are the predicate-free special case *)
Theorem C02b_embedding_eval : forall W D P c, qfree c = true -> forall b, peval W D P (pinj c) b = eval W D c b.
Proof. exact pinj_eval. Qed.
Theorem C02b_embedding_sat : forall W D P c, qfree c = true -> forall rho, psat W P rho (pinj c) = sat W D rho c.
Proof. exact pinj_sat. Qed.
Theorem C02b_embedding_run : forall W D P sels c, qfree c = true ->
  prun W D P {| pq_sels := sels; pq_cond := pinj c |} = run W D {| q_sels := sels; q_cond := Some c |}.
Proof. exact pinj_run. Qed.
Theorem C02b_embedding_or : forall l r, qfree l = true -> qfree r = true -> pinj (mk_or l r) = mk_por (pinj l) (pinj r).
Proof. exact pinj_mk_or. Qed.
Theorem C02b_embedding_fragment : forall c, nnf c = true -> pnnf (pinj c) = true.
Proof. exact pinj_nnf. Qed.

(* regression statement for finding C02-a (repaired by 8c61b7d): had or_ counted the result of each call as a variable
   of its own, or_(p_small(x), p_even(x)) would be a Union, and the Union yields an x satisfying both sides twice *)
Definition w_c02a (orc : pcond -> pcond -> pcond) : pecase :=
  {| pe_doms := [(0, [0; 1; 2; 3; 4]%Z)]; pe_sels := [0];
     pe_cond := orc (PPred 1 [OVar 0]) (PPred 0 [OVar 0]) |}.
Theorem C02b_a_union_duplicates :
  pmodel_rows (w_c02a PUnion) <> pspec_rows (w_c02a PUnion) /\
  mk_por (PPred 1 [OVar 0]) (PPred 0 [OVar 0]) = PElseIf (PPred 1 [OVar 0]) (PPred 0 [OVar 0]) /\
  pmodel_rows (w_c02a mk_por) = pspec_rows (w_c02a mk_por).
Proof. split; [vm_compute; discriminate|]. split; reflexivity. Qed.

(* non-vacuity: two variables, a comparison, a negated call and an else-if between calls over the same variables *)
Definition w_c02b : pecase :=
  {| pe_doms := [(0, [0; 1; 2; 3]%Z); (1, [1; 2; 4]%Z)]; pe_sels := [0; 1];
     pe_cond := mk_pand (mk_por (PPred 3 [OVar 0; OVar 1]) (PPred 4 [OVar 1; OVar 0]))
                        (mk_pand (mk_pnot (PPred 0 [OVar 0])) (PCmp OpGe (OVar 1) (OLit (VI 2)))) |}.
Example C02b_nonvacuous :
  pe_in_F w_c02b = true /\ pmodel_rows w_c02b = pspec_rows w_c02b /\
  pspec_rows w_c02b = SL [SL [SZ 1; SZ 2]; SL [SZ 1; SZ 4]; SL [SZ 3; SZ 4]]%Z.
Proof. repeat split; vm_compute; reflexivity. Qed.

Print Assumptions C02b_rows_are_answers.
Print Assumptions C02b_result_tells_truth.
Print Assumptions C02b_every_assignment_covered.
Print Assumptions C02b_partition.
Print Assumptions C02b_exactly_once.
Print Assumptions C02b_true_total.
Print Assumptions C02b_rows_exactly_once.
Print Assumptions C02b_fragment_flag.
Print Assumptions C02b_or_choice.
Print Assumptions C02b_fragment_is_union_free.
Print Assumptions C02b_embedding_eval.
Print Assumptions C02b_embedding_sat.
Print Assumptions C02b_embedding_run.
Print Assumptions C02b_embedding_or.
Print Assumptions C02b_embedding_fragment.
Print Assumptions C02b_a_union_duplicates.
