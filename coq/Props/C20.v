(* Property C20 -- krrood never extends the lifetime of user objects and its containers do not grow.
   Partial: the model states what krrood HOLDS (strong / weak references); that CPython reclaims what nobody holds is
   observed by the weak-reference census of the correspondence check, not proved.
   Only statements, each closed by [exact]. *)
From Coq Require Import List Arith Bool PeanoNat Permutation.
From Krrood Require Import Onto.RegistrySpec Onto.Registry Onto.RegistryInv Onto.RegistryProofs Onto.RegistryQuery
  Onto.RegistryRel Onto.Lifetime Onto.RegistryWitness Onto.RegistryGen.
Import ListNotations.

(* the SymbolGraph reaches instances through weak references only *)
Theorem C20_registry_weak : forall s o, ~ sreach (refs s) HSymbolGraph (HObj o).
Proof. exact registry_holds_nothing. Qed.

(* every existing instance is referenced by the program or by the cached domain of an evaluated query; nothing else *)
Theorem C20_accounted : forall children fuel h s, Accounted s -> Accounted (fst (run children fuel s h)).
Proof. exact run_Accounted. Qed.

(* declaring a domain-less variable (let(T, None) without evaluating) reads nothing and holds nothing *)
Theorem C20_declare_holds_nothing : forall children fuel s T o,
  live (fst (step children fuel s (DeclV T))) = live s /\ user (fst (step children fuel s (DeclV T))) = user s /\
  g (fst (step children fuel s (DeclV T))) = g s /\
  pinned (vars (fst (step children fuel s (DeclV T)))) o = pinned (vars s) o.
Proof. exact declare_holds_nothing. Qed.

(* without EQL evaluation over the instance: dropping the last reference reclaims it, after any history *)
Theorem C20_no_retention : forall children fuel h o,
  no_eql h = true ->
  ~ In o (map o_id (live (fst (step children fuel (fst (run children fuel init h)) (Drop o))))).
Proof. exact drop_reclaims. Qed.

(* the registry containers after a sweep: one node / per-class entry / id entry per existing instance ... *)
Theorem C20_sizes : forall L r, RegInv L r -> WorldOk L -> swept L r -> AllReg L r ->
  length (nodes r) = length L /\ length (wl r) = length L /\ length (by_id r) = length L /\
  length (rel_index r) = length (edges r).
Proof. exact swept_sizes. Qed.

(* ... and after any history that ends with nothing existing, a sweep leaves every container empty: no growth *)
Theorem C20_no_growth : forall children fuel h,
  adm_run children fuel init h = true -> live (fst (run children fuel init h)) = [] ->
  g (fst (step children fuel (fst (run children fuel init h)) Sweep)) = empty_reg.
Proof. exact no_growth. Qed.

(* outside: the expression table keeps every variable and the domain it cached (design of krrood; known finding) *)
Theorem C20_cache_pins : forall s o, pinned (vars s) o = true -> sreach (refs s) HExprTable (HObj o).
Proof. exact cache_pins. Qed.

Theorem C20_refuted_query_cache :
  exists h T, adm_run wch wfuel init h = true /\ user (fst (run wch wfuel init h)) = [] /\
              snd (step wch wfuel (fst (run wch wfuel init h)) (QueryG T)) = OInst [Some 0] /\
              sreach (refs (fst (run wch wfuel init h))) HExprTable (HObj 0).
Proof. exact refuted_pinned. Qed.

Theorem C20_refuted_expr_growth :
  exists h, adm_run wch wfuel init h = true /\ live (fst (run wch wfuel init h)) = [O 0 0 0] /\
            user (fst (run wch wfuel init h)) = [] /\ length (vars (fst (run wch wfuel init h))) = 3.
Proof. exact refuted_expr_growth. Qed.

(* tie to the source: the definitions regenerated from symbol_graph.py / utils.py / predicate.py / entity.py /
   hashed_data.py / symbolic.py / singleton.py on this run (Gen/Registry.v) are the model these theorems are about *)
Theorem C20_model_is_source : GenIsModel.
Proof. exact gen_is_model. Qed.

Example C20_nonvacuous :
  let h := [New 0 0 0; New 0 1 1; Relate 0 0 1 0 1; Drop 0; Drop 1; Sweep; New 0 1 1; New 0 0 0] in
  adm_run wch wfuel init h = true /\
  snd (step wch wfuel (fst (run wch wfuel init h)) (Relate 3 0 2 0 1)) = OBool true /\
  sizes (g (fst (run wch wfuel init h))) = [2; 2; 2; 0; 0].
Proof. exact reuse_relation_new. Qed.

Print Assumptions C20_registry_weak.
Print Assumptions C20_accounted.
Print Assumptions C20_no_retention.
Print Assumptions C20_sizes.
Print Assumptions C20_no_growth.
Print Assumptions C20_cache_pins.
Print Assumptions C20_refuted_query_cache.
Print Assumptions C20_refuted_expr_growth.
Print Assumptions C20_model_is_source.
Print Assumptions C20_declare_holds_nothing.
