(* Property C20 -- krrood never extends the lifetime of user objects and its containers do not grow.
   Partial: the model states what krrood HOLDS (strong / weak references); that CPython reclaims what nobody holds is
   observed by the weak-reference census of the correspondence check, not proved.
   Only statements, each closed by [exact]. *)
From Coq Require Import List Arith Bool PeanoNat Permutation.
From Krrood Require Import Onto.RegistrySpec Onto.Registry Onto.RegistryInv Onto.RegistryProofs Onto.RegistryQuery
  Onto.RegistryRel Onto.RegistryLive Onto.Lifetime Onto.RegistryWitness Onto.RegistryGen.
Import ListNotations.

(* neither the SymbolGraph (weak references only) nor the expression tables (query objects hold no instance) reach an
   instance through strong references *)
Theorem C20_krrood_holds_nothing : forall s a o, a = HSymbolGraph \/ a = HExprTable -> ~ sreach (refs s) a (HObj o).
Proof. exact krrood_holds_nothing. Qed.

(* after ANY history every existing instance is referenced by the program: directly, or as a row of a live iterator it holds *)
Theorem C20_accounted : forall children fuel h s, Accounted s -> Accounted (fst (run children fuel s h)).
Proof. exact run_Accounted. Qed.

(* ... so when no live iterator holds a row, what exists is exactly what the program references: declared variables,
   completed or closed evaluations and the symbol graph retain nothing *)
Theorem C20_no_retention : forall children fuel h o,
  (forall x, pinned (evals (fst (run children fuel init h))) x = false) ->
  (In o (map o_id (live (fst (run children fuel init h)))) <-> In o (user (fst (run children fuel init h)))).
Proof. exact existing_is_referenced. Qed.

(* dropping the last reference reclaims the instance, in any state, unless a live iterator has handed it out *)
Theorem C20_drop_reclaims : forall children fuel s o,
  pinned (evals s) o = false -> ~ In o (map o_id (live (fst (step children fuel s (Drop o))))).
Proof. exact drop_reclaims. Qed.

(* a live evaluation holds exactly the rows it has handed out ... *)
Theorem C20_live_iterator_holds : forall s o, pinned (evals s) o = true -> sreach (refs s) HProgram (HObj o).
Proof. exact live_iterator_holds. Qed.

Theorem C20_live_holds_rows : forall children fuel s n y v e,
  nth_error (evals s) n = Some (Some e) -> e_started e = true ->
  snd (step children fuel s (NextV n y)) = OInst [v] ->
  exists e', nth_error (evals (fst (step children fuel s (NextV n y)))) n = Some (Some e') /\ e_seen e' = e_seen e ++ [v].
Proof. exact next_holds_row. Qed.

(* ... and closing (or finalising) it releases what only it was holding *)
Theorem C20_close_releases : forall children fuel s n x, nth_error (evals s) n <> None ->
  In x (live (fst (step children fuel s (CloseV n)))) ->
  In (o_id x) (user s) \/ pinned (set_nth n None (evals s)) (o_id x) = true.
Proof. exact close_releases. Qed.

(* declaring a variable and evaluating a query completely change neither who exists nor what is held *)
Theorem C20_declare_holds_nothing : forall children fuel s T,
  live (fst (step children fuel s (DeclV T))) = live s /\ user (fst (step children fuel s (DeclV T))) = user s /\
  g (fst (step children fuel s (DeclV T))) = g s /\ evals (fst (step children fuel s (DeclV T))) = evals s.
Proof. exact declare_holds_nothing. Qed.

Theorem C20_evaluation_holds_nothing : forall children fuel s q, (exists T, q = QueryE T) \/ (exists k, q = EvalV k) ->
  live (fst (step children fuel s q)) = live s /\ user (fst (step children fuel s q)) = user s /\
  evals (fst (step children fuel s q)) = evals s.
Proof. exact evaluation_holds_nothing. Qed.

(* the registry containers after a sweep: one node / per-class entry / id entry per existing instance ... *)
Theorem C20_sizes : forall L r, RegInv L r -> WorldOk L -> swept L r -> AllReg L r ->
  length (nodes r) = length L /\ length (wl r) = length L /\ length (by_id r) = length L /\
  length (rel_index r) = length (edges r).
Proof. exact swept_sizes. Qed.

(* ... and after any history that ends with nothing existing, a sweep leaves every container empty: no growth *)
Theorem C20_no_growth : forall children fuel h,
  adm_run children fuel init h = true -> live (fst (run children fuel init h)) = [] ->
  g (fst (step children fuel (fst (run children fuel init h)) Sweep)) = empty_reg.
Proof. exact no_growth. Qed.

(* outside: the process-wide expression tables grow by one query object per declared query (known finding C20-a2) *)
Theorem C20_refuted_expr_growth :
  exists h, adm_run wch wfuel init h = true /\ live (fst (run wch wfuel init h)) = [] /\
            user (fst (run wch wfuel init h)) = [] /\ length (vars (fst (run wch wfuel init h))) = 3.
Proof. exact refuted_expr_growth. Qed.

Theorem C20_model_is_source : GenIsModel.
Proof. exact gen_is_model. Qed.

Example C20_nonvacuous :
  let h := [New 0 0 0; New 1 1 1; DeclV 0; StartV 0; NextV 0 (Some (Some 0)); Drop 0] in
  adm_run wch wfuel init h = true /\ live (fst (run wch wfuel init h)) = [O 0 0 0; O 1 1 1] /\
  user (fst (run wch wfuel init h)) = [1] /\ pinned (evals (fst (run wch wfuel init h))) 0 = true /\
  live (fst (run wch wfuel init (h ++ [CloseV 0]))) = [O 1 1 1] /\
  a_live (fst (spec_run wch wfuel a_init (h ++ [CloseV 0]))) = [O 1 1 1].
Proof. exact live_iterator_holds_rows. Qed.

Print Assumptions C20_krrood_holds_nothing.
Print Assumptions C20_accounted.
Print Assumptions C20_no_retention.
Print Assumptions C20_drop_reclaims.
Print Assumptions C20_live_iterator_holds.
Print Assumptions C20_live_holds_rows.
Print Assumptions C20_close_releases.
Print Assumptions C20_declare_holds_nothing.
Print Assumptions C20_evaluation_holds_nothing.
Print Assumptions C20_sizes.
Print Assumptions C20_no_growth.
Print Assumptions C20_refuted_expr_growth.
Print Assumptions C20_model_is_source.
