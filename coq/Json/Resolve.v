(* Model of tag resolution (C19) = the translated guard chain (Gen/JsonResolve.v, regenerated from the source on every
   run) + the one step after it that is still krrood's own code: a class that derives from SubclassJSONSerializer
   but does not override _from_json inherits the base body ([base_from_json_body], also translated; since dd15a30 it
   raises ClassNotDeserializableError),
   + [enclosing], the HAND-WRITTEN model of SubclassJSONSerializer._resolve_enclosing_class (since 70c605d; a loop with
   try/continue that the translator does not cover; source-pinned in pin set `json`): the chain calls it through its
   Section variable [resolve_enclosing_class].

   Oracles are Section variables ranging over every behaviour documented for them:
     import_module : module | ModuleNotFoundError | ImportError (the module exists but cannot be imported) |
                     ValueError (only for "") | TypeError (only for a relative name)
     getattr_      : object | AttributeError                  (on a module or on a class)
     issubclass_ser: bool   | TypeError (only when the first argument is not a class)          *)
From Coq Require Import List ZArith Bool.
From Krrood Require Import Base.Sx Json.JsonVal Json.ResolveSpec Gen.JsonResolve.
Import ListNotations.
Open Scope Z_scope.

Section Resolve.
  Variables (pymodule pyclass pydeser : Type).
  Variable import_module : str -> M pymodule.
  Variable getattr_ : owner pymodule pyclass -> str -> M pyclass.
  Variable is_type : pyclass -> bool.
  Variable issubclass_ser : pyclass -> M bool.
  Variable get_deserializer : pyclass -> option pydeser.
  Variable implements_from_json : pyclass -> bool.   (* the class (or a base below SubclassJSONSerializer) defines _from_json *)

  (* _resolve_enclosing_class(qualified_name), line by line:
       names = qualified_name.split(".")
       for number_of_module_names in range(len(names) - 1, 0, -1):
           try: owner = importlib.import_module(".".join(names[:number_of_module_names]))
           except ImportError: continue             -- (34c3d21; was ModuleNotFoundError) any other exception propagates
           for name in names[number_of_module_names:]:
               owner = getattr(owner, name, None)                      -- AttributeError -> None; others propagate
               if not isinstance(owner, type): return None
           return owner
       return None *)
  Fixpoint walk_classes (o : owner pymodule pyclass) (names : list str) : M (option (owner pymodule pyclass)) :=
    match names with
    | [] => Ok (Some o)
    | n :: r => match getattr_ o n with
                | Ok c => if is_type c then walk_classes (OCls c) r else Ok None
                | Exn e => if pyexn_isa e AttributeError then Ok None else Exn e
                end
    end.
  Fixpoint try_prefixes (names : list str) (k : nat) : M (option (owner pymodule pyclass)) :=
    match k with
    | O => Ok None
    | S k' => match import_module (join_dots (firstn k names)) with
              | Ok m => walk_classes (OMod m) (skipn k names)
              | Exn e => if pyexn_isa e ImportError then try_prefixes names k' else Exn e
              end
    end.
  Definition enclosing (qualified_name : str) : M (option (owner pymodule pyclass)) :=
    let names := split_dots qualified_name in try_prefixes names (length names - 1).

  Definition chain := from_json_chain pymodule pyclass pydeser import_module enclosing getattr_ is_type issubclass_ser get_deserializer.

  (* from_json: the chain, then target_cls._from_json(data) *)
  Definition resolve (data : jv) : outcome jerr (fj_action pyclass pydeser) :=
    match chain data with
    | Return (FJ_CallClass c) =>
        if implements_from_json c then Return (FJ_CallClass c)
        else match base_from_json_body with
             | RaiseF e => RaiseF e
             | RaiseJ j => RaiseJ j
             | Return _ => Return (FJ_CallClass c)
             end
    | o => o
    end.

  (* the tag resolves to a SubclassJSONSerializer class without _from_json (e.g. the base class itself).  Since dd15a30
     the inherited body raises ClassNotDeserializableError (it was NotImplementedError: former finding C19-b). *)
  Definition K_abstract (data : jv) : bool :=
    match chain data with
    | Return (FJ_CallClass c) => negb (implements_from_json c)
    | _ => false
    end.
  (* ... and that class ALSO has a registered deserialiser: the only place where the code's answer (the documented
     ClassNotDeserializableError) is not the one of the Spec's table (use the registered deserialiser) *)
  Definition K_abstract_registered (data : jv) : bool :=
    match chain data with
    | Return (FJ_CallClass c) => negb (implements_from_json c) && opt_truthy (get_deserializer c)
    | _ => false
    end.

  (* what the oracles document *)
  Definition importer_documented : Prop :=
    forall s e, import_module s = Exn e ->
      e = ModuleNotFoundError \/ e = ImportError \/ (e = ValueError /\ s = []) \/ (e = TypeError /\ str_startswith s [DOT] = true).
  Definition getattr_documented : Prop := forall o n e, getattr_ o n = Exn e -> e = AttributeError.
  Definition issubclass_documented : Prop :=
    (forall c e, issubclass_ser c = Exn e -> e = TypeError) /\
    (forall c, is_type c = true -> exists b, issubclass_ser c = Ok b).

End Resolve.

(* ---- executable instance for the correspondence check (case record and oracle tables: ResolveSpec.v) *)
Definition rc_data (c : rcase) : jv :=
  JObj (if rc_has_tag c then (JSON_TYPE_NAME, rc_tag c) :: rc_extra c else rc_extra c).

Definition outcome_sx (o : outcome jerr (fj_action Z Z)) : sx :=
  match o with
  | Return FJ_ReturnData => SL [SZ 0]
  | Return FJ_MapFromJson => SL [SZ 1]
  | Return (FJ_CallClass c) => SL [SZ 10; SZ c]
  | Return (FJ_CallDeser d) => SL [SZ 11; SZ d]
  | RaiseJ j => SL [SZ 20; SZ (jerr_code j)]
  | RaiseF e => SL [SZ 30; SZ (pyexn_code e)]
  end.

Definition model_rcase (c : rcase) : sx :=
  outcome_sx (resolve Z Z Z (rc_import c) (rc_getattr c) (memz (rc_types c)) (rc_issub c) (assoc_z (rc_regs c))
                      (memz (rc_impl c)) (rc_data c)).

Definition rcase_code (c : rcase) (impl : sx) : Z := classify impl (model_rcase c) (spec_rcase c).
