(* JsonVal: the data shared by the JSON models (C18, C19).
   - [str]  : Python str as the list of its code points (rsplit / startswith / emptiness need the characters)
   - [jv]   : what json.loads can return / json.dumps accepts (ints unbounded, floats as their IEEE-754 bit
              pattern -- never interpreted except for "is it zero" --, str-keyed dicts as association lists)
   - [M], [outcome] : exception monad for library calls / result of a translated function
   - the fixed idiom table of the translator (translator/t_json.py): what `rsplit`, `startswith`, `dict.get`,
     `isinstance(x, <tuple of builtins>)`, truthiness mean on these data.  This table is part of the trusted base. *)
From Coq Require Import List ZArith Bool Lia.
Import ListNotations.
Open Scope Z_scope.

Definition str := list Z.

Fixpoint str_eqb (a b : str) : bool :=
  match a, b with
  | [], [] => true
  | x :: a', y :: b' => Z.eqb x y && str_eqb a' b'
  | _, _ => false
  end.

Lemma str_eqb_eq a : forall b, str_eqb a b = true <-> a = b.
Proof.
  induction a as [|x a IH]; intros [|y b]; simpl; try (split; congruence).
  rewrite andb_true_iff, Z.eqb_eq, IH. split; [intros [-> ->]; reflexivity | intros H; injection H; auto].
Qed.

Lemma str_eqb_refl a : str_eqb a a = true.
Proof. now apply str_eqb_eq. Qed.

Definition DOT : Z := 46.

Inductive jv : Type :=
| JNull
| JBool (b : bool)
| JInt (z : Z)
| JFloat (bits : Z)            (* IEEE-754 binary64 bit pattern as an unsigned integer; NaN never generated *)
| JStr (s : str)
| JArr (l : list jv)
| JObj (d : list (str * jv)).

(* induction principle that sees through both nestings *)
Section JvInd.
  Variable P : jv -> Prop.
  Hypothesis HNull : P JNull.
  Hypothesis HBool : forall b, P (JBool b).
  Hypothesis HInt : forall z, P (JInt z).
  Hypothesis HFloat : forall f, P (JFloat f).
  Hypothesis HStr : forall s, P (JStr s).
  Hypothesis HArr : forall l, Forall P l -> P (JArr l).
  Hypothesis HObj : forall d, Forall (fun kv => P (snd kv)) d -> P (JObj d).
  Fixpoint jv_ind' (j : jv) : P j :=
    match j with
    | JNull => HNull | JBool b => HBool b | JInt z => HInt z | JFloat f => HFloat f | JStr s => HStr s
    | JArr l => HArr l ((fix go (l : list jv) : Forall P l :=
                           match l with [] => Forall_nil P | x :: r => Forall_cons x (jv_ind' x) (go r) end) l)
    | JObj d => HObj d ((fix go (d : list (str * jv)) : Forall (fun kv => P (snd kv)) d :=
                           match d with
                           | [] => Forall_nil _
                           | kv :: r => Forall_cons kv (jv_ind' (snd kv)) (go r)
                           end) d)
    end.
End JvInd.

(* ---- Python truthiness (bool(x)) of a loaded JSON value *)
Definition float_is_zero (bits : Z) : bool := Z.eqb bits 0 || Z.eqb bits (2 ^ 63).   (* 0.0 and -0.0 *)
Definition jv_truthy (j : jv) : bool :=
  match j with
  | JNull => false
  | JBool b => b
  | JInt z => negb (Z.eqb z 0)
  | JFloat f => negb (float_is_zero f)
  | JStr s => match s with [] => false | _ => true end
  | JArr l => match l with [] => false | _ => true end
  | JObj d => match d with [] => false | _ => true end
  end.
Definition str_truthy (s : str) : bool := match s with [] => false | _ => true end.
Definition opt_truthy {A} (o : option A) : bool := match o with Some _ => true | None => false end.

(* ---- the builtin types that occur in the two isinstance tuples, and isinstance on loaded JSON *)
Inductive pytype : Type := Tint | Tfloat | Tstr | Tbool | TNoneType | Tlist | Ttuple | Tset | Tdict.
Definition pytype_eqb (a b : pytype) : bool :=
  match a, b with
  | Tint, Tint | Tfloat, Tfloat | Tstr, Tstr | Tbool, Tbool | TNoneType, TNoneType
  | Tlist, Tlist | Ttuple, Ttuple | Tset, Tset | Tdict, Tdict => true
  | _, _ => false
  end.
(* issubclass among these builtins: reflexive, plus bool <= int *)
Definition pytype_sub (a b : pytype) : bool :=
  pytype_eqb a b || match a, b with Tbool, Tint => true | _, _ => false end.
Definition type_isinstance (t : pytype) (ts : list pytype) : bool := existsb (pytype_sub t) ts.
Definition jv_type (j : jv) : pytype :=
  match j with
  | JNull => TNoneType | JBool _ => Tbool | JInt _ => Tint | JFloat _ => Tfloat | JStr _ => Tstr
  | JArr _ => Tlist | JObj _ => Tdict
  end.
Definition jv_isinstance (j : jv) (ts : list pytype) : bool := type_isinstance (jv_type j) ts.

(* ---- exceptions of the library calls the resolver makes *)
Inductive pyexn : Type :=
| AttributeError | ValueError | TypeError | KeyError | ImportError | ModuleNotFoundError | NotImplementedError | Exception_.
(* `except C` catches e  iff  e is C or a subclass of C (only the part of the hierarchy that occurs) *)
Definition pyexn_eqb (a b : pyexn) : bool :=
  match a, b with
  | AttributeError, AttributeError | ValueError, ValueError | TypeError, TypeError | KeyError, KeyError
  | ImportError, ImportError | ModuleNotFoundError, ModuleNotFoundError
  | NotImplementedError, NotImplementedError | Exception_, Exception_ => true
  | _, _ => false
  end.
Definition pyexn_isa (e c : pyexn) : bool :=
  pyexn_eqb e c || match e, c with ModuleNotFoundError, ImportError => true | _, Exception_ => true | _, _ => false end.
Definition pyexn_code (e : pyexn) : Z :=
  match e with
  | AttributeError => 101 | ValueError => 102 | TypeError => 103 | KeyError => 104 | ImportError => 105
  | ModuleNotFoundError => 106 | NotImplementedError => 107 | Exception_ => 108
  end.

Inductive M (A : Type) : Type := Ok (a : A) | Exn (e : pyexn).
Arguments Ok {A} a.
Arguments Exn {A} e.

(* result of a translated function: J = the JSONSerializationError subclasses found in the source *)
Inductive outcome (J A : Type) : Type := Return (a : A) | RaiseJ (j : J) | RaiseF (e : pyexn).
Arguments Return {J A} a.
Arguments RaiseJ {J A} j.
Arguments RaiseF {J A} e.

Definition bindM {J A B} (m : M A) (k : A -> outcome J B) : outcome J B :=
  match m with Ok a => k a | Exn e => RaiseF e end.
(* try: x = m  except C: <h>   -- the handler body [h] always ends in raise *)
Definition catchM {J A B} (m : M A) (c : pyexn) (h : outcome J B) (k : A -> outcome J B) : outcome J B :=
  match m with Ok a => k a | Exn e => if pyexn_isa e c then h else RaiseF e end.

Definition mapM {A B} (f : A -> B) (m : M A) : M B := match m with Ok a => Ok (f a) | Exn e => Exn e end.
(* try: x = m  except C: <handler that either raises or re-assigns x and falls through>  ; rest(x)
   -- the handler receives the continuation of the statement *)
Definition catchM_or {J A B} (m : M A) (c : pyexn) (h : (A -> outcome J B) -> outcome J B) (k : A -> outcome J B)
  : outcome J B :=
  match m with Ok a => k a | Exn e => if pyexn_isa e c then h k else RaiseF e end.

(* what `getattr(owner, name)` is applied to in the resolver: an imported module, or a class (for nested classes) *)
Inductive owner (Mod C : Type) : Type := OMod (m : Mod) | OCls (c : C).
Arguments OMod {Mod C} m.
Arguments OCls {Mod C} c.

(* ---- dict.get(key) : None when absent; `.get` on something that is not a dict -> AttributeError *)
Fixpoint dict_get (d : list (str * jv)) (k : str) : option jv :=
  match d with
  | [] => None
  | (k', v) :: r => if str_eqb k' k then Some v else dict_get r k
  end.
Definition jv_get (data : jv) (k : str) : M jv :=
  match data with
  | JObj d => Ok (match dict_get d k with Some v => v | None => JNull end)
  | _ => Exn AttributeError
  end.

(* ---- s.rsplit(".", 1): split at the LAST separator; one piece when there is none *)
Fixpoint rsplit1 (sep : Z) (s : str) : option (str * str) :=
  match s with
  | [] => None
  | c :: r => match rsplit1 sep r with
              | Some (a, b) => Some (c :: a, b)
              | None => if Z.eqb c sep then Some ([], r) else None
              end
  end.
(* `a, b = x.rsplit(sep, 1)`: AttributeError when x is not a str (no such method),
   ValueError when unpacking one piece into two names *)
Definition sep_of (s : str) : Z := match s with [c] => c | _ => -1 end.
Definition jv_rsplit1_pair (x : jv) (sep : str) : M (str * str) :=
  match x with
  | JStr s => match rsplit1 (sep_of sep) s with Some p => Ok p | None => Exn ValueError end
  | _ => Exn AttributeError
  end.

Fixpoint str_startswith (s p : str) {struct p} : bool :=
  match p with
  | [] => true
  | c :: p' => match s with [] => false | d :: s' => Z.eqb c d && str_startswith s' p' end
  end.

(* calling the result of registry.get(...): calling None is a TypeError *)
Definition call_opt {J A F} (o : option F) (k : F -> A) : outcome J A :=
  match o with Some f => Return (k f) | None => RaiseF TypeError end.

(* ---- facts about rsplit1 used by both proof files *)
Fixpoint no_sep (sep : Z) (s : str) : bool :=
  match s with [] => true | c :: r => negb (Z.eqb c sep) && no_sep sep r end.

Lemma rsplit1_none sep s : rsplit1 sep s = None <-> no_sep sep s = true.
Proof.
  induction s as [|c r IH]; simpl.
  - split; auto.
  - destruct (rsplit1 sep r) as [[a b]|].
    + split; [discriminate|]. rewrite andb_true_iff. intros [_ H]. apply IH in H. discriminate.
    + destruct (Z.eqb c sep); simpl.
      * split; discriminate.
      * split; intros _; [apply IH|]; reflexivity.
Qed.

Lemma rsplit1_app sep m n : no_sep sep n = true -> rsplit1 sep (m ++ sep :: n) = Some (m, n).
Proof.
  intros Hn. induction m as [|c m IH]; simpl.
  - apply rsplit1_none in Hn. rewrite Hn, Z.eqb_refl. reflexivity.
  - rewrite IH. reflexivity.
Qed.

Lemma rsplit1_some sep s a b : rsplit1 sep s = Some (a, b) -> s = a ++ sep :: b /\ no_sep sep b = true.
Proof.
  revert a b. induction s as [|c r IH]; simpl; intros a b H; [discriminate|].
  destruct (rsplit1 sep r) as [[a' b']|] eqn:E.
  - injection H as <- <-. destruct (IH a' b' eq_refl) as [-> Hb]. auto.
  - destruct (Z.eqb c sep) eqn:Ec; [|discriminate]. injection H as <- <-.
    apply Z.eqb_eq in Ec. subst c. split; [reflexivity|]. now apply rsplit1_none.
Qed.

(* ---- s.split("."), ".".join(parts), `p in s` (substring) *)
Fixpoint split_dots (s : str) : list str :=
  match s with
  | [] => [[]]
  | c :: r => if Z.eqb c 46 then [] :: split_dots r
              else match split_dots r with h :: t => (c :: h) :: t | [] => [[c]] end
  end.
Fixpoint join_dots (parts : list str) : str :=
  match parts with
  | [] => []
  | [p] => p
  | p :: r => p ++ 46 :: join_dots r
  end.
Fixpoint str_contains (s p : str) : bool :=
  str_startswith s p || match s with [] => false | _ :: r => str_contains r p end.

Lemma split_dots_nonempty s : split_dots s <> [].
Proof. destruct s as [|c r]; simpl; [discriminate|]. destruct (Z.eqb c 46); [discriminate|]. destruct (split_dots r); discriminate. Qed.

Lemma join_split_dots s : join_dots (split_dots s) = s.
Proof.
  induction s as [|c r IH]; [reflexivity|]. simpl.
  destruct (Z.eqb c 46) eqn:E.
  - apply Z.eqb_eq in E. subst c. pose proof (split_dots_nonempty r) as Hn.
    destruct (split_dots r) as [|h t] eqn:Er; [contradiction|]. simpl in *. now rewrite IH.
  - pose proof (split_dots_nonempty r) as Hn.
    destruct (split_dots r) as [|h t] eqn:Er; [contradiction|].
    destruct t as [|h2 t2]; simpl in *; now rewrite <- IH.
Qed.

Lemma join_dots_cons_app p r : r <> [] -> join_dots (p :: r) = p ++ 46 :: join_dots r.
Proof. destruct r; [contradiction|reflexivity]. Qed.

(* the first piece of a string that does not start with a dot starts with the same character *)
Lemma split_dots_head c r : c <> 46 -> exists h t, split_dots (c :: r) = (c :: h) :: t.
Proof.
  intros Hc. simpl. apply Z.eqb_neq in Hc. rewrite Hc.
  destruct (split_dots r) as [|h t]; eauto.
Qed.
