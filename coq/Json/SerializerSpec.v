(* Spec of C18: the value grammar of the statement, what "comes back equal, every object an instance of exactly its
   original class" means (structural identity on [value], classes included), and the fully qualified type tag.
   Independent of the model (Json/Serializer.v, Gen/JsonResolve.v). *)
From Coq Require Import List ZArith Bool.
From Krrood Require Import Base.Sx Json.JsonVal.
Import ListNotations.
Open Scope Z_scope.

(* a class: the module it is defined in, its qualified-name path (["C"] at module level, ["Outer"; "Inner"] when nested;
   the last element is __name__), how it takes part in serialisation, and an identity for comparison *)
Inductive kind : Type :=
| KSer      (* derives (at any depth) from SubclassJSONSerializer *)
| KReg      (* third-party type with a (de)serialiser pair in JSONSerializableTypeRegistry *)
| KPlain.   (* neither: outside the statement's grammar *)
(* c_base: the builtin type the class ALSO derives from, if any (IntEnum and numpy.float64 derive from int / float, a
   namedtuple from tuple, `class Trajectory(list, SubclassJSONSerializer)` from list): such an object is an instance of a
   builtin type as well, which the dispatch of to_json looks at *)
Record cls : Type := { c_mod : str; c_qual : list str; c_kind : kind; c_id : Z; c_base : option pytype }.

(* the statement's values; P = what a user's object carries besides child values *)
Inductive value (P : Type) : Type :=
| VNone
| VBool (b : bool)
| VInt (z : Z)
| VFloat (bits : Z)
| VStr (s : str)
| VList (l : list (value P))
| VObj (c : cls) (own : P) (kids : list (value P)).
Arguments VNone {P}.
Arguments VBool {P} b.
Arguments VInt {P} z.
Arguments VFloat {P} bits.
Arguments VStr {P} s.
Arguments VList {P} l.
Arguments VObj {P} c own kids.

Section ValueInd.
  Variable P : Type.
  Variable Q : value P -> Prop.
  Hypothesis HNone : Q VNone.
  Hypothesis HBool : forall b, Q (VBool b).
  Hypothesis HInt : forall z, Q (VInt z).
  Hypothesis HFloat : forall f, Q (VFloat f).
  Hypothesis HStr : forall s, Q (VStr s).
  Hypothesis HList : forall l, Forall Q l -> Q (VList l).
  Hypothesis HObj : forall c own kids, Forall Q kids -> Q (VObj c own kids).
  Fixpoint value_ind' (v : value P) : Q v :=
    let go := fix go (l : list (value P)) : Forall Q l :=
                match l with [] => Forall_nil Q | x :: r => Forall_cons x (value_ind' x) (go r) end in
    match v with
    | VNone => HNone | VBool b => HBool b | VInt z => HInt z | VFloat f => HFloat f | VStr s => HStr s
    | VList l => HList l (go l)
    | VObj c own kids => HObj c own kids (go kids)
    end.
End ValueInd.

(* ---- the fully qualified type tag: "<module>.<qualified name>" *)
Definition qualified_tag (c : cls) : str := c_mod c ++ 46 :: join_dots (c_qual c).

(* ---- the grammar of the statement: objects are SubclassJSONSerializer instances (with child values) or instances of
   registered third-party types (no child values) *)
Fixpoint in_grammar {P} (v : value P) : bool :=
  match v with
  | VList l => forallb in_grammar l
  | VObj c _ kids =>
      match c_kind c with
      | KSer => forallb in_grammar kids
      | KReg => match kids with [] => true | _ => false end
      | KPlain => false
      end
  | _ => true
  end.

(* ---- every object node, in pre-order: what must carry a tag *)
Fixpoint objects {P} (v : value P) : list cls :=
  match v with
  | VList l => flat_map objects l
  | VObj c _ kids => c :: flat_map objects kids
  | _ => []
  end.
Definition expected_tags {P} (v : value P) : list str := map qualified_tag (objects v).

(* ---- canonical comparable form; payloads are JSON leaves / small JSON values in the correspondence check *)
Definition str_sx (s : str) : sx := SL (map SZ s).
Fixpoint jv_sx (j : jv) : sx :=
  match j with
  | JNull => SL [SZ 0]
  | JBool b => SL [SZ 1; SB b]
  | JInt z => SL [SZ 2; SZ z]
  | JFloat f => SL [SZ 3; SZ f]
  | JStr s => SL [SZ 4; str_sx s]
  | JArr l => SL [SZ 5; SL (map jv_sx l)]
  | JObj d => SL [SZ 7; SL (map (fun kv => SL [str_sx (fst kv); jv_sx (snd kv)]) d)]
  end.
Fixpoint value_sx (v : value jv) : sx :=
  match v with
  | VNone => SL [SZ 0]
  | VBool b => SL [SZ 1; SB b]
  | VInt z => SL [SZ 2; SZ z]
  | VFloat f => SL [SZ 3; SZ f]
  | VStr s => SL [SZ 4; str_sx s]
  | VList l => SL [SZ 5; SL (map value_sx l)]
  | VObj c own kids => SL [SZ 6; SZ (c_id c); jv_sx own; SL (map value_sx kids)]
  end.

(* the property's right-hand side for one value: it comes back as itself, and the text carried these tags *)
Definition spec_round_trip (v : value jv) : sx := SL [SZ 0; value_sx v; SL (map str_sx (expected_tags v))].
Definition rt_code_spec (v : value jv) (impl : sx) : Z := if sx_eqb impl (spec_round_trip v) then 0 else 3.
