(* Model of to_json / from_json (C18).
   Dispatch is the translated code (Gen/JsonResolve.v: [to_json_dispatch], [from_json_chain], [base_to_json_fields],
   [get_full_class_name]); recursion, the class world and the calls into user code are written here.

   World: the list of defined classes, each with its module and its qualified-name path.  The namespace of module m binds a
   class of m with path [n] under n; the namespace of a class with path p binds the class of the same module with path
   p ++ [n] under n (Python binds `class C` in the enclosing scope).  A class defined inside a function has "<locals>" in
   its path and is bound nowhere.  importlib / getattr / issubclass / the registry are instantiated from the world, and
   _resolve_enclosing_class is the hand model [enclosing] of Json/Resolve.v over them.

   User code (Section variables): for a SubclassJSONSerializer class c,
     ufields c own kj   what c.to_json adds to super().to_json(), given the payload and the serialised child values
     usplit  c d        what c._from_json reads back from the dict: the payload and the children's JSON
                        (it then calls from_json on each child and builds cls(own, kids))
   and for a registered type t:  rser t p (the whole dict), rdeser t d.                                               *)
From Coq Require Import List ZArith Bool Lia.
From Krrood Require Import Base.Sx Json.JsonVal Json.ResolveSpec Json.SerializerSpec Gen.JsonResolve Json.Resolve.
Import ListNotations.
Open Scope Z_scope.

Definition kind_eqb (a b : kind) : bool :=
  match a, b with KSer, KSer | KReg, KReg | KPlain, KPlain => true | _, _ => false end.
Fixpoint strs_eqb (a b : list str) : bool :=
  match a, b with
  | [], [] => true
  | x :: a', y :: b' => str_eqb x y && strs_eqb a' b'
  | _, _ => false
  end.
Definition base_eqb (a b : option pytype) : bool :=
  match a, b with Some x, Some y => pytype_eqb x y | None, None => true | _, _ => false end.
Definition cls_eqb (a b : cls) : bool :=
  str_eqb (c_mod a) (c_mod b) && strs_eqb (c_qual a) (c_qual b) && kind_eqb (c_kind a) (c_kind b) && Z.eqb (c_id a) (c_id b)
  && base_eqb (c_base a) (c_base b).

Definition cname (c : cls) : str := last (c_qual c) [].                    (* cls.__name__ *)
Definition cqualname (c : cls) : str := join_dots (c_qual c).              (* cls.__qualname__ *)
Definition full_name (c : cls) : str := get_full_class_name (c_mod c) (cname c) (cqualname c).
Definition LOCALS : str := [60; 108; 111; 99; 97; 108; 115; 62].           (* "<locals>" *)
Definition is_local (c : cls) : bool := str_contains (cqualname c) LOCALS.

(* ---- the import machinery over a world *)
Definition world := list cls.
Definition lookup (w : world) (m : str) (path : list str) : option cls :=
  find (fun c => str_eqb (c_mod c) m && strs_eqb (c_qual c) path) w.
Definition module_exists (w : world) (m : str) : bool := existsb (fun c => str_eqb (c_mod c) m) w.
Definition w_import (w : world) (s : str) : M str :=
  match s with
  | [] => Exn ValueError
  | _ => if str_startswith s [DOT] then Exn TypeError
         else if module_exists w s then Ok s else Exn ModuleNotFoundError
  end.
Definition w_getattr (w : world) (o : owner str cls) (n : str) : M cls :=
  match (match o with
         | OMod m => lookup w m [n]
         | OCls c => lookup w (c_mod c) (c_qual c ++ [n])
         end) with
  | Some c => Ok c
  | None => Exn AttributeError
  end.
Definition w_is_type (c : cls) : bool := true.
Definition w_issubclass (c : cls) : M bool := Ok (kind_eqb (c_kind c) KSer).
Definition w_deserializer (c : cls) : option cls := if kind_eqb (c_kind c) KReg then Some c else None.

Definition w_chain (w : world) : jv -> outcome jerr (fj_action cls cls) :=
  chain str cls cls (w_import w) (w_getattr w) w_is_type w_issubclass w_deserializer.

(* the C19 decision table read on this world: what a tag resolves to *)
Definition w_table (w : world) (tag : option jv) : resolution cls cls :=
  resolve_spec str cls cls (view_module str (w_import w)) (view_attr str cls (w_getattr w)) w_is_type
    (view_subclass cls w_issubclass) w_deserializer tag.

(* modelled step: json.loads (json.dumps j) = j on this value type (CPython's json; compared on every case) *)
Definition json_text (j : jv) : jv := j.

Fixpoint sequence {J A} (l : list (outcome J A)) : outcome J (list A) :=
  match l with
  | [] => Return []
  | x :: r => match x with
              | Return a => match sequence r with Return l' => Return (a :: l') | RaiseJ j => RaiseJ j | RaiseF e => RaiseF e end
              | RaiseJ j => RaiseJ j
              | RaiseF e => RaiseF e
              end
  end.
Fixpoint sequence_opt {J A} (l : list (option (outcome J A))) : option (outcome J (list A)) :=
  match l with
  | [] => Some (Return [])
  | x :: r => match x with
              | None => None
              | Some (Return a) => match sequence_opt r with
                                   | Some (Return l') => Some (Return (a :: l'))
                                   | o => o
                                   end
              | Some (RaiseJ j) => Some (RaiseJ j)
              | Some (RaiseF e) => Some (RaiseF e)
              end
  end.

Section Serializer.
  Variable P : Type.
  Variable ufields : cls -> P -> list jv -> list (str * jv).
  Variable usplit : cls -> list (str * jv) -> option (P * list jv).
  Variable rser : cls -> P -> list (str * jv).
  Variable rdeser : cls -> list (str * jv) -> option P.
  (* for objects that are also instances of a builtin type: the builtin value json sees for an int / float / str-derived
     object, and the (leaf) items of a registered list / tuple / set-derived object; the items of a list-derived
     SubclassJSONSerializer object are its child values *)
  Variable as_leaf : P -> jv.
  Variable as_items : P -> list jv.

  (* isinstance(obj, <tuple of builtin types>) on a Python value *)
  Definition value_isinstance (v : value P) (ts : list pytype) : bool :=
    match v with
    | VNone => type_isinstance TNoneType ts
    | VBool _ => type_isinstance Tbool ts
    | VInt _ => type_isinstance Tint ts
    | VFloat _ => type_isinstance Tfloat ts
    | VStr _ => type_isinstance Tstr ts
    | VList _ => type_isinstance Tlist ts
    | VObj c _ _ => match c_base c with Some t => type_isinstance t ts | None => false end
    end.
  Definition value_is_ser (v : value P) : bool :=
    match v with VObj c _ _ => kind_eqb (c_kind c) KSer | _ => false end.
  Definition value_serializer (v : value P) : option cls :=
    match v with VObj c _ _ => if kind_eqb (c_kind c) KReg then Some c else None | _ => None end.

  Definition dispatch := to_json_dispatch (value P) cls value_isinstance value_is_ser value_serializer.

  Definition leaf_json (v : value P) : outcome jerr jv :=
    match v with
    | VNone => Return JNull | VBool b => Return (JBool b) | VInt z => Return (JInt z)
    | VFloat f => Return (JFloat f) | VStr s => Return (JStr s)
    | VObj _ own _ => Return (as_leaf own)   (* an object that is an int / float / str instance is handed to json as it is *)
    | VList _ => RaiseF Exception_           (* unreachable: a list is never an instance of a leaf type *)
    end.

  Definition lift_arr (o : outcome jerr (list jv)) : outcome jerr jv :=
    match o with Return l => Return (JArr l) | RaiseJ j => RaiseJ j | RaiseF e => RaiseF e end.

  Fixpoint to_json (v : value P) : outcome jerr jv :=
    match dispatch v with
    | Return TJ_ReturnObj => leaf_json v
    | Return TJ_MapToJson =>
        match v with
        | VList l => lift_arr (sequence (map to_json l))
        | VObj c own kids =>          (* an object that is a list / tuple / set instance: [to_json(item) for item in obj] *)
            match c_kind c with
            | KReg => Return (JArr (as_items own))
            | _ => lift_arr (sequence (map to_json kids))
            end
        | _ => RaiseF Exception_
        end
    | Return TJ_CallMethod =>
        match v with
        | VObj c own kids =>
            (* the class's to_json first calls super().to_json() (header dict or refusal), then serialises the children *)
            match base_to_json (c_mod c) (cname c) (cqualname c) with
            | Return header =>
                match sequence (map to_json kids) with
                | Return kj => Return (JObj (header ++ ufields c own kj))
                | RaiseJ j => RaiseJ j
                | RaiseF e => RaiseF e
                end
            | RaiseJ j => RaiseJ j
            | RaiseF e => RaiseF e
            end
        | _ => RaiseF Exception_
        end
    | Return (TJ_CallSer t) =>
        match v with
        | VObj _ own _ => Return (JObj (rser t own))
        | _ => RaiseF Exception_
        end
    | RaiseJ j => RaiseJ j
    | RaiseF e => RaiseF e
    end.

  Definition leaf_value (j : jv) : outcome jerr (value P) :=
    match j with
    | JNull => Return VNone | JBool b => Return (VBool b) | JInt z => Return (VInt z)
    | JFloat f => Return (VFloat f) | JStr s => Return (VStr s)
    | _ => RaiseF Exception_
    end.

  Definition lift_list (o : option (outcome jerr (list (value P)))) : option (outcome jerr (value P)) :=
    match o with
    | None => None
    | Some (Return l) => Some (Return (VList l))
    | Some (RaiseJ j) => Some (RaiseJ j)
    | Some (RaiseF e) => Some (RaiseF e)
    end.

  (* None = out of fuel (the recursion follows what user code hands back, so it is bounded explicitly) *)
  Fixpoint from_json (w : world) (fuel : nat) (j : jv) : option (outcome jerr (value P)) :=
    match fuel with
    | O => None
    | S f =>
        match w_chain w j with
        | Return FJ_ReturnData => Some (leaf_value j)
        | Return FJ_MapFromJson =>
            match j with
            | JArr l => lift_list (sequence_opt (map (from_json w f) l))
            | _ => Some (RaiseF Exception_)
            end
        | Return (FJ_CallClass c) =>
            match j with
            | JObj d =>
                match usplit c d with
                | Some (own, kj) =>
                    match sequence_opt (map (from_json w f) kj) with
                    | None => None
                    | Some (Return kids) => Some (Return (VObj c own kids))
                    | Some (RaiseJ e) => Some (RaiseJ e)
                    | Some (RaiseF e) => Some (RaiseF e)
                    end
                | None => Some (RaiseF KeyError)        (* the user's _from_json could not read its own dict *)
                end
            | _ => Some (RaiseF Exception_)
            end
        | Return (FJ_CallDeser t) =>
            match j with
            | JObj d => match rdeser t d with
                        | Some p => Some (Return (VObj t p []))
                        | None => Some (RaiseF KeyError)
                        end
            | _ => Some (RaiseF Exception_)
            end
        | RaiseJ e => Some (RaiseJ e)
        | RaiseF e => Some (RaiseF e)
        end
    end.

  (* the whole path of the property *)
  Definition round_trip (w : world) (fuel : nat) (v : value P) : option (outcome jerr (value P)) :=
    match to_json v with
    | Return j => from_json w fuel (json_text j)
    | RaiseJ e => Some (RaiseJ e)
    | RaiseF e => Some (RaiseF e)
    end.
End Serializer.

Fixpoint value_depth {P} (v : value P) : nat :=
  match v with
  | VList l => S (fold_right Nat.max O (map value_depth l))
  | VObj _ _ kids => S (fold_right Nat.max O (map value_depth kids))
  | _ => 1%nat
  end.

(* every type tag in a JSON text, in pre-order *)
Fixpoint jv_tags (j : jv) : list str :=
  match j with
  | JArr l => flat_map jv_tags l
  | JObj d =>
      (match dict_get d JSON_TYPE_NAME with Some (JStr s) => [s] | _ => [] end)
      ++ flat_map (fun kv => jv_tags (snd kv)) d
  | _ => []
  end.

(* ---- the fragment F of the round-trip theorem: the class is not function-local, and its own tag names it (classes that also
   derive from a builtin type are inside F since 8efc58f: to_json asks serialisers before the builtin leaf / list tests) -- i.e. the
   C19 decision table, read on this world, resolves "<module>.<qualified name>" to the class itself
   (C18_fragment_is_named_classes gives the structural conditions under which that holds) *)
Definition names_itself (w : world) (c : cls) : bool :=
  match w_table w (Some (JStr (full_name c))) with
  | RByClass c' => cls_eqb c' c && kind_eqb (c_kind c) KSer
  | RByRegistry c' _ => cls_eqb c' c && kind_eqb (c_kind c) KReg
  | RError _ => false
  end.
Definition cls_ok (w : world) (c : cls) : bool := negb (is_local c) && names_itself w c.
Definition value_ok {P} (w : world) (v : value P) : bool := in_grammar v && forallb (cls_ok w) (objects v).

(* ---- sample user code = the classes of the correspondence harness (harness/c18.py), payload = a JSON value *)
Definition K_OWN : str := [111; 119; 110].                 (* "own" *)
Definition K_KIDS : str := [107; 105; 100; 115].           (* "kids" *)
Definition K_PAYLOAD : str := [112; 97; 121; 108; 111; 97; 100].   (* "payload" *)
Definition K_CHILDREN : str := [99; 104; 105; 108; 100; 114; 101; 110].  (* "children" *)
Definition K_VALUE : str := [118; 97; 108; 117; 101].      (* "value" *)
(* layout 0: {tag, "own": own, "kids": [..]}      layout 1: {tag, "children": [..], "payload": own}  (by parity of the id) *)
Definition s_ufields (c : cls) (own : jv) (kj : list jv) : list (str * jv) :=
  if Z.even (c_id c) then [(K_OWN, own); (K_KIDS, JArr kj)] else [(K_CHILDREN, JArr kj); (K_PAYLOAD, own)].
Definition s_usplit (c : cls) (d : list (str * jv)) : option (jv * list jv) :=
  if Z.even (c_id c)
  then match dict_get d K_OWN, dict_get d K_KIDS with Some o, Some (JArr kj) => Some (o, kj) | _, _ => None end
  else match dict_get d K_PAYLOAD, dict_get d K_CHILDREN with Some o, Some (JArr kj) => Some (o, kj) | _, _ => None end.
(* registered types: {tag, "value": payload}; for uuid.UUID this is serialize_uuid / deserialize_uuid *)
Definition s_rser (t : cls) (p : jv) : list (str * jv) :=
  [(JSON_TYPE_NAME, JStr (full_name t)); (K_VALUE, p)].
Definition s_rdeser (t : cls) (d : list (str * jv)) : option jv := dict_get d deserialize_uuid_key.

Definition s_as_leaf (own : jv) : jv := own.
Definition s_as_items (own : jv) : list jv := match own with JArr l => l | _ => [] end.

Definition outcome_value_sx (o : option (outcome jerr (value jv))) (tags : list str) : sx :=
  match o with
  | None => SL [SZ 40]
  | Some (Return v) => SL [SZ 0; value_sx v; SL (map str_sx tags)]
  | Some (RaiseJ e) => SL [SZ 20; SZ (jerr_code e)]
  | Some (RaiseF e) => SL [SZ 30; SZ (pyexn_code e)]
  end.

Definition model_round_trip (w : world) (v : value jv) : sx :=
  match to_json jv s_ufields s_rser s_as_leaf s_as_items v with
  | Return j => outcome_value_sx (from_json jv s_usplit s_rdeser w (S (S (value_depth v))) (json_text j)) (jv_tags j)
  | RaiseJ e => SL [SZ 20; SZ (jerr_code e)]
  | RaiseF e => SL [SZ 30; SZ (pyexn_code e)]
  end.

Definition rt_code (w : world) (v : value jv) (impl : sx) : Z := classify impl (model_round_trip w v) (spec_round_trip v).
