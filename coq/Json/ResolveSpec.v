(* Spec of C19: what deserialising a JSON document must do, as a decision table over its type tag.
   Independent of the model (Gen/JsonResolve.v, Json/Resolve.v): only the data types of JsonVal.v are used, and the
   string split / falsiness are restated here in their own terms.

   The world is given by pure views: which module names the importer finds, which attributes a module has, which
   attributes are classes, which classes derive from SubclassJSONSerializer (and implement _from_json), which classes
   have a registered deserialiser.

   doc_err are the documented errors (the JSONSerializationError subclasses a deserialisation may raise):
     EMissing            the tag is absent or null
   (a present tag of the wrong JSON type -- 0, false, [], {} included -- and "" are EInvalidFormat: the property text lists
   "missing", "malformed" and "of the wrong JSON type" as different problems, and the error must identify the problem)
     EInvalidFormat      the tag is not a string "<owner>.<name>" with a non-empty, non-relative owner part
     EUnknownModule      the owner part is not "<importable module>[.<class>.<class>...]"
     EClassNotFound      the owner has no such attribute, or the attribute is not a class
   The tag format is the QUALIFIED name (since 70c605d): "<module>.<qualified class name>", so the part before the last dot
   names a module or a class nested in classes of a module.  The module is the LONGEST importable dotted prefix of the owner
   part; the names after it are followed as attributes through classes only.
     ENotDeserializable  the class is neither a SubclassJSONSerializer (with a _from_json) nor registered *)
From Coq Require Import List ZArith Bool.
From Krrood Require Import Base.Sx Json.JsonVal.
Import ListNotations.
Open Scope Z_scope.

Inductive doc_err : Type := EMissing | EInvalidFormat | EUnknownModule | EClassNotFound | ENotDeserializable.
Definition doc_err_code (e : doc_err) : Z :=
  match e with EMissing => 1 | EInvalidFormat => 2 | EUnknownModule => 3 | EClassNotFound => 4 | ENotDeserializable => 6 end.

(* what a resolution may be *)
Inductive resolution (C D : Type) : Type :=
| RByClass (c : C)        (* the instance is built by c._from_json, c the class the tag names *)
| RByRegistry (c : C) (d : D)  (* ... by the deserialiser d registered for exactly the class c the tag names *)
| RError (e : doc_err).
Arguments RByClass {C D} c.
Arguments RByRegistry {C D} c d.
Arguments RError {C D} e.

(* a JSON value that Python treats as false: null, false, 0, 0.0, -0.0, "", [], {} *)
Definition falsy (t : jv) : bool :=
  match t with
  | JNull => true
  | JBool b => negb b
  | JInt z => Z.eqb z 0
  | JFloat f => Z.eqb f 0 || Z.eqb f 9223372036854775808
  | JStr [] => true
  | JArr [] => true
  | JObj [] => true
  | _ => false
  end.

Definition is_null (t : jv) : bool := match t with JNull => true | _ => false end.
(* present, falsy, but not null: 0, 0.0, -0.0, false, "", [], {}  (the class of finding C19-e) *)
Definition K_falsy_present (tag : option jv) : bool :=
  match tag with Some t => falsy t && negb (is_null t) | None => false end.

(* "<module>.<name>": split at the last dot, stated through list reversal *)
Fixpoint take_until_dot (s : str) : option (str * str) :=   (* (before first dot, after it) *)
  match s with
  | [] => None
  | c :: r => if Z.eqb c 46 then Some ([], r)
              else match take_until_dot r with Some (a, b) => Some (c :: a, b) | None => None end
  end.
Definition split_last_dot (s : str) : option (str * str) :=
  match take_until_dot (rev s) with
  | Some (n_rev, m_rev) => Some (rev m_rev, rev n_rev)
  | None => None
  end.
Definition module_part_ok (m : str) : bool :=
  match m with [] => false | c :: _ => negb (Z.eqb c 46) end.

Section Spec.
  Variables (Mod C D : Type).
  Variable find_module : str -> option Mod.
  Variable attribute : owner Mod C -> str -> option C.   (* attribute of a module or of a class *)
  Variable is_class : C -> bool.
  Variable deserialisable_subclass : C -> bool.   (* derives from SubclassJSONSerializer and implements _from_json *)
  Variable registered : C -> option D.

  (* follow names as attributes, through classes only *)
  Fixpoint through_classes (o : owner Mod C) (names : list str) : option (owner Mod C) :=
    match names with
    | [] => Some o
    | n :: r => match attribute o n with
                | Some c => if is_class c then through_classes (OCls c) r else None
                | None => None
                end
    end.
  (* the longest importable prefix of at most k dotted names, then the remaining names through classes *)
  Fixpoint owner_from (names : list str) (k : nat) : option (owner Mod C) :=
    match k with
    | O => None
    | S k' => match find_module (join_dots (firstn k names)) with
              | Some m => through_classes (OMod m) (skipn k names)
              | None => owner_from names k'
              end
    end.
  Definition owner_of (owner_part : str) : option (owner Mod C) :=
    let names := split_dots owner_part in owner_from names (length names).

  (* [tag]: None = the document has no type-tag key *)
  Definition resolve_spec (tag : option jv) : resolution C D :=
    match tag with
    | None => RError EMissing
    | Some t =>
        if is_null t then RError EMissing else
        match t with
        | JStr s =>
            match split_last_dot s with
            | None => RError EInvalidFormat
            | Some (m, n) =>
                if negb (module_part_ok m) then RError EInvalidFormat else
                match owner_of m with
                | None => RError EUnknownModule
                | Some o =>
                    match attribute o n with
                    | None => RError EClassNotFound
                    | Some c =>
                        if negb (is_class c) then RError EClassNotFound
                        else if deserialisable_subclass c then RByClass c
                        else match registered c with
                             | Some d => RByRegistry c d
                             | None => RError ENotDeserializable
                             end
                    end
                end
            end
        | _ => RError EInvalidFormat
        end
    end.
End Spec.

(* canonical comparable form (class / deserialiser identities are integers in the correspondence check) *)
Definition resolution_sx (r : resolution Z Z) : sx :=
  match r with
  | RByClass c => SL [SZ 10; SZ c]
  | RByRegistry c d => SL [SZ 11; SZ c; SZ d]
  | RError e => SL [SZ 20; SZ (doc_err_code e)]
  end.

(* ---- pure views of exception-raising oracles: the world as the Spec sees it *)
Section Views.
  Variables (Mod C : Type).
  Variable import_module : str -> M Mod.
  Variable getattr_ : owner Mod C -> str -> M C.
  Variable issubclass_ser : C -> M bool.
  Variable implements_from_json : C -> bool.
  Definition view_module (s : str) : option Mod := match import_module s with Ok m => Some m | Exn _ => None end.
  Definition view_attr (o : owner Mod C) (n : str) : option C := match getattr_ o n with Ok c => Some c | Exn _ => None end.
  Definition view_subclass (c : C) : bool := match issubclass_ser c with Ok b => b | Exn _ => false end.
  Definition view_deserialisable (c : C) : bool := view_subclass c && implements_from_json c.
End Views.

(* ---- executable instance for the correspondence check: every oracle is the table of what the harness observed when it
   asked the real importlib / getattr / isinstance / issubclass / registry the same question *)
Definition mres (A : Type) := M A.
Record rcase : Type := {
  rc_has_tag : bool;                          (* is the key present in the document *)
  rc_tag : jv;                                (* its value *)
  rc_extra : list (str * jv);                 (* the other keys of the document *)
  rc_imports : list (str * M Z);              (* module name asked -> module id | exception *)
  rc_attrs : list (Z * str * M Z);            (* (id of the module or class asked, attribute name) -> object id | exception *)
  rc_types : list Z;                          (* object ids that are classes *)
  rc_subs : list (Z * M bool);                (* issubclass(obj, SubclassJSONSerializer) *)
  rc_regs : list (Z * Z);                     (* class id -> registered deserialiser id *)
  rc_impl : list Z                            (* class ids that implement _from_json *)
}.

Fixpoint assoc_str {A} (l : list (str * A)) (k : str) : option A :=
  match l with [] => None | (k', v) :: r => if str_eqb k' k then Some v else assoc_str r k end.
Fixpoint assoc_z {A} (l : list (Z * A)) (k : Z) : option A :=
  match l with [] => None | (k', v) :: r => if Z.eqb k' k then Some v else assoc_z r k end.
Fixpoint assoc_zs {A} (l : list (Z * str * A)) (k : Z) (s : str) : option A :=
  match l with [] => None | (k', s', v) :: r => if Z.eqb k' k && str_eqb s' s then Some v else assoc_zs r k s end.
Definition memz (l : list Z) (k : Z) : bool := existsb (Z.eqb k) l.

(* a question the harness did not anticipate gets the answer -1 / KeyError, which no real run produces *)
Definition rc_import (c : rcase) (s : str) : M Z := match assoc_str (rc_imports c) s with Some r => r | None => Exn KeyError end.
Definition owner_id (o : owner Z Z) : Z := match o with OMod m => m | OCls k => k end.   (* one id space for all objects *)
Definition rc_getattr (c : rcase) (o : owner Z Z) (n : str) : M Z :=
  match assoc_zs (rc_attrs c) (owner_id o) n with Some r => r | None => Exn KeyError end.
Definition rc_issub (c : rcase) (o : Z) : M bool := match assoc_z (rc_subs c) o with Some r => r | None => Exn KeyError end.
Definition spec_rcase (c : rcase) : sx :=
  match resolve_spec Z Z Z
          (view_module Z (rc_import c)) (view_attr Z Z (rc_getattr c)) (memz (rc_types c))
          (view_deserialisable Z (rc_issub c) (memz (rc_impl c))) (assoc_z (rc_regs c))
          (if rc_has_tag c then Some (rc_tag c) else None) with
  | RByClass k => SL [SZ 10; SZ k]
  | RByRegistry _ d => SL [SZ 11; SZ d]
  | RError e => SL [SZ 20; SZ (doc_err_code e)]
  end.


(* comparison against the Spec alone (used when the model cannot be built) *)
Definition rcase_code_spec (c : rcase) (impl : sx) : Z := if sx_eqb impl (spec_rcase c) then 0 else 3.
