(* Proofs for C19: the translated guard chain of SubclassJSONSerializer.from_json meets the decision table of
   ResolveSpec.v for every JSON value under the tag key and every documented behaviour of the import machinery. *)
From Coq Require Import List ZArith Bool Lia.
From Krrood Require Import Base.Sx Json.JsonVal Json.ResolveSpec Gen.JsonResolve Json.Resolve.
Import ListNotations.
Open Scope Z_scope.

(* ---- the two formulations of "split at the last dot" agree *)
Lemma take_until_dot_app a b : no_sep 46 a = true -> take_until_dot (a ++ 46 :: b) = Some (a, b).
Proof.
  induction a as [|c a IH]; simpl; intros H; [reflexivity|].
  apply andb_true_iff in H as [Hc Ha]. apply negb_true_iff in Hc. rewrite Hc, (IH Ha). reflexivity.
Qed.

Lemma take_until_dot_none a : no_sep 46 a = true -> take_until_dot a = None.
Proof.
  induction a as [|c a IH]; simpl; intros H; [reflexivity|].
  apply andb_true_iff in H as [Hc Ha]. apply negb_true_iff in Hc. rewrite Hc, (IH Ha). reflexivity.
Qed.

Lemma no_sep_app sep a b : no_sep sep (a ++ b) = no_sep sep a && no_sep sep b.
Proof. induction a as [|c a IH]; simpl; [reflexivity|]. rewrite IH, andb_assoc. reflexivity. Qed.

Lemma no_sep_rev sep a : no_sep sep (rev a) = no_sep sep a.
Proof.
  induction a as [|c a IH]; simpl; [reflexivity|].
  rewrite no_sep_app, IH. simpl. rewrite andb_true_r, andb_comm. reflexivity.
Qed.

Lemma split_last_dot_rsplit1 s : split_last_dot s = rsplit1 46 s.
Proof.
  unfold split_last_dot. destruct (rsplit1 46 s) as [[a b]|] eqn:E.
  - apply rsplit1_some in E as [-> Hb].
    rewrite rev_app_distr. simpl. rewrite <- app_assoc. simpl.
    rewrite take_until_dot_app by (now rewrite no_sep_rev).
    rewrite !rev_involutive. reflexivity.
  - apply rsplit1_none in E. rewrite take_until_dot_none by (now rewrite no_sep_rev). reflexivity.
Qed.

Lemma falsy_truthy t : falsy t = negb (jv_truthy t).
Proof.
  destruct t as [|b|z|f|s|l|d]; simpl; try reflexivity.
  - now rewrite negb_involutive.
  - unfold float_is_zero. now rewrite negb_involutive.
  - now destruct s.
  - now destruct l.
  - now destruct d.
Qed.

Lemma module_part_ok_spec m : module_part_ok m = negb (negb (str_truthy m) || str_startswith m [46]).
Proof.
  destruct m as [|c m]; [reflexivity|].
  unfold module_part_ok, str_truthy, str_startswith. rewrite andb_true_r. simpl negb. simpl orb. now rewrite Z.eqb_sym.
Qed.

Definition jerr_of_doc (e : doc_err) : jerr :=
  match e with
  | EMissing => MissingTypeError | EInvalidFormat => InvalidTypeFormatError | EUnknownModule => UnknownModuleError
  | EClassNotFound => ClassNotFoundError | ENotDeserializable => ClassNotDeserializableError
  end.

Lemma jerr_of_doc_code e : jerr_code (jerr_of_doc e) = doc_err_code e.
Proof. now destruct e. Qed.

Section Proofs.
  Variables (pymodule pyclass pydeser : Type).
  Variable import_module : str -> M pymodule.
  Variable getattr_ : owner pymodule pyclass -> str -> M pyclass.
  Variable is_type : pyclass -> bool.
  Variable issubclass_ser : pyclass -> M bool.
  Variable get_deserializer : pyclass -> option pydeser.
  Variable implements_from_json : pyclass -> bool.

  Notation chain := (chain pymodule pyclass pydeser import_module getattr_ is_type issubclass_ser get_deserializer).
  Notation resolve := (resolve pymodule pyclass pydeser import_module getattr_ is_type issubclass_ser get_deserializer implements_from_json).
  Notation K_abstract := (K_abstract pymodule pyclass pydeser import_module getattr_ is_type issubclass_ser get_deserializer implements_from_json).
  Notation K_abstract_registered := (K_abstract_registered pymodule pyclass pydeser import_module getattr_ is_type issubclass_ser get_deserializer implements_from_json).

  Hypothesis Himp : importer_documented pymodule import_module.
  Hypothesis Hattr : getattr_documented pymodule pyclass getattr_.
  Hypothesis Hsub : issubclass_documented pyclass is_type issubclass_ser.

  Definition outcome_of (r : resolution pyclass pydeser) : outcome jerr (fj_action pyclass pydeser) :=
    match r with
    | RByClass c => Return (FJ_CallClass c)
    | RByRegistry _ d => Return (FJ_CallDeser d)
    | RError e => RaiseJ (jerr_of_doc e)
    end.

  (* the Spec's table, read with "subclass" for the column "deserialisable subclass": what the chain alone decides *)
  Definition chain_spec (tag : option jv) : resolution pyclass pydeser :=
    resolve_spec pymodule pyclass pydeser (view_module pymodule import_module) (view_attr pymodule pyclass getattr_)
      is_type (view_subclass pyclass issubclass_ser) get_deserializer tag.
  Definition full_spec (tag : option jv) : resolution pyclass pydeser :=
    resolve_spec pymodule pyclass pydeser (view_module pymodule import_module) (view_attr pymodule pyclass getattr_)
      is_type (view_deserialisable pyclass issubclass_ser implements_from_json) get_deserializer tag.

  (* ---- the hand model of _resolve_enclosing_class meets the Spec's "longest importable prefix, then through classes" *)
  Notation vmod := (view_module pymodule import_module).
  Notation vattr := (view_attr pymodule pyclass getattr_).
  Notation walk_classes := (walk_classes pymodule pyclass getattr_ is_type).
  Notation try_prefixes := (try_prefixes pymodule pyclass import_module getattr_ is_type).
  Notation enclosing := (enclosing pymodule pyclass import_module getattr_ is_type).
  Notation through_classes := (through_classes pymodule pyclass vattr is_type).
  Notation owner_from := (owner_from pymodule pyclass vmod vattr is_type).
  Notation owner_of := (owner_of pymodule pyclass vmod vattr is_type).

  Lemma walk_through o names : forall o', o' = o -> walk_classes o' names = Ok (through_classes o names).
  Proof.
    revert o. induction names as [|n r IH]; intros o o' ->; [reflexivity|].
    simpl. unfold view_attr. destruct (getattr_ o n) as [c|e] eqn:E.
    - destruct (is_type c); [apply IH; reflexivity | reflexivity].
    - rewrite (Hattr o n e E). reflexivity.
  Qed.

  (* a dotted prefix of a name that starts with a non-dot character starts with that character: the importer is never
     asked for "" or for a relative name *)
  Lemma prefix_head c r k : c <> 46 -> exists tl, join_dots (firstn (S k) (split_dots (c :: r))) = c :: tl.
  Proof.
    intros Hc. destruct (split_dots_head c r Hc) as [h [t ->]]. simpl firstn.
    match goal with |- context [@firstn ?A k t] => destruct (@firstn A k t) as [|x xs] end.
    - exists h. reflexivity.
    - exists (h ++ 46 :: join_dots (x :: xs)). reflexivity.
  Qed.

  Lemma import_found_or_not p c tl : p = c :: tl -> c <> 46 ->
    (exists md, import_module p = Ok md) \/ (exists e, import_module p = Exn e /\ pyexn_isa e ImportError = true).
  Proof.
    intros -> Hc. destruct (import_module (c :: tl)) as [md|e] eqn:E; [left; eauto|right].
    exists e. split; [reflexivity|].
    destruct (Himp _ _ E) as [->|[->|[[_ H]|[_ H]]]]; [reflexivity|reflexivity|discriminate|].
    change (str_startswith (c :: tl) [DOT]) with (Z.eqb DOT c && true) in H.
    apply andb_true_iff in H as [H _]. apply Z.eqb_eq in H. unfold DOT in H. congruence.
  Qed.

  Lemma try_prefixes_owner_from c r k :
    c <> 46 -> try_prefixes (split_dots (c :: r)) k = Ok (owner_from (split_dots (c :: r)) k).
  Proof.
    intros Hc. induction k as [|k IH]; [reflexivity|].
    destruct (prefix_head c r k Hc) as [tl Hp].
    cbn [Resolve.try_prefixes ResolveSpec.owner_from]. unfold view_module at 1.
    destruct (import_found_or_not _ c tl Hp Hc) as [[md Hm]|[e [Hm He]]]; rewrite Hm.
    - apply walk_through. reflexivity.
    - rewrite He. exact IH.
  Qed.

  (* the owner-resolution step of the chain, for a well-formed owner part *)
  Lemma owner_step (B : Type) m (K : owner pymodule pyclass -> outcome jerr B) :
    negb (str_truthy m) || str_startswith m [46] = false ->
    catchM_or (mapM OMod (import_module m)) ImportError
      (fun k => match enclosing m with Ok (Some x) => k x | Ok None => RaiseJ UnknownModuleError | Exn e => RaiseF e end) K
    = match owner_of m with Some o => K o | None => RaiseJ UnknownModuleError end.
  Proof.
    intros Hg. destruct m as [|c r]; [discriminate|].
    assert (Hc : c <> 46).
    { change (negb (str_truthy (c :: r)) || str_startswith (c :: r) [46]) with (Z.eqb 46 c && true) in Hg.
      intros ->. discriminate. }
    unfold ResolveSpec.owner_of, Resolve.enclosing.
    set (names := split_dots (c :: r)).
    assert (Hlen : exists l, length names = S l).
    { pose proof (split_dots_nonempty (c :: r)) as Hn. fold names in Hn. destruct names; [contradiction|]. simpl. eauto. }
    destruct Hlen as [l Hl]. rewrite Hl. replace (S l - 1)%nat with l by (simpl; rewrite Nat.sub_0_r; reflexivity).
    cbn [ResolveSpec.owner_from]. rewrite <- Hl, firstn_all, skipn_all.
    replace (join_dots names) with (c :: r) by (unfold names; symmetry; apply join_split_dots).
    unfold view_module at 1. cbn [ResolveSpec.through_classes].
    destruct (import_found_or_not (c :: r) c r eq_refl Hc) as [[md Hm]|[e [Hm He]]]; rewrite Hm; unfold catchM_or, mapM.
    - reflexivity.
    - rewrite He. unfold names. rewrite (try_prefixes_owner_from c r l Hc).
      reflexivity.
  Qed.

  (* leaves and arrays never reach the tag logic *)
  Lemma chain_leaf data :
    match data with JObj _ | JArr _ => False | _ => True end -> chain data = Return FJ_ReturnData.
  Proof. destruct data; simpl; intros H; try contradiction; reflexivity. Qed.

  Lemma chain_arr l : chain (JArr l) = Return FJ_MapFromJson.
  Proof. reflexivity. Qed.

  (* the translated chain on a dict = the decision table on the value under the tag key (JNull when absent) *)
  Definition tagval (d : list (str * jv)) : jv := match dict_get d JSON_TYPE_NAME with Some v => v | None => JNull end.

  Lemma chain_obj_tag d : chain (JObj d) = outcome_of (chain_spec (Some (tagval d))).
  Proof.
    unfold chain, from_json_chain, chain_spec, resolve_spec.
    change (jv_isinstance (JObj d) leaf_types) with false.
    change (jv_isinstance (JObj d) list_like_classes) with false.
    cbv iota. unfold jv_get, bindM. fold (tagval d).
    destruct (tagval d) as [|b|z|f|s|l|dd]; try reflexivity.
    change (jv_isinstance (JStr s) [Tstr]) with true. simpl negb. cbv iota.
    unfold jv_rsplit1_pair, sep_of, catchM. rewrite split_last_dot_rsplit1.
    destruct (rsplit1 46 s) as [[m n]|] eqn:Es; [|reflexivity].
    rewrite module_part_ok_spec, negb_involutive.
    destruct (negb (str_truthy m) || str_startswith m [46]) eqn:Eg; [reflexivity|].
    cbv iota.
    rewrite (owner_step _ m _ Eg).
    destruct (owner_of m) as [o|]; [|reflexivity].
    unfold catchM, view_attr. destruct (getattr_ o n) as [c|e] eqn:Ea.
    - destruct (is_type c) eqn:Et; simpl negb; cbv iota; [|reflexivity].
      destruct Hsub as [_ Hs]. destruct (Hs c Et) as [b Hb].
      unfold bindM, view_subclass. rewrite Hb.
      destruct b; [reflexivity|].
      unfold call_opt. destruct (get_deserializer c); reflexivity.
    - rewrite (Hattr o n e Ea). reflexivity.
  Qed.

  Lemma chain_spec_absent : chain_spec None = chain_spec (Some JNull).
  Proof. reflexivity. Qed.

  Definition tag_of (d : list (str * jv)) : option jv := dict_get d JSON_TYPE_NAME.

  Lemma chain_obj d : chain (JObj d) = outcome_of (chain_spec (tag_of d)).
  Proof.
    rewrite chain_obj_tag. unfold tag_of, tagval. destruct (dict_get d JSON_TYPE_NAME); [reflexivity|].
    now rewrite chain_spec_absent.
  Qed.

  (* the chain never lets a foreign exception escape *)
  Lemma chain_no_escape data e : chain data <> RaiseF e.
  Proof.
    destruct data as [| | | | |l|d]; try (rewrite chain_leaf by exact I; discriminate).
    - rewrite chain_arr. discriminate.
    - rewrite chain_obj. destruct (chain_spec (tag_of d)); discriminate.
  Qed.

  (* whole resolution = exactly the Spec's table, except where an abstract serialiser class is also registered *)
  Lemma resolve_obj d : K_abstract_registered (JObj d) = false ->
    resolve (JObj d) = outcome_of (full_spec (tag_of d)).
  Proof.
    unfold K_abstract_registered, resolve. fold chain. rewrite (chain_obj d).
    unfold chain_spec, full_spec, resolve_spec.
    destruct (tag_of d) as [t|]; [|reflexivity].
    destruct (is_null t); [reflexivity|].
    destruct t; try reflexivity.
    destruct (split_last_dot s) as [[m n]|]; [|reflexivity].
    destruct (negb (module_part_ok m)); [reflexivity|].
    destruct (owner_of m) as [o|]; [|reflexivity].
    destruct (view_attr pymodule pyclass getattr_ o n) as [c|]; [|reflexivity].
    destruct (negb (is_type c)); [reflexivity|].
    unfold view_deserialisable.
    destruct (view_subclass pyclass issubclass_ser c); simpl.
    - destruct (implements_from_json c); simpl; [reflexivity|].
      destruct (get_deserializer c); simpl; [discriminate|]. intros _. reflexivity.
    - intros _. destruct (get_deserializer c); reflexivity.
  Qed.

  Definition documented_outcome (o : outcome jerr (fj_action pyclass pydeser)) : Prop :=
    match o with RaiseF _ => False | _ => True end.

  (* the whole resolution never lets a foreign exception escape -- unconditional since the inherited _from_json raises a
     JSONSerializationError subclass (this proof inspects the translated [base_from_json_body]) *)
  Lemma resolve_no_escape data e : resolve data <> RaiseF e.
  Proof.
    unfold resolve. fold chain. pose proof (chain_no_escape data) as Hc.
    destruct (chain data) as [a|j|e']; [|discriminate|exfalso; exact (Hc e' eq_refl)].
    destruct a as [| |c|f]; try discriminate.
    destruct (implements_from_json c); [discriminate|].
    unfold base_from_json_body. discriminate.
  Qed.

  Lemma resolve_only_documented data : documented_outcome (resolve data).
  Proof.
    pose proof (resolve_no_escape data) as H. destruct (resolve data) as [a|j|e]; try exact I.
    exact (H e eq_refl).
  Qed.

  (* a tag naming a serialiser class without _from_json gets ClassNotDeserializableError *)
  Lemma resolve_abstract data : K_abstract data = true -> resolve data = RaiseJ ClassNotDeserializableError.
  Proof.
    unfold K_abstract, resolve. fold chain.
    destruct (chain data) as [a|j|e']; try discriminate.
    destruct a as [| |c|f]; try discriminate.
    intros H. apply negb_true_iff in H. rewrite H. reflexivity.
  Qed.

  (* never a wrongly typed object: a class is only ever handed the document when the tag names it *)
  Lemma resolve_class_named data c :
    resolve data = Return (FJ_CallClass c) ->
    exists d s m n o, data = JObj d /\ dict_get d JSON_TYPE_NAME = Some (JStr s) /\ s = m ++ 46 :: n /\ no_sep 46 n = true /\
      owner_of m = Some o /\ getattr_ o n = Ok c /\ is_type c = true /\ issubclass_ser c = Ok true.
  Proof.
    unfold resolve. fold chain.
    destruct data as [| | | | |l|d]; try (rewrite chain_leaf by exact I; discriminate).
    { rewrite chain_arr. discriminate. }
    rewrite (chain_obj d). unfold chain_spec, resolve_spec, tag_of.
    destruct (dict_get d JSON_TYPE_NAME) as [t|] eqn:Et; [|discriminate].
    destruct (is_null t); [discriminate|].
    destruct t; try discriminate.
    rewrite split_last_dot_rsplit1.
    destruct (rsplit1 46 s) as [[m n]|] eqn:Es; [|discriminate].
    destruct (negb (module_part_ok m)); [discriminate|].
    destruct (owner_of m) as [o|] eqn:Eo; [|discriminate].
    unfold view_attr. destruct (getattr_ o n) as [c'|] eqn:Ea; [|discriminate].
    destruct (is_type c') eqn:Ety; [|discriminate]. simpl negb. cbv iota.
    unfold view_subclass. destruct (issubclass_ser c') as [[|]|] eqn:Esub; simpl.
    - intros H. assert (c' = c).
      { destruct (implements_from_json c'); [congruence|]. destruct base_from_json_body; congruence. }
      subst c'. apply rsplit1_some in Es as [-> Hn].
      exists d, (m ++ 46 :: n), m, n, o. repeat split; auto.
    - destruct (get_deserializer c'); discriminate.
    - destruct (get_deserializer c'); discriminate.
  Qed.
End Proofs.

(* ---- regression example for the former finding C19-b: the base class itself (or any subclass without _from_json) *)
Definition w_import (s : str) : M Z := if str_eqb s [107] then Ok 1 else Exn ModuleNotFoundError.   (* module "k" *)
Definition w_getattr (o : owner Z Z) (n : str) : M Z := if str_eqb n [83] then Ok 2 else Exn AttributeError.  (* attribute "S" *)
Definition w_data : jv := JObj [(JSON_TYPE_NAME, JStr [107; 46; 83])].                               (* tag "k.S" *)

Lemma abstract_base_documented :
  importer_documented Z w_import /\ getattr_documented Z Z w_getattr /\
  issubclass_documented Z (fun _ => true) (fun _ => Ok true) /\
  resolve Z Z Z w_import w_getattr (fun _ => true) (fun _ => Ok true) (fun _ => None) (fun _ => false) w_data
  = RaiseJ ClassNotDeserializableError.
Proof.
  repeat split.
  - intros s e. unfold w_import. destruct (str_eqb s [107]); [discriminate|]. intros H. left. congruence.
  - intros m n e. unfold w_getattr. destruct (str_eqb n [83]); [discriminate|]. congruence.
  - intros c e H. discriminate.
  - intros c _. exists true. reflexivity.
Qed.

(* the residual corner: an abstract serialiser class that is also registered -- code: ClassNotDeserializableError
   (documented), Spec's table: the registered deserialiser *)
Lemma abstract_registered_divergence :
  let res := resolve Z Z Z w_import w_getattr (fun _ => true) (fun _ => Ok true) (fun _ => Some 9) (fun _ => false) w_data in
  let spec := full_spec Z Z Z w_import w_getattr (fun _ => true) (fun _ => Ok true) (fun _ => Some 9) (fun _ => false) (tag_of [(JSON_TYPE_NAME, JStr [107; 46; 83])]) in
  res = RaiseJ ClassNotDeserializableError /\ spec = RByRegistry 2 9 /\
  K_abstract_registered Z Z Z w_import w_getattr (fun _ => true) (fun _ => Ok true) (fun _ => Some 9) (fun _ => false) w_data = true.
Proof. repeat split. Qed.

(* ---- regression example for the former finding C19-e (fixed by 2cf212b): a present tag of the wrong JSON type that is falsy
   (0, false, [], "") is a FORMAT error like the truthy ones; only an absent / null tag is missing *)
Lemma falsy_wrong_type_is_format_error :
  let run := fun t => resolve Z Z Z w_import w_getattr (fun _ => true) (fun _ => Ok true) (fun _ => None) (fun _ => true)
                        (JObj [(JSON_TYPE_NAME, t)]) in
  run (JInt 0) = RaiseJ InvalidTypeFormatError /\ run (JBool false) = RaiseJ InvalidTypeFormatError /\
  run (JArr []) = RaiseJ InvalidTypeFormatError /\ run (JStr []) = RaiseJ InvalidTypeFormatError /\
  run (JInt 5) = RaiseJ InvalidTypeFormatError /\ run JNull = RaiseJ MissingTypeError /\
  resolve Z Z Z w_import w_getattr (fun _ => true) (fun _ => Ok true) (fun _ => None) (fun _ => true) (JObj []) = RaiseJ MissingTypeError.
Proof. repeat split. Qed.

(* ---- regression example for the former finding C19-c (fixed by 34c3d21): a module that exists but whose import raises
   ImportError (not ModuleNotFoundError) is an unknown module; such an importer is inside the documented behaviours now *)
Definition w_import_err (s : str) : M Z := if str_eqb s [107] then Exn ImportError else Exn ModuleNotFoundError.
Lemma import_error_is_unknown_module :
  importer_documented Z w_import_err /\
  resolve Z Z Z w_import_err w_getattr (fun _ => true) (fun _ => Ok true) (fun _ => None) (fun _ => true) w_data
  = RaiseJ UnknownModuleError.
Proof.
  split; [|reflexivity].
  intros s e. unfold w_import_err. destruct (str_eqb s [107]); intros H; injection H as <-; auto.
Qed.

(* ---- finding C19-g: OUTSIDE [getattr_documented] -- a module-level __getattr__ that raises ModuleNotFoundError (lazy import of a
   missing optional dependency): only AttributeError is converted, the ModuleNotFoundError escapes *)
Definition w_getattr_lazy (o : owner Z Z) (n : str) : M Z := Exn ModuleNotFoundError.
Lemma lazy_getattr_escapes :
  resolve Z Z Z w_import w_getattr_lazy (fun _ => true) (fun _ => Ok true) (fun _ => None) (fun _ => true) w_data
  = RaiseF ModuleNotFoundError /\
  full_spec Z Z Z w_import w_getattr_lazy (fun _ => true) (fun _ => Ok true) (fun _ => None) (fun _ => true) (tag_of [(JSON_TYPE_NAME, JStr [107; 46; 83])])
  = RError EClassNotFound.
Proof. split; reflexivity. Qed.

(* ---- the correspondence instance is the model / the Spec *)
Lemma model_rcase_unfold c :
  model_rcase c = outcome_sx (resolve Z Z Z (rc_import c) (rc_getattr c) (memz (rc_types c)) (rc_issub c)
                                (assoc_z (rc_regs c)) (memz (rc_impl c)) (rc_data c)).
Proof. reflexivity. Qed.

(* for cases whose oracle tables are documented behaviours, model = spec (outside abstract-and-registered) *)
Lemma model_rcase_eq_spec c :
  importer_documented Z (rc_import c) -> getattr_documented Z Z (rc_getattr c) ->
  issubclass_documented Z (memz (rc_types c)) (rc_issub c) ->
  (rc_has_tag c = false -> dict_get (rc_extra c) JSON_TYPE_NAME = None) ->
  K_abstract_registered Z Z Z (rc_import c) (rc_getattr c) (memz (rc_types c)) (rc_issub c) (assoc_z (rc_regs c)) (memz (rc_impl c)) (rc_data c) = false ->
  model_rcase c = spec_rcase c.
Proof.
  intros Hi Ha Hs Hx HK. unfold model_rcase, spec_rcase.
  unfold rc_data in *.
  rewrite (resolve_obj Z Z Z _ _ _ _ _ _ Hi Ha Hs _ HK).
  unfold full_spec, tag_of.
  destruct (rc_has_tag c).
  - change (dict_get ((JSON_TYPE_NAME, rc_tag c) :: rc_extra c) JSON_TYPE_NAME) with (Some (rc_tag c)).
    destruct (resolve_spec _ _ _ _ _ _ _ _ _) as [k|k d|e]; simpl; try reflexivity.
    now rewrite jerr_of_doc_code.
  - rewrite (Hx eq_refl).
    destruct (resolve_spec _ _ _ _ _ _ _ _ _) as [k|k d|e]; simpl; try reflexivity.
    now rewrite jerr_of_doc_code.
Qed.
