(* Proofs for C18: from_json (json_text (to_json v)) = v for every value of the grammar whose classes resolve
   (module-level classes with well-formed names), by nested induction over lists of values. *)
From Coq Require Import List ZArith Bool Lia PeanoNat.
From Krrood Require Import Base.Sx Json.JsonVal Json.ResolveSpec Json.SerializerSpec Gen.JsonResolve Json.Resolve Json.ResolveProofs Json.Serializer.
Import ListNotations.
Open Scope Z_scope.

(* ---- equality tests *)
Lemma strs_eqb_eq a : forall b, strs_eqb a b = true -> a = b.
Proof.
  induction a as [|x a IH]; intros [|y b]; simpl; try congruence.
  rewrite andb_true_iff. intros [H1 H2]. apply str_eqb_eq in H1. apply IH in H2. congruence.
Qed.
Lemma kind_eqb_eq a b : kind_eqb a b = true -> a = b.
Proof. destruct a, b; simpl; congruence. Qed.
Lemma cls_eqb_eq a b : cls_eqb a b = true -> a = b.
Proof.
  unfold cls_eqb. rewrite !andb_true_iff. intros [[[H1 H2] H3] H4].
  apply str_eqb_eq in H1. apply strs_eqb_eq in H2. apply kind_eqb_eq in H3. apply Z.eqb_eq in H4.
  destruct a, b; simpl in *; congruence.
Qed.

(* ---- the world's import machinery behaves as documented (so the C19 lemmas about the translated chain apply) *)
Lemma w_import_documented w : importer_documented str (w_import w).
Proof.
  intros s e. unfold w_import. destruct s as [|c s].
  - intros H. right. left. split; congruence.
  - destruct (str_startswith (c :: s) [DOT]) eqn:E.
    + intros H. right. right. split; congruence.
    + destruct (module_exists w (c :: s)); [discriminate|]. intros H. left. congruence.
Qed.
Lemma w_getattr_documented w : getattr_documented str cls (w_getattr w).
Proof. intros m n e. unfold w_getattr. destruct (lookup w m n); congruence. Qed.
Lemma w_issubclass_documented : issubclass_documented cls w_is_type w_issubclass.
Proof. split; [intros c e H; discriminate | intros c _; eexists; reflexivity]. Qed.

Lemma lookup_module_exists w m n c : lookup w m n = Some c -> module_exists w m = true.
Proof.
  unfold lookup, module_exists. intros H. apply find_some in H as [Hin Hc].
  apply existsb_exists. exists c. split; [assumption|].
  apply andb_true_iff in Hc as [Hc _]. apply andb_true_iff in Hc as [_ Hc]. exact Hc.
Qed.

Lemma full_name_split c : full_name c = c_mod c ++ 46 :: cname c.
Proof. unfold full_name, get_full_class_name. rewrite <- app_assoc. reflexivity. Qed.

Lemma full_name_qualified c : module_level c = true -> full_name c = qualified_tag c.
Proof.
  rewrite full_name_split. unfold qualified_tag, cname, module_level.
  destruct (c_qual c) as [|n [|n' r]]; try discriminate. reflexivity.
Qed.

(* a document whose tag is the full name of a resolvable class reaches that class / its registered deserialiser *)
Lemma chain_resolves w c d :
  cls_ok w c = true -> dict_get d JSON_TYPE_NAME = Some (JStr (full_name c)) ->
  w_chain w (JObj d) =
  match c_kind c with
  | KSer => Return (FJ_CallClass c)
  | KReg => Return (FJ_CallDeser c)
  | KPlain => RaiseJ ClassNotDeserializableError
  end.
Proof.
  unfold cls_ok. rewrite !andb_true_iff. intros [[[Hml Hvm] Hns] Hlk] Htag.
  destruct (lookup w (c_mod c) (cname c)) as [c'|] eqn:El; [|discriminate].
  apply cls_eqb_eq in Hlk. subst c'.
  change (w_chain w) with (chain str cls cls (w_import w) (w_getattr w) w_is_type w_issubclass w_deserializer).
  rewrite (chain_obj str cls cls _ _ _ _ _ (w_import_documented w) (w_getattr_documented w) w_issubclass_documented).
  unfold tag_of. rewrite Htag. unfold chain_spec, resolve_spec.
  rewrite full_name_split.
  assert (Hf : falsy (JStr (c_mod c ++ 46 :: cname c)) = false).
  { destruct (c_mod c); reflexivity. }
  rewrite Hf. rewrite split_last_dot_rsplit1, (rsplit1_app 46 _ _ Hns).
  assert (Hm : module_part_ok (c_mod c) = true).
  { unfold valid_module_name in Hvm. unfold module_part_ok. exact Hvm. }
  rewrite Hm. simpl negb. cbv iota.
  assert (Hi : view_module str (w_import w) (c_mod c) = Some (c_mod c)).
  { unfold view_module, w_import. destruct (c_mod c) as [|x s] eqn:Em; [discriminate|].
    unfold valid_module_name in Hvm. unfold str_startswith. rewrite andb_true_r.
    unfold DOT in *. rewrite Z.eqb_sym. apply negb_true_iff in Hvm. rewrite Hvm.
    rewrite <- Em in El. rewrite <- Em. rewrite (lookup_module_exists _ _ _ _ El). reflexivity. }
  rewrite Hi. unfold view_attr, w_getattr. rewrite El. unfold w_is_type. simpl negb. cbv iota.
  unfold view_subclass, w_issubclass, w_deserializer, outcome_of.
  destruct (c_kind c); reflexivity.
Qed.

(* ---- sequencing *)
Lemma sequence_opt_returns {J A B} (f : A -> option (outcome J B)) (xs : list A) (ys : list B) :
  Forall2 (fun x y => f x = Some (Return y)) xs ys -> sequence_opt (map f xs) = Some (Return ys).
Proof. induction 1 as [|x y xs ys H _ IH]; simpl; [reflexivity|]. rewrite H, IH. reflexivity. Qed.

Lemma max_le_cons (a : nat) l n : (fold_right Nat.max O (a :: l) <= n)%nat -> (a <= n)%nat /\ (fold_right Nat.max O l <= n)%nat.
Proof. simpl. lia. Qed.

Section Proofs.
  Variable P : Type.
  Variable ufields : cls -> P -> list jv -> list (str * jv).
  Variable usplit : cls -> list (str * jv) -> option (P * list jv).
  Variable rser : cls -> P -> list (str * jv).
  Variable rdeser : cls -> list (str * jv) -> option P.

  (* the per-class round-trip hypotheses on user code *)
  Definition user_round_trip : Prop :=
    forall c own kj, c_kind c = KSer ->
      usplit c (base_to_json_fields (c_mod c) (cname c) (cqualname c) ++ ufields c own kj) = Some (own, kj).
  Definition registered_round_trip : Prop :=
    forall t p, c_kind t = KReg ->
      rdeser t (rser t p) = Some p /\ dict_get (rser t p) JSON_TYPE_NAME = Some (JStr (full_name t)).
  Hypothesis Huser : user_round_trip.
  Hypothesis Hreg : registered_round_trip.

  Variable w : world.
  Notation to_json := (to_json P ufields rser).
  Notation from_json := (from_json P usplit rdeser w).

  (* what the induction carries for one value *)
  Definition rt (v : value P) : Prop :=
    exists j, to_json v = Return j /\ forall fuel, (value_depth v <= fuel)%nat -> from_json fuel j = Some (Return v).
  Definition ok (v : value P) : Prop := in_grammar v = true /\ Forall (fun c => cls_ok w c = true) (objects v).

  Lemma ok_list l : in_grammar (VList l) = true -> Forall (fun c => cls_ok w c = true) (objects (VList l)) -> Forall ok l.
  Proof.
    simpl. induction l as [|x l IH]; simpl; intros Hg Ho; [constructor|].
    apply andb_true_iff in Hg as [Hx Hl]. apply Forall_app in Ho as [Ho1 Ho2].
    constructor; [split; assumption | apply IH; assumption].
  Qed.

  (* list level: the nested induction *)
  Lemma rt_list l : Forall rt l ->
    exists js, sequence (map to_json l) = Return js /\
      forall fuel, (fold_right Nat.max O (map value_depth l) <= fuel)%nat ->
        sequence_opt (map (from_json fuel) js) = Some (Return l).
  Proof.
    induction 1 as [|v l [j [Hj Hf]] _ [js [Hjs Hfs]]].
    - exists []. split; [reflexivity|]. intros; reflexivity.
    - exists (j :: js). split.
      + simpl. rewrite Hj, Hjs. reflexivity.
      + intros fuel Hm. simpl map in Hm. apply max_le_cons in Hm as [H1 H2].
        simpl. rewrite (Hf fuel H1), (Hfs fuel H2). reflexivity.
  Qed.

  Lemma Forall_impl2 {A} (Q R S : A -> Prop) l : (forall x, Q x -> R x -> S x) -> Forall Q l -> Forall R l -> Forall S l.
  Proof. intros H HQ. induction HQ; intros HR; inversion HR; subst; constructor; auto. Qed.

  Lemma round_trip_value : forall v, ok v -> rt v.
  Proof.
    induction v as [|b|z|f|s|l IH|c own kids IH] using value_ind'; intros [Hg Ho].
    - exists JNull. split; [reflexivity|]. intros [|n] H; [simpl in H; lia | reflexivity].
    - exists (JBool b). split; [reflexivity|]. intros [|n] H; [simpl in H; lia | reflexivity].
    - exists (JInt z). split; [reflexivity|]. intros [|n] H; [simpl in H; lia | reflexivity].
    - exists (JFloat f). split; [reflexivity|]. intros [|n] H; [simpl in H; lia | reflexivity].
    - exists (JStr s). split; [reflexivity|]. intros [|n] H; [simpl in H; lia | reflexivity].
    - (* list *)
      pose proof (ok_list l Hg Ho) as Hok.
      destruct (rt_list l (Forall_impl2 (fun x => ok x -> rt x) ok rt l (fun x HQ HR => HQ HR) IH Hok)) as [js [Hjs Hfs]].
      exists (JArr js). split.
      + change (to_json (VList l)) with (lift_arr (sequence (map to_json l))). rewrite Hjs. reflexivity.
      + intros [|n] H; [simpl in H; lia|].
        change (from_json (S n) (JArr js)) with (lift_list P (sequence_opt (map (from_json n) js))).
        rewrite Hfs; [reflexivity|]. simpl in H. lia.
    - (* object *)
      simpl in Hg. simpl in Ho. inversion Ho as [|c0 os Hc Hos]; subst.
      destruct (c_kind c) eqn:Ek; [| |discriminate].
      + (* SubclassJSONSerializer *)
        assert (Hok : Forall ok kids).
        { clear - Hg Hos. induction kids as [|x l IHl]; simpl in *; [constructor|].
          apply andb_true_iff in Hg as [Hx Hl]. apply Forall_app in Hos as [Ho1 Ho2].
          constructor; [split; assumption | apply IHl; assumption]. }
        destruct (rt_list kids (Forall_impl2 (fun x => ok x -> rt x) ok rt kids (fun x HQ HR => HQ HR) IH Hok)) as [kj [Hkj Hfk]].
        exists (JObj (base_to_json_fields (c_mod c) (cname c) (cqualname c) ++ ufields c own kj)). split.
        * assert (Hd : dispatch P (VObj c own kids) = Return TJ_CallMethod).
          { unfold dispatch, to_json_dispatch. simpl. rewrite Ek. reflexivity. }
          simpl. rewrite Hd, Hkj. reflexivity.
        * intros [|n] H; [simpl in H; lia|].
          assert (Htag : dict_get (base_to_json_fields (c_mod c) (cname c) (cqualname c) ++ ufields c own kj) JSON_TYPE_NAME
                         = Some (JStr (full_name c))) by (simpl; rewrite ?str_eqb_refl; reflexivity).
          pose proof (Huser c own kj Ek) as Hu.
          remember (base_to_json_fields (c_mod c) (cname c) (cqualname c) ++ ufields c own kj) as d eqn:Ed.
          simpl from_json.
          rewrite (chain_resolves w c d Hc Htag).
          rewrite Ek, Hu. rewrite Hfk; [reflexivity|]. simpl in H. lia.
      + (* registered type *)
        destruct kids as [|k ks]; [|discriminate].
        destruct (Hreg c own Ek) as [Hrd Htag].
        exists (JObj (rser c own)). split.
        * assert (Hd : dispatch P (VObj c own []) = Return (TJ_CallSer c)).
          { unfold dispatch, to_json_dispatch. simpl. rewrite Ek. reflexivity. }
          simpl. rewrite Hd. reflexivity.
        * intros [|n] H; [simpl in H; lia|].
          remember (rser c own) as d eqn:Ed.
          simpl from_json. rewrite (chain_resolves w c d Hc Htag). rewrite Ek, Hrd. reflexivity.
  Qed.

  Theorem round_trip_ok v fuel :
    value_ok w v = true -> (value_depth v <= fuel)%nat ->
    round_trip P ufields usplit rser rdeser w fuel v = Some (Return v).
  Proof.
    unfold value_ok. rewrite andb_true_iff, forallb_forall. intros [Hg Ho] Hf.
    destruct (round_trip_value v (conj Hg (proj2 (Forall_forall _ _) Ho))) as [j [Hj Hr]].
    unfold round_trip. rewrite Hj. unfold json_text. apply Hr, Hf.
  Qed.

  (* ---- the tag: every object's serialised form is a dict carrying its fully qualified name *)
  Lemma object_tag c own kids :
    ok (VObj c own kids) ->
    exists d, to_json (VObj c own kids) = Return (JObj d) /\ dict_get d JSON_TYPE_NAME = Some (JStr (qualified_tag c)).
  Proof.
    intros Hok. pose proof Hok as [Hg Ho]. simpl in Hg, Ho. inversion Ho as [|c0 os Hc Hos]; subst.
    assert (Hml : module_level c = true).
    { unfold cls_ok in Hc. rewrite !andb_true_iff in Hc. tauto. }
    destruct (c_kind c) eqn:Ek; [| |discriminate].
    - assert (Hokk : Forall ok kids).
      { clear - Hg Hos. induction kids as [|x l IHl]; simpl in *; [constructor|].
        apply andb_true_iff in Hg as [Hx Hl]. apply Forall_app in Hos as [Ho1 Ho2].
        constructor; [split; assumption | apply IHl; assumption]. }
      assert (Hrt : Forall rt kids) by (eapply Forall_impl; [|exact Hokk]; apply round_trip_value).
      destruct (rt_list kids Hrt) as [kj [Hkj _]].
      exists (base_to_json_fields (c_mod c) (cname c) (cqualname c) ++ ufields c own kj). split.
      + assert (Hd : dispatch P (VObj c own kids) = Return TJ_CallMethod).
        { unfold dispatch, to_json_dispatch. simpl. rewrite Ek. reflexivity. }
        simpl. rewrite Hd, Hkj. reflexivity.
      + simpl. rewrite ?str_eqb_refl. rewrite <- (full_name_qualified c Hml). reflexivity.
    - destruct kids as [|k ks]; [|discriminate].
      destruct (Hreg c own Ek) as [_ Htag].
      exists (rser c own). split.
      + assert (Hd : dispatch P (VObj c own []) = Return (TJ_CallSer c)).
        { unfold dispatch, to_json_dispatch. simpl. rewrite Ek. reflexivity. }
        simpl. rewrite Hd. reflexivity.
      + rewrite Htag, (full_name_qualified c Hml). reflexivity.
  Qed.
End Proofs.

(* ---- the sample user code of the correspondence harness meets the hypotheses *)
Lemma sample_user_round_trip : user_round_trip jv s_ufields s_usplit.
Proof.
  intros c own kj _. unfold s_usplit, s_ufields, base_to_json_fields.
  destruct (Z.even (c_id c)); reflexivity.
Qed.
Lemma sample_registered_round_trip : registered_round_trip jv s_rser s_rdeser.
Proof. intros t p _. split; reflexivity. Qed.

(* serialize_uuid / deserialize_uuid (translated) are this registered sample, with payload str(uuid) *)
Lemma sample_is_uuid_serializer t s :
  s_rser t (JStr s) = serialize_uuid_fields (c_mod t) (cname t) (cqualname t) s.
Proof. reflexivity. Qed.

Theorem sample_round_trip w v fuel :
  value_ok w v = true -> (value_depth v <= fuel)%nat ->
  round_trip jv s_ufields s_usplit s_rser s_rdeser w fuel v = Some (Return v).
Proof. apply round_trip_ok; [exact sample_user_round_trip | exact sample_registered_round_trip]. Qed.

(* ---- outside F: a serialiser class nested in another class (known finding C18-a) *)
Definition S_MOD : str := [109].                                  (* module "m" *)
Definition c_outer : cls := {| c_mod := S_MOD; c_qual := [[79]]; c_kind := KPlain; c_id := 1 |}.            (* m.O *)
Definition c_inner : cls := {| c_mod := S_MOD; c_qual := [[79]; [73]]; c_kind := KSer; c_id := 2 |}.       (* m.O.I *)
Definition c_shadow : cls := {| c_mod := S_MOD; c_qual := [[73]]; c_kind := KSer; c_id := 4 |}.            (* m.I *)
Definition v_inner : value jv := VObj c_inner (JInt 3) [].

Lemma nested_class_not_found :
  in_grammar v_inner = true /\
  round_trip jv s_ufields s_usplit s_rser s_rdeser [c_outer; c_inner] 5 v_inner = Some (RaiseJ ClassNotFoundError).
Proof. split; vm_compute; reflexivity. Qed.

Lemma nested_class_wrong_type :
  in_grammar v_inner = true /\
  round_trip jv s_ufields s_usplit s_rser s_rdeser [c_outer; c_inner; c_shadow] 5 v_inner
  = Some (Return (VObj c_shadow (JInt 3) [])).
Proof. split; vm_compute; reflexivity. Qed.

Lemma nested_class_tag_not_qualified :
  exists d, to_json jv s_ufields s_rser v_inner = Return (JObj d) /\
            dict_get d JSON_TYPE_NAME = Some (JStr [109; 46; 73]) /\ qualified_tag c_inner = [109; 46; 79; 46; 73].
Proof. eexists. split; [vm_compute; reflexivity|]. split; reflexivity. Qed.

(* non-vacuity material: a world with a subclass chain in a dotted module and a registered type *)
Definition S_PKG : str := [112; 46; 113].                          (* module "p.q" *)
Definition c_a : cls := {| c_mod := S_PKG; c_qual := [[65]]; c_kind := KSer; c_id := 10 |}.
Definition c_b : cls := {| c_mod := S_PKG; c_qual := [[66]]; c_kind := KSer; c_id := 11 |}.
Definition c_u : cls := {| c_mod := [117]; c_qual := [[85]]; c_kind := KReg; c_id := 12 |}.
Definition w_sample : world := [c_a; c_b; c_u].
Definition v_sample : value jv :=
  VList [VObj c_a (JInt 1) [VObj c_b (JStr [233]) [VList []; VNone]; VObj c_u (JStr [48]) []]; VInt (2 ^ 70); VFloat 9218868437227405312; VList [VList []]].

(* ---- the correspondence instance: on F (and payloads without dicts) the model computes exactly the Spec's answer,
   tags included -- so a case inside F where implementation = Spec but model differs cannot occur *)
Fixpoint jv_plain (j : jv) : bool :=
  match j with JObj _ => false | JArr l => forallb jv_plain l | _ => true end.
Fixpoint plain_payloads (v : value jv) : bool :=
  match v with
  | VList l => forallb plain_payloads l
  | VObj _ own kids => jv_plain own && forallb plain_payloads kids
  | _ => true
  end.

Lemma jv_plain_no_tags j : jv_plain j = true -> jv_tags j = [].
Proof.
  induction j as [| | | | |l IH|d IH] using jv_ind'; simpl; try reflexivity; [|discriminate].
  induction IH as [|x l Hx _ IHl]; simpl; [reflexivity|].
  rewrite andb_true_iff. intros [H1 H2]. rewrite (Hx H1), (IHl H2). reflexivity.
Qed.

Lemma map_flat_map {A B C} (f : B -> C) (g : A -> list B) l : map f (flat_map g l) = flat_map (fun x => map f (g x)) l.
Proof. induction l as [|x l IH]; simpl; [reflexivity|]. rewrite map_app, IH. reflexivity. Qed.

Lemma sequence_cons_inv {J A} (x : outcome J A) r js :
  sequence (x :: r) = Return js -> exists a l', x = Return a /\ sequence r = Return l' /\ js = a :: l'.
Proof.
  simpl. destruct x as [a| |]; try discriminate. destruct (sequence r) as [l'| |]; try discriminate.
  intros H. injection H as <-. eauto.
Qed.

Section SampleTags.
  Variable w : world.
  Notation tj := (to_json jv s_ufields s_rser).
  Definition tags_ok (v : value jv) : Prop :=
    ok jv w v -> plain_payloads v = true -> forall j, tj v = Return j -> jv_tags j = expected_tags v.

  Lemma tags_list l : Forall tags_ok l -> Forall (ok jv w) l -> forallb plain_payloads l = true ->
    forall js, sequence (map tj l) = Return js -> flat_map jv_tags js = flat_map (fun v => expected_tags v) l.
  Proof.
    induction 1 as [|v l Hv _ IH]; intros Hok Hp js Hs.
    - simpl in Hs. injection Hs as <-. reflexivity.
    - inversion Hok; subst. simpl in Hp. apply andb_true_iff in Hp as [Hp1 Hp2].
      simpl map in Hs. apply sequence_cons_inv in Hs as [a [l' [Ha [Hl ->]]]].
      simpl. rewrite (Hv H1 Hp1 a Ha), (IH H2 Hp2 l' Hl). reflexivity.
  Qed.

  Lemma ok_kids c own kids : ok jv w (VObj c own kids) -> c_kind c = KSer -> Forall (ok jv w) kids.
  Proof.
    intros [Hg Ho] Ek. simpl in Hg, Ho. rewrite Ek in Hg. inversion Ho as [|c0 os Hc Hos]; subst.
    clear - Hg Hos. induction kids as [|x l IHl]; simpl in *; [constructor|].
    apply andb_true_iff in Hg as [Hx Hl]. apply Forall_app in Hos as [Ho1 Ho2].
    constructor; [split; assumption | apply IHl; assumption].
  Qed.

  Lemma sample_tags : forall v, tags_ok v.
  Proof.
    induction v as [|b|z|f|s|l IH|c own kids IH] using value_ind'; intros Hok Hp j Hj;
      try (simpl in Hj; injection Hj as <-; reflexivity).
    - (* list *)
      destruct Hok as [Hg Ho].
      change (tj (VList l)) with (lift_arr (sequence (map tj l))) in Hj.
      destruct (sequence (map tj l)) as [js| |] eqn:Es; try discriminate. injection Hj as <-.
      simpl jv_tags. rewrite (tags_list l IH (ok_list jv w l Hg Ho) Hp js Es).
      unfold expected_tags. simpl objects. rewrite map_flat_map. reflexivity.
    - (* object *)
      pose proof Hok as [Hg Ho]. simpl in Hg, Ho. inversion Ho as [|c0 os Hc Hos]; subst.
      assert (Hml : module_level c = true).
      { unfold cls_ok in Hc. rewrite !andb_true_iff in Hc. tauto. }
      simpl in Hp. apply andb_true_iff in Hp as [Hpo Hpk].
      pose proof (jv_plain_no_tags own Hpo) as Hown.
      unfold expected_tags. simpl objects. simpl map. rewrite map_flat_map.
      rewrite <- (full_name_qualified c Hml).
      destruct (c_kind c) eqn:Ek; [| |discriminate].
      + assert (Hd : dispatch jv (VObj c own kids) = Return TJ_CallMethod).
        { unfold dispatch, to_json_dispatch. simpl. rewrite Ek. reflexivity. }
        simpl in Hj. rewrite Hd in Hj.
        destruct (sequence (map tj kids)) as [kj| |] eqn:Es; try discriminate. injection Hj as <-.
        pose proof (tags_list kids IH (ok_kids c own kids Hok Ek) Hpk kj Es) as Hk.
        unfold s_ufields. destruct (Z.even (c_id c)); simpl; rewrite ?str_eqb_refl; simpl;
          rewrite Hown, ?app_nil_r; simpl; rewrite Hk; reflexivity.
      + destruct kids as [|k ks]; [|discriminate].
        assert (Hd : dispatch jv (VObj c own []) = Return (TJ_CallSer c)).
        { unfold dispatch, to_json_dispatch. simpl. rewrite Ek. reflexivity. }
        simpl in Hj. rewrite Hd in Hj. injection Hj as <-.
        unfold s_rser. simpl. rewrite ?str_eqb_refl. simpl. rewrite Hown. reflexivity.
  Qed.

  Theorem sample_model_is_spec v :
    value_ok w v = true -> plain_payloads v = true -> model_round_trip w v = spec_round_trip v.
  Proof.
    intros Hv Hp. pose proof Hv as Hv'. unfold value_ok in Hv'. rewrite andb_true_iff, forallb_forall in Hv'.
    destruct Hv' as [Hg Ho]. assert (Hok : ok jv w v) by (split; [exact Hg | apply Forall_forall; exact Ho]).
    destruct (round_trip_value jv s_ufields s_usplit s_rser s_rdeser sample_user_round_trip sample_registered_round_trip w v Hok)
      as [j [Hj Hr]].
    unfold model_round_trip. rewrite Hj. unfold json_text.
    rewrite (Hr (S (S (value_depth v)))) by lia.
    unfold outcome_value_sx, spec_round_trip. rewrite (sample_tags v Hok Hp j Hj). reflexivity.
  Qed.
End SampleTags.

(* ---- F in words: in a world where no two module-level classes of one module share a __name__, a class satisfies
   [cls_ok] as soon as it is defined there at module level under a well-formed name *)
Lemma strs_eqb_refl a : strs_eqb a a = true.
Proof. induction a as [|x a IH]; simpl; [reflexivity|]. now rewrite str_eqb_refl, IH. Qed.
Lemma cls_eqb_refl c : cls_eqb c c = true.
Proof. unfold cls_eqb. rewrite str_eqb_refl, strs_eqb_refl, Z.eqb_refl. destruct (c_kind c); reflexivity. Qed.

Definition unique_names (w : world) : Prop :=
  forall c c', In c w -> In c' w -> module_level c = true -> module_level c' = true ->
    c_mod c = c_mod c' -> cname c = cname c' -> c = c'.

Lemma lookup_defined w c :
  unique_names w -> In c w -> module_level c = true -> lookup w (c_mod c) (cname c) = Some c.
Proof.
  intros Hu Hin Hml. unfold lookup.
  destruct (find _ w) as [c'|] eqn:E.
  - apply find_some in E as [Hin' Hp]. rewrite !andb_true_iff in Hp. destruct Hp as [[Hml' Hm] Hn].
    apply str_eqb_eq in Hm. apply str_eqb_eq in Hn. f_equal. symmetry. apply (Hu c c'); auto.
  - exfalso. pose proof (find_none _ _ E c Hin) as Hn. simpl in Hn.
    rewrite Hml, !str_eqb_refl in Hn. discriminate.
Qed.

Lemma cls_ok_defined w c :
  unique_names w -> In c w -> module_level c = true -> valid_module_name (c_mod c) = true -> no_sep DOT (cname c) = true ->
  cls_ok w c = true.
Proof.
  intros Hu Hin Hml Hv Hn. unfold cls_ok. rewrite Hml, Hv, Hn, (lookup_defined w c Hu Hin Hml), cls_eqb_refl. reflexivity.
Qed.
