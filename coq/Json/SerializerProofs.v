(* Proofs for C18: from_json (json_text (to_json v)) = v for every value of the grammar whose classes are not function-local
   and are named by their own tag (the C19 decision table resolves "<module>.<qualified name>" to the class), by nested
   induction over lists of values.  The link to the translated chain is C19's theorem [chain_obj]. *)
From Coq Require Import List ZArith Bool Lia PeanoNat.
From Krrood Require Import Base.Sx Json.JsonVal Json.ResolveSpec Json.SerializerSpec Gen.JsonResolve Json.Resolve Json.ResolveProofs Json.Serializer.
Import ListNotations.
Open Scope Z_scope.

(* ---- equality tests *)
Lemma strs_eqb_eq a : forall b, strs_eqb a b = true -> a = b.
Proof.
  induction a as [|x a IH]; intros [|y b]; simpl; try congruence.
  rewrite andb_true_iff. intros [H1 H2]. apply str_eqb_eq in H1. apply IH in H2. congruence.
Qed.
Lemma kind_eqb_eq a b : kind_eqb a b = true -> a = b.
Proof. destruct a, b; simpl; congruence. Qed.
Lemma base_eqb_eq a b : base_eqb a b = true -> a = b.
Proof. destruct a as [x|], b as [y|]; simpl; try congruence. destruct x, y; simpl; congruence. Qed.
Lemma cls_eqb_eq a b : cls_eqb a b = true -> a = b.
Proof.
  unfold cls_eqb. rewrite !andb_true_iff. intros [[[[H1 H2] H3] H4] H5].
  apply str_eqb_eq in H1. apply strs_eqb_eq in H2. apply kind_eqb_eq in H3. apply Z.eqb_eq in H4. apply base_eqb_eq in H5.
  destruct a, b; simpl in *; congruence.
Qed.
Lemma strs_eqb_refl a : strs_eqb a a = true.
Proof. induction a as [|x a IH]; simpl; [reflexivity|]. now rewrite str_eqb_refl, IH. Qed.
Lemma cls_eqb_refl c : cls_eqb c c = true.
Proof.
  unfold cls_eqb. rewrite str_eqb_refl, strs_eqb_refl, Z.eqb_refl.
  destruct (c_kind c); destruct (c_base c) as [[]|]; reflexivity.
Qed.

(* ---- the world's import machinery behaves as documented (so the C19 lemmas about the translated chain apply) *)
Lemma w_import_documented w : importer_documented str (w_import w).
Proof.
  intros s e. unfold w_import. destruct s as [|c s].
  - intros H. right. right. left. split; congruence.
  - destruct (str_startswith (c :: s) [DOT]) eqn:E.
    + intros H. right. right. right. split; congruence.
    + destruct (module_exists w (c :: s)); [discriminate|]. intros H. left. congruence.
Qed.
Lemma w_getattr_documented w : getattr_documented str cls (w_getattr w).
Proof. intros o n e. unfold w_getattr. destruct o; match goal with |- context [lookup ?a ?b ?c] => destruct (lookup a b c) end; congruence. Qed.
Lemma w_issubclass_documented : issubclass_documented cls w_is_type w_issubclass.
Proof. split; [intros c e H; discriminate | intros c _; eexists; reflexivity]. Qed.

Lemma full_name_split c : full_name c = c_mod c ++ 46 :: cqualname c.
Proof. unfold full_name, get_full_class_name. rewrite <- app_assoc. reflexivity. Qed.

(* the tag written for a class IS its fully qualified name (it was module + __name__ before 70c605d) *)
Lemma full_name_qualified c : full_name c = qualified_tag c.
Proof. rewrite full_name_split. reflexivity. Qed.

Lemma base_to_json_not_local c :
  is_local c = false ->
  base_to_json (c_mod c) (cname c) (cqualname c) = Return [(JSON_TYPE_NAME, JStr (full_name c))].
Proof. unfold is_local, LOCALS, base_to_json. intros ->. reflexivity. Qed.

Lemma base_to_json_local c :
  is_local c = true -> base_to_json (c_mod c) (cname c) (cqualname c) = RaiseJ ClassNotSerializableError.
Proof. unfold is_local, LOCALS, base_to_json. intros ->. reflexivity. Qed.

(* in the Spec's table a registry resolution carries the deserialiser registered for that class *)
Lemma spec_registry_inv (Mo C D : Type) fm at_ ic ds (reg : C -> option D) tag c d :
  resolve_spec Mo C D fm at_ ic ds reg tag = RByRegistry c d -> reg c = Some d.
Proof.
  unfold resolve_spec. destruct tag as [t|]; [|discriminate].
  destruct (is_null t); [discriminate|]. destruct t; try discriminate.
  destruct (split_last_dot s) as [[m n]|]; [|discriminate].
  destruct (negb (module_part_ok m)); [discriminate|].
  destruct (owner_of Mo C fm at_ ic m) as [o|]; [|discriminate].
  destruct (at_ o n) as [c'|]; [|discriminate].
  destruct (negb (ic c')); [discriminate|]. destruct (ds c'); [discriminate|].
  destruct (reg c') as [d'|] eqn:E; [|discriminate]. intros H. injection H as <- <-. exact E.
Qed.

(* a document whose tag is the full name of a class named by its own tag reaches that class / its registered deserialiser *)
Lemma chain_resolves w c d :
  names_itself w c = true -> dict_get d JSON_TYPE_NAME = Some (JStr (full_name c)) ->
  w_chain w (JObj d) =
  match c_kind c with
  | KSer => Return (FJ_CallClass c)
  | KReg => Return (FJ_CallDeser c)
  | KPlain => RaiseJ ClassNotDeserializableError
  end.
Proof.
  unfold names_itself. intros Hn Htag.
  unfold w_chain.
  rewrite (chain_obj str cls cls _ _ _ _ _ (w_import_documented w) (w_getattr_documented w) w_issubclass_documented).
  unfold tag_of. rewrite Htag.
  change (chain_spec str cls cls (w_import w) (w_getattr w) w_is_type w_issubclass w_deserializer (Some (JStr (full_name c))))
    with (w_table w (Some (JStr (full_name c)))).
  destruct (w_table w (Some (JStr (full_name c)))) as [c'|c' d'|e] eqn:Et; [| |discriminate].
  - apply andb_true_iff in Hn as [H1 H2]. apply cls_eqb_eq in H1. apply kind_eqb_eq in H2. subst c'. rewrite H2. reflexivity.
  - apply andb_true_iff in Hn as [H1 H2]. apply cls_eqb_eq in H1. apply kind_eqb_eq in H2. subst c'. rewrite H2.
    unfold w_table in Et. apply spec_registry_inv in Et. unfold w_deserializer in Et. rewrite H2 in Et. simpl in Et. injection Et as <-. reflexivity.
Qed.

(* ---- sequencing *)
Lemma sequence_opt_returns {J A B} (f : A -> option (outcome J B)) (xs : list A) (ys : list B) :
  Forall2 (fun x y => f x = Some (Return y)) xs ys -> sequence_opt (map f xs) = Some (Return ys).
Proof. induction 1 as [|x y xs ys H _ IH]; simpl; [reflexivity|]. rewrite H, IH. reflexivity. Qed.

Lemma max_le_cons (a : nat) l n : (fold_right Nat.max O (a :: l) <= n)%nat -> (a <= n)%nat /\ (fold_right Nat.max O l <= n)%nat.
Proof. simpl. lia. Qed.

Section Proofs.
  Variable P : Type.
  Variable ufields : cls -> P -> list jv -> list (str * jv).
  Variable usplit : cls -> list (str * jv) -> option (P * list jv).
  Variable rser : cls -> P -> list (str * jv).
  Variable rdeser : cls -> list (str * jv) -> option P.
  Variable as_leaf : P -> jv.
  Variable as_items : P -> list jv.

  (* the per-class round-trip hypotheses on user code *)
  Definition user_round_trip : Prop :=
    forall c own kj, c_kind c = KSer ->
      usplit c ((JSON_TYPE_NAME, JStr (full_name c)) :: ufields c own kj) = Some (own, kj).
  Definition registered_round_trip : Prop :=
    forall t p, c_kind t = KReg ->
      rdeser t (rser t p) = Some p /\ dict_get (rser t p) JSON_TYPE_NAME = Some (JStr (full_name t)).
  Hypothesis Huser : user_round_trip.
  Hypothesis Hreg : registered_round_trip.

  Variable w : world.
  Notation to_json := (to_json P ufields rser as_leaf as_items).
  Notation from_json := (from_json P usplit rdeser w).

  (* what the induction carries for one value *)
  Definition rt (v : value P) : Prop :=
    exists j, to_json v = Return j /\ forall fuel, (value_depth v <= fuel)%nat -> from_json fuel j = Some (Return v).
  Definition ok (v : value P) : Prop := in_grammar v = true /\ Forall (fun c => cls_ok w c = true) (objects v).

  Lemma to_json_ser c own kids kj :
    c_kind c = KSer -> is_local c = false -> sequence (map to_json kids) = Return kj ->
    to_json (VObj c own kids) = Return (JObj ((JSON_TYPE_NAME, JStr (full_name c)) :: ufields c own kj)).
  Proof.
    intros Ek Hl Hkj.
    assert (Hd : dispatch P (VObj c own kids) = Return TJ_CallMethod).
    { unfold dispatch, to_json_dispatch. simpl. rewrite Ek. reflexivity. }
    simpl. rewrite Hd, (base_to_json_not_local c Hl), Hkj. reflexivity.
  Qed.

  Lemma to_json_ser_local c own kids :
    c_kind c = KSer -> is_local c = true -> to_json (VObj c own kids) = RaiseJ ClassNotSerializableError.
  Proof.
    intros Ek Hl.
    assert (Hd : dispatch P (VObj c own kids) = Return TJ_CallMethod).
    { unfold dispatch, to_json_dispatch. simpl. rewrite Ek. reflexivity. }
    simpl. rewrite Hd, (base_to_json_local c Hl). reflexivity.
  Qed.

  Lemma to_json_reg c own :
    c_kind c = KReg -> to_json (VObj c own []) = Return (JObj (rser c own)).
  Proof.
    intros Ek.
    assert (Hd : dispatch P (VObj c own []) = Return (TJ_CallSer c)).
    { unfold dispatch, to_json_dispatch. simpl. rewrite Ek. reflexivity. }
    simpl. rewrite Hd. reflexivity.
  Qed.

  Lemma cls_ok_parts c : cls_ok w c = true -> is_local c = false /\ names_itself w c = true.
  Proof. unfold cls_ok. rewrite andb_true_iff, negb_true_iff. tauto. Qed.

  Lemma ok_list l : in_grammar (VList l) = true -> Forall (fun c => cls_ok w c = true) (objects (VList l)) -> Forall ok l.
  Proof.
    simpl. induction l as [|x l IH]; simpl; intros Hg Ho; [constructor|].
    apply andb_true_iff in Hg as [Hx Hl]. apply Forall_app in Ho as [Ho1 Ho2].
    constructor; [split; assumption | apply IH; assumption].
  Qed.

  (* list level: the nested induction *)
  Lemma rt_list l : Forall rt l ->
    exists js, sequence (map to_json l) = Return js /\
      forall fuel, (fold_right Nat.max O (map value_depth l) <= fuel)%nat ->
        sequence_opt (map (from_json fuel) js) = Some (Return l).
  Proof.
    induction 1 as [|v l [j [Hj Hf]] _ [js [Hjs Hfs]]].
    - exists []. split; [reflexivity|]. intros; reflexivity.
    - exists (j :: js). split.
      + simpl. rewrite Hj, Hjs. reflexivity.
      + intros fuel Hm. simpl map in Hm. apply max_le_cons in Hm as [H1 H2].
        simpl. rewrite (Hf fuel H1), (Hfs fuel H2). reflexivity.
  Qed.

  Lemma Forall_impl2 {A} (Q R S : A -> Prop) l : (forall x, Q x -> R x -> S x) -> Forall Q l -> Forall R l -> Forall S l.
  Proof. intros H HQ. induction HQ; intros HR; inversion HR; subst; constructor; auto. Qed.

  Lemma round_trip_value : forall v, ok v -> rt v.
  Proof.
    induction v as [|b|z|f|s|l IH|c own kids IH] using value_ind'; intros [Hg Ho].
    - exists JNull. split; [reflexivity|]. intros [|n] H; [simpl in H; lia | reflexivity].
    - exists (JBool b). split; [reflexivity|]. intros [|n] H; [simpl in H; lia | reflexivity].
    - exists (JInt z). split; [reflexivity|]. intros [|n] H; [simpl in H; lia | reflexivity].
    - exists (JFloat f). split; [reflexivity|]. intros [|n] H; [simpl in H; lia | reflexivity].
    - exists (JStr s). split; [reflexivity|]. intros [|n] H; [simpl in H; lia | reflexivity].
    - (* list *)
      pose proof (ok_list l Hg Ho) as Hok.
      destruct (rt_list l (Forall_impl2 (fun x => ok x -> rt x) ok rt l (fun x HQ HR => HQ HR) IH Hok)) as [js [Hjs Hfs]].
      exists (JArr js). split.
      + change (to_json (VList l)) with (lift_arr (sequence (map to_json l))). rewrite Hjs. reflexivity.
      + intros [|n] H; [simpl in H; lia|].
        change (from_json (S n) (JArr js)) with (lift_list P (sequence_opt (map (from_json n) js))).
        rewrite Hfs; [reflexivity|]. simpl in H. lia.
    - (* object *)
      simpl in Hg. simpl in Ho. inversion Ho as [|c0 os Hc Hos]; subst.
      destruct (c_kind c) eqn:Ek; [| |discriminate].
      + (* SubclassJSONSerializer *)
        assert (Hok : Forall ok kids).
        { clear - Hg Hos. induction kids as [|x l IHl]; simpl in *; [constructor|].
          apply andb_true_iff in Hg as [Hx Hl]. apply Forall_app in Hos as [Ho1 Ho2].
          constructor; [split; assumption | apply IHl; assumption]. }
        destruct (rt_list kids (Forall_impl2 (fun x => ok x -> rt x) ok rt kids (fun x HQ HR => HQ HR) IH Hok)) as [kj [Hkj Hfk]].
        destruct (cls_ok_parts c Hc) as [Hnl Hni].
        exists (JObj ((JSON_TYPE_NAME, JStr (full_name c)) :: ufields c own kj)). split.
        * apply to_json_ser; assumption.
        * intros [|n] H; [simpl in H; lia|].
          assert (Htag : dict_get ((JSON_TYPE_NAME, JStr (full_name c)) :: ufields c own kj) JSON_TYPE_NAME
                         = Some (JStr (full_name c))) by (simpl; rewrite ?str_eqb_refl; reflexivity).
          pose proof (Huser c own kj Ek) as Hu.
          remember ((JSON_TYPE_NAME, JStr (full_name c)) :: ufields c own kj) as d eqn:Ed.
          simpl from_json.
          rewrite (chain_resolves w c d Hni Htag).
          rewrite Ek, Hu. rewrite Hfk; [reflexivity|]. simpl in H. lia.
      + (* registered type *)
        destruct kids as [|k ks]; [|discriminate].
        destruct (Hreg c own Ek) as [Hrd Htag].
        destruct (cls_ok_parts c Hc) as [Hnl Hni].
        exists (JObj (rser c own)). split.
        * apply to_json_reg; assumption.
        * intros [|n] H; [simpl in H; lia|].
          remember (rser c own) as d eqn:Ed.
          simpl from_json. rewrite (chain_resolves w c d Hni Htag). rewrite Ek, Hrd. reflexivity.
  Qed.

  Theorem round_trip_ok v fuel :
    value_ok w v = true -> (value_depth v <= fuel)%nat ->
    round_trip P ufields usplit rser rdeser as_leaf as_items w fuel v = Some (Return v).
  Proof.
    unfold value_ok. rewrite andb_true_iff, forallb_forall. intros [Hg Ho] Hf.
    destruct (round_trip_value v (conj Hg (proj2 (Forall_forall _ _) Ho))) as [j [Hj Hr]].
    unfold round_trip. rewrite Hj. unfold json_text. apply Hr, Hf.
  Qed.

  (* ---- the tag: every object's serialised form is a dict carrying its fully qualified name *)
  Lemma object_tag c own kids :
    ok (VObj c own kids) ->
    exists d, to_json (VObj c own kids) = Return (JObj d) /\ dict_get d JSON_TYPE_NAME = Some (JStr (qualified_tag c)).
  Proof.
    intros Hok. pose proof Hok as [Hg Ho]. simpl in Hg, Ho. inversion Ho as [|c0 os Hc Hos]; subst.
    destruct (cls_ok_parts c Hc) as [Hnl Hni].
    destruct (c_kind c) eqn:Ek; [| |discriminate].
    - assert (Hokk : Forall ok kids).
      { clear - Hg Hos. induction kids as [|x l IHl]; simpl in *; [constructor|].
        apply andb_true_iff in Hg as [Hx Hl]. apply Forall_app in Hos as [Ho1 Ho2].
        constructor; [split; assumption | apply IHl; assumption]. }
      assert (Hrt : Forall rt kids) by (eapply Forall_impl; [|exact Hokk]; apply round_trip_value).
      destruct (rt_list kids Hrt) as [kj [Hkj _]].
      exists ((JSON_TYPE_NAME, JStr (full_name c)) :: ufields c own kj). split.
      + apply to_json_ser; assumption.
      + simpl. rewrite ?str_eqb_refl. rewrite <- (full_name_qualified c). reflexivity.
    - destruct kids as [|k ks]; [|discriminate].
      destruct (Hreg c own Ek) as [_ Htag].
      exists (rser c own). split.
      + apply to_json_reg; assumption.
      + rewrite Htag, (full_name_qualified c). reflexivity.
  Qed.

  (* outside F: an instance of a function-local serialiser class is refused when it is serialised *)
  Lemma local_class_refused c own kids fuel :
    c_kind c = KSer -> is_local c = true ->
    round_trip P ufields usplit rser rdeser as_leaf as_items w fuel (VObj c own kids) = Some (RaiseJ ClassNotSerializableError).
  Proof. intros Ek Hl. unfold round_trip. rewrite (to_json_ser_local c own kids Ek Hl). reflexivity. Qed.
End Proofs.

(* ---- the sample user code of the correspondence harness meets the hypotheses *)

(* ---- the sample user code of the correspondence harness meets the hypotheses *)
Lemma sample_user_round_trip : user_round_trip jv s_ufields s_usplit.
Proof.
  intros c own kj _. unfold s_usplit, s_ufields.
  destruct (Z.even (c_id c)); reflexivity.
Qed.
Lemma sample_registered_round_trip : registered_round_trip jv s_rser s_rdeser.
Proof. intros t p _. split; reflexivity. Qed.

(* serialize_uuid / deserialize_uuid (translated) are this registered sample, with payload str(uuid) *)
Lemma sample_is_uuid_serializer t s :
  s_rser t (JStr s) = serialize_uuid_fields (c_mod t) (cname t) (cqualname t) s.
Proof. reflexivity. Qed.

Theorem sample_round_trip w v fuel :
  value_ok w v = true -> (value_depth v <= fuel)%nat ->
  round_trip jv s_ufields s_usplit s_rser s_rdeser s_as_leaf s_as_items w fuel v = Some (Return v).
Proof. apply round_trip_ok; [exact sample_user_round_trip | exact sample_registered_round_trip]. Qed.

(* ---- regression examples for the former finding C18-a (fixed by 70c605d): a serialiser class nested in another class *)
Definition S_MOD : str := [109].                                  (* module "m" *)
Definition c_outer : cls := {| c_mod := S_MOD; c_qual := [[79]]; c_kind := KPlain; c_id := 1; c_base := None |}.            (* m.O *)
Definition c_inner : cls := {| c_mod := S_MOD; c_qual := [[79]; [73]]; c_kind := KSer; c_id := 2; c_base := None |}.       (* m.O.I *)
Definition c_shadow : cls := {| c_mod := S_MOD; c_qual := [[73]]; c_kind := KSer; c_id := 4; c_base := None |}.            (* m.I *)
Definition v_inner : value jv := VObj c_inner (JInt 3) [].

Lemma nested_class_round_trips :
  value_ok [c_outer; c_inner] v_inner = true /\
  round_trip jv s_ufields s_usplit s_rser s_rdeser s_as_leaf s_as_items [c_outer; c_inner] 5 v_inner = Some (Return v_inner).
Proof. split; vm_compute; reflexivity. Qed.

Lemma nested_class_not_shadowed :
  value_ok [c_outer; c_inner; c_shadow] v_inner = true /\
  round_trip jv s_ufields s_usplit s_rser s_rdeser s_as_leaf s_as_items [c_outer; c_inner; c_shadow] 5 v_inner = Some (Return v_inner).
Proof. split; vm_compute; reflexivity. Qed.

Lemma nested_class_tag_qualified :
  exists d, to_json jv s_ufields s_rser s_as_leaf s_as_items v_inner = Return (JObj d) /\
            dict_get d JSON_TYPE_NAME = Some (JStr [109; 46; 79; 46; 73]) /\ qualified_tag c_inner = [109; 46; 79; 46; 73].
Proof. eexists. split; [vm_compute; reflexivity|]. split; reflexivity. Qed.

(* ---- outside F: a serialiser class defined inside a function (qualified name "f.<locals>.L") -- known finding C18-b *)
Definition c_local : cls :=
  {| c_mod := S_MOD; c_qual := [[102]; [60; 108; 111; 99; 97; 108; 115; 62]; [76]]; c_kind := KSer; c_id := 6; c_base := None |}.
Definition v_local : value jv := VObj c_local (JInt 3) [].
Lemma local_class_not_serializable :
  in_grammar v_local = true /\
  round_trip jv s_ufields s_usplit s_rser s_rdeser s_as_leaf s_as_items [c_local] 5 v_local = Some (RaiseJ ClassNotSerializableError).
Proof. split; vm_compute; reflexivity. Qed.

(* non-vacuity material: a world with a subclass chain in a dotted module, a nested class and a registered type *)
Definition S_PKG : str := [112; 46; 113].                          (* module "p.q" *)
Definition c_a : cls := {| c_mod := S_PKG; c_qual := [[65]]; c_kind := KSer; c_id := 10; c_base := None |}.
Definition c_b : cls := {| c_mod := S_PKG; c_qual := [[66]]; c_kind := KSer; c_id := 11; c_base := None |}.
Definition c_n : cls := {| c_mod := S_PKG; c_qual := [[65]; [78]]; c_kind := KSer; c_id := 13; c_base := None |}.       (* p.q.A.N *)
Definition c_u : cls := {| c_mod := [117]; c_qual := [[85]]; c_kind := KReg; c_id := 12; c_base := None |}.
Definition w_sample : world := [c_a; c_b; c_n; c_u].
Definition v_sample : value jv :=
  VList [VObj c_a (JInt 1) [VObj c_b (JStr [233]) [VList []; VNone; VObj c_n JNull []]; VObj c_u (JStr [48]) []]; VInt (2 ^ 70); VFloat 9218868437227405312; VList [VList []]].
(* ---- the correspondence instance: on F (and payloads without dicts) the model computes exactly the Spec's answer,
   tags included -- so a case inside F where implementation = Spec but model differs cannot occur *)
Fixpoint jv_plain (j : jv) : bool :=
  match j with JObj _ => false | JArr l => forallb jv_plain l | _ => true end.
Fixpoint plain_payloads (v : value jv) : bool :=
  match v with
  | VList l => forallb plain_payloads l
  | VObj _ own kids => jv_plain own && forallb plain_payloads kids
  | _ => true
  end.

Lemma jv_plain_no_tags j : jv_plain j = true -> jv_tags j = [].
Proof.
  induction j as [| | | | |l IH|d IH] using jv_ind'; simpl; try reflexivity; [|discriminate].
  induction IH as [|x l Hx _ IHl]; simpl; [reflexivity|].
  rewrite andb_true_iff. intros [H1 H2]. rewrite (Hx H1), (IHl H2). reflexivity.
Qed.

Lemma map_flat_map {A B C} (f : B -> C) (g : A -> list B) l : map f (flat_map g l) = flat_map (fun x => map f (g x)) l.
Proof. induction l as [|x l IH]; simpl; [reflexivity|]. rewrite map_app, IH. reflexivity. Qed.

Lemma sequence_cons_inv {J A} (x : outcome J A) r js :
  sequence (x :: r) = Return js -> exists a l', x = Return a /\ sequence r = Return l' /\ js = a :: l'.
Proof.
  simpl. destruct x as [a| |]; try discriminate. destruct (sequence r) as [l'| |]; try discriminate.
  intros H. injection H as <-. eauto.
Qed.

Section SampleTags.
  Variable w : world.
  Notation tj := (to_json jv s_ufields s_rser s_as_leaf s_as_items).
  Definition tags_ok (v : value jv) : Prop :=
    ok jv w v -> plain_payloads v = true -> forall j, tj v = Return j -> jv_tags j = expected_tags v.

  Lemma tags_list l : Forall tags_ok l -> Forall (ok jv w) l -> forallb plain_payloads l = true ->
    forall js, sequence (map tj l) = Return js -> flat_map jv_tags js = flat_map (fun v => expected_tags v) l.
  Proof.
    induction 1 as [|v l Hv _ IH]; intros Hok Hp js Hs.
    - simpl in Hs. injection Hs as <-. reflexivity.
    - inversion Hok; subst. simpl in Hp. apply andb_true_iff in Hp as [Hp1 Hp2].
      simpl map in Hs. apply sequence_cons_inv in Hs as [a [l' [Ha [Hl ->]]]].
      simpl. rewrite (Hv H1 Hp1 a Ha), (IH H2 Hp2 l' Hl). reflexivity.
  Qed.

  Lemma ok_kids c own kids : ok jv w (VObj c own kids) -> c_kind c = KSer -> Forall (ok jv w) kids.
  Proof.
    intros [Hg Ho] Ek. simpl in Hg, Ho. rewrite Ek in Hg. inversion Ho as [|c0 os Hc Hos]; subst.
    clear - Hg Hos. induction kids as [|x l IHl]; simpl in *; [constructor|].
    apply andb_true_iff in Hg as [Hx Hl]. apply Forall_app in Hos as [Ho1 Ho2].
    constructor; [split; assumption | apply IHl; assumption].
  Qed.

  Lemma sample_tags : forall v, tags_ok v.
  Proof.
    induction v as [|b|z|f|s|l IH|c own kids IH] using value_ind'; intros Hok Hp j Hj;
      try (simpl in Hj; injection Hj as <-; reflexivity).
    - (* list *)
      destruct Hok as [Hg Ho].
      change (tj (VList l)) with (lift_arr (sequence (map tj l))) in Hj.
      destruct (sequence (map tj l)) as [js| |] eqn:Es; try discriminate. injection Hj as <-.
      simpl jv_tags. rewrite (tags_list l IH (ok_list jv w l Hg Ho) Hp js Es).
      unfold expected_tags. simpl objects. rewrite map_flat_map. reflexivity.
    - (* object *)
      pose proof Hok as [Hg Ho]. simpl in Hg, Ho. inversion Ho as [|c0 os Hc Hos]; subst.
      destruct (cls_ok_parts w c Hc) as [Hnl Hni].
      simpl in Hp. apply andb_true_iff in Hp as [Hpo Hpk].
      pose proof (jv_plain_no_tags own Hpo) as Hown.
      unfold expected_tags. simpl objects. simpl map. rewrite map_flat_map.
      rewrite <- (full_name_qualified c).
      destruct (c_kind c) eqn:Ek; [| |discriminate].
      + pose proof (ok_kids c own kids Hok Ek) as Hokk.
        assert (Hrt : Forall (rt jv s_ufields s_usplit s_rser s_rdeser s_as_leaf s_as_items w) kids).
        { eapply Forall_impl; [|exact Hokk].
          apply (round_trip_value jv s_ufields s_usplit s_rser s_rdeser s_as_leaf s_as_items sample_user_round_trip sample_registered_round_trip w). }
        destruct (rt_list jv s_ufields s_usplit s_rser s_rdeser s_as_leaf s_as_items w kids Hrt) as [kj [Es _]].
        rewrite (to_json_ser jv s_ufields s_rser s_as_leaf s_as_items c own kids kj Ek Hnl Es) in Hj. injection Hj as <-.
        pose proof (tags_list kids IH Hokk Hpk kj Es) as Hk.
        unfold s_ufields. destruct (Z.even (c_id c)); simpl; rewrite ?str_eqb_refl; simpl;
          rewrite Hown, ?app_nil_r; simpl; rewrite Hk; reflexivity.
      + destruct kids as [|k ks]; [|discriminate].
        rewrite (to_json_reg jv s_ufields s_rser s_as_leaf s_as_items c own Ek) in Hj. injection Hj as <-.
        unfold s_rser. simpl. rewrite ?str_eqb_refl. simpl. rewrite Hown. reflexivity.
  Qed.

  Theorem sample_model_is_spec v :
    value_ok w v = true -> plain_payloads v = true -> model_round_trip w v = spec_round_trip v.
  Proof.
    intros Hv Hp. pose proof Hv as Hv'. unfold value_ok in Hv'. rewrite andb_true_iff, forallb_forall in Hv'.
    destruct Hv' as [Hg Ho]. assert (Hok : ok jv w v) by (split; [exact Hg | apply Forall_forall; exact Ho]).
    destruct (round_trip_value jv s_ufields s_usplit s_rser s_rdeser s_as_leaf s_as_items sample_user_round_trip sample_registered_round_trip w v Hok)
      as [j [Hj Hr]].
    unfold model_round_trip. rewrite Hj. unfold json_text.
    rewrite (Hr (S (S (value_depth v)))) by lia.
    unfold outcome_value_sx, spec_round_trip. rewrite (sample_tags v Hok Hp j Hj). reflexivity.
  Qed.
End SampleTags.


(* ---- F in words: structural conditions under which a class is named by its own tag.
   World without two classes of one module under one qualified name; the class is defined in it; its module name is
   well-formed; the names on its qualified path are dot-free; every enclosing class is defined in the world; and
   NO MODULE IS NAMED LIKE A CLASS PATH (module "m.Outer" next to class Outer of module m would be imported instead). *)
Definition unique_names (w : world) : Prop :=
  forall c c', In c w -> In c' w -> c_mod c = c_mod c' -> c_qual c = c_qual c' -> c = c'.
Definition enclosing_classes_defined (w : world) (c : cls) : Prop :=
  forall j, (0 < j < length (c_qual c))%nat ->
    exists c', In c' w /\ c_mod c' = c_mod c /\ c_qual c' = firstn j (c_qual c).
Definition no_module_named_like_class_path (w : world) (c : cls) : Prop :=
  forall j, (0 < j < length (c_qual c))%nat ->
    module_exists w (c_mod c ++ 46 :: join_dots (firstn j (c_qual c))) = false.
Definition dot_free (l : list str) : Prop := Forall (fun x => no_sep 46 x = true) l.

Lemma lookup_defined w c : unique_names w -> In c w -> lookup w (c_mod c) (c_qual c) = Some c.
Proof.
  intros Hu Hin. unfold lookup. destruct (find _ w) as [c'|] eqn:E.
  - apply find_some in E as [Hin' Hp]. apply andb_true_iff in Hp as [Hm Hq].
    apply str_eqb_eq in Hm. apply strs_eqb_eq in Hq. f_equal. apply Hu; auto.
  - exfalso. pose proof (find_none _ _ E c Hin) as Hn. simpl in Hn. rewrite str_eqb_refl, strs_eqb_refl in Hn. discriminate.
Qed.

Lemma module_exists_in w c : In c w -> module_exists w (c_mod c) = true.
Proof. intros H. apply existsb_exists. exists c. split; [exact H | apply str_eqb_refl]. Qed.

(* string facts *)
Lemma split_dots_app_dot p r : no_sep 46 p = true -> split_dots (p ++ 46 :: r) = p :: split_dots r.
Proof.
  induction p as [|c p IH]; intros H; [reflexivity|].
  simpl in H. apply andb_true_iff in H as [Hc Hp]. apply negb_true_iff in Hc.
  simpl. rewrite Hc, (IH Hp). reflexivity.
Qed.
Lemma split_dots_dot_free_one p : no_sep 46 p = true -> split_dots p = [p].
Proof.
  induction p as [|c p IH]; intros H; [reflexivity|].
  simpl in H. apply andb_true_iff in H as [Hc Hp]. apply negb_true_iff in Hc.
  simpl. rewrite Hc, (IH Hp). reflexivity.
Qed.
Lemma split_join_dots l : dot_free l -> l <> [] -> split_dots (join_dots l) = l.
Proof.
  induction 1 as [|p l Hp Hl IH]; intros Hn; [contradiction|].
  destruct l as [|p2 l2]; [apply split_dots_dot_free_one; exact Hp|].
  change (join_dots (p :: p2 :: l2)) with (p ++ 46 :: join_dots (p2 :: l2)).
  rewrite (split_dots_app_dot _ _ Hp), IH by discriminate. reflexivity.
Qed.
Lemma split_dots_dot_free s : dot_free (split_dots s).
Proof.
  induction s as [|c r IH]; [repeat constructor|]. simpl.
  destruct (Z.eqb c 46) eqn:E.
  - constructor; [reflexivity | exact IH].
  - destruct (split_dots r) as [|h t]; [repeat constructor; simpl; now rewrite E|].
    inversion IH; subst. constructor; [simpl; rewrite E; assumption | assumption].
Qed.
Lemma join_dots_app a b : a <> [] -> b <> [] -> join_dots (a ++ b) = join_dots a ++ 46 :: join_dots b.
Proof.
  induction a as [|x a IH]; intros Ha Hb; [contradiction|].
  destruct a as [|y a'].
  - simpl. destruct b; [contradiction|reflexivity].
  - change ((x :: y :: a') ++ b) with (x :: ((y :: a') ++ b)).
    rewrite (join_dots_cons_app x ((y :: a') ++ b)) by (simpl; discriminate).
    rewrite IH by (auto; discriminate). rewrite (join_dots_cons_app x (y :: a')) by discriminate.
    rewrite <- app_assoc. reflexivity.
Qed.
Lemma dot_free_app a b : dot_free a -> dot_free b -> dot_free (a ++ b).
Proof. intros; apply Forall_app; split; assumption. Qed.

Section Fragment.
  Variable w : world.
  Variable c : cls.
  Hypothesis Hu : unique_names w.
  Hypothesis Hin : In c w.
  Hypothesis Hmod : module_part_ok (c_mod c) = true.
  Hypothesis Hdf : dot_free (c_qual c).
  Hypothesis Henc : enclosing_classes_defined w c.
  Hypothesis Hnm : no_module_named_like_class_path w c.
  Variables (pre : list str) (n : str).
  Hypothesis Hq : c_qual c = pre ++ [n].

  Notation m := (c_mod c).
  Notation vmod := (view_module str (w_import w)).
  Notation vattr := (view_attr str cls (w_getattr w)).
  Let sm := split_dots m.
  Let names0 := sm ++ pre.

  Lemma m_head : exists c0 r, m = c0 :: r /\ c0 <> 46.
  Proof.
    unfold module_part_ok in Hmod. destruct m as [|c0 r]; [discriminate|].
    exists c0, r. split; [reflexivity|]. apply negb_true_iff, Z.eqb_neq in Hmod. exact Hmod.
  Qed.

  Lemma sm_nonempty : sm <> [].
  Proof. apply split_dots_nonempty. Qed.

  Lemma pre_dot_free : dot_free pre /\ no_sep 46 n = true.
  Proof.
    unfold dot_free in Hdf. rewrite Hq in Hdf. apply Forall_app in Hdf as [H1 H2]. inversion H2; subst. auto.
  Qed.

  Lemma names0_ok : dot_free names0 /\ names0 <> [].
  Proof.
    split; [apply dot_free_app; [apply split_dots_dot_free | apply pre_dot_free]|].
    unfold names0. pose proof sm_nonempty. destruct sm; [contradiction|discriminate].
  Qed.

  (* w_import on a name that starts like m *)
  Lemma vmod_m : vmod m = Some m.
  Proof.
    destruct m_head as [c0 [r [Hm Hc0]]]. unfold view_module, w_import. rewrite Hm.
    change (str_startswith (c0 :: r) [DOT]) with (Z.eqb DOT c0 && true).
    assert (E : Z.eqb DOT c0 = false) by (apply Z.eqb_neq; unfold DOT; congruence). rewrite E. simpl andb. cbv iota.
    rewrite <- Hm, (module_exists_in w c Hin). reflexivity.
  Qed.
  Lemma vmod_longer j : (0 < j < length (c_qual c))%nat -> vmod (m ++ 46 :: join_dots (firstn j (c_qual c))) = None.
  Proof.
    intros Hj. destruct m_head as [c0 [r [Hm Hc0]]]. unfold view_module, w_import.
    pose proof (Hnm j Hj) as He. rewrite Hm in *. simpl app.
    change (str_startswith (c0 :: r ++ 46 :: join_dots (firstn j (c_qual c))) [DOT]) with (Z.eqb DOT c0 && true).
    assert (E : Z.eqb DOT c0 = false) by (apply Z.eqb_neq; unfold DOT; congruence). rewrite E. simpl andb. cbv iota.
    simpl app in He. rewrite He. reflexivity.
  Qed.

  Lemma firstn_pre j : (j <= length pre)%nat -> firstn j (c_qual c) = firstn j pre.
  Proof. intros Hj. rewrite Hq, firstn_app. replace (j - length pre)%nat with O by lia. simpl. apply app_nil_r. Qed.

  Lemma len_q : length (c_qual c) = S (length pre).
  Proof. rewrite Hq, app_length. simpl. lia. Qed.

  (* prefixes longer than the module's own names are not importable *)
  Lemma owner_from_skip j : (j <= length pre)%nat ->
    owner_from str cls vmod vattr w_is_type names0 (j + length sm) = owner_from str cls vmod vattr w_is_type names0 (length sm).
  Proof.
    induction j as [|j IH]; intros Hj; [reflexivity|].
    change (S j + length sm)%nat with (S (j + length sm)). cbn [owner_from].
    assert (Hf : firstn (S (j + length sm)) names0 = sm ++ firstn (S j) pre).
    { unfold names0. rewrite firstn_app. rewrite firstn_all2 by lia.
      replace (S (j + length sm) - length sm)%nat with (S j) by lia. reflexivity. }
    rewrite Hf. rewrite join_dots_app.
    - unfold sm at 1. rewrite join_split_dots. rewrite <- (firstn_pre (S j) Hj).
      rewrite vmod_longer by (rewrite len_q; lia). apply IH. lia.
    - apply sm_nonempty.
    - destruct pre; [simpl in Hj; lia | simpl; discriminate].
  Qed.

  Lemma owner_from_module : owner_from str cls vmod vattr w_is_type names0 (length sm)
                            = through_classes str cls vattr w_is_type (OMod m) pre.
  Proof.
    pose proof sm_nonempty as Hs. destruct (length sm) as [|l] eqn:El; [destruct sm; [contradiction|discriminate]|].
    cbn [owner_from]. rewrite <- El.
    assert (Hf : firstn (length sm) names0 = sm) by (unfold names0; rewrite firstn_app, firstn_all, Nat.sub_diag; simpl; apply app_nil_r).
    assert (Hk : skipn (length sm) names0 = pre) by (unfold names0; rewrite skipn_app, skipn_all, Nat.sub_diag; reflexivity).
    rewrite Hf, Hk. unfold sm at 1. rewrite join_split_dots, vmod_m. reflexivity.
  Qed.

  (* following the enclosing classes *)
  Definition at_path (o : owner str cls) (p : list str) : Prop :=
    (o = OMod m /\ p = []) \/ (exists c', o = OCls c' /\ In c' w /\ c_mod c' = m /\ c_qual c' = p /\ p <> []).

  Lemma vattr_step o done x : at_path o done ->
    forall c', In c' w -> c_mod c' = m -> c_qual c' = done ++ [x] -> vattr o x = Some c'.
  Proof.
    intros Ho c' Hin' Hm' Hq'. unfold view_attr, w_getattr.
    assert (Hl : lookup w m (done ++ [x]) = Some c') by (rewrite <- Hm', <- Hq'; apply lookup_defined; assumption).
    destruct Ho as [[-> ->]|[c1 [-> [_ [Hm1 [Hq1 _]]]]]].
    - simpl app in Hl. rewrite Hl. reflexivity.
    - rewrite Hm1, Hq1, Hl. reflexivity.
  Qed.

  Lemma walk_enclosing rest : forall done o, done ++ rest = pre -> at_path o done ->
    exists o', through_classes str cls vattr w_is_type o rest = Some o' /\ at_path o' pre.
  Proof.
    induction rest as [|x r IH]; intros done o Hd Ho.
    - rewrite app_nil_r in Hd. subst done. exists o. split; [reflexivity | exact Ho].
    - assert (Hj : (0 < S (length done) < length (c_qual c))%nat).
      { rewrite len_q, <- Hd, app_length. simpl. lia. }
      destruct (Henc _ Hj) as [c' [Hin' [Hm' Hq']]].
      assert (Hfq : firstn (S (length done)) (c_qual c) = done ++ [x]).
      { rewrite Hq, <- Hd, <- app_assoc. rewrite firstn_app, firstn_all2 by lia.
        replace (S (length done) - length done)%nat with 1%nat by lia. reflexivity. }
      rewrite Hfq in Hq'.
      cbn [through_classes]. rewrite (vattr_step o done x Ho c' Hin' Hm' Hq'). unfold w_is_type at 1.
      apply (IH (done ++ [x]) (OCls c')).
      + rewrite <- app_assoc. exact Hd.
      + right. exists c'. repeat split; auto. destruct done; discriminate.
  Qed.

  Lemma own_tag_resolves : c_kind c <> KPlain -> names_itself w c = true.
  Proof.
    intros Hk. unfold names_itself, w_table, resolve_spec.
    destruct names0_ok as [Hdf0 Hne0]. destruct pre_dot_free as [Hdfp Hn].
    (* the tag is  join_dots names0 ++ "." ++ n *)
    assert (Htag : full_name c = join_dots names0 ++ 46 :: n).
    { rewrite full_name_split. unfold cqualname. rewrite Hq. unfold names0.
      destruct pre as [|p0 pr] eqn:Ep.
      - rewrite app_nil_r. unfold sm. rewrite join_split_dots. reflexivity.
      - rewrite (join_dots_app sm (p0 :: pr)) by (try apply sm_nonempty; discriminate).
        rewrite (join_dots_app (p0 :: pr) [n]) by discriminate.
        unfold sm. rewrite join_split_dots, <- app_assoc. reflexivity. }
    rewrite Htag.
    destruct m_head as [c0 [r [Hm Hc0]]].
    assert (Hhead : exists tl, join_dots names0 = c0 :: tl).
    { unfold names0, sm. rewrite Hm. destruct (split_dots_head c0 r Hc0) as [h [t ->]].
      simpl app. match goal with |- context [join_dots (_ :: ?X)] => destruct X as [|y ys] end;
        [exists h | exists (h ++ 46 :: join_dots (y :: ys))]; reflexivity. }
    destruct Hhead as [tl Htl].
    simpl is_null. cbv iota. rewrite split_last_dot_rsplit1, (rsplit1_app 46 _ _ Hn).
    assert (Hmp : module_part_ok (join_dots names0) = true).
    { rewrite Htl. unfold module_part_ok. apply negb_true_iff, Z.eqb_neq. exact Hc0. }
    rewrite Hmp. simpl negb. cbv iota.
    unfold owner_of. rewrite (split_join_dots names0 Hdf0 Hne0).
    assert (Hlen : length names0 = (length pre + length sm)%nat) by (unfold names0; rewrite app_length; lia).
    rewrite Hlen, (owner_from_skip (length pre) (le_n _)), owner_from_module.
    destruct (walk_enclosing pre [] (OMod m) eq_refl (or_introl (conj eq_refl eq_refl))) as [o' [Hw Hat]].
    rewrite Hw.
    rewrite (vattr_step o' pre n Hat c Hin eq_refl Hq).
    unfold w_is_type. simpl negb. cbv iota.
    unfold view_subclass, w_issubclass, w_deserializer.
    destruct (c_kind c); [| |contradiction]; simpl; rewrite cls_eqb_refl; reflexivity.
  Qed.
End Fragment.

Theorem named_classes_are_ok w c :
  unique_names w -> In c w -> module_part_ok (c_mod c) = true -> dot_free (c_qual c) -> c_qual c <> [] ->
  enclosing_classes_defined w c -> no_module_named_like_class_path w c ->
  c_kind c <> KPlain -> is_local c = false -> cls_ok w c = true.
Proof.
  intros Hu Hin Hm Hd Hne He Hn Hk Hl.
  destruct (exists_last Hne) as [pre [n Hq]].
  unfold cls_ok. rewrite Hl. simpl. eapply own_tag_resolves; eauto.
Qed.

(* ---- regression examples for the former finding C18-d (fixed by 8efc58f): classes that also derive from a builtin type.
   The leaf / list tests of to_json used to come first, so such an object was written as the builtin value it also is;
   now the object's own / registered serialiser is asked first and it round-trips *)
Definition c_status : cls := {| c_mod := S_MOD; c_qual := [[83]]; c_kind := KReg; c_id := 20; c_base := Some Tint |}.    (* m.S(int), registered *)
Definition c_traj : cls := {| c_mod := S_MOD; c_qual := [[84]]; c_kind := KSer; c_id := 22; c_base := Some Tlist |}.    (* m.T(list, SubclassJSONSerializer) *)
Definition w_base : world := [c_status; c_traj].
Lemma builtin_base_round_trips :
  value_ok w_base (VObj c_status (JInt 404) [] : value jv) = true /\
  round_trip jv s_ufields s_usplit s_rser s_rdeser s_as_leaf s_as_items w_base 5 (VObj c_status (JInt 404) [])
  = Some (Return (VObj c_status (JInt 404) [])) /\
  value_ok w_base (VObj c_traj JNull [VInt 1; VInt 2] : value jv) = true /\
  round_trip jv s_ufields s_usplit s_rser s_rdeser s_as_leaf s_as_items w_base 5 (VObj c_traj JNull [VInt 1; VInt 2])
  = Some (Return (VObj c_traj JNull [VInt 1; VInt 2])).
Proof. repeat split; vm_compute; reflexivity. Qed.

(* ---- outside F: a class that is not bound under its qualified name in its module (finding C18-c): C types such as
   types.MappingProxyType (builtins.mappingproxy), name-mangled private nested classes (Planner.__State) *)
Definition c_unbound : cls := {| c_mod := S_MOD; c_qual := [[85]]; c_kind := KReg; c_id := 24; c_base := None |}.   (* m.U, defined but not in the world *)
Lemma unbound_class_not_found :
  in_grammar (VObj c_unbound (JInt 1) [] : value jv) = true /\
  round_trip jv s_ufields s_usplit s_rser s_rdeser s_as_leaf s_as_items [c_status] 5 (VObj c_unbound (JInt 1) [])
  = Some (RaiseJ ClassNotFoundError).
Proof. split; vm_compute; reflexivity. Qed.
