(* Sx: the canonical, comparable form of every observable outcome.
   Both the implementation side (Python harness) and the model side (Gallina) print into [sx];
   the comparison impl / model / spec is then computed inside Coq by [vm_compute]. *)
From Coq Require Import List ZArith Bool.
Import ListNotations.
Open Scope Z_scope.

Inductive sx : Type :=
| SZ (z : Z)
| SL (l : list sx).

Fixpoint sx_eqb (a b : sx) {struct a} : bool :=
  match a, b with
  | SZ x, SZ y => Z.eqb x y
  | SL xs, SL ys =>
      (fix go (xs ys : list sx) {struct xs} : bool :=
         match xs, ys with
         | [], [] => true
         | x :: xs', y :: ys' => sx_eqb x y && go xs' ys'
         | _, _ => false
         end) xs ys
  | _, _ => false
  end.

Definition sx_list_eqb : list sx -> list sx -> bool :=
  fix go (xs ys : list sx) {struct xs} : bool :=
    match xs, ys with
    | [], [] => true
    | x :: xs', y :: ys' => sx_eqb x y && go xs' ys'
    | _, _ => false
    end.

Lemma sx_eqb_SL xs ys : sx_eqb (SL xs) (SL ys) = sx_list_eqb xs ys.
Proof. reflexivity. Qed.

(* induction principle that sees through the nested list *)
Section SxInd.
  Variable P : sx -> Prop.
  Hypothesis HZ : forall z, P (SZ z).
  Hypothesis HL : forall l, Forall P l -> P (SL l).
  Fixpoint sx_ind' (s : sx) : P s :=
    match s with
    | SZ z => HZ z
    | SL l => HL l ((fix go (l : list sx) : Forall P l :=
                       match l with
                       | [] => Forall_nil P
                       | x :: l' => Forall_cons x (sx_ind' x) (go l')
                       end) l)
    end.
End SxInd.

Lemma sx_eqb_eq a : forall b, sx_eqb a b = true <-> a = b.
Proof.
  induction a as [z|l IH] using sx_ind'; intros [y|ys].
  - simpl. rewrite Z.eqb_eq. split; congruence.
  - simpl. split; intro H; discriminate.
  - simpl. split; intro H; discriminate.
  - rewrite sx_eqb_SL. revert ys. induction IH as [|x l Hx Hl IHl]; intros [|y ys]; simpl.
    + split; auto.
    + split; intro H; discriminate.
    + split; intro H; discriminate.
    + rewrite andb_true_iff, Hx, IHl. split.
      * intros [-> H]. congruence.
      * intros H. injection H as -> ->. auto.
Qed.

Lemma sx_eqb_refl a : sx_eqb a a = true.
Proof. now apply sx_eqb_eq. Qed.

(* insertion sort on sx, used to canonicalise outputs whose order the property ignores *)
Fixpoint sx_leb (a b : sx) {struct a} : bool :=
  match a, b with
  | SZ x, SZ y => Z.leb x y
  | SZ _, SL _ => true
  | SL _, SZ _ => false
  | SL xs, SL ys =>
      (fix go (xs ys : list sx) {struct xs} : bool :=
         match xs, ys with
         | [], _ => true
         | _ :: _, [] => false
         | x :: xs', y :: ys' => if sx_eqb x y then go xs' ys' else sx_leb x y
         end) xs ys
  end.

Fixpoint sx_insert (a : sx) (l : list sx) : list sx :=
  match l with
  | [] => [a]
  | b :: l' => if sx_leb a b then a :: l else b :: sx_insert a l'
  end.
Definition sx_sort (l : list sx) : list sx := fold_right sx_insert [] l.

Fixpoint sx_dedup_sorted (l : list sx) : list sx :=
  match l with
  | [] => []
  | a :: l' => match l' with
               | [] => [a]
               | b :: _ => if sx_eqb a b then sx_dedup_sorted l' else a :: sx_dedup_sorted l'
               end
  end.
Definition sx_set (l : list sx) : list sx := sx_dedup_sorted (sx_sort l).

Definition SB (b : bool) : sx := SZ (if b then 1 else 0).
Definition SN (n : nat) : sx := SZ (Z.of_nat n).

(* --- classification of one correspondence case -------------------------------------------
   impl : what the Python implementation produced (written into cases.v by the harness)
   model: what the code-faithful Gallina model computes
   spec : what the property's right-hand side (the Spec) computes
   0 = all agree            1 = impl = spec but model differs (model stale / inexact here)
   2 = impl = model <> spec (the implementation misses the Spec exactly as the faithful model predicts)
   3 = impl differs from both *)
Definition classify (impl model spec : sx) : Z :=
  if sx_eqb impl spec then (if sx_eqb model spec then 0 else 1)
  else if sx_eqb impl model then 2 else 3.

(* a case as written by the harness; [frag]: 0 = inside the proved fragment F, k>0 = class K_k *)
Record outcome := { o_code : Z; o_class : Z }.
Definition pack (o : outcome) : Z := o_code o * 100 + o_class o.
