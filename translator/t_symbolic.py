"""Fail-closed translation of the small pure DECISION code of symbolic.py / entity.py that the EQL model relies on:

  * optimize_or        -> Gen/SymbolicDecisions.v : optimize_or  (ElseIf vs Union)
  * the _invert_ table -> Gen/SymbolicDecisions.v : invert        (what not_() builds for each node class)
  * not_ / and_ / or_  (entity.py): checked to be `operand._invert_()`, chained_logic(AND, ..), chained_logic(optimize_or, ..) over the conditions wrapped by _as_condition
  * chained_logic      : checked to be the left fold

The generated definitions are proved equal to the hand-written smart constructors mk_or / mk_not of Eql/Syntax.v
(Props/C01.v, Props/C02.v), so a change of these decisions in the source breaks a proof obligation.
Anything this translator does not recognise raises Refuse with file:line."""
from __future__ import annotations

import ast
from pathlib import Path


class Refuse(Exception):
    pass


def _src(repo: str, rel: str):
    p = Path(repo) / rel
    return p, ast.parse(p.read_text())


def _find_func(tree: ast.AST, name: str, path) -> ast.FunctionDef:
    for n in tree.body:
        if isinstance(n, ast.FunctionDef) and n.name == name:
            return n
    raise Refuse(f"{path}: function {name} not found")


def _dump(n) -> str:
    return ast.dump(n, annotate_fields=False)


def _strip_doc(body):
    if body and isinstance(body[0], ast.Expr) and isinstance(body[0].value, ast.Constant) and isinstance(body[0].value.value, str):
        return body[1:]
    return body


def _expect(cond: bool, path, node, what: str):
    if not cond:
        raise Refuse(f"{path}:{getattr(node, 'lineno', '?')}: unrecognised construct in {what}: {ast.unparse(node)[:200]}")


def _nonliteral_vars(node, side: str, path) -> bool:
    """<side>._unique_variables_.filter(lambda v: not isinstance(v.value, Literal) and not v.value._should_be_instantiated_)
    -- the variables a side RANGES over: neither literals nor the results of predicates / symbolic functions (which the
    condition syntax of Eql/Syntax.v does not contain: there cond_vars is exactly this set)"""
    want = (f"{side}._unique_variables_.filter(lambda v: not isinstance(v.value, Literal) and "
            f"not v.value._should_be_instantiated_)")
    return ast.dump(node) == ast.dump(ast.parse(want, mode="eval").body)


def translate_optimize_or(repo: str) -> str:
    path, tree = _src(repo, "src/krrood/entity_query_language/symbolic.py")
    f = _find_func(tree, "optimize_or", path)
    _expect([a.arg for a in f.args.args] == ["left", "right"], path, f, "optimize_or signature")
    body = _strip_doc(f.body)
    _expect(len(body) == 3, path, f, "optimize_or body (expected two assignments and one if)")
    a1, a2, iff = body
    for a, side, name in ((a1, "left", "left_vars"), (a2, "right", "right_vars")):
        _expect(isinstance(a, ast.Assign) and len(a.targets) == 1 and isinstance(a.targets[0], ast.Name)
                and a.targets[0].id == name and _nonliteral_vars(a.value, side, path), path, a, "optimize_or variable sets")
    _expect(isinstance(iff, ast.If) and len(iff.body) == 1 and len(iff.orelse) == 1, path, iff, "optimize_or decision")
    t = iff.test
    _expect(isinstance(t, ast.Compare) and len(t.ops) == 1 and len(t.comparators) == 1, path, t, "optimize_or test")
    lhs, rhs = ast.unparse(t.left), ast.unparse(t.comparators[0])
    sets = {"set(left_vars.unwrapped_values)": "(cond_vars l)", "set(right_vars.unwrapped_values)": "(cond_vars r)"}
    _expect(lhs in sets and rhs in sets, path, t, "optimize_or test operands")
    op = t.ops[0]
    if isinstance(op, ast.Eq):
        test = f"same_vars {sets[lhs]} {sets[rhs]}"
    elif isinstance(op, ast.LtE):
        test = f"nsubset {sets[lhs]} {sets[rhs]}"
    elif isinstance(op, ast.GtE):
        test = f"nsubset {sets[rhs]} {sets[lhs]}"
    else:
        _expect(False, path, t, "optimize_or comparison operator")

    def branch(stmt):
        _expect(isinstance(stmt, ast.Return) and isinstance(stmt.value, ast.Call) and isinstance(stmt.value.func, ast.Name)
                and [ast.unparse(x) for x in stmt.value.args] == ["left", "right"] and not stmt.value.keywords,
                path, stmt, "optimize_or branch")
        ctor = {"ElseIf": "CElseIf", "Union": "CUnion", "AND": "CAnd"}.get(stmt.value.func.id)
        _expect(ctor is not None, path, stmt, "optimize_or constructor")
        return f"{ctor} l r"

    return (f"Definition optimize_or (l r : cond) : cond :=\n  if {test} then {branch(iff.body[0])} else {branch(iff.orelse[0])}.\n")


# what not_() builds, per node class that defines _invert_
EXPECTED_INVERT = {
    "SymbolicExpression": "return Not(self)",
    "ResultQuantifier": "raise UnsupportedNegation(self.__class__)",
    "QueryObjectDescriptor": "raise UnsupportedNegation(self.__class__)",
    "ForAll": "return Exists(self.variable, self.condition._invert_())",
    "Exists": "return ForAll(self.variable, self.condition._invert_())",
}


def translate_invert(repo: str) -> str:
    path, tree = _src(repo, "src/krrood/entity_query_language/symbolic.py")
    found = {}
    for cls in [n for n in ast.walk(tree) if isinstance(n, ast.ClassDef)]:
        for m in cls.body:
            if isinstance(m, ast.FunctionDef) and m.name == "_invert_":
                body = _strip_doc(m.body)
                _expect(len(body) == 1 and [a.arg for a in m.args.args] == ["self"], path, m, f"{cls.name}._invert_")
                found[cls.name] = (ast.unparse(body[0]), m)
    # also in the other modules of the package: an override anywhere changes what not_ builds
    pkg = Path(repo) / "src/krrood/entity_query_language"
    for other in sorted(pkg.glob("*.py")):
        if other.name == "symbolic.py":
            continue
        t2 = ast.parse(other.read_text())
        for cls in [n for n in ast.walk(t2) if isinstance(n, ast.ClassDef)]:
            for m in cls.body:
                if isinstance(m, ast.FunctionDef) and m.name == "_invert_":
                    raise Refuse(f"{other}:{m.lineno}: unexpected _invert_ override in class {cls.name}")
    for name, (text, node) in found.items():
        if name not in EXPECTED_INVERT:
            raise Refuse(f"{path}:{node.lineno}: unexpected _invert_ override in class {name}: {text}")
        if text != EXPECTED_INVERT[name]:
            raise Refuse(f"{path}:{node.lineno}: {name}._invert_ changed: {text}")
    for name in EXPECTED_INVERT:
        if name not in found:
            raise Refuse(f"{path}: {name}._invert_ not found")
    # not_ itself
    epath, etree = _src(repo, "src/krrood/entity_query_language/entity.py")
    f = _find_func(etree, "not_", epath)
    body = _strip_doc(f.body)
    text = "\n".join(ast.unparse(s) for s in body)
    _expect(text == "if not isinstance(operand, SymbolicExpression):\n    operand = Literal(operand)\nreturn operand._invert_()",
            epath, f, "not_")
    for fname, arg in (("and_", "AND"), ("or_", "optimize_or")):
        g = _find_func(etree, fname, epath)
        body = _strip_doc(g.body)
        # plain values given as conditions (bool constants) become Literals first (krrood 482b540); a Literal is an operand
        # of the model's syntax, so the fold over the wrapped conditions is the fold the model describes
        _expect(len(body) == 1 and ast.unparse(body[0]) == f"return chained_logic({arg}, *map(_as_condition, conditions))", epath, g, fname)
    ac = _find_func(etree, "_as_condition", epath)
    _expect("\n".join(ast.unparse(s) for s in _strip_doc(ac.body)) ==
            "if not isinstance(condition, SymbolicExpression):\n    condition = Literal(condition)\nreturn condition", epath, ac, "_as_condition")
    spath, stree = _src(repo, "src/krrood/entity_query_language/symbolic.py")
    cl = _find_func(stree, "chained_logic", spath)
    body = "\n".join(ast.unparse(s) for s in _strip_doc(cl.body))
    _expect(body == ("prev_operation = None\nfor condition in conditions:\n    if prev_operation is None:\n        prev_operation = condition\n"
                     "        continue\n    prev_operation = operator(prev_operation, condition)\nreturn prev_operation"),
            spath, cl, "chained_logic (expected the left fold)")
    return ("(* not_(c) = c._invert_(): ForAll / Exists are replaced by their dual over the inverted condition, every other\n"
            "   condition node is wrapped in Not (SymbolicExpression._invert_); descriptors and result quantifiers raise. *)\n"
            "Fixpoint invert (c : cond) : cond :=\n"
            "  match c with\n"
            "  | CForAll y c' => CExists (OVar y) (invert c')\n"
            "  | CExists (OVar y) c' => CForAll y (invert c')\n"
            "  | _ => CNot c\n"
            "  end.\n")


def translate(repo: str) -> str:
    head = ("(* GENERATED by /verif/translator/t_symbolic.py from src/krrood/entity_query_language/symbolic.py and entity.py\n"
            "   -- do not edit; regenerated on every run *)\n"
            "From Coq Require Import List Bool Arith.\n"
            "From Krrood Require Import Eql.Syntax.\n"
            "Import ListNotations.\n\n")
    return head + translate_optimize_or(repo) + "\n" + translate_invert(repo)


if __name__ == "__main__":
    import sys
    print(translate(sys.argv[1] if len(sys.argv) > 1 else "/repo"))
