"""Translate the registry code of krrood into coq/Gen/Registry.v  (properties C13 / C14 / C20).

Fail-closed, statement level: every statement of every target function (docstrings and comments dropped, text
normalised by ast.unparse) must be a known idiom; an unknown statement, a missing or additional target-relevant
statement kind, or a changed signature aborts with file:line.  The idiom table is the trusted assumption "this Python
statement means this update of the model state"; what is *generated* is which statements each method consists of and
in which order, i.e. the composition.  coq/Onto/RegistryGen.v then proves that the generated definitions equal the
hand-written model the theorems are about.

State-updating methods become compositions of state transformers (Onto/Registry.v primitives):
    SymbolGraph.add_node, remove_node, add_relation (with its guard), relation_exists
Whole-body idioms (one definition per function):
    remove_dead_instances, get_instances_of_type, get_wrapped_instance, ensure_wrapped_instance, clear,
    WrappedInstance.__post_init__ / .instance, PredicateClassRelation.__post_init__ / add_to_graph,
    utils.recursive_subclasses, predicate.Symbol.__new__ / update_cache,
    entity._get_domain_source_from_domain_and_type_values, hashed_data.HashedIterable.__iter__,
    symbolic: the evaluate() that sweeps, singleton.SingletonMeta.__call__ / clear_instance
"""
from __future__ import annotations

import ast
from pathlib import Path
from typing import Dict, List, Tuple

from .py2coq import Refuse

SG = "src/krrood/entity_query_language/symbol_graph.py"
UT = "src/krrood/utils.py"
PR = "src/krrood/entity_query_language/predicate.py"
EN = "src/krrood/entity_query_language/entity.py"
HD = "src/krrood/entity_query_language/hashed_data.py"
SY = "src/krrood/entity_query_language/symbolic.py"
SI = "src/krrood/singleton.py"

# ---------------------------------------------------------------- statement idioms of the state-updating methods
# value: ("upd", gallina transformer applied as `<t> r <arg>`) | ("nop",) | ("guard_false", cond) | ("ret_true",)
UPD: Dict[str, tuple] = {
    # add_node(self, wrapped_instance)
    "wrapped_instance.index = self._instance_graph.add_node(wrapped_instance)": ("upd", "u_graph_add_node"),
    "wrapped_instance._symbol_graph_ = self": ("nop",),
    "self._instance_index[id(wrapped_instance.instance)] = wrapped_instance": ("upd", "u_index_set"),
    "self._class_to_wrapped_instances[wrapped_instance.instance_type].append(wrapped_instance)": ("upd", "u_class_append"),
    # remove_node(self, wrapped_instance)
    "if self._instance_index.get(wrapped_instance.instance_id) is wrapped_instance:\n"
    "    del self._instance_index[wrapped_instance.instance_id]": ("upd", "u_index_del_if_same"),
    "self._class_to_wrapped_instances[wrapped_instance.instance_type].remove(wrapped_instance)": ("upd", "u_class_remove"),
    "index = wrapped_instance.index": ("nop",),
    "for source, target, relation in list(self._instance_graph.in_edges(index)) + list(self._instance_graph.out_edges(index)):\n"
    "    self._relation_index.get(relation.wrapped_field, set()).discard((source, target))": ("upd", "u_rel_discard_incident"),
    "self._instance_graph.remove_node(index)": ("upd", "u_graph_remove_node"),
    # add_relation(self, relation)
    "if self.relation_exists(relation):\n    return False": ("guard_false", "g_relation_exists"),
    "self._instance_graph.add_edge(relation.source.index, relation.target.index, relation)": ("upd", "u_graph_add_edge"),
    "if relation.wrapped_field not in self._relation_index:\n    self._relation_index[relation.wrapped_field] = set()": ("nop",),
    "self._relation_index[relation.wrapped_field].add((relation.source.index, relation.target.index))": ("upd", "u_rel_add"),
    "return True": ("ret_true",),
}

# ---------------------------------------------------------------- whole-body idioms
# (file, qualified name, expected parameter names, expected normalised body, gallina definition emitted)
BODY: List[Tuple[str, str, List[str], List[str], str]] = [
    (SG, "SymbolGraph.relation_exists", ["self", "relation"],
     ["return (relation.source.index, relation.target.index) in self._relation_index.get(relation.wrapped_field, set())"],
     "Definition g_relation_exists (r : reg) (e : edge) : bool := existsb (edge_eqb e) (rel_index r)."),
    (SG, "SymbolGraph.remove_dead_instances", ["self"],
     ["for node in self._instance_graph.nodes():\n    if node.instance is None:\n        self.remove_node(node)"],
     "Definition g_sweep (L : list orec) (r : reg) : reg :=\n"
     "  fold_left (fun r w => if mem_obj (w_obj w) L then r else g_remove_node r w) (nodes r) r."),
    (UT, "recursive_subclasses", ["cls"],
     ["subclasses = cls.__subclasses__() + [g for s in cls.__subclasses__() for g in recursive_subclasses(s)]",
      "return list(dict.fromkeys(subclasses))"],
     "Fixpoint g_rsub (children : cls -> list cls) (n : nat) (c : cls) : list cls :=\n"
     "  match n with 0 => [] | S n' => dedup (children c ++ flat_map (g_rsub children n') (children c)) end."),
    (SG, "WrappedInstance.__post_init__", ["self", "instance"],
     ["self.instance_reference = weakref.ref(instance)", "self.instance_type = type(instance)", "self.instance_id = id(instance)"],
     "Definition g_wrap (x : orec) (i : idx) : wrapper := W (o_id x) (o_cls x) (o_pyid x) i."),
    (SG, "WrappedInstance.instance", ["self"],
     ["return self.instance_reference()"],
     "Definition g_deref (L : list orec) (w : wrapper) : option obj := if mem_obj (w_obj w) L then Some (w_obj w) else None."),
    (SG, "SymbolGraph.get_instances_of_type", ["self", "type_"],
     ["instances = (instance.instance for cls in [type_] + recursive_subclasses(type_) for instance in list(self._class_to_wrapped_instances[cls]))",
      "yield from filter(lambda instance: instance is not None, instances)"],
     "Definition g_instances_raw (children : cls -> list cls) (fuel : nat) (L : list orec) (r : reg) (T : cls) : list (option obj) :=\n"
     "  flat_map (fun c => map (g_deref L) (filter (fun w => w_cls w =? c) (wl r))) (T :: g_rsub children fuel T).\n"
     "Definition g_instances (children : cls -> list cls) (fuel : nat) (L : list orec) (r : reg) (T : cls) : list (option obj) :=\n"
     "  filter (fun x => match x with Some _ => true | None => false end) (g_instances_raw children fuel L r T)."),
    (SG, "SymbolGraph.get_wrapped_instance", ["self", "instance"],
     ["if isinstance(instance, WrappedInstance):\n    return instance", "return self._instance_index.get(id(instance), None)"],
     "Definition g_get_wrapped (r : reg) (x : orec) : option wrapper := get (o_pyid x) (by_id r)."),
    (SG, "SymbolGraph.ensure_wrapped_instance", ["self", "instance"],
     ["wrapped_instance = self.get_wrapped_instance(instance)",
      "if wrapped_instance is None:\n    wrapped_instance = WrappedInstance(instance)\n    self.add_node(wrapped_instance)",
      "return wrapped_instance"],
     "Definition g_ensure (L : list orec) (r : reg) (o : obj) (i : idx) : reg * option wrapper :=\n"
     "  match find (fun x => o_id x =? o) L with\n"
     "  | None => (r, None)\n"
     "  | Some x => match g_get_wrapped r x with\n"
     "              | Some w => (r, Some w)\n"
     "              | None => (g_add_node r (g_wrap x i), Some (g_wrap x i))\n"
     "              end\n"
     "  end."),
    (SG, "PredicateClassRelation.__post_init__", ["self"],
     ["self.source = SymbolGraph().ensure_wrapped_instance(self.source)",
      "self.target = SymbolGraph().ensure_wrapped_instance(self.target)"],
     "Definition g_relation_init (L : list orec) (r : reg) (a b : obj) (ia ib : idx) : reg * option (wrapper * wrapper) :=\n"
     "  match g_ensure L r a ia with\n"
     "  | (r1, Some wa) => match g_ensure L r1 b ib with\n"
     "                     | (r2, Some wb) => (r2, Some (wa, wb))\n"
     "                     | (r2, None) => (r2, None)\n"
     "                     end\n"
     "  | (r1, None) => (r1, None)\n"
     "  end."),
    (SG, "PredicateClassRelation.add_to_graph", ["self"],
     ["return SymbolGraph().add_relation(self)"],
     "Definition g_relate (L : list orec) (r : reg) (a : obj) (f : fld) (b : obj) (ia ib : idx) : reg * option bool :=\n"
     "  match g_relation_init L r a b ia ib with\n"
     "  | (r2, Some (wa, wb)) => let '(r3, nw) := g_add_relation r2 (w_idx wa, w_idx wb, f) in (r3, Some nw)\n"
     "  | (r2, None) => (r2, None)\n"
     "  end."),
    (SG, "SymbolGraph.clear", ["self"], ["SingletonMeta.clear_instance(type(self))"], ""),
    (SI, "SingletonMeta.__call__", ["cls"],
     ["if cls not in cls._instances:\n    cls._instances[cls] = super().__call__(*args, **kwargs)", "return cls._instances[cls]"], ""),
    (SI, "SingletonMeta.clear_instance", ["cls"],
     ["if cls in cls._instances:\n    del cls._instances[cls]"],
     "Definition g_clear (r : reg) : reg := empty_reg."),
    (PR, "Symbol.__new__", ["cls"],
     ["instance = super().__new__(cls)", "update_cache(instance)", "return instance"], ""),
    (PR, "update_cache", ["instance"],
     ["if not isinstance(instance, Predicate):\n    SymbolGraph().add_node(WrappedInstance(instance))"],
     "Definition g_new (r : reg) (x : orec) (i : idx) : reg := g_add_node r (g_wrap x i)."),
    (EN, "_get_domain_source_from_domain_and_type_values", ["domain", "type_"],
     ["if is_iterable(domain):\n    domain = _instances_of(type_, domain)\n"
      "elif domain is None and issubclass(type_, Symbol):\n"
      "    return From(SymbolGraph().get_instances_of_type(type_), symbol_graph_type=type_)",
      "return From(domain)"], ""),
    (HD, "HashedIterable.__iter__", ["self"],
     ["index = 0",
      "while True:\n"
      "    cached = list(self.values.values())[index:]\n"
      "    if cached:\n"
      "        for v in cached:\n"
      "            index += 1\n"
      "            yield v\n"
      "        continue\n"
      "    if not hasattr(self.iterable, '__next__'):\n"
      "        self.iterable = iter(self.iterable)\n"
      "    for v in self.iterable:\n"
      "        if v.id_ not in self.values:\n"
      "            self.values[v.id_] = v\n"
      "            break\n"
      "    else:\n"
      "        return"],
     "(* the domain of a domain-less variable, consumed one value at a time: the registry generator is walked lazily (rest of the\n"
     "   snapshot of the class being walked, then the classes not reached yet, each wrapper dereferenced at its turn); the cache\n"
     "   skips a value whose id it holds already and holds every value it passes on *)\n"
     "Fixpoint g_pull_cur (L : list orec) (seen : list (option obj)) (cur : list wrapper) : option (option obj * list wrapper) :=\n"
     "  match cur with\n"
     "  | [] => None\n"
     "  | w :: t => match g_deref L w with\n"
     "              | None => g_pull_cur L seen t\n"
     "              | Some o => if existsb (oeqb (Some o)) seen then g_pull_cur L seen t else Some (Some o, t)\n"
     "              end\n"
     "  end.\n"
     "Fixpoint g_pull_classes (L : list orec) (r : reg) (seen : list (option obj)) (cs : list cls)\n"
     "  : option (option obj * list wrapper * list cls) :=\n"
     "  match cs with\n"
     "  | [] => None\n"
     "  | c :: cs' => match g_pull_cur L seen (filter (fun w => w_cls w =? c) (wl r)) with\n"
     "                | Some (v, t) => Some (v, t, cs')\n"
     "                | None => g_pull_classes L r seen cs'\n"
     "                end\n"
     "  end."),
]

UPD_TARGETS = [
    (SG, "SymbolGraph.add_node", ["self", "wrapped_instance"], "g_add_node", "(r : reg) (w : wrapper) : reg", "w"),
    (SG, "SymbolGraph.remove_node", ["self", "wrapped_instance"], "g_remove_node", "(r : reg) (w : wrapper) : reg", "w"),
    (SG, "SymbolGraph.add_relation", ["self", "relation"], "g_add_relation", "(r : reg) (e : edge) : reg * bool", "e"),
]

HEADER = """(* GENERATED by /verif/translator/t_registry.py from krrood's symbol_graph.py, utils.py, predicate.py, entity.py,
   hashed_data.py, symbolic.py, singleton.py -- do not edit; regenerated on every run *)
From Coq Require Import List Arith Bool PeanoNat.
From Krrood Require Import Onto.RegistrySpec Onto.Registry Onto.RegistryIdioms.
Import ListNotations.
"""


def _find(tree: ast.Module, qual: str, fn: str):
    node = tree
    for part in qual.split("."):
        cands = [n for n in node.body if isinstance(n, (ast.FunctionDef, ast.ClassDef)) and n.name == part]
        if len(cands) != 1:
            raise Refuse(node if hasattr(node, "lineno") else tree.body[0], f"{qual}: {len(cands)} definitions of {part}", fn)
        node = cands[0]
    if not isinstance(node, ast.FunctionDef):
        raise Refuse(node, f"{qual} is not a function", fn)
    return node


def _stmts(f: ast.FunctionDef):
    out = []
    for s in f.body:
        if isinstance(s, ast.Expr) and isinstance(s.value, ast.Constant) and isinstance(s.value.value, str):
            continue
        if isinstance(s, ast.Pass):
            continue
        out.append((ast.unparse(s), s))
    return out


def _params(f: ast.FunctionDef) -> List[str]:
    a = f.args
    return [x.arg for x in a.posonlyargs + a.args]


def translate(repo: str) -> str:
    trees: Dict[str, ast.Module] = {}

    def tree(rel):
        if rel not in trees:
            p = Path(repo) / rel
            trees[rel] = ast.parse(p.read_text(), filename=str(p))
        return trees[rel]

    out = [HEADER]
    defs: Dict[str, str] = {}
    # whole-body idioms
    for rel, qual, params, body, gallina in BODY:
        fn = str(Path(repo) / rel)
        f = _find(tree(rel), qual, fn)
        if _params(f)[: len(params)] != params:
            raise Refuse(f, f"{qual}: parameters {_params(f)} (expected {params})", fn)
        got = _stmts(f)
        if [g for g, _ in got] != body:
            for k, (g, node) in enumerate(got):
                if k >= len(body) or g != body[k]:
                    raise Refuse(node, f"{qual}: statement not in the idiom table: {g!r}", fn)
            raise Refuse(f, f"{qual}: body has {len(got)} statements, the idiom has {len(body)}", fn)
        defs[qual] = gallina
    # the evaluate() that sweeps before evaluating (symbolic.py): exactly one, first statement of its body
    fn = str(Path(repo) / SY)
    ev = [n for c in tree(SY).body if isinstance(c, ast.ClassDef) for n in c.body
          if isinstance(n, ast.FunctionDef) and n.name == "evaluate"]
    sweeping = [n for n in ev if any("remove_dead_instances" in g for g, _ in _stmts(n))]
    if len(sweeping) != 1:
        raise Refuse(tree(SY).body[0], f"{len(sweeping)} evaluate() methods sweep the symbol graph (expected 1)", fn)
    st = _stmts(sweeping[0])
    EVALUATE = [
        "nodes = []",
        "pending = [self]",
        "seen = set()",
        "while pending:\n    node = pending.pop()\n    if id(node) in seen:\n        continue\n    seen.add(id(node))\n"
        "    nodes.append(node)\n    pending.extend(node._descendants_)\n    pending.extend(node._all_variable_instances_)",
        "nodes = nodes[1:]",
        "for node in nodes:\n    node._forget_evaluation_memory_()",
        "SymbolGraph().remove_dead_instances()",
        "self.__dict__['_live_evaluations_'] = self.__dict__.get('_live_evaluations_', 0) + 1",
        "try:\n    yield from map(self._process_result_, self._evaluate__())\n"
        "finally:\n    self.__dict__['_live_evaluations_'] -= 1\n    for node in nodes:\n"
        "        if isinstance(node, Variable) or not self.__dict__['_live_evaluations_']:\n            node._forget_evaluation_memory_()",
    ]
    if [g for g, _ in st] != EVALUATE:
        for k, (g, node) in enumerate(st):
            if k >= len(EVALUATE) or g != EVALUATE[k]:
                raise Refuse(node, f"evaluate(): statement not in the idiom table: {g!r}", fn)
        raise Refuse(sweeping[0], f"evaluate(): body has {len(st)} statements, the idiom has {len(EVALUATE)}", fn)
    # the per-evaluation hook: in symbolic.py only the base class (empty body) and Variable define it; a variable whose
    # domain is the symbol graph drops the domain it holds and binds a fresh, unstarted generator to the current graph
    HOOK = [
        "source = self._domain_source_",
        "if source is not None and source.symbol_graph_type is not None:\n"
        "    source.domain = SymbolGraph().get_instances_of_type(source.symbol_graph_type)\n"
        "    self._domain_ = HashedIterable()\n"
        "    self._update_domain_(source.domain)",
    ]
    hooks = {c.name: n for c in tree(SY).body if isinstance(c, ast.ClassDef) for n in c.body
             if isinstance(n, ast.FunctionDef) and n.name == "_forget_evaluation_memory_"}
    if sorted(hooks) != ["SymbolicExpression", "Variable"]:
        raise Refuse(tree(SY).body[0], f"_forget_evaluation_memory_ is defined in {sorted(hooks)} "
                                       "(expected: SymbolicExpression and Variable)", fn)
    if _stmts(hooks["SymbolicExpression"]):
        raise Refuse(hooks["SymbolicExpression"], "SymbolicExpression._forget_evaluation_memory_ is not empty", fn)
    got = _stmts(hooks["Variable"])
    if [g for g, _ in got] != HOOK:
        for k, (g, node) in enumerate(got):
            if k >= len(HOOK) or g != HOOK[k]:
                raise Refuse(node, f"Variable._forget_evaluation_memory_: statement not in the idiom table: {g!r}", fn)
        raise Refuse(hooks["Variable"], "Variable._forget_evaluation_memory_: statements missing", fn)
    defs["evaluate"] = (
        "(* a complete evaluation of a query over let(T, None): the variables forget, the graph is swept, the registry is enumerated NOW\n"
        "   with every id once, and when the evaluation is over (finally) the variables forget again: nothing stays held *)\n"
        "Definition g_eval (children : cls -> list cls) (fuel : nat) (L : list orec) (r : reg) (T : cls) : reg * list (option obj) :=\n"
        "  let r' := g_sweep L r in (r', dedupo (g_instances children fuel L r' T)).\n"
        "Definition g_held_after_eval : list obj := [].")
    # state-updating methods: composition of statement idioms, in source order
    upd_defs = {}
    for rel, qual, params, gname, sig, arg in UPD_TARGETS:
        fn = str(Path(repo) / rel)
        f = _find(tree(rel), qual, fn)
        if _params(f) != params:
            raise Refuse(f, f"{qual}: parameters {_params(f)} (expected {params})", fn)
        lines = []
        guard = None
        returns_bool = sig.endswith("reg * bool")
        ret_true = False
        for g, node in _stmts(f):
            if g not in UPD:
                raise Refuse(node, f"{qual}: statement not in the idiom table: {g!r}", fn)
            idi = UPD[g]
            if ret_true:
                raise Refuse(node, f"{qual}: statement after return", fn)
            if idi[0] == "nop":
                lines.append(f"  (* {g.splitlines()[0][:90]} : no effect on the model state *)")
            elif idi[0] == "upd":
                lines.append(f"  let r := {idi[1]} r {arg} in")
            elif idi[0] == "guard_false":
                if lines or not returns_bool:
                    raise Refuse(node, f"{qual}: guard not at the beginning", fn)
                guard = idi[1]
            elif idi[0] == "ret_true":
                ret_true = True
        if returns_bool:
            if not ret_true or guard is None:
                raise Refuse(f, f"{qual}: expected `if exists: return False ... return True`", fn)
            body = "\n".join(lines) + "\n  (r, true)"
            upd_defs[gname] = f"Definition {gname} {sig} :=\n  if {guard} r {arg} then (r, false) else\n{body}."
        else:
            upd_defs[gname] = f"Definition {gname} {sig} :=\n" + "\n".join(lines) + "\n  r."
    # emit in dependency order
    order = ["g_add_node", "g_remove_node"]
    out.append(upd_defs["g_add_node"])
    out.append(upd_defs["g_remove_node"])
    out.append(defs["SymbolGraph.relation_exists"])
    out.append(upd_defs["g_add_relation"])
    for qual in ["SymbolGraph.remove_dead_instances", "recursive_subclasses", "WrappedInstance.__post_init__",
                 "WrappedInstance.instance", "SymbolGraph.get_instances_of_type", "SymbolGraph.get_wrapped_instance",
                 "SymbolGraph.ensure_wrapped_instance", "PredicateClassRelation.__post_init__",
                 "PredicateClassRelation.add_to_graph", "SingletonMeta.clear_instance", "update_cache", "HashedIterable.__iter__",
                 "evaluate"]:
        out.append(defs[qual])
    return "\n\n".join(out) + "\n"


if __name__ == "__main__":
    import sys
    print(translate(sys.argv[1] if len(sys.argv) > 1 else "/repo"))
