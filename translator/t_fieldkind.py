"""Translate the classification predicates of class_diagrams/wrapped_field.py (and the two helper predicates of
class_diagrams/utils.py they call) into coq/Gen/FieldKind.v.

Every translated `cached_property` P of WrappedField becomes
    Definition P (self : wfield) : res T
over the annotation grammar `ty` of Diagram/Ty.v, in the result monad (Ok v | Raise exn) so that Python's
short-circuit evaluation and the exceptions the predicates can raise are kept.  Library calls are translated
only through the fixed idiom table below (get_origin, get_args, `in`, `is`, `==`, len, [0], issubclass(_, enum.Enum),
hasattr(_, "__iter__"), `.__module__ == "builtins"`, all(<genexp>), next(x for x in get_args(..) if <test>),
try/except IndexError); anything else is refused
with file:line.  The idioms' meaning on the grammar is Diagram/Ty.v (trusted, validated every run by executing
both sides on every annotation of the grammar up to depth 2).
"""
from __future__ import annotations

import ast
import sys
from pathlib import Path
from typing import Dict, List, Tuple

from .py2coq import Refuse, is_docstring

SRC = "src/krrood/class_diagrams/wrapped_field.py"
SRC_UTILS = "src/krrood/class_diagrams/utils.py"

# name -> expected result type; the set is closed: a predicate that disappears or changes type is refused
METHODS: Dict[str, str] = {
    "is_builtin_type": "bool", "is_container": "bool", "container_type": "origin", "is_collection_of_builtins": "bool",
    "is_optional": "bool", "contained_type": "ty", "is_type_type": "bool", "is_enum": "bool",
    "is_one_to_one_relationship": "bool", "is_one_to_many_relationship": "bool", "is_iterable": "bool",
    "type_endpoint": "ty", "is_role_taker": "bool",
}
UTIL_FUNCS: Dict[str, str] = {"behaves_like_a_built_in_class": "bool", "is_builtin_class": "bool"}

TY_NAMES = {"int": "(Builtin BInt)", "float": "(Builtin BFloat)", "str": "(Builtin BStr)", "bool": "(Builtin BBool)",
            "datetime": "(Builtin BDatetime)", "NoneType": "(Builtin BNoneType)"}
ORIGIN_NAMES = {"Union": "OUnion", "Optional": "OOptional", "UnionType": "OUnionType", "list": "OList", "set": "OSet", "tuple": "OTuple",
                "type": "OType", "Sequence": "OSeq"}
EXCEPTIONS = ["TypeError", "ValueError", "IndexError", "AttributeError", "MissingContainedTypeOfContainer", "StopIteration"]
COQ_TY = {"bool": "bool", "ty": "ty", "origin": "origin", "tys": "list ty", "origins": "list origin", "nat": "nat"}

E = Tuple[str, str, bool]  # gallina term, type tag, monadic (term : res T) or pure (term : T)


class Tr:
    def __init__(self, filename: str, container_types: str, known_self: Dict[str, str], known_funcs: Dict[str, str]):
        self.fn = filename
        self.container_types = container_types
        self.known_self = known_self
        self.known_funcs = known_funcs
        self.fresh = 0
        self.deps: set = set()

    # ---------------------------------------------------------------- helpers
    def var(self, base="v") -> str:
        self.fresh += 1
        return f"{base}{self.fresh}"

    @staticmethod
    def lift(e: E) -> str:
        return e[0] if e[2] else f"(Ok {e[0]})"

    def bindn(self, args: List[E], k) -> E:
        """Evaluate args left to right (Python order), pass pure terms to k -> (term, type, monadic)."""
        names, binders = [], []
        for a in args:
            if a[2]:
                v = self.var()
                binders.append((v, a[0]))
                names.append(v)
            else:
                names.append(a[0])
        body = k(*names)
        if not binders:
            return body
        t = self.lift(body)
        for v, m in reversed(binders):
            t = f"(bind {m} (fun {v} => {t}))"
        return (t, body[1], True)

    # ---------------------------------------------------------------- expressions
    def expr(self, e: ast.AST, env: Dict[str, Tuple[str, str]]) -> E:
        fn = self.fn
        if isinstance(e, ast.Constant):
            if e.value is True:
                return ("true", "bool", False)
            if e.value is False:
                return ("false", "bool", False)
            if isinstance(e.value, int) and not isinstance(e.value, bool) and e.value >= 0:
                return (str(e.value), "nat", False)
            raise Refuse(e, f"constant {e.value!r}", fn)
        if isinstance(e, ast.Name):
            if e.id in env:
                return (env[e.id][0], env[e.id][1], False)
            if e.id in TY_NAMES:
                return (TY_NAMES[e.id], "ty", False)
            if e.id in ORIGIN_NAMES:
                return (ORIGIN_NAMES[e.id], "origin", False)
            raise Refuse(e, f"unknown name {e.id}", fn)
        if isinstance(e, ast.List):
            if not e.elts:
                raise Refuse(e, "empty list literal", fn)
            xs = [self.expr(x, env) for x in e.elts]
            if any(x[2] for x in xs) or len({x[1] for x in xs}) != 1 or xs[0][1] not in ("ty", "origin"):
                raise Refuse(e, "list literal is not a list of type / origin constants", fn)
            return ("[" + "; ".join(x[0] for x in xs) + "]", xs[0][1] + "s", False)
        if isinstance(e, ast.Attribute):
            # self.<translated property> | self.resolved_type | self.container_types
            if isinstance(e.value, ast.Name) and e.value.id == "self" and "self" in env:
                if e.attr in self.known_self:
                    self.deps.add(e.attr)
                    return (f"({e.attr} self)", self.known_self[e.attr], True)
                if e.attr == "resolved_type":
                    return ("(resolved_type self)", "ty", False)
                if e.attr == "container_types":
                    return (self.container_types, "origins", False)
            raise Refuse(e, f"attribute {ast.unparse(e)}", fn)
        if isinstance(e, ast.UnaryOp) and isinstance(e.op, ast.Not):
            v = self.expr(e.operand, env)
            if v[1] != "bool":
                raise Refuse(e, "not on a non-boolean", fn)
            return (f"(mnot {v[0]})", "bool", True) if v[2] else (f"(negb {v[0]})", "bool", False)
        if isinstance(e, ast.BoolOp):
            vs = [self.expr(v, env) for v in e.values]
            if any(v[1] != "bool" for v in vs):
                raise Refuse(e, "and/or on non-boolean operands (Python would return an operand)", fn)
            is_and = isinstance(e.op, ast.And)
            if not any(v[2] for v in vs):
                f = "andb" if is_and else "orb"
                out = vs[-1][0]
                for v in reversed(vs[:-1]):
                    out = f"({f} {v[0]} {out})"
                return (out, "bool", False)
            f = "mand" if is_and else "mor"
            out = self.lift(vs[-1])
            for v in reversed(vs[:-1]):
                out = f"({f} {self.lift(v)} {out})"
            return (out, "bool", True)
        if isinstance(e, ast.Compare):
            if len(e.ops) != 1:
                raise Refuse(e, "chained comparison", fn)
            return self.compare(e, e.left, e.ops[0], e.comparators[0], env)
        if isinstance(e, ast.Subscript):
            if not (isinstance(e.slice, ast.Constant) and e.slice.value == 0):
                raise Refuse(e, "subscript other than [0]", fn)
            v = self.expr(e.value, env)
            if v[1] != "tys":
                raise Refuse(e, f"[0] on {v[1]}", fn)
            return self.bindn([v], lambda a: (f"(index0 {a})", "ty", True))
        if isinstance(e, ast.Call):
            return self.call(e, env)
        raise Refuse(e, f"expression kind {type(e).__name__}", fn)

    def compare(self, node, left, op, right, env) -> E:
        fn = self.fn
        # self.field.default == MISSING / self.field.default_factory == MISSING
        if (isinstance(op, ast.Eq) and isinstance(right, ast.Name) and right.id == "MISSING"
                and isinstance(left, ast.Attribute) and isinstance(left.value, ast.Attribute)
                and isinstance(left.value.value, ast.Name) and left.value.value.id == "self"
                and left.value.attr == "field" and left.attr in ("default", "default_factory") and "self" in env):
            return (f"(negb (has_{left.attr} self))", "bool", False)
        # x.__module__ == "builtins"
        if (isinstance(op, ast.Eq) and isinstance(left, ast.Attribute) and left.attr == "__module__"
                and isinstance(right, ast.Constant) and right.value == "builtins"):
            v = self.expr(left.value, env)
            if v[1] != "ty":
                raise Refuse(node, "__module__ of a non-type", fn)
            return self.bindn([v], lambda a: (f"(module_is_builtins {a})", "bool", True))
        # x == UUID
        if isinstance(op, ast.Eq) and isinstance(right, ast.Name) and right.id == "UUID":
            v = self.expr(left, env)
            if v[1] != "ty":
                raise Refuse(node, "== UUID on a non-type", fn)
            return self.bindn([v], lambda a: (f"(is_uuid {a})", "bool", False))
        # x is Type   (the bare typing.Type alias)
        if isinstance(op, ast.Is) and isinstance(right, ast.Name) and right.id == "Type":
            v = self.expr(left, env)
            if v[1] != "ty":
                raise Refuse(node, "`is Type` on a non-type", fn)
            return self.bindn([v], lambda a: (f"(is_bare_Type {a})", "bool", False))
        # len(x) == n
        if (isinstance(op, ast.Eq) and isinstance(left, ast.Call) and isinstance(left.func, ast.Name)
                and left.func.id == "len" and len(left.args) == 1 and not left.keywords):
            v = self.expr(left.args[0], env)
            n = self.expr(right, env)
            if v[1] not in ("tys", "origins") or n[1] != "nat":
                raise Refuse(node, "len(...) == ... on unsupported operands", fn)
            return self.bindn([v, n], lambda a, b: (f"(Nat.eqb (length {a}) {b})", "bool", False))
        a = self.expr(left, env)
        b = self.expr(right, env)
        if isinstance(op, (ast.In, ast.NotIn)):
            if (a[1], b[1]) == ("ty", "tys"):
                f = "ty_in"
            elif (a[1], b[1]) == ("origin", "origins"):
                f = "origin_in"
            else:
                raise Refuse(node, f"membership test {a[1]} in {b[1]}", fn)
            neg = isinstance(op, ast.NotIn)
            return self.bindn([a, b], lambda x, y: (f"(negb ({f} {x} {y}))" if neg else f"({f} {x} {y})", "bool", False))
        if isinstance(op, (ast.Eq, ast.Is, ast.NotEq, ast.IsNot)):
            if (a[1], b[1]) == ("origin", "origin"):
                f = "origin_eqb"
            elif (a[1], b[1]) == ("ty", "ty"):
                f = "ty_eqb"
            else:
                raise Refuse(node, f"comparison of {a[1]} with {b[1]}", fn)
            neg = isinstance(op, (ast.NotEq, ast.IsNot))
            return self.bindn([a, b], lambda x, y: (f"(negb ({f} {x} {y}))" if neg else f"({f} {x} {y})", "bool", False))
        raise Refuse(node, f"comparison operator {type(op).__name__}", fn)

    def call(self, e: ast.Call, env) -> E:
        fn = self.fn
        if e.keywords:
            raise Refuse(e, "keyword arguments", fn)
        f = e.func
        if isinstance(f, ast.Name):
            if f.id in ("get_origin", "get_args") and len(e.args) == 1:
                v = self.expr(e.args[0], env)
                if v[1] != "ty":
                    raise Refuse(e, f"{f.id} of a non-type", fn)
                out = "origin" if f.id == "get_origin" else "tys"
                return self.bindn([v], lambda a: (f"({f.id} {a})", out, False))
            if f.id == "issubclass" and len(e.args) == 2:
                second = e.args[1]
                if not (isinstance(second, ast.Attribute) and isinstance(second.value, ast.Name)
                        and second.value.id == "enum" and second.attr == "Enum"):
                    raise Refuse(e, "issubclass against something other than enum.Enum", fn)
                v = self.expr(e.args[0], env)
                if v[1] != "ty":
                    raise Refuse(e, "issubclass of a non-type", fn)
                return self.bindn([v], lambda a: (f"(issubclass_enum {a})", "bool", True))
            if f.id == "hasattr" and len(e.args) == 2:
                if not (isinstance(e.args[1], ast.Constant) and e.args[1].value == "__iter__"):
                    raise Refuse(e, "hasattr for an attribute other than __iter__", fn)
                v = self.expr(e.args[0], env)
                if v[1] != "origin":
                    raise Refuse(e, "hasattr(_, '__iter__') on something other than a container origin", fn)
                return self.bindn([v], lambda a: (f"(has_iter {a})", "bool", False))
            if f.id == "all" and len(e.args) == 1 and isinstance(e.args[0], ast.GeneratorExp):
                g = e.args[0]
                if len(g.generators) != 1 or g.generators[0].ifs or g.generators[0].is_async \
                        or not isinstance(g.generators[0].target, ast.Name):
                    raise Refuse(e, "generator expression shape", fn)
                it = self.expr(g.generators[0].iter, env)
                if it[1] != "tys":
                    raise Refuse(e, "all(...) over something other than get_args", fn)
                x = g.generators[0].target.id
                body = self.expr(g.elt, dict(env, **{x: (x, "ty")}))
                if body[1] != "bool":
                    raise Refuse(e, "all(...) of non-booleans", fn)
                return self.bindn([it], lambda a: (f"(mall (fun {x} => {self.lift(body)}) {a})", "bool", True))
            if f.id == "next" and len(e.args) == 1 and isinstance(e.args[0], ast.GeneratorExp):
                # next(x for x in <get_args ...> if <pure test on x>): first element passing the test, else StopIteration
                g = e.args[0]
                gen = g.generators[0] if len(g.generators) == 1 else None
                if gen is None or gen.is_async or len(gen.ifs) != 1 or not isinstance(gen.target, ast.Name) \
                        or not (isinstance(g.elt, ast.Name) and g.elt.id == gen.target.id):
                    raise Refuse(e, "next(...) over a generator that is not `x for x in xs if test`", fn)
                it = self.expr(gen.iter, env)
                if it[1] != "tys":
                    raise Refuse(e, "next(...) over something other than get_args", fn)
                x = gen.target.id
                if x in env or x in TY_NAMES or x in ORIGIN_NAMES:
                    raise Refuse(e, f"generator variable {x} shadows a known name", fn)
                test = self.expr(gen.ifs[0], dict(env, **{x: (x, "ty")}))
                if test[1] != "bool" or test[2]:
                    raise Refuse(e, "filter of next(...) is not a pure boolean test", fn)
                return self.bindn([it], lambda a: (f"(next_where (fun {x} => {test[0]}) {a})", "ty", True))
            if f.id in self.known_funcs and len(e.args) == 1:
                v = self.expr(e.args[0], env)
                if v[1] != "ty":
                    raise Refuse(e, f"{f.id} of a non-type", fn)
                self.deps.add(f.id)
                return self.bindn([v], lambda a: (f"({f.id} {a})", self.known_funcs[f.id], True))
        raise Refuse(e, f"call {ast.unparse(e.func)}", fn)

    # ---------------------------------------------------------------- statements -> term : res T
    def block(self, stmts: List[ast.stmt], env, rty: str) -> str:
        fn = self.fn
        stmts = [s for s in stmts if not is_docstring(s) and not isinstance(s, ast.Pass)]
        if not stmts:
            raise Refuse(ast.Module(), "control reaches the end of a predicate without return", fn)
        s, rest = stmts[0], stmts[1:]
        if isinstance(s, ast.Return):
            if s.value is None or (isinstance(s.value, ast.Constant) and s.value.value is None):
                if rty != "origin":
                    raise Refuse(s, "return None in a predicate whose result is not an origin", fn)
                return "(Ok ONone)"
            v = self.expr(s.value, env)
            if v[1] != rty:
                raise Refuse(s, f"returns {v[1]}, expected {rty}", fn)
            return self.lift(v)
        if isinstance(s, ast.Raise):
            exc = s.exc.func if isinstance(s.exc, ast.Call) else s.exc
            if not (isinstance(exc, ast.Name) and exc.id in EXCEPTIONS):
                raise Refuse(s, "raise of an unknown exception", fn)
            return f"(Raise {exc.id})"
        if isinstance(s, ast.Assign):
            if len(s.targets) != 1 or not isinstance(s.targets[0], ast.Name):
                raise Refuse(s, "assignment target", fn)
            x = s.targets[0].id
            if x in env or x in TY_NAMES or x in ORIGIN_NAMES:
                raise Refuse(s, f"re-assignment of {x}", fn)
            v = self.expr(s.value, env)
            k = self.block(rest, dict(env, **{x: (x, v[1])}), rty)
            return f"(bind {v[0]} (fun {x} => {k}))" if v[2] else f"(let {x} := {v[0]} in {k})"
        if isinstance(s, ast.If):
            c = self.expr(s.test, env)
            if c[1] != "bool":
                raise Refuse(s, "truthiness test on a non-boolean", fn)
            if not self.terminates(s.body):
                raise Refuse(s, "if-branch that falls through", fn)
            a = self.block(s.body, env, rty)
            b = self.block(list(s.orelse) + rest, env, rty)
            if c[2]:
                v = self.var("c")
                return f"(bind {c[0]} (fun {v} => if {v} then {a} else {b}))"
            return f"(if {c[0]} then {a} else {b})"
        if isinstance(s, ast.Try):
            if rest or s.orelse or s.finalbody or len(s.handlers) != 1:
                raise Refuse(s, "try statement shape", fn)
            h = s.handlers[0]
            if not (isinstance(h.type, ast.Name) and h.type.id in EXCEPTIONS) or h.name:
                raise Refuse(s, "except clause", fn)
            if not self.terminates(s.body):
                raise Refuse(s, "try body that falls through", fn)
            return f"(try_except {self.block(s.body, env, rty)} {h.type.id} {self.block(h.body, env, rty)})"
        raise Refuse(s, f"statement kind {type(s).__name__}", fn)

    def terminates(self, stmts) -> bool:
        if not stmts:
            return False
        s = stmts[-1]
        if isinstance(s, (ast.Return, ast.Raise)):
            return True
        if isinstance(s, ast.If):
            return bool(s.orelse) and self.terminates(s.body) and self.terminates(s.orelse)
        if isinstance(s, ast.Try):
            return self.terminates(s.body) and all(self.terminates(h.body) for h in s.handlers)
        return False


def _container_types(cls: ast.ClassDef, fn: str) -> str:
    for s in cls.body:
        if isinstance(s, ast.AnnAssign) and isinstance(s.target, ast.Name) and s.target.id == "container_types":
            if not isinstance(s.value, ast.List):
                raise Refuse(s, "container_types is not a list literal", fn)
            out = []
            for x in s.value.elts:
                if not (isinstance(x, ast.Name) and x.id in ORIGIN_NAMES):
                    raise Refuse(s, f"container type {ast.unparse(x)} is outside the idiom table", fn)
                out.append(ORIGIN_NAMES[x.id])
            return "[" + "; ".join(out) + "]"
    raise Refuse(cls, "WrappedField.container_types not found", fn)


def _topo(defs: Dict[str, Tuple[str, set]], fn: str) -> List[str]:
    order, state = [], {}

    def visit(n, path):
        if state.get(n) == 2:
            return
        if state.get(n) == 1:
            raise Refuse(ast.Module(), "cyclic dependency between predicates: " + " -> ".join(path + [n]), fn)
        state[n] = 1
        for d in sorted(defs[n][1]):
            visit(d, path + [n])
        state[n] = 2
        order.append(n)

    for n in defs:
        visit(n, [])
    return order


def translate(repo: str) -> str:
    path = Path(repo) / SRC
    upath = Path(repo) / SRC_UTILS
    tree = ast.parse(path.read_text(), filename=str(path))
    utree = ast.parse(upath.read_text(), filename=str(upath))
    fn, ufn = str(path), str(upath)
    cls = next((c for c in tree.body if isinstance(c, ast.ClassDef) and c.name == "WrappedField"), None)
    if cls is None:
        raise Refuse(tree, "class WrappedField not found", fn)
    ctypes = _container_types(cls, fn)
    defs: Dict[str, Tuple[str, set]] = {}
    # helper predicates of utils.py
    for name, rty in UTIL_FUNCS.items():
        f = next((s for s in utree.body if isinstance(s, ast.FunctionDef) and s.name == name), None)
        if f is None:
            raise Refuse(utree, f"function {name} not found", ufn)
        a = f.args
        if len(a.args) != 1 or a.vararg or a.kwarg or a.kwonlyargs or a.defaults or f.decorator_list:
            raise Refuse(f, "unsupported signature", ufn)
        tr = Tr(ufn, ctypes, {}, UTIL_FUNCS)
        p = a.args[0].arg
        body = tr.block(f.body, {p: (p, "ty")}, rty)
        defs[name] = (f"Definition {name} ({p} : ty) : res {COQ_TY[rty]} :=\n  {body}.\n", set(tr.deps))
    # the cached properties of WrappedField
    for name, rty in METHODS.items():
        m = next((s for s in cls.body if isinstance(s, ast.FunctionDef) and s.name == name), None)
        if m is None:
            raise Refuse(cls, f"predicate {name} not found", fn)
        decos = [d.id for d in m.decorator_list if isinstance(d, ast.Name)]
        if decos not in (["cached_property"], ["property"]) or len(m.args.args) != 1 or m.args.args[0].arg != "self":
            raise Refuse(m, f"{name} is not a (cached) property of self", fn)
        tr = Tr(fn, ctypes, METHODS, UTIL_FUNCS)
        body = tr.block(m.body, {"self": ("self", "wfield")}, rty)
        defs[name] = (f"Definition {name} (self : wfield) : res {COQ_TY[rty]} :=\n  {body}.\n", set(tr.deps))
    # any other property of WrappedField that reads the annotation must be known to us
    for s in cls.body:
        if isinstance(s, ast.FunctionDef) and s.name not in METHODS and s.name not in (
                "__post_init__", "name", "__hash__", "__eq__", "__repr__", "resolved_type"):
            raise Refuse(s, f"WrappedField has a member {s.name} the translator does not know", fn)
    out = [f"(* GENERATED by /verif/translator/t_fieldkind.py from {SRC} and {SRC_UTILS} -- do not edit; regenerated on every run *)\n"
           "From Coq Require Import List Bool PArith.\nFrom Krrood Require Import Diagram.Ty.\nImport ListNotations.\n",
           f"Definition container_types : list origin := {ctypes}.\n"]
    for n in _topo(defs, fn):
        out.append(defs[n][0])
    return "\n".join(out)


if __name__ == "__main__":
    print(translate(sys.argv[1] if len(sys.argv) > 1 else "/repo"))
