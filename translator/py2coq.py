"""Fail-closed translator from a small fragment of Python (via `ast`) to Gallina text.

Only the constructs listed here are understood; anything else raises `Refuse` with the
source location, which the check reports as a broken regeneration obligation.

Expression fragment (types: Z for int, bool for bool):
    names bound in the environment, integer / boolean constants, `self.<field>` chains,
    comparisons  < <= > >= == !=  (single or chained), `and` / `or` / `not`,
    + - * on integers, conditional expressions.
Statement fragment for *checking procedures* (functions that return None or raise):
    docstring, `pass`, `return` / `return None`,
    `if c: ... elif c: ... else: ...`, `raise Exc(...)` (only the class is kept),
    expression statements that call another checking procedure on a field of self.
A checking procedure is translated to a Gallina term of type `option exn`
(None = fell through, Some e = raised e), statements sequenced by `seq`.
"""
from __future__ import annotations

import ast
from dataclasses import dataclass, field
from typing import Callable, Dict, List, Optional


class Refuse(Exception):
    def __init__(self, node, why: str, filename: str = "?"):
        line = getattr(node, "lineno", "?")
        super().__init__(f"{filename}:{line}: cannot translate: {why}")
        self.why = why
        self.line = line


CMP = {
    ast.Lt: "Z.ltb", ast.LtE: "Z.leb", ast.Gt: "Z.gtb", ast.GtE: "Z.geb",
    ast.Eq: "Z.eqb", ast.NotEq: "(fun a b => negb (Z.eqb a b))",
}
ARITH = {ast.Add: "Z.add", ast.Sub: "Z.sub", ast.Mult: "Z.mul"}


@dataclass
class Env:
    """names -> (gallina term, type) where type in {'Z','bool', 'rec:<Class>'}"""
    names: Dict[str, tuple]
    filename: str = "?"
    # attribute resolver: (term, type, attr) -> (term, type)
    attr: Optional[Callable] = None
    # call resolver for expression statements: (ast.Call, env) -> gallina term of type option exn
    call: Optional[Callable] = None
    exceptions: List[str] = field(default_factory=list)


def expr(e: ast.AST, env: Env) -> tuple:
    """returns (gallina text, type)"""
    if isinstance(e, ast.Constant):
        if isinstance(e.value, bool):
            return ("true" if e.value else "false", "bool")
        if isinstance(e.value, int):
            return (f"({e.value})%Z", "Z")
        raise Refuse(e, f"constant {e.value!r}", env.filename)
    if isinstance(e, ast.Name):
        if e.id not in env.names:
            raise Refuse(e, f"unknown name {e.id}", env.filename)
        return env.names[e.id]
    if isinstance(e, ast.Attribute):
        base, ty = expr(e.value, env)
        if env.attr is None:
            raise Refuse(e, "attribute access without resolver", env.filename)
        r = env.attr(base, ty, e.attr)
        if r is None:
            raise Refuse(e, f"unknown attribute .{e.attr} on {ty}", env.filename)
        return r
    if isinstance(e, ast.Compare):
        parts = []
        left, lty = expr(e.left, env)
        for op, comp in zip(e.ops, e.comparators):
            right, rty = expr(comp, env)
            if type(op) not in CMP or lty != "Z" or rty != "Z":
                raise Refuse(e, f"comparison {type(op).__name__} on {lty},{rty}", env.filename)
            parts.append(f"({CMP[type(op)]} {left} {right})")
            left, lty = right, rty
        out = parts[0]
        for p in parts[1:]:
            out = f"(andb {out} {p})"
        return (out, "bool")
    if isinstance(e, ast.BoolOp):
        vals = [expr(v, env) for v in e.values]
        if any(t != "bool" for _, t in vals):
            raise Refuse(e, "and/or on non-boolean operands (Python returns an operand)", env.filename)
        fn = "andb" if isinstance(e.op, ast.And) else "orb"
        out = vals[-1][0]
        for v, _ in reversed(vals[:-1]):
            out = f"({fn} {v} {out})"
        return (out, "bool")
    if isinstance(e, ast.UnaryOp) and isinstance(e.op, ast.Not):
        v, t = expr(e.operand, env)
        if t != "bool":
            raise Refuse(e, "not on non-boolean", env.filename)
        return (f"(negb {v})", "bool")
    if isinstance(e, ast.UnaryOp) and isinstance(e.op, ast.USub):
        v, t = expr(e.operand, env)
        if t != "Z":
            raise Refuse(e, "unary minus on non-int", env.filename)
        return (f"(Z.opp {v})", "Z")
    if isinstance(e, ast.BinOp) and type(e.op) in ARITH:
        a, ta = expr(e.left, env)
        b, tb = expr(e.right, env)
        if ta != "Z" or tb != "Z":
            raise Refuse(e, "arithmetic on non-int", env.filename)
        return (f"({ARITH[type(e.op)]} {a} {b})", "Z")
    if isinstance(e, ast.IfExp):
        c, tc = expr(e.test, env)
        a, ta = expr(e.body, env)
        b, tb = expr(e.orelse, env)
        if tc != "bool" or ta != tb:
            raise Refuse(e, "ill-typed conditional expression", env.filename)
        return (f"(if {c} then {a} else {b})", ta)
    raise Refuse(e, f"expression kind {type(e).__name__}", env.filename)


def is_docstring(s: ast.stmt) -> bool:
    return isinstance(s, ast.Expr) and isinstance(s.value, ast.Constant) and isinstance(s.value.value, str)


def check_block(stmts: List[ast.stmt], env: Env) -> str:
    """Translate a block of a checking procedure to a term of type `option exn`."""
    terms = []
    for s in stmts:
        if is_docstring(s) or isinstance(s, ast.Pass):
            continue
        if isinstance(s, ast.Return):
            if s.value is not None and not (isinstance(s.value, ast.Constant) and s.value.value is None):
                raise Refuse(s, "return with a value in a checking procedure", env.filename)
            terms.append(("return", "None"))
            break
        if isinstance(s, ast.Raise):
            exc = s.exc
            if isinstance(exc, ast.Call):
                exc = exc.func
            if not isinstance(exc, ast.Name):
                raise Refuse(s, "raise of a non-name", env.filename)
            if exc.id not in env.exceptions:
                raise Refuse(s, f"unknown exception class {exc.id}", env.filename)
            terms.append(("return", f"(Some {exc.id})"))
            break
        if isinstance(s, ast.If):
            c, tc = expr(s.test, env)
            if tc != "bool":
                raise Refuse(s, "truthiness test on a non-boolean", env.filename)
            a = check_block(s.body, env)
            b = check_block(s.orelse, env) if s.orelse else "None"
            terms.append(("seq", f"(if {c} then {a} else {b})"))
            continue
        if isinstance(s, ast.Expr) and isinstance(s.value, ast.Call):
            if env.call is None:
                raise Refuse(s, "call statement without resolver", env.filename)
            terms.append(("seq", env.call(s.value, env)))
            continue
        raise Refuse(s, f"statement kind {type(s).__name__}", env.filename)
    if not terms:
        return "None"
    # sequence: the first Some wins
    out = terms[-1][1]
    for _, t in reversed(terms[:-1]):
        out = f"(seq {t} {out})"
    return out


PRELUDE = """(* GENERATED by /verif/translator from {src} -- do not edit; regenerated on every run *)
From Coq Require Import ZArith Bool List.
Import ListNotations.
Open Scope Z_scope.
"""

SEQ_DEF = """Definition seq {E : Type} (a b : option E) : option E :=
  match a with Some e => Some e | None => b end.
"""
