"""Fail-closed translation of the GENERATOR bodies of the logical operators of symbolic.py into list-monad Gallina
(Gen/SymbolicEval.v): Not._evaluate__, AND._evaluate__ / evaluate_right, OR.evaluate_left / evaluate_right,
Union._evaluate__, ElseIf._evaluate__.

A Python generator function becomes a Gallina expression of type [list res] (results in yield order):

    yield E                        ->  [E]
    yield from CALL                ->  CALL
    for x in ITER: BODY            ->  flat_map (fun x => BODY) ITER
    if C: A else: B                ->  if C then A else B
    name = E ; REST                ->  let name := E in REST                (also for self._is_false_ = E)
    S1 ; S2                        ->  S1 ++ S2
    X.is_false / X.is_true         ->  snd X / negb (snd X)
    X.bindings                     ->  fst X
    filter(lambda v: P, CALL)      ->  filter (fun v => P) CALL
    OperationResult(B, F, self)    ->  (B, F)
    self.left._evaluate__(S, parent=self)  ->  evl S      (right: evr, _child_: evc)

Scratch writes that only feed later node state (self._eval_parent_, self.left_evaluated, self.right_evaluated,
`sources = sources or {}`) are dropped; they are listed in IGNORED and anything else refuses.
Eql/EvalSourceProofs.v proves that the hand-written evaluator model (Eql/Eval.v) IS these functions, so a change of any
of these bodies breaks a proof obligation of C01 / C02."""
from __future__ import annotations

import ast
from pathlib import Path


class Refuse(Exception):
    pass


IGNORED = {
    "sources = sources or {}",
    "self._eval_parent_ = parent",
    "self.left_evaluated = True",
    "self.left_evaluated = False",
    "self.right_evaluated = True",
    "self.right_evaluated = False",
}

TARGETS = [("Not", "_evaluate__"), ("AND", "evaluate_right"), ("AND", "_evaluate__"), ("OR", "evaluate_right"),
           ("OR", "evaluate_left"), ("Union", "_evaluate__"), ("ElseIf", "_evaluate__")]


class Tr:
    def __init__(self, path, cls):
        self.path, self.cls = path, cls

    def refuse(self, node, what):
        raise Refuse(f"{self.path}:{getattr(node, 'lineno', '?')}: {self.cls}: unrecognised {what}: {ast.unparse(node)[:160]}")

    # ---------------- expressions
    def expr(self, e, env) -> str:
        if isinstance(e, ast.Constant) and isinstance(e.value, bool):
            return "true" if e.value else "false"
        if isinstance(e, ast.Name):
            if e.id in env:
                return env[e.id]
            self.refuse(e, "name")
        if isinstance(e, ast.Attribute):
            if isinstance(e.value, ast.Name) and e.value.id == "self" and e.attr == "_is_false_":
                if "self._is_false_" in env:
                    return env["self._is_false_"]
                self.refuse(e, "read of self._is_false_ before it is written in this evaluation")
            base = self.expr(e.value, env)
            if e.attr == "is_false":
                return f"(snd {base})"
            if e.attr == "is_true":
                return f"(negb (snd {base}))"
            if e.attr == "bindings":
                return f"(fst {base})"
            self.refuse(e, "attribute")
        if isinstance(e, ast.Call):
            f = ast.unparse(e.func)
            if f == "OperationResult":
                if len(e.args) != 3 or e.keywords or ast.unparse(e.args[2]) != "self":
                    self.refuse(e, "OperationResult call")
                return f"({self.expr(e.args[0], env)}, {self.expr(e.args[1], env)})"
            ev = {"self.left._evaluate__": "evl", "self.right._evaluate__": "evr", "self._child_._evaluate__": "evc"}
            if f in ev:
                if len(e.args) != 1 or [k.arg for k in e.keywords] != ["parent"] or ast.unparse(e.keywords[0].value) != "self":
                    self.refuse(e, "operand evaluation")
                return f"({ev[f]} {self.expr(e.args[0], env)})"
            if f in ("self.evaluate_right", "self.evaluate_left"):
                if len(e.args) != 1 or e.keywords:
                    self.refuse(e, "method call")
                owner = {"AND": "AND", "OR": "OR", "Union": "OR", "ElseIf": "OR"}[self.cls]
                return f"({owner}_{f.split('.')[1]} {self.expr(e.args[0], env)})"
            if f == "filter":
                # filter(lambda v: <boolean over v>, <results>)  ->  filter (fun v : res => ..) (..)
                if len(e.args) != 2 or e.keywords or not isinstance(e.args[0], ast.Lambda):
                    self.refuse(e, "filter call")
                lam = e.args[0]
                la = lam.args
                if len(la.args) != 1 or la.vararg or la.kwarg or la.kwonlyargs or la.defaults or la.posonlyargs:
                    self.refuse(e, "filter predicate")
                v = la.args[0].arg
                pred = self.expr(lam.body, dict(env, **{v: v}))
                return f"(filter (fun {v} : res => {pred}) {self.expr(e.args[1], env)})"
            self.refuse(e, "call")
        self.refuse(e, "expression")

    # ---------------- statements: a block denotes a list of results
    def block(self, stmts, env) -> str:
        if not stmts:
            return "[]"
        s, rest = stmts[0], stmts[1:]
        text = ast.unparse(s)
        if text in IGNORED:
            return self.block(rest, env)
        if isinstance(s, ast.Assign) and len(s.targets) == 1:
            tgt = s.targets[0]
            if isinstance(tgt, ast.Name):
                v = self.expr(s.value, env)
                return f"(let {tgt.id} := {v} in {self.block(rest, dict(env, **{tgt.id: tgt.id}))})"
            if ast.unparse(tgt) == "self._is_false_":
                v = self.expr(s.value, env)
                return f"(let is_false_ := {v} in {self.block(rest, dict(env, **{'self._is_false_': 'is_false_'}))})"
            self.refuse(s, "assignment target")
        if isinstance(s, ast.Expr) and isinstance(s.value, ast.Yield):
            head = f"[{self.expr(s.value.value, env)}]"
        elif isinstance(s, ast.Expr) and isinstance(s.value, ast.YieldFrom):
            head = self.expr(s.value.value, env)
        elif isinstance(s, ast.For):
            if s.orelse or not isinstance(s.target, ast.Name):
                self.refuse(s, "for loop")
            it = self.expr(s.iter, env)
            x = s.target.id
            # the flag written inside the loop body does not flow out of it in these methods: check that nothing after
            # the loop reads it
            body = self.block(s.body, dict(env, **{x: x}))
            head = f"(flat_map (fun {x} : res => {body}) {it})"
            after = {k: v for k, v in env.items() if k != "self._is_false_"}
            return head if not rest else f"({head} ++ {self.block(rest, after)})"
        elif isinstance(s, ast.If):
            c = self.expr(s.test, env)
            a = self.block(s.body, env)
            b = self.block(s.orelse, env)
            head = f"(if {c} then {a} else {b})"
            after = {k: v for k, v in env.items() if k != "self._is_false_"}
            return head if not rest else f"({head} ++ {self.block(rest, after)})"
        else:
            self.refuse(s, "statement")
        return head if not rest else f"({head} ++ {self.block(rest, env)})"


def translate(repo: str) -> str:
    path = Path(repo) / "src/krrood/entity_query_language/symbolic.py"
    tree = ast.parse(path.read_text())
    classes = {n.name: n for n in tree.body if isinstance(n, ast.ClassDef)}
    out = ["(* GENERATED by /verif/translator/t_symeval.py from src/krrood/entity_query_language/symbolic.py -- do not edit;",
           "   regenerated on every run.  The generator bodies of Not / AND / OR / Union / ElseIf as list-monad functions over the",
           "   evaluators of their operands. *)",
           "From Coq Require Import List Bool.",
           "From Krrood Require Import Eql.Syntax Eql.Sat Eql.Eval.",
           "Import ListNotations.", "",
           "Section SymbolicEval.",
           "  Variables evl evr evc : binds -> list res.", ""]
    for cls, meth in TARGETS:
        if cls not in classes:
            raise Refuse(f"{path}: class {cls} not found")
        fn = [m for m in classes[cls].body if isinstance(m, ast.FunctionDef) and m.name == meth]
        if len(fn) != 1:
            raise Refuse(f"{path}: {cls}.{meth} not found (or defined twice)")
        fn = fn[0]
        # no other class of the hierarchy may override what these classes call
        args = [a.arg for a in fn.args.args]
        body = fn.body
        if body and isinstance(body[0], ast.Expr) and isinstance(body[0].value, ast.Constant) and isinstance(body[0].value.value, str):
            body = body[1:]
        tr = Tr(path, cls)
        if meth == "_evaluate__":
            if args != ["self", "sources", "parent"]:
                tr.refuse(fn, "signature")
            param, pty = "sources", "binds"
        else:
            if len(args) != 2:
                tr.refuse(fn, "signature")
            param = args[1]
            ann = ast.unparse(fn.args.args[1].annotation) if fn.args.args[1].annotation else ""
            pty = "res" if ann == "OperationResult" else ("binds" if ann.startswith("Dict") else None)
            if pty is None:
                tr.refuse(fn, "parameter annotation")
        expr = tr.block(body, {param: param})
        name = f"{cls}_{'evaluate' if meth == '_evaluate__' else meth}"
        out.append(f"  Definition {name} ({param} : {pty}) : list res :=\n    {expr}.")
        out.append("")
    # the classes that must NOT override the inherited pieces
    for sub, inherited in (("Union", ["evaluate_left", "evaluate_right"]), ("ElseIf", ["evaluate_left", "evaluate_right"])):
        for m in classes[sub].body:
            if isinstance(m, ast.FunctionDef) and m.name in inherited:
                raise Refuse(f"{path}:{m.lineno}: {sub} overrides {m.name}")
    for sub, base in (("Union", "OR"), ("ElseIf", "OR"), ("AND", "LogicalBinaryOperator")):
        if [ast.unparse(b) for b in classes[sub].bases][:1] != [base]:
            raise Refuse(f"{path}:{classes[sub].lineno}: {sub} no longer derives from {base}")
    out.append("End SymbolicEval.")
    return "\n".join(out) + "\n"


if __name__ == "__main__":
    import sys
    print(translate(sys.argv[1] if len(sys.argv) > 1 else "/repo"))
