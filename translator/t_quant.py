"""Translate entity_query_language/result_quantification_constraint.py into coq/Gen/Quant.v.

For every concrete constraint class C (a dataclass with int fields or fields of other
constraint classes) this emits
    Record C := { C_<field> : ... }.
    Definition C_post_init (self : C) : option exn        -- the inherited/own __post_init__
    Definition C_assert_satisfaction (self : C) (number_of_solutions : Z) (done : bool) : option exn
Parameters whose annotation is neither int nor bool (the `quantifier` back-reference) may be
mentioned only inside the argument list of a raised exception, which is dropped.
"""
from __future__ import annotations

import ast
import sys
from pathlib import Path

from .py2coq import Env, Refuse, check_block, PRELUDE, SEQ_DEF, is_docstring

SRC = "src/krrood/entity_query_language/result_quantification_constraint.py"
EXPECTED_CLASSES = ["Exactly", "AtLeast", "AtMost", "Range"]


def translate(repo: str) -> str:
    path = Path(repo) / SRC
    tree = ast.parse(path.read_text(), filename=str(path))
    fn = str(path)
    classes = {c.name: c for c in tree.body if isinstance(c, ast.ClassDef)}
    # exception classes: what the module imports from .failures
    exceptions = []
    for n in tree.body:
        if isinstance(n, ast.ImportFrom) and n.module == "failures":
            exceptions += [a.name for a in n.names]
    if not exceptions:
        raise Refuse(tree, "no exception classes imported from .failures", fn)

    def bases(c):
        out = []
        for b in c.bases:
            if isinstance(b, ast.Name) and b.id in classes:
                out.append(b.id)
            elif isinstance(b, ast.Name) and b.id == "ABC":
                continue
            else:
                raise Refuse(c, f"base class {ast.dump(b)}", fn)
        return out

    def mro(name):  # all classes here use single inheritance inside the module
        out = [name]
        bs = bases(classes[name])
        if len(bs) > 1:
            raise Refuse(classes[name], "multiple inheritance inside the module", fn)
        if bs:
            out += mro(bs[0])
        return out

    def own_fields(c):
        fs = []
        for s in c.body:
            if isinstance(s, ast.AnnAssign) and isinstance(s.target, ast.Name):
                if s.value is not None:
                    raise Refuse(s, "field with a default", fn)
                ann = s.annotation
                if not isinstance(ann, ast.Name):
                    raise Refuse(s, "field annotation is not a plain name", fn)
                fs.append((s.target.id, ann.id))
        return fs

    def fields(name):
        out = []
        for k in reversed(mro(name)):
            out += own_fields(classes[k])
        return out

    def method(name, meth):
        for k in mro(name):
            for s in classes[k].body:
                if isinstance(s, ast.FunctionDef) and s.name == meth:
                    if any(isinstance(d, ast.Name) and d.id == "abstractmethod" for d in s.decorator_list):
                        continue
                    return s
        return None

    def is_abstract(name):
        return any(isinstance(b, ast.Name) and b.id == "ABC" for b in classes[name].bases)

    concrete = [n for n in classes if not is_abstract(n)]
    for n in EXPECTED_CLASSES:
        if n not in concrete:
            raise Refuse(tree, f"expected concrete class {n} is missing", fn)
    # order so that field types are defined first
    order = []

    def visit(n):
        if n in order:
            return
        for _, ty in fields(n):
            if ty in classes:
                visit(ty)
        order.append(n)

    for n in concrete:
        visit(n)

    out = [PRELUDE.format(src=SRC), SEQ_DEF]
    out.append("Inductive exn : Type := " + " | ".join(exceptions) + ".\n")
    out.append("Definition exn_code (e : exn) : Z :=\n  match e with\n" + "".join(
        f"  | {e} => {i + 1}\n" for i, e in enumerate(exceptions)) + "  end.\n")

    def coq_ty(t):
        if t == "int":
            return "Z"
        if t == "bool":
            return "bool"
        if t in classes:
            return t
        return None

    for n in order:
        fs = fields(n)
        for f, t in fs:
            if coq_ty(t) is None:
                raise Refuse(classes[n], f"field {f} of unsupported type {t}", fn)
        out.append(f"Record {n} : Type := Build_{n} {{ " + "; ".join(f"{n}_{f} : {coq_ty(t)}" for f, t in fs) + " }.\n")

        def attr(term, ty, a):
            if ty.startswith("rec:"):
                cls = ty[4:]
                for f, t in fields(cls):
                    if f == a:
                        ct = coq_ty(t)
                        return (f"({cls}_{f} {term})", ct if ct in ("Z", "bool") else "rec:" + t)
            return None

        def call(c: ast.Call, env: Env):
            # self.<field>.assert_satisfaction(number_of_solutions, quantifier, done)
            f = c.func
            if not (isinstance(f, ast.Attribute) and isinstance(f.value, ast.Attribute)
                    and isinstance(f.value.value, ast.Name) and f.value.value.id == "self"):
                raise Refuse(c, "call statement is not self.<field>.<method>(...)", fn)
            r = attr("self", env.names["self"][1], f.value.attr)
            if r is None or not r[1].startswith("rec:"):
                raise Refuse(c, f"self.{f.value.attr} is not a constraint field", fn)
            cls = r[1][4:]
            target = method(cls, f.attr)
            if target is None or f.attr != "assert_satisfaction":
                raise Refuse(c, f"unknown method {f.attr}", fn)
            if c.keywords:
                raise Refuse(c, "keyword arguments in call", fn)
            params = [a.arg for a in target.args.args][1:]
            if len(params) != len(c.args):
                raise Refuse(c, "arity mismatch", fn)
            args = []
            for p, a in zip(target.args.args[1:], c.args):
                pty = coq_ty(p.annotation.id) if isinstance(p.annotation, ast.Name) else None
                if pty in ("Z", "bool"):
                    from .py2coq import expr
                    t, ty = expr(a, env)
                    if ty != pty:
                        raise Refuse(c, f"argument {p.arg} has type {ty}, expected {pty}", fn)
                    args.append(t)
                else:
                    if not (isinstance(a, ast.Name) and a.id == p.arg):
                        raise Refuse(c, f"opaque argument {p.arg} is not passed through unchanged", fn)
            return f"({cls}_assert_satisfaction {r[0]} {' '.join(args)})"

        for meth, coqname in (("__post_init__", "post_init"), ("assert_satisfaction", "assert_satisfaction")):
            m = method(n, meth)
            names = {"self": ("self", "rec:" + n)}
            params = []
            if m is not None:
                if m.args.vararg or m.args.kwarg or m.args.kwonlyargs or m.args.defaults:
                    raise Refuse(m, "unsupported parameter list", fn)
                for p in m.args.args[1:]:
                    pty = coq_ty(p.annotation.id) if isinstance(p.annotation, ast.Name) else None
                    if pty in ("Z", "bool"):
                        names[p.arg] = (p.arg, pty)
                        params.append(f"({p.arg} : {pty})")
                    # other parameters are opaque: not in the environment, any use outside raise(...) is refused
                env = Env(names=names, filename=fn, attr=attr, call=call, exceptions=exceptions)
                body = check_block(m.body, env)
            else:
                if meth == "assert_satisfaction":
                    raise Refuse(classes[n], "concrete class without assert_satisfaction", fn)
                body = "None"
            out.append(f"Definition {n}_{coqname} (self : {n}) {' '.join(params)} : option exn :=\n  {body}.\n")
    return "\n".join(out)


if __name__ == "__main__":
    print(translate(sys.argv[1] if len(sys.argv) > 1 else "/repo"))
