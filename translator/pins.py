"""Source pins: the hand-written models mirror specific methods of the implementation that no translator covers
(generator bodies with node-level scratch state, imperative accumulation).  For those, the tie "this is the code the model
was written against" is checked on every run by comparing the method's normalised AST (docstrings and positions
stripped) with the recorded one in pins/<name>.json.  A difference reopens the correspondence obligation of the
properties that use the model: the check then searches for a concrete failing input and, finding none, reports
`no-failing-input-found` naming the method that changed.

    python3 -m translator.pins --record eql     # re-record after the model has been re-aligned with a source change
    python3 -m translator.pins --check eql
"""
from __future__ import annotations

import ast
import hashlib
import json
import sys
from pathlib import Path
from typing import Dict, List, Tuple

VERIF = Path(__file__).resolve().parent.parent

# pin set -> list of (file relative to the repo, qualified name)
SETS: Dict[str, List[Tuple[str, str]]] = {
    # the counting loop of result quantifiers (hand model Eql/Quant.v; the constraint classes themselves are translated)
    "quant": [("src/krrood/entity_query_language/symbolic.py", q) for q in (
        "ResultQuantifier._evaluate__", "ResultQuantifier._assert_satisfaction_of_quantification_constraints_",
        "ResultQuantifier.__post_init__", "ResultQuantifier.evaluate", "ResultQuantifier._process_result_",
        "The._evaluate__", "The.evaluate")]
    + [("src/krrood/entity_query_language/quantify_entity.py", q) for q in ("an", "the")],
    "eql": [
        ("src/krrood/entity_query_language/symbolic.py", q) for q in (
            "Variable._evaluate__", "Variable._forget_evaluation_memory_", "SymbolicExpression._forget_evaluation_memory_", "Literal.__init__", "DomainMapping._evaluate__",
            "DomainMapping._build_operation_result_and_update_truth_value_",
            "Attribute._apply_mapping_", "Index._apply_mapping_", "Call._apply_mapping_",
            "Comparator._evaluate__", "Comparator.apply_operation", "Comparator.get_first_second_operands",
            "Exists._evaluate__", "Exists.other_variable_ids",
            "ForAll._evaluate__", "ForAll.get_all_candidate_solutions", "ForAll.evaluate_condition",
            "ForAll.condition_unique_variable_ids",
            "QueryObjectDescriptor._evaluate__", "QueryObjectDescriptor.get_constrained_values",
            "QueryObjectDescriptor.evaluate_selected_variables", "ResultQuantifier._evaluate__",
            "ResultQuantifier._process_result_", "The._evaluate__", "The.evaluate", "ResultQuantifier.evaluate",
        )
    ] + [
        ("src/krrood/entity_query_language/hashed_data.py", q) for q in (
            "HashedIterable.__iter__", "HashedIterable.__bool__", "HashedIterable.set_iterable", "HashedValue.__post_init__",
        )
    ] + [
        ("src/krrood/entity_query_language/utils.py", q) for q in ("generate_combinations", "is_iterable", "make_set", "make_list")
    ] + [
        ("src/krrood/entity_query_language/entity.py", q) for q in (
            "let", "_get_domain_source_from_domain_and_type_values", "entity", "set_of", "_extract_variables_and_expression",
            "contains", "in_", "exists", "for_all",
        )
    ],
}


# further pin sets live in pins/sets/<name>.json: a JSON list of [file relative to the repo, qualified name] pairs
# (one file per property family, so that nobody has to edit this module)
for _f in sorted((VERIF / "pins" / "sets").glob("*.json")) if (VERIF / "pins" / "sets").is_dir() else []:
    SETS[_f.stem] = [tuple(x) for x in json.loads(_f.read_text())]


def _strip(node: ast.AST) -> ast.AST:
    for n in ast.walk(node):
        body = getattr(n, "body", None)
        if isinstance(body, list) and body and isinstance(body[0], ast.Expr) and isinstance(body[0].value, ast.Constant) \
                and isinstance(body[0].value.value, str):
            n.body = body[1:] or [ast.Pass()]
    return node


def _find(tree: ast.Module, qual: str):
    parts = qual.split(".")
    scope = tree.body
    node = None
    for p in parts:
        node = next((n for n in scope if isinstance(n, (ast.ClassDef, ast.FunctionDef)) and n.name == p), None)
        if node is None:
            return None
        scope = node.body
    return node


def snapshot(repo: str, name: str) -> Dict[str, Dict[str, str]]:
    out: Dict[str, Dict[str, str]] = {}
    trees: Dict[str, ast.Module] = {}
    for rel, qual in SETS[name]:
        if rel not in trees:
            trees[rel] = ast.parse((Path(repo) / rel).read_text())
        node = _find(trees[rel], qual)
        key = f"{rel}::{qual}"
        if node is None:
            out[key] = {"sha": "MISSING", "source": ""}
            continue
        node = _strip(node)
        text = ast.unparse(node)
        # hash of the re-printed source (ast.unparse): independent of layout and comments, stable across Python versions
        out[key] = {"sha": hashlib.sha256(text.encode()).hexdigest()[:16], "source": text}
    return out


def check(repo: str, name: str) -> List[str]:
    """names of pinned methods whose normalised source differs from the recorded one (empty list = all pins hold)"""
    rec = json.loads((VERIF / "pins" / f"{name}.json").read_text())
    now = snapshot(repo, name)
    bad = []
    for key, r in rec.items():
        n = now.get(key)
        if n is None or n["sha"] != r["sha"]:
            bad.append(key)
    for key in now:
        if key not in rec:
            bad.append(key + " (not recorded)")
    return bad


def diff_text(repo: str, name: str, key: str) -> str:
    import difflib
    rec = json.loads((VERIF / "pins" / f"{name}.json").read_text())
    now = snapshot(repo, name)
    a = rec.get(key, {}).get("source", "").splitlines()
    b = now.get(key, {}).get("source", "").splitlines()
    return "\n".join(difflib.unified_diff(a, b, "recorded", "current", lineterm=""))[:2000]


def oblige(rep, repo: str, name: str, model_desc: str) -> bool:
    """record the pin obligations of pin set `name` in a harness Report; True iff every pin holds"""
    try:
        changed = check(repo, name)
    except Exception as e:  # noqa
        changed = [f"pins could not be checked: {e}"]
    for key in changed:
        detail = ""
        try:
            detail = diff_text(repo, name, key.split(" (")[0])
        except Exception:  # noqa
            pass
        rep.oblige(f"pin:{key}", False, f"{model_desc} mirrors this method; its source changed:\n" + detail)
    if not changed:
        rep.oblige(f"pins:{name}", True, f"{len(SETS[name])} methods mirrored by {model_desc} are unchanged")
    return not changed


if __name__ == "__main__":
    mode, name = sys.argv[1], sys.argv[2]
    repo = sys.argv[3] if len(sys.argv) > 3 else "/repo"
    if mode == "--record":
        (VERIF / "pins").mkdir(exist_ok=True)
        (VERIF / "pins" / f"{name}.json").write_text(json.dumps(snapshot(repo, name), indent=1, sort_keys=True))
        print("recorded", len(SETS[name]), "pins")
    else:
        bad = check(repo, name)
        print("OK" if not bad else "CHANGED:\n" + "\n".join(bad))
        sys.exit(1 if bad else 0)
