"""Translate the decision code of adapters/json_serializer.py (and utils.get_full_class_name) into coq/Gen/JsonResolve.v.

Translated, statement by statement and in source order (so a removed / reordered / rewritten guard changes the
generated definition and the proofs in Json/ResolveProofs.v, Json/SerializerProofs.v are re-checked against it):

  SubclassJSONSerializer.from_json   -> from_json_chain   : jv -> outcome jerr (fj_action obj deser)
  to_json (module level)             -> to_json_dispatch  : pyobj -> outcome jerr (tj_action ser)
  SubclassJSONSerializer._from_json  -> base_from_json_body
  SubclassJSONSerializer.to_json     -> base_to_json  (guards + header dict)
  SubclassJSONSerializer._resolve_enclosing_class is NOT translated: Section variable of the chain, hand model + source pin
  utils.get_full_class_name          -> get_full_class_name (cls_module cls_name cls_qualname : str)
  serialize_uuid / deserialize_uuid  -> serialize_uuid_fields / deserialize_uuid_key
  leaf_types, list_like_classes, JSON_TYPE_NAME, the JSONSerializationError hierarchy, the registry's
  register/get_serializer/get_deserializer bodies (checked to be plain dict store / dict.get)

Library calls are mapped by a fixed idiom table to the functions of Json/JsonVal.v or to Section variables
(`import_module`, `getattr_`, `is_type`, `issubclass_ser`, `get_deserializer`, ...) over which the theorems quantify.
Fail-closed: any statement or expression shape not listed raises Refuse with file:line.
"""
from __future__ import annotations

import ast
import sys
from pathlib import Path
from typing import Dict, List, Tuple

from .py2coq import Refuse

SRC = "src/krrood/adapters/json_serializer.py"
UTILS = "src/krrood/utils.py"
BASE_ERR = "JSONSerializationError"
SER = "SubclassJSONSerializer"
REG = "JSONSerializableTypeRegistry"
HELPER = "_resolve_enclosing_class"      # hand-modelled in Json/Resolve.v ([enclosing]) and source-pinned (pin set json)

# stable numbering of the documented errors (shared with the harness and the Spec files)
JERR_CODES = {"MissingTypeError": 1, "InvalidTypeFormatError": 2, "UnknownModuleError": 3, "ClassNotFoundError": 4,
              "ClassNotSerializableError": 5, "ClassNotDeserializableError": 6}
PYEXN = {"AttributeError": "AttributeError", "ValueError": "ValueError", "TypeError": "TypeError", "KeyError": "KeyError",
         "ImportError": "ImportError", "ModuleNotFoundError": "ModuleNotFoundError",
         "NotImplementedError": "NotImplementedError", "Exception": "Exception_"}
PYTYPES = {"int": "Tint", "float": "Tfloat", "str": "Tstr", "bool": "Tbool", "NoneType": "TNoneType",
           "list": "Tlist", "tuple": "Ttuple", "set": "Tset", "dict": "Tdict"}


TRUTHY = {"jv": "jv_truthy", "str": "str_truthy", "optdeser": "opt_truthy", "optser": "opt_truthy"}


def strlit(s: str) -> str:
    return "[" + "; ".join(str(ord(c)) for c in s) + "]"


class Ctx:
    """what one function translation knows: names -> (term, type); the module-level constants; which flavour"""

    def __init__(self, fn: str, consts: Dict[str, Tuple[str, str]], jerrs: List[str], flavour: str):
        self.fn = fn
        self.names: Dict[str, Tuple[str, str]] = dict(consts)
        self.jerrs = jerrs
        self.flavour = flavour  # "from_json" | "to_json"

    def child(self) -> "Ctx":
        c = Ctx(self.fn, {}, self.jerrs, self.flavour)
        c.names = dict(self.names)
        return c


def _is_name(e, n) -> bool:
    return isinstance(e, ast.Name) and e.id == n


def _is_registry_call(e, method) -> bool:
    # JSONSerializableTypeRegistry().<method>(...)
    return (isinstance(e, ast.Call) and isinstance(e.func, ast.Attribute) and e.func.attr == method
            and isinstance(e.func.value, ast.Call) and _is_name(e.func.value.func, REG)
            and not e.func.value.args and not e.func.value.keywords)


def pure(e: ast.AST, cx: Ctx) -> Tuple[str, str]:
    """expression without exceptions -> (term, type)"""
    fn = cx.fn
    if isinstance(e, ast.Name):
        if e.id not in cx.names:
            raise Refuse(e, f"unknown name {e.id}", fn)
        return cx.names[e.id]
    if isinstance(e, ast.Constant) and isinstance(e.value, str):
        return (strlit(e.value), "str")
    if isinstance(e, ast.UnaryOp) and isinstance(e.op, ast.Not):
        t, ty = pure(e.operand, cx)
        if ty == "bool":
            return (f"(negb {t})", "bool")
        if ty == "jv":
            return (f"(negb (jv_truthy {t}))", "bool")
        if ty == "str":
            return (f"(negb (str_truthy {t}))", "bool")
        if ty in ("optdeser", "optser"):
            return (f"(negb (opt_truthy {t}))", "bool")
        raise Refuse(e, f"truthiness of a value of type {ty}", fn)
    if (isinstance(e, ast.Compare) and len(e.ops) == 1 and isinstance(e.ops[0], (ast.Is, ast.IsNot))
            and isinstance(e.comparators[0], ast.Constant) and e.comparators[0].value is None):
        t, ty = pure(e.left, cx)
        if ty == "jv":          # `x is None` on a loaded JSON value
            r = f"(jv_isinstance {t} [TNoneType])"
            return (r if isinstance(e.ops[0], ast.Is) else f"(negb {r})", "bool")
        if ty in ("optdeser", "optser"):    # the result of a registry lookup: dict.get(...) is None / is not None
            r = f"(negb (opt_truthy {t}))"
            return (r if isinstance(e.ops[0], ast.Is) else f"(opt_truthy {t})", "bool")
        raise Refuse(e, f"`is None` on a value of type {ty}", fn)
    if isinstance(e, ast.BoolOp):
        vals = [pure(v, cx) for v in e.values]
        if any(ty != "bool" for _, ty in vals):
            raise Refuse(e, "and/or on non-boolean operands", fn)
        op = "andb" if isinstance(e.op, ast.And) else "orb"
        out = vals[-1][0]
        for v, _ in reversed(vals[:-1]):
            out = f"({op} {v} {out})"
        return (out, "bool")
    if isinstance(e, ast.Call) and not e.keywords:
        f = e.func
        # isinstance(x, <something>)
        if _is_name(f, "isinstance") and len(e.args) == 2:
            x, xty = pure(e.args[0], cx)
            c = e.args[1]
            if isinstance(c, ast.Name) and c.id in cx.names and cx.names[c.id][1] == "pytypes":
                tys = cx.names[c.id][0]
            elif isinstance(c, ast.Name) and c.id in PYTYPES:
                tys = f"[{PYTYPES[c.id]}]"
            elif _is_name(c, "type") and xty == "obj":
                return (f"(is_type {x})", "bool")
            elif _is_name(c, SER) and xty == "pyobj":
                return (f"(obj_is_ser {x})", "bool")
            else:
                raise Refuse(e, f"isinstance against {ast.unparse(c)} for a value of type {xty}", fn)
            if xty == "jv":
                return (f"(jv_isinstance {x} {tys})", "bool")
            if xty == "pyobj":
                return (f"(obj_isinstance {x} {tys})", "bool")
            raise Refuse(e, f"isinstance on a value of type {xty}", fn)
        # s.startswith("<lit>")
        if isinstance(f, ast.Attribute) and f.attr == "startswith" and len(e.args) == 1:
            x, xty = pure(f.value, cx)
            p, pty = pure(e.args[0], cx)
            if xty != "str" or pty != "str":
                raise Refuse(e, f"startswith on {xty},{pty}", fn)
            return (f"(str_startswith {x} {p})", "bool")
        # registry lookups
        if _is_registry_call(e, "get_deserializer") and len(e.args) == 1:
            x, xty = pure(e.args[0], cx)
            if xty != "obj":
                raise Refuse(e, f"get_deserializer of a value of type {xty}", fn)
            return (f"(get_deserializer {x})", "optdeser")
        if _is_registry_call(e, "get_serializer") and len(e.args) == 1:
            a = e.args[0]
            if not (isinstance(a, ast.Call) and _is_name(a.func, "type") and len(a.args) == 1 and not a.keywords):
                raise Refuse(e, "get_serializer is not applied to type(<obj>)", fn)
            x, xty = pure(a.args[0], cx)
            if xty != "pyobj":
                raise Refuse(e, f"get_serializer(type(x)) with x of type {xty}", fn)
            return (f"(obj_serializer {x})", "optser")
    raise Refuse(e, f"expression {ast.unparse(e)!r} is not in the idiom table", fn)


def effectful(e: ast.AST, cx: Ctx) -> Tuple[str, str]:
    """expression that may raise -> (term of type M T, T).  Only the listed library calls."""
    fn = cx.fn
    if isinstance(e, ast.Call) and not e.keywords:
        f = e.func
        if isinstance(f, ast.Attribute) and f.attr == "get" and len(e.args) == 1:
            x, xty = pure(f.value, cx)
            k, kty = pure(e.args[0], cx)
            if xty == "jv" and kty == "str":
                return (f"(jv_get {x} {k})", "jv")
        if isinstance(f, ast.Attribute) and f.attr == "rsplit" and len(e.args) == 2:
            x, xty = pure(f.value, cx)
            s, sty = pure(e.args[0], cx)
            n = e.args[1]
            if xty == "jv" and sty == "str" and isinstance(n, ast.Constant) and n.value == 1 \
                    and isinstance(e.args[0], ast.Constant) and len(e.args[0].value) == 1:
                return (f"(jv_rsplit1_pair {x} {s})", "str*str")
        if isinstance(f, ast.Attribute) and f.attr == "import_module" and _is_name(f.value, "importlib") and len(e.args) == 1:
            x, xty = pure(e.args[0], cx)
            if xty == "str":
                return (f"(import_module {x})", "module")
        if _is_name(f, "getattr") and len(e.args) == 2:
            m, mty = pure(e.args[0], cx)
            n, nty = pure(e.args[1], cx)
            if mty == "owner" and nty == "str":
                return (f"(getattr_ {m} {n})", "obj")
            if mty == "module" and nty == "str":
                return (f"(getattr_ (OMod {m}) {n})", "obj")
        if isinstance(f, ast.Attribute) and f.attr == HELPER and _is_name(f.value, "cls") and len(e.args) == 1:
            x, xty = pure(e.args[0], cx)
            if xty == "str":
                return (f"(resolve_enclosing_class {x})", "optowner")
        if _is_name(f, "issubclass") and len(e.args) == 2 and _is_name(e.args[1], SER):
            x, xty = pure(e.args[0], cx)
            if xty == "obj":
                return (f"(issubclass_ser {x})", "bool")
    # a pure expression is also an effect-free computation
    t, ty = pure(e, cx)
    return (f"(Ok {t})", ty)


def _kwargs_passthrough(call: ast.Call) -> bool:
    return len(call.keywords) == 1 and call.keywords[0].arg is None and _is_name(call.keywords[0].value, "kwargs")


def ret(e: ast.AST, cx: Ctx, param: str) -> str:
    """`return <e>` -> outcome term"""
    fn = cx.fn
    if cx.flavour == "from_json":
        if _is_name(e, param):
            return "(Return FJ_ReturnData)"
        if (isinstance(e, ast.ListComp) and len(e.generators) == 1 and not e.generators[0].ifs
                and _is_name(e.generators[0].iter, param) and isinstance(e.generators[0].target, ast.Name)
                and isinstance(e.elt, ast.Call) and _is_name(e.elt.func, "from_json") and len(e.elt.args) == 1
                and _is_name(e.elt.args[0], e.generators[0].target.id) and not e.elt.keywords):
            return "(Return FJ_MapFromJson)"
        if isinstance(e, ast.Call) and len(e.args) == 1 and _is_name(e.args[0], param) and _kwargs_passthrough(e):
            f = e.func
            if isinstance(f, ast.Attribute) and f.attr == "_from_json":
                x, xty = pure(f.value, cx)
                if xty == "obj":
                    return f"(Return (FJ_CallClass {x}))"
            if isinstance(f, ast.Name):
                x, xty = pure(f, cx)
                if xty == "optdeser":
                    return f"(call_opt {x} FJ_CallDeser)"
    else:
        if _is_name(e, param):
            return "(Return TJ_ReturnObj)"
        if (isinstance(e, ast.ListComp) and len(e.generators) == 1 and not e.generators[0].ifs
                and _is_name(e.generators[0].iter, param) and isinstance(e.generators[0].target, ast.Name)
                and isinstance(e.elt, ast.Call) and _is_name(e.elt.func, "to_json") and len(e.elt.args) == 1
                and _is_name(e.elt.args[0], e.generators[0].target.id) and not e.elt.keywords):
            return "(Return TJ_MapToJson)"
        if isinstance(e, ast.Call) and not e.keywords:
            f = e.func
            if isinstance(f, ast.Attribute) and f.attr == "to_json" and _is_name(f.value, param) and not e.args:
                return "(Return TJ_CallMethod)"
            if isinstance(f, ast.Name) and len(e.args) == 1 and _is_name(e.args[0], param):
                x, xty = pure(f, cx)
                if xty == "optser":
                    return f"(call_opt {x} TJ_CallSer)"
    raise Refuse(e, f"return value {ast.unparse(e)!r} is not in the idiom table", fn)


def raise_(s: ast.Raise, cx: Ctx) -> str:
    exc = s.exc
    if isinstance(exc, ast.Call):
        exc = exc.func
    if not isinstance(exc, ast.Name):
        raise Refuse(s, "raise of something that is not a class name", cx.fn)
    if exc.id in cx.jerrs:
        return f"(RaiseJ {exc.id})"
    if exc.id in PYEXN:
        return f"(RaiseF {PYEXN[exc.id]})"
    raise Refuse(s, f"raise of unknown exception class {exc.id}", cx.fn)


def is_doc(s) -> bool:
    return isinstance(s, ast.Expr) and isinstance(s.value, ast.Constant) and isinstance(s.value.value, str)


def bind_pattern(targets, ty, s, cx: Ctx) -> Tuple[str, Ctx]:
    """assignment target(s) -> (gallina binder pattern, extended context)"""
    c2 = cx.child()
    if len(targets) != 1:
        raise Refuse(s, "chained assignment", cx.fn)
    t = targets[0]
    if isinstance(t, ast.Name):
        if ty == "str*str":
            raise Refuse(s, "pair assigned to one name", cx.fn)
        c2.names[t.id] = ("v_" + t.id, ty)
        return ("v_" + t.id, c2)
    if isinstance(t, ast.Tuple) and ty == "str*str" and len(t.elts) == 2 and all(isinstance(x, ast.Name) for x in t.elts):
        a, b = t.elts[0].id, t.elts[1].id
        c2.names[a] = ("v_" + a, "str")
        c2.names[b] = ("v_" + b, "str")
        return (f"'(v_{a}, v_{b})", c2)
    raise Refuse(s, "assignment target shape", cx.fn)


def block(stmts: List[ast.stmt], cx: Ctx, param: str, must_end: bool = True) -> str:
    """statement list -> outcome term; every path must end in return / raise"""
    fn = cx.fn
    stmts = [s for s in stmts if not is_doc(s) and not isinstance(s, ast.Pass)]
    if not stmts:
        raise Refuse(ast.Module(body=[], type_ignores=[]), "control reaches the end of the function without return/raise", fn)
    s, rest = stmts[0], stmts[1:]
    if isinstance(s, ast.Return):
        if s.value is None:
            raise Refuse(s, "bare return", fn)
        return ret(s.value, cx, param)
    if isinstance(s, ast.Raise):
        return raise_(s, cx)
    if isinstance(s, ast.If):
        if s.orelse:
            els = block(s.orelse + rest, cx, param)
        else:
            if not rest:
                raise Refuse(s, "if without else at the end of the function (falls off the end)", fn)
            els = block(rest, cx, param)
        # the `then` branch must itself end in return/raise, otherwise it would fall through to `rest`
        try:
            thn = block(s.body, cx, param)
        except Refuse as r:
            if "reaches the end" in r.why or "falls off" in r.why:
                raise Refuse(s, "branch that falls through to the following statements", fn)
            raise
        try:
            c, cty = pure(s.test, cx)
            if cty in TRUTHY:          # `if x:` on a non-boolean is bool(x)
                c, cty = f"({TRUTHY[cty]} {c})", "bool"
            if cty != "bool":
                raise Refuse(s, f"if-test of type {cty} (truthiness not in the idiom table)", fn)
            return f"(if {c}\n   then {thn}\n   else {els})"
        except Refuse:
            m, mty = effectful(s.test, cx)
            if mty != "bool":
                raise
            return f"(bindM {m} (fun b__ : bool => if b__\n   then {thn}\n   else {els}))"
    if isinstance(s, ast.Assign):
        m, ty = effectful(s.value, cx)
        pat, c2 = bind_pattern(s.targets, ty, s, cx)
        if not rest:
            raise Refuse(s, "assignment at the end of the function", fn)
        k = block(rest, c2, param)
        if m.startswith("(Ok "):
            return f"(let {pat} := {m[4:-1]} in\n   {k})"
        return f"(bindM {m} (fun {pat} =>\n   {k}))"
    if isinstance(s, ast.Try):
        if s.orelse or s.finalbody or len(s.handlers) != 1 or len(s.body) != 1 or not isinstance(s.body[0], ast.Assign):
            raise Refuse(s, "try statement shape (expected: one assignment, one handler, no else/finally)", fn)
        h = s.handlers[0]
        if not isinstance(h.type, ast.Name) or h.type.id not in PYEXN:
            raise Refuse(h, "handler exception class", fn)
        hb = [x for x in h.body if not is_doc(x)]
        if len(hb) == 2:
            return try_with_fallback(s, h, hb, rest, cx, param)
        if len(hb) != 1 or not isinstance(hb[0], ast.Raise):
            raise Refuse(h, "handler body is neither a single raise nor `x = <fallback>; if x is None: raise`", fn)
        if hb[0].exc is None:
            raise Refuse(h, "bare re-raise", fn)
        handler = raise_(hb[0], cx)
        a = s.body[0]
        m, ty = effectful(a.value, cx)
        pat, c2 = bind_pattern(a.targets, ty, a, cx)
        if not rest:
            raise Refuse(s, "try at the end of the function", fn)
        k = block(rest, c2, param)
        return f"(catchM {m} {PYEXN[h.type.id]} {handler} (fun {pat} =>\n   {k}))"
    raise Refuse(s, f"statement kind {type(s).__name__}", fn)


def try_with_fallback(s: ast.Try, h, hb, rest, cx: Ctx, param: str) -> str:
    """try: x = <m>  except C: x = <fallback returning Optional>; if x is None: raise E(...)      ; rest(x)
    Both assignments bind the same name; the module found by the try body and the owner found by the fallback are both
    owners of the attribute looked up next."""
    fn = cx.fn
    a = s.body[0]
    if len(a.targets) != 1 or not isinstance(a.targets[0], ast.Name):
        raise Refuse(s, "try body target", fn)
    name = a.targets[0].id
    a2, g = hb
    ok = (isinstance(a2, ast.Assign) and len(a2.targets) == 1 and _is_name(a2.targets[0], name)
          and isinstance(g, ast.If) and not g.orelse and isinstance(g.test, ast.Compare) and len(g.test.ops) == 1
          and isinstance(g.test.ops[0], ast.Is) and _is_name(g.test.left, name)
          and isinstance(g.test.comparators[0], ast.Constant) and g.test.comparators[0].value is None
          and len([x for x in g.body if not is_doc(x)]) == 1 and isinstance(g.body[0], ast.Raise) and g.body[0].exc is not None)
    if not ok:
        raise Refuse(h, f"handler is not `{name} = <fallback>; if {name} is None: raise ...`", fn)
    m, ty = effectful(a.value, cx)
    m2, ty2 = effectful(a2.value, cx)
    if ty != "module" or ty2 != "optowner":
        raise Refuse(s, f"try/fallback of types {ty} / {ty2} (expected module / optional owner)", fn)
    if not rest:
        raise Refuse(s, "try at the end of the function", fn)
    c2 = cx.child()
    c2.names[name] = ("v_" + name, "owner")
    k = block(rest, c2, param)
    handler = (f"(fun k__ => bindM {m2} (fun o__ => match o__ with Some x__ => k__ x__ | None => {raise_(g.body[0], cx)} end))")
    return f"(catchM_or (mapM OMod {m}) {PYEXN[h.type.id]}\n   {handler}\n   (fun v_{name} =>\n   {k}))"


def _params(f: ast.FunctionDef, skip_first: bool) -> List[str]:
    a = f.args
    if a.vararg or a.kwonlyargs or a.defaults or a.posonlyargs:
        raise Refuse(f, "parameter list shape", "?")
    ps = [x.arg for x in a.args]
    return ps[1:] if skip_first else ps


def translate(repo: str) -> str:
    path = Path(repo) / SRC
    fn = str(path)
    tree = ast.parse(path.read_text(), filename=fn)
    upath = Path(repo) / UTILS
    utree = ast.parse(upath.read_text(), filename=str(upath))

    # ---- module-level constants
    consts: Dict[str, Tuple[str, str]] = {}
    defs: List[str] = []
    top = {}
    for n in tree.body:
        if isinstance(n, ast.Assign) and len(n.targets) == 1 and isinstance(n.targets[0], ast.Name):
            top[n.targets[0].id] = n
    for cname in ("leaf_types", "list_like_classes"):
        if cname not in top or not isinstance(top[cname].value, ast.Tuple):
            raise Refuse(tree, f"module constant {cname} is not a tuple literal", fn)
        elts = []
        for x in top[cname].value.elts:
            if not isinstance(x, ast.Name) or x.id not in PYTYPES:
                raise Refuse(x, f"{cname} contains {ast.unparse(x)}, not a known builtin type", fn)
            elts.append(PYTYPES[x.id])
        defs.append(f"Definition {cname} : list pytype := [{'; '.join(elts)}].")
        consts[cname] = (cname, "pytypes")
    if "JSON_TYPE_NAME" not in top or not (isinstance(top["JSON_TYPE_NAME"].value, ast.Constant)
                                           and isinstance(top["JSON_TYPE_NAME"].value.value, str)):
        raise Refuse(tree, "JSON_TYPE_NAME is not a string literal", fn)
    key = top["JSON_TYPE_NAME"].value.value
    defs.append(f"Definition JSON_TYPE_NAME : str := {strlit(key)}.   (* {key!r} *)")
    consts["JSON_TYPE_NAME"] = ("JSON_TYPE_NAME", "str")

    # ---- the exception hierarchy
    classes = {c.name: c for c in tree.body if isinstance(c, ast.ClassDef)}
    if BASE_ERR not in classes:
        raise Refuse(tree, f"{BASE_ERR} not found", fn)
    bb = classes[BASE_ERR].bases
    if len(bb) != 1 or not _is_name(bb[0], "Exception"):
        raise Refuse(classes[BASE_ERR], f"{BASE_ERR} does not derive from Exception alone", fn)

    def derives(c, seen=()):
        if c == BASE_ERR:
            return True
        if c not in classes or c in seen:
            return False
        return any(isinstance(b, ast.Name) and derives(b.id, seen + (c,)) for b in classes[c].bases)

    jerrs = [c for c in classes if c != BASE_ERR and derives(c)]
    if not jerrs:
        raise Refuse(tree, "no JSONSerializationError subclasses", fn)
    # the model takes `raise E(...)` as "E reaches the caller": the error classes must be ordinary exceptions -- plain classes or
    # plain @dataclass (a frozen dataclass rejects the attribute assignments that library code makes on a propagating exception)
    for c in [BASE_ERR] + jerrs:
        decos = [ast.unparse(x) for x in classes[c].decorator_list]
        if decos not in ([], ["dataclass"]):
            raise Refuse(classes[c], f"error class {c} is decorated {decos} (only a plain @dataclass is modelled)", fn)
        if classes[c].keywords:
            raise Refuse(classes[c], f"error class {c} has class keywords / a metaclass", fn)
    nxt = max(JERR_CODES.values()) + 1
    codes = {}
    for c in jerrs:
        if c in JERR_CODES:
            codes[c] = JERR_CODES[c]
        else:
            codes[c] = nxt
            nxt += 1

    out = [f"(* GENERATED by /verif/translator/t_json.py from {SRC} and {UTILS} -- do not edit; regenerated on every run *)",
           "From Coq Require Import ZArith Bool List.", "From Krrood Require Import Json.JsonVal.",
           "Import ListNotations.", "Open Scope Z_scope.", ""]
    out.append("(* the subclasses of JSONSerializationError, in source order *)")
    out.append("Inductive jerr : Type := " + " | ".join(jerrs) + ".")
    out.append("Definition jerr_code (e : jerr) : Z :=\n  match e with\n" + "".join(f"  | {c} => {codes[c]}\n" for c in jerrs) + "  end.")
    out.append("")
    out += defs
    out.append("")
    out.append("Inductive fj_action (obj deser : Type) : Type :=\n| FJ_ReturnData | FJ_MapFromJson | FJ_CallClass (c : obj) | FJ_CallDeser (f : deser).")
    out.append("Arguments FJ_ReturnData {obj deser}.\nArguments FJ_MapFromJson {obj deser}.\nArguments FJ_CallClass {obj deser} c.\nArguments FJ_CallDeser {obj deser} f.")
    out.append("Inductive tj_action (ser : Type) : Type :=\n| TJ_ReturnObj | TJ_MapToJson | TJ_CallMethod | TJ_CallSer (f : ser).")
    out.append("Arguments TJ_ReturnObj {ser}.\nArguments TJ_MapToJson {ser}.\nArguments TJ_CallMethod {ser}.\nArguments TJ_CallSer {ser} f.")
    out.append("")

    # ---- SubclassJSONSerializer
    if SER not in classes:
        raise Refuse(tree, f"class {SER} not found", fn)
    ser = classes[SER]
    if ser.bases or ser.keywords:
        raise Refuse(ser, f"{SER} has base classes / a metaclass", fn)
    meths = {m.name: m for m in ser.body if isinstance(m, ast.FunctionDef)}
    for need in ("to_json", "_from_json", "from_json"):
        if need not in meths:
            raise Refuse(ser, f"method {need} missing", fn)
    if HELPER in meths:
        hm = meths[HELPER]
        if [ast.unparse(d) for d in hm.decorator_list] != ["staticmethod"] or [x.arg for x in hm.args.args] != ["qualified_name"]:
            raise Refuse(hm, f"{HELPER} is not a staticmethod of one parameter `qualified_name`", fn)
    extra = sorted(set(meths) - {"to_json", "_from_json", "from_json", HELPER})
    if extra:
        raise Refuse(ser, f"{SER} defines further methods {extra} (e.g. __init_subclass__ hooks are not modelled)", fn)

    def decorators(m):
        return [ast.unparse(d) for d in m.decorator_list]

    # from_json
    fj = meths["from_json"]
    if decorators(fj) != ["classmethod"]:
        raise Refuse(fj, "from_json is not a plain classmethod", fn)
    if fj.args.vararg or fj.args.kwonlyargs or fj.args.defaults or fj.args.kwarg is None or fj.args.kwarg.arg != "kwargs":
        raise Refuse(fj, "from_json parameter list", fn)
    ps = [a.arg for a in fj.args.args]
    if len(ps) != 2:
        raise Refuse(fj, "from_json parameter list", fn)
    data = ps[1]
    cx = Ctx(fn, consts, jerrs, "from_json")
    cx.names[data] = (data, "jv")
    body = block(fj.body, cx, data)
    out.append("Section FromJson.")
    out.append("  Variables (pymodule pyclass pydeser : Type).")
    out.append("  Variable import_module : str -> M pymodule.          (* importlib.import_module *)")
    out.append("  Variable resolve_enclosing_class : str -> M (option (owner pymodule pyclass)).   (* cls._resolve_enclosing_class: hand model [enclosing] in Json/Resolve.v, source-pinned *)")
    out.append("  Variable getattr_ : owner pymodule pyclass -> str -> M pyclass.        (* getattr(owner, name), owner a module or a class *)")
    out.append("  Variable is_type : pyclass -> bool.                    (* isinstance(x, type) *)")
    out.append("  Variable issubclass_ser : pyclass -> M bool.           (* issubclass(x, SubclassJSONSerializer) *)")
    out.append("  Variable get_deserializer : pyclass -> option pydeser.   (* JSONSerializableTypeRegistry().get_deserializer *)")
    out.append(f"  (* {SER}.from_json, {SRC}:{fj.lineno} *)")
    out.append(f"  Definition from_json_chain ({data} : jv) : outcome jerr (fj_action pyclass pydeser) :=\n  {body}.")
    out.append("End FromJson.")
    out.append("")

    # module-level from_json must delegate unchanged
    funcs = {f.name: f for f in tree.body if isinstance(f, ast.FunctionDef)}
    for need in ("from_json", "to_json", "serialize_uuid", "deserialize_uuid"):
        if need not in funcs:
            raise Refuse(tree, f"function {need} missing", fn)
    mf = [s for s in funcs["from_json"].body if not is_doc(s)]
    ok = (len(mf) == 1 and isinstance(mf[0], ast.Return) and isinstance(mf[0].value, ast.Call)
          and ast.unparse(mf[0].value) == f"{SER}.from_json({funcs['from_json'].args.args[0].arg}, **kwargs)")
    if not ok:
        raise Refuse(funcs["from_json"], f"module-level from_json is not `return {SER}.from_json(data, **kwargs)`", fn)

    # to_json
    tj = funcs["to_json"]
    tps = _params(tj, False)
    if len(tps) != 1 or tj.args.kwarg:
        raise Refuse(tj, "to_json parameter list", fn)
    cx = Ctx(fn, consts, jerrs, "to_json")
    cx.names[tps[0]] = (tps[0], "pyobj")
    tbody = block(tj.body, cx, tps[0])
    out.append("Section ToJson.")
    out.append("  Variables (pyobj pyser : Type).")
    out.append("  Variable obj_isinstance : pyobj -> list pytype -> bool.   (* isinstance(obj, <tuple of builtins>) *)")
    out.append("  Variable obj_is_ser : pyobj -> bool.                      (* isinstance(obj, SubclassJSONSerializer) *)")
    out.append("  Variable obj_serializer : pyobj -> option pyser.            (* registry.get_serializer(type(obj)) *)")
    out.append(f"  (* to_json, {SRC}:{tj.lineno} *)")
    out.append(f"  Definition to_json_dispatch ({tps[0]} : pyobj) : outcome jerr (tj_action pyser) :=\n  {tbody}.")
    out.append("End ToJson.")
    out.append("")

    # base _from_json: a single raise
    bf = meths["_from_json"]
    if decorators(bf) != ["classmethod"]:
        raise Refuse(bf, "_from_json is not a plain classmethod", fn)
    bfb = [s for s in bf.body if not is_doc(s)]
    if len(bfb) != 1 or not isinstance(bfb[0], ast.Raise):
        raise Refuse(bf, "base _from_json is not a single raise", fn)
    cx = Ctx(fn, consts, jerrs, "from_json")
    out.append(f"(* {SER}._from_json (what a subclass that does not override it inherits), {SRC}:{bf.lineno} *)")
    out.append(f"Definition base_from_json_body : outcome jerr unit := {raise_(bfb[0], cx)}.")
    out.append("")

    # utils.get_full_class_name
    ufuncs = {f.name: f for f in utree.body if isinstance(f, ast.FunctionDef)}
    if "get_full_class_name" not in ufuncs:
        raise Refuse(utree, "get_full_class_name missing", str(upath))
    g = ufuncs["get_full_class_name"]
    gps = _params(g, False)
    gb = [s for s in g.body if not is_doc(s)]
    if len(gps) != 1 or len(gb) != 1 or not isinstance(gb[0], ast.Return):
        raise Refuse(g, "get_full_class_name shape", str(upath))

    def strexpr(e) -> str:
        if isinstance(e, ast.BinOp) and isinstance(e.op, ast.Add):
            return f"({strexpr(e.left)} ++ {strexpr(e.right)})"
        if isinstance(e, ast.Constant) and isinstance(e.value, str):
            return strlit(e.value)
        if isinstance(e, ast.Attribute) and _is_name(e.value, gps[0]) and e.attr in ("__module__", "__name__", "__qualname__"):
            return {"__module__": "cls_module", "__name__": "cls_name", "__qualname__": "cls_qualname"}[e.attr]
        raise Refuse(e, f"string expression {ast.unparse(e)!r}", str(upath))

    out.append(f"(* utils.get_full_class_name, {UTILS}:{g.lineno}; cls_name = cls.__name__, cls_qualname = cls.__qualname__ *)")
    out.append(f"Definition get_full_class_name (cls_module cls_name cls_qualname : str) : str :=\n  {strexpr(gb[0].value)}.")
    out.append("")

    # base to_json: guards `if "<lit>" in self.__class__.__qualname__: raise E(...)`, then the header dict
    bt = meths["to_json"]
    btb = [s for s in bt.body if not is_doc(s)]
    if bt.decorator_list or not btb or not isinstance(btb[-1], ast.Return) or \
            ast.unparse(btb[-1].value) != "{JSON_TYPE_NAME: get_full_class_name(self.__class__)}":
        raise Refuse(bt, "base to_json does not end in `return {JSON_TYPE_NAME: get_full_class_name(self.__class__)}`", fn)
    cxb = Ctx(fn, consts, jerrs, "to_json")
    term = "Return [(JSON_TYPE_NAME, JStr (get_full_class_name cls_module cls_name cls_qualname))]"
    for gst in reversed(btb[:-1]):
        t = gst.test if isinstance(gst, ast.If) else None
        okg = (isinstance(gst, ast.If) and not gst.orelse and isinstance(t, ast.Compare) and len(t.ops) == 1
               and isinstance(t.ops[0], ast.In) and isinstance(t.left, ast.Constant) and isinstance(t.left.value, str)
               and ast.unparse(t.comparators[0]) in ("self.__class__.__qualname__", "self.__class__.__name__")
               and len([x for x in gst.body if not is_doc(x)]) == 1 and isinstance(gst.body[0], ast.Raise))
        if not okg:
            raise Refuse(gst, "base to_json statement is not `if \"<literal>\" in self.__class__.__qualname__: raise ...`", fn)
        subject = "cls_qualname" if ast.unparse(t.comparators[0]).endswith("__qualname__") else "cls_name"
        term = f"if str_contains {subject} {strlit(t.left.value)} (* {t.left.value!r} *)\n  then {raise_(gst.body[0], cxb)}\n  else {term}"
    out.append(f"(* {SER}.to_json, {SRC}:{bt.lineno}: the dict a subclass extends via super().to_json(), or the refusal *)")
    out.append("Definition base_to_json (cls_module cls_name cls_qualname : str) : outcome jerr (list (str * jv)) :=\n  " + term + ".")
    out.append("")

    # UUID (de)serialiser
    su = funcs["serialize_uuid"]
    sub = [s for s in su.body if not is_doc(s)]
    sp = _params(su, False)
    if len(sp) != 1 or len(sub) != 1 or not isinstance(sub[0], ast.Return) or not isinstance(sub[0].value, ast.Dict):
        raise Refuse(su, "serialize_uuid shape", fn)
    d = sub[0].value
    fields = []
    for k, v in zip(d.keys, d.values):
        if _is_name(k, "JSON_TYPE_NAME"):
            kt = "JSON_TYPE_NAME"
        elif isinstance(k, ast.Constant) and isinstance(k.value, str):
            kt = strlit(k.value)
        else:
            raise Refuse(su, "serialize_uuid key", fn)
        vs = ast.unparse(v)
        if vs == f"get_full_class_name(type({sp[0]}))":
            vt = "JStr (get_full_class_name cls_module cls_name cls_qualname)"
        elif vs == f"str({sp[0]})":
            vt = "JStr str_of_obj"
        else:
            raise Refuse(su, f"serialize_uuid value {vs}", fn)
        fields.append(f"({kt}, {vt})")
    out.append(f"(* serialize_uuid, {SRC}:{su.lineno}; str_of_obj = str(obj) *)")
    out.append("Definition serialize_uuid_fields (cls_module cls_name cls_qualname str_of_obj : str) : list (str * jv) :=\n  ["
               + "; ".join(fields) + "].")
    du = funcs["deserialize_uuid"]
    dub = [s for s in du.body if not is_doc(s)]
    dp = _params(du, False)
    okd = len(dp) == 1 and len(dub) == 1 and isinstance(dub[0], ast.Return) and isinstance(dub[0].value, ast.Call) \
        and ast.unparse(dub[0].value.func) == "uuid.UUID" and len(dub[0].value.args) == 1 and not dub[0].value.keywords \
        and isinstance(dub[0].value.args[0], ast.Subscript) and _is_name(dub[0].value.args[0].value, dp[0]) \
        and isinstance(dub[0].value.args[0].slice, ast.Constant) and isinstance(dub[0].value.args[0].slice.value, str)
    if not okd:
        raise Refuse(du, "deserialize_uuid is not `return uuid.UUID(data[<key>])`", fn)
    out.append(f"(* deserialize_uuid, {SRC}:{du.lineno}: uuid.UUID(data[key]) *)")
    out.append(f"Definition deserialize_uuid_key : str := {strlit(dub[0].value.args[0].slice.value)}.")
    out.append("")

    # registration of UUID at import time; registry methods are plain dict operations
    regs = [ast.unparse(s.value) for s in tree.body if isinstance(s, ast.Expr) and isinstance(s.value, ast.Call)
            and _is_registry_call(s.value, "register")]
    if "JSONSerializableTypeRegistry().register(uuid.UUID, serialize_uuid, deserialize_uuid)" not in regs:
        raise Refuse(tree, "uuid.UUID is not registered with (serialize_uuid, deserialize_uuid) at import", fn)
    out.append(f"Definition registered_at_import : list str := [{'; '.join(strlit(r.split('(', 2)[2].split(',')[0]) for r in regs)}].")
    if REG not in classes:
        raise Refuse(tree, f"{REG} missing", fn)
    rm = {m.name: m for m in classes[REG].body if isinstance(m, ast.FunctionDef)}
    want = {
        "register": ["self._serializers[type_class] = serializer", "self._deserializers[type_class] = deserializer"],
        "get_serializer": ["return self._serializers.get(type_class)"],
        "get_deserializer": ["return self._deserializers.get(type_class)"],
    }
    for name, lines in want.items():
        if name not in rm:
            raise Refuse(classes[REG], f"registry method {name} missing", fn)
        got = [ast.unparse(s) for s in rm[name].body if not is_doc(s)]
        if got != lines:
            raise Refuse(rm[name], f"registry method {name} is not the plain dict operation {lines}: {got}", fn)
    out.append("(* registry: register / get_serializer / get_deserializer checked to be dict store / dict.get keyed by the exact class *)")
    return "\n".join(out) + "\n"


if __name__ == "__main__":
    print(translate(sys.argv[1] if len(sys.argv) > 1 else "/repo"))
